#!/bin/sh
# Builds the framework from files on disk only (offline). Idempotent.
set -e
cd "$(dirname "$0")"
export GOFLAGS=-mod=mod GOPROXY=off
unset GOSUMDB
mkdir -p .build evidence replays
[ -f harness/go.sum ] || cp /repo/go.sum harness/go.sum
# warm the Go build cache: plz binary with hooks and every check's test binary
(cd /repo && GOFLAGS= go build -tags verif -o /verif/.build/plz ./src)
cd harness
for d in c[0-9][0-9]*; do
  [ -d "$d" ] && go test -c -tags verif -o ../.build/$d.test ./$d >/dev/null
done
echo setup done
