// C01: incremental builds produce exactly what a clean build produces.
package c01

import (
	"fmt"
	"strings"
	"testing"

	"pgregory.net/rapid"

	"verifharness/lib"
)

func TestMain(m *testing.M) { lib.Main(m) }

var spec = lib.Spec{
	ID: "C01",
	Rule: "rapid-generated repository models (1-3 packages incl. a nested one, 3-8 targets: genrules with pure commands cat/strip/count/multi/dirk/dirn " +
		"(file, multi-file and directory outputs incl. symlinks and content-derived file names), filegroups over files and generated outputs/dirs, text_files, globs) " +
		"followed through 2-6 edits (file content/comment-only/same-bytes edits, add/remove/rename file, swap contents of two files, change command, salt, rename output, add/remove src, add/remove target); " +
		"after every state `plz build <request>` runs in the working copy and is compared with a clean build of the same source tree in a fresh directory " +
		"(exit status + names/kinds/bytes/link targets/exec bits of every requested target's declared outputs) and with the Go model's own evaluation. " +
		"Non-trivial = some edit changed the expected output tree of a requested target AND the following incremental build skipped (Unchanged) at least one target; distinct = JSON of the history",
	Assumptions: []string{
		"the clean build (fresh directory, empty plz-out, cache disabled, own HOME) is the reference",
		"only declared outputs of requested targets are compared; metadata files, xattrs, mtimes and outputs of no longer existing targets are ignored",
		"generated commands are deterministic and hermetic (they read only $SRCS)",
	},
}

type Case struct {
	H lib.History
	// CleanAt[i]: run the reference clean build after step i even if the incremental outputs already
	// equal the model's prediction (it always runs at the last step and whenever they differ).
	CleanAt []bool
}

func gen(t *rapid.T) Case {
	c := Case{H: lib.GenHistory(t, lib.RepoGenOpts{SubOuts: true, Tools: true, OptOuts: true}, 2, 6)}
	for range c.H.States {
		c.CleanAt = append(c.CleanAt, rapid.IntRange(0, 2).Draw(t, "clean") == 0)
	}
	return c
}

func run(c Case, o *lib.Obs) error {
	e := lib.NewE2E("c01-")
	defer e.Close()
	h := c.H
	o.Sample(h.Summary())
	changedRequested := false
	skippedAfterChange := false
	var prevExpected map[string]string
	for i, st := range h.States {
		st = st.Clone()
		st.Config = lib.NoCacheConfig
		if err := st.Sync(e.W, nil); err != nil {
			return &lib.Inconclusive{Msg: "sync: " + err.Error()}
		}
		req := h.Requests[i]
		outs, okm := st.Eval()
		resW := e.PlzW().Run(lib.BuildTimeout, append([]string{"build"}, req...)...)
		if resW.TimedOut {
			return &lib.Inconclusive{Msg: "plz timed out"}
		}
		_ = okm
		snapW := st.SnapshotOutputs(e.W, req, outs)
		exp := st.ExpectedOutputs(req, outs)
		step := fmt.Sprintf("step %d (%s), request %v", i, h.Descs[i], req)
		agreesWithModel := resW.Exit == 0 && lib.DiffEntries(exp, snapW, lib.DiffOpts{IgnoreExec: true}) == ""
		if agreesWithModel && i != len(h.States)-1 && !(i < len(c.CleanAt) && c.CleanAt[i]) {
			// incremental result equals the independent model's prediction; the (expensive) clean
			// build is skipped for this step – it is run on a drawn third of the steps, always at the
			// last step, and whenever model and incremental build disagree.
			o.Label("step_checked_against_model_only")
		} else {
			f, resF, err := e.CleanBuild(st, req)
			if err != nil {
				return &lib.Inconclusive{Msg: "clean sync: " + err.Error()}
			}
			if resF.TimedOut {
				e.RemoveClean(f)
				return &lib.Inconclusive{Msg: "plz timed out"}
			}
			snapF := st.SnapshotOutputs(f, req, outs)
			e.RemoveClean(f)
			o.Label("step_checked_against_clean_build")
			if resF.Exit != 0 {
				// the generator only produces buildable repositories; a failing clean build is a harness problem
				return &lib.Inconclusive{Msg: "clean build failed at " + step + ": " + resF.Brief()}
			}
			if d := lib.DiffEntries(exp, snapF, lib.DiffOpts{IgnoreExec: true}); d != "" {
				return &lib.Inconclusive{Msg: "model disagrees with the CLEAN build at " + step + ":\n" + d}
			}
			if resW.Exit != resF.Exit {
				return lib.Failf("exit-differs", "%s: incremental exit %d, clean exit %d\n%s", step, resW.Exit, resF.Exit, resW.Brief())
			}
			if d := lib.DiffEntries(snapF, snapW, lib.DiffOpts{}); d != "" {
				return lib.Failf("outputs-differ", "%s: incremental build differs from clean build (first=clean, second=incremental):\n%s\nhistory: %v", step, d, h.Descs[:i+1])
			}
		}
		// non-triviality bookkeeping
		cur := map[string]string{}
		for _, en := range exp {
			l := en.Path[:strings.Index(en.Path, "|")]
			cur[l] += en.String() + "\n"
		}
		if i > 0 {
			changed := false
			for l, v := range cur {
				if pv, ok := prevExpected[l]; ok && pv != v {
					changed = true
				}
			}
			skipped := false
			for _, ds := range resW.Terminal("Build") {
				for _, d := range ds {
					if strings.Contains(d, "Unchanged") || strings.Contains(d, "Reused") {
						skipped = true
					}
				}
			}
			if changed {
				changedRequested = true
				o.Label("step_changes_requested_output")
				if skipped {
					skippedAfterChange = true
				}
			}
			o.LabelIf(skipped, "step_with_skipped_target")
			o.Label("op:" + strings.Fields(h.Descs[i])[0])
		}
		prevExpected = cur
	}
	hasDir := false
	for _, t := range h.States[0].Targets {
		if t.Cmd == "dirk" || t.Cmd == "dirn" {
			hasDir = true
		}
	}
	o.LabelIf(hasDir, "has_directory_output")
	o.NonTrivial(changedRequested && skippedAfterChange)
	return nil
}

func TestC01(t *testing.T) {
	lib.Check(t, spec, lib.Scale(24, 480), gen, run)
}
