// C37: command location expansions name the files the command can use.
//
// A case is a small repository: dependency targets (one / several outputs, outputs in sub-directories,
// binaries, entry points) living in packages whose names - like the output names - contain the shell
// metacharacters that labels and paths permit, and consumer genrules that reach them as srcs, deps or
// tools and use $(location) $(locations) $(out_location) $(out_locations) $(dir) $(out_dir) $(exe)
// $(out_exe) in their commands. The command itself counts the shell words every expansion produced,
// records each word (hex) and whether the path exists (relative to the build directory, or to the
// repository root for the out_ forms) and writes that to its output; the harness compares it with the
// locations the model expects. Negative consumers use a sequence on a non-dependency, on an undefined
// target, $(location) on a rule with several outputs or $(exe) on a non-binary: they must fail without
// their command ever starting, while the other consumers of the same invocation still build.
package c37

import (
	"encoding/hex"
	"fmt"
	"os"
	"path/filepath"
	"sort"
	"strconv"
	"strings"
	"testing"

	"pgregory.net/rapid"

	"verifharness/lib"
)

func TestMain(m *testing.M) { lib.Main(m) }

const knownClass = "unquoted-metacharacter"

var spec = lib.Spec{
	ID: "C37",
	Rule: "repository of 2-4 dependency genrules (1-3 outputs, some in sub-directories; binaries; entry points; packages incl. the root package and nested packages) whose package and output names mix letters with one of the characters ; < > | & ( ) , = + @ % ^ # ~ ! and - unless excluded as a known finding - space ' \" ` $ * ? [ {, plus 2-4 consumer genrules that depend on them as srcs / deps / tools (whole label, :local form) and use 1-4 of the eight sequences each. " +
		"Oracle: every consumer without a faulty sequence builds, and for every sequence the number of shell words equals the number of expected paths, every word equals the model's expected location (package/output in the build directory, absolute plz-out path for tools, plz-out/{gen,bin}/... for out_ forms, package directory for dir forms) and exists when the command runs ($(exe): is executable; $(dir): every output exists below it); " +
		"consumers with a faulty sequence (label that is not a dependency, undefined target, single-output sequence on a rule with several outputs, $(exe) on a non-binary) fail, their command never starts (action log), and plz exits non-zero. " +
		"Non-trivial = some expected path contains a character outside [A-Za-z0-9_./-] or a used dependency has >= 2 outputs; distinct = JSON of the case",
	Assumptions: []string{
		"only the documented label forms of the sequences are used (docs/build_rules.html); file-name arguments are not",
		"the out_ forms are checked relative to the repository root, where their documentation places them (plz-out/{gen|bin})",
		"backslash, newline and ')' are never part of a generated name",
	},
}

// ---- model ------------------------------------------------------------------------------------

type EP struct{ Name, Out string }

type Dep struct {
	Pkg    string
	Name   string
	Outs   []string
	Binary bool `json:",omitempty"`
	EPs    []EP `json:",omitempty"`
}

func (d Dep) label() string { return "//" + d.Pkg + ":" + d.Name }

func (d Dep) sortedOuts() []string {
	o := append([]string{}, d.Outs...)
	sort.Strings(o)
	return o
}

type Ref struct {
	Dep int
	How string // src | dep | tool
}

type Use struct {
	Seq   string // location locations out_location out_locations dir out_dir exe out_exe
	Dep   int
	EP    string `json:",omitempty"`
	Local bool   `json:",omitempty"` // write the label as :name (same package only)
}

type Consumer struct {
	Pkg  string
	Name string
	Refs []Ref
	Uses []Use
	// Neg, if set, is the faulty sequence appended to the command (the consumer must then fail).
	Neg *Neg `json:",omitempty"`
}

type Neg struct {
	Kind  string // not-a-dependency | undefined-target | several-outputs | exe-nonbinary
	Seq   string
	Label string
}

type Case struct {
	Deps []Dep
	Cons []Consumer
}

func sq(s string) string { return "'" + strings.ReplaceAll(s, "'", `'\''`) + "'" }

func pyList(ss []string) string {
	q := make([]string, len(ss))
	for i, s := range ss {
		q[i] = lib.PyQuote(s)
	}
	return "[" + strings.Join(q, ", ") + "]"
}

func pkgJoin(pkg, out string) string {
	if pkg == "" {
		return out
	}
	return pkg + "/" + out
}

func (d Dep) outRoot() string {
	if d.Binary {
		return "plz-out/bin"
	}
	return "plz-out/gen"
}

// expected returns the expected words of a sequence and the base against which they exist
// ("." = build directory, "R" = repository root).
func expected(root string, d Dep, u Use, how string) (words []string, base string, dirMode bool) {
	outs := d.sortedOuts()
	if u.EP != "" {
		for _, ep := range d.EPs {
			if ep.Name == u.EP {
				outs = []string{ep.Out}
			}
		}
	}
	outPrefix := strings.HasPrefix(u.Seq, "out_")
	dir := u.Seq == "dir" || u.Seq == "out_dir"
	base = "."
	if outPrefix {
		base = "R"
	}
	if dir {
		switch {
		case how == "tool":
			return []string{filepath.Join(root, d.outRoot(), d.Pkg)}, base, true
		case outPrefix:
			return []string{filepath.Join(d.outRoot(), d.Pkg)}, base, true
		}
		if d.Pkg == "" {
			return []string{"."}, base, true // the root package's directory is the build directory itself
		}
		return []string{d.Pkg}, base, true
	}
	for _, o := range outs {
		switch {
		case how == "tool":
			words = append(words, filepath.Join(root, d.outRoot(), d.Pkg, o))
		case outPrefix:
			words = append(words, filepath.Join(d.outRoot(), d.Pkg, o))
		default:
			words = append(words, pkgJoin(d.Pkg, o))
		}
	}
	return words, base, false
}

// ---- rendering -----------------------------------------------------------------------------------

const shLib = `L(){ printf '%s %s\n' "$1" "$2" >> "${TMP_DIR%%/plz-out/tmp/*}/actions.log"; }; ` +
	`R="${TMP_DIR%%/plz-out/tmp/*}"; ` +
	`h(){ printf '%s' "$1" | od -An -v -tx1 | tr -d ' \n'; }; ` +
	`u(){ i=$1; b=$2; shift 2; printf 'U %s %s' "$i" "$#"; for w in "$@"; do case "$w" in /*) p="$w";; *) p="$b/$w";; esac; ` +
	`if [ -e "$p" ]; then f=e; else f=m; fi; if [ -d "$p" ]; then f="${f}d"; fi; if [ -x "$p" ]; then f="${f}x"; fi; printf ' %s:%s' "$(h "$w")" "$f"; done; printf '\n'; }; ` +
	`x(){ i=$1; j=$2; b=$3; o=$4; shift 4; if [ $# -eq 1 ]; then case "$1" in /*) p="$1";; *) p="$b/$1";; esac; ` +
	`if [ -e "$p/$o" ]; then printf 'X %s %s e\n' "$i" "$j"; else printf 'X %s %s m\n' "$i" "$j"; fi; fi; }; `

func depCmd(d Dep) string {
	var b strings.Builder
	b.WriteString(`L(){ printf '%s %s\n' "$1" "$2" >> "${TMP_DIR%%/plz-out/tmp/*}/actions.log"; }; L S ` + sq(d.label()) + "; ")
	for _, o := range d.Outs {
		if dir := filepath.Dir(o); dir != "." {
			b.WriteString("mkdir -p " + sq(dir) + "; ")
		}
		fmt.Fprintf(&b, "printf '%%s' %s > %s; ", sq("content of "+d.label()+" "+o), sq(o))
		if d.Binary {
			b.WriteString("chmod +x " + sq(o) + "; ")
		}
	}
	b.WriteString("L E " + sq(d.label()))
	return b.String()
}

func (c Case) useLabel(con Consumer, u Use) string {
	d := c.Deps[u.Dep]
	l := d.label()
	if u.Local && d.Pkg == con.Pkg {
		l = ":" + d.Name
	}
	if u.EP != "" {
		l += "|" + u.EP
	}
	return l
}

func (c Case) conCmd(con Consumer) string {
	var b strings.Builder
	b.WriteString(shLib)
	b.WriteString("L S " + sq(con.Name) + "; { ")
	for i, u := range con.Uses {
		d := c.Deps[u.Dep]
		base := "."
		if strings.HasPrefix(u.Seq, "out_") {
			base = `"$R"`
		}
		seq := "$(" + u.Seq + " " + c.useLabel(con, u) + ")"
		fmt.Fprintf(&b, "u %d %s %s; ", i, base, seq)
		if u.Seq == "dir" || u.Seq == "out_dir" {
			for j, o := range d.sortedOuts() {
				fmt.Fprintf(&b, "x %d %d %s %s %s; ", i, j, base, sq(o), seq)
			}
		}
	}
	if con.Neg != nil {
		fmt.Fprintf(&b, "u 99 . $(%s %s); ", con.Neg.Seq, con.Neg.Label)
	}
	b.WriteString(`} > "$OUT"; L E ` + sq(con.Name))
	return b.String()
}

func (c Case) how(con Consumer, dep int) string {
	for _, r := range con.Refs {
		if r.Dep == dep {
			return r.How
		}
	}
	return ""
}

func (c Case) renderBuilds() map[string]string {
	pk := map[string]*strings.Builder{}
	get := func(p string) *strings.Builder {
		if pk[p] == nil {
			pk[p] = &strings.Builder{}
		}
		return pk[p]
	}
	for _, d := range c.Deps {
		b := get(d.Pkg)
		extra := ""
		if d.Binary {
			extra += ", binary=True"
		}
		if len(d.EPs) > 0 {
			var kv []string
			for _, ep := range d.EPs {
				kv = append(kv, lib.PyQuote(ep.Name)+": "+lib.PyQuote(ep.Out))
			}
			extra += ", entry_points={" + strings.Join(kv, ", ") + "}"
		}
		fmt.Fprintf(b, "genrule(name=%s, outs=%s, cmd=%s, visibility=[\"PUBLIC\"]%s)\n", lib.PyQuote(d.Name), pyList(d.Outs), lib.PyQuote(depCmd(d)), extra)
	}
	for _, con := range c.Cons {
		b := get(con.Pkg)
		var srcs, deps, tools []string
		for _, r := range con.Refs {
			l := c.Deps[r.Dep].label()
			switch r.How {
			case "src":
				srcs = append(srcs, l)
			case "dep":
				deps = append(deps, l)
			case "tool":
				tools = append(tools, l)
			}
		}
		fmt.Fprintf(b, "genrule(name=%s, srcs=%s, deps=%s, tools=%s, outs=[%s], cmd=%s)\n", lib.PyQuote(con.Name), pyList(srcs), pyList(deps), pyList(tools),
			lib.PyQuote(con.Name+".out"), lib.PyQuote(c.conCmd(con)))
	}
	out := map[string]string{}
	for p, b := range pk {
		out[p] = b.String()
	}
	return out
}

// ---- the known finding -------------------------------------------------------------------------------

// needsQuotingPlzLacks reports whether an expanded path contains something quote() in
// src/core/command_replacements.go does not protect from the shell.
func needsQuotingPlzLacks(w string) bool {
	if w == "" {
		return false
	}
	return strings.ContainsAny(w, " \t'\"`$*?[{\\") || w[0] == '#' || w[0] == '~'
}

const unquotedChars = " '\"`$*?[{"

// ---- running ---------------------------------------------------------------------------------------

type useResult struct {
	argc  int
	words []string
	flags []string
	x     map[int]string
}

func parseOut(b string) (map[int]*useResult, error) {
	res := map[int]*useResult{}
	for _, line := range strings.Split(strings.TrimSpace(b), "\n") {
		f := strings.Fields(line)
		if len(f) < 3 {
			continue
		}
		i, _ := strconv.Atoi(f[1])
		switch f[0] {
		case "U":
			r := &useResult{x: map[int]string{}}
			r.argc, _ = strconv.Atoi(f[2])
			for _, wf := range f[3:] {
				hx, fl, _ := strings.Cut(wf, ":")
				w, err := hex.DecodeString(hx)
				if err != nil {
					return nil, fmt.Errorf("bad word %q", wf)
				}
				r.words = append(r.words, string(w))
				r.flags = append(r.flags, fl)
			}
			if old := res[i]; old != nil {
				r.x = old.x
			}
			res[i] = r
		case "X":
			if res[i] == nil {
				res[i] = &useResult{x: map[int]string{}}
			}
			j, _ := strconv.Atoi(f[2])
			if len(f) > 3 {
				res[i].x[j] = f[3]
			}
		}
	}
	return res, nil
}

func run(c Case, o *lib.Obs) error {
	if len(c.Deps) == 0 || len(c.Cons) == 0 {
		return nil
	}
	e := lib.NewE2E("c37-")
	defer e.Close()
	root := e.W
	if r, err := filepath.EvalSymlinks(root); err == nil {
		root = r
	}
	os.WriteFile(filepath.Join(e.W, ".plzconfig"), []byte(lib.BaseConfig+"[build]\npath = /usr/local/bin:/usr/bin:/bin\n"+lib.NoCacheConfig), 0o644)
	for p, txt := range c.renderBuilds() {
		dir := filepath.Join(e.W, p)
		if err := os.MkdirAll(dir, 0o755); err != nil {
			return &lib.Inconclusive{Msg: err.Error()}
		}
		if err := os.WriteFile(filepath.Join(dir, "BUILD"), []byte(txt), 0o644); err != nil {
			return &lib.Inconclusive{Msg: err.Error()}
		}
	}
	args := []string{"build", "--keep_going"}
	anyNeg := false
	for _, con := range c.Cons {
		args = append(args, "//"+con.Pkg+":"+con.Name)
		if con.Neg != nil {
			anyNeg = true
		}
	}
	res := e.PlzW().Run(lib.BuildTimeout, args...)
	if res.TimedOut {
		return &lib.Inconclusive{Msg: "plz timed out"}
	}
	if strings.Contains(res.Stderr, "panic:") || strings.Contains(res.Stderr, "fatal error:") {
		return lib.Failf("go-panic", "%s", res.Brief())
	}
	started := map[string]bool{}
	for _, a := range lib.ReadActions(e.W) {
		if a.Kind == "S" {
			started[a.Label] = true
		}
	}
	nontrivial := false
	special := func(w string) bool {
		for _, r := range w {
			if !(r >= 'a' && r <= 'z' || r >= 'A' && r <= 'Z' || r >= '0' && r <= '9' || strings.ContainsRune("_./-", r)) {
				return true
			}
		}
		return false
	}
	for _, con := range c.Cons {
		label := "//" + con.Pkg + ":" + con.Name
		outFile := filepath.Join(e.W, "plz-out", "gen", con.Pkg, con.Name+".out")
		b, rerr := os.ReadFile(outFile)
		if con.Neg != nil {
			o.Label("negative:" + con.Neg.Kind)
			if started[con.Name] {
				return lib.Failf("faulty-sequence-command-ran", "%s uses $(%s %s) (%s) but its command was started", label, con.Neg.Seq, con.Neg.Label, con.Neg.Kind)
			}
			if rerr == nil {
				return lib.Failf("faulty-sequence-built", "%s uses $(%s %s) (%s) but has an output", label, con.Neg.Seq, con.Neg.Label, con.Neg.Kind)
			}
			continue
		}
		// which expected paths does this consumer involve?
		inClass := false
		var allWords []string
		for _, u := range con.Uses {
			ws, _, _ := expected(root, c.Deps[u.Dep], u, c.how(con, u.Dep))
			for _, w := range ws {
				allWords = append(allWords, w)
				if needsQuotingPlzLacks(w) {
					inClass = true
				}
				if special(w) {
					nontrivial = true
				}
			}
			if len(c.Deps[u.Dep].Outs) >= 2 {
				nontrivial = true
			}
		}
		cls := func(base string) string {
			if inClass {
				return knownClass
			}
			return base
		}
		if rerr != nil {
			return lib.Failf(cls("valid-sequences-failed"), "%s uses only valid sequences (expected paths %q) but did not build\n%s", label, allWords, res.Brief())
		}
		got, err := parseOut(string(b))
		if err != nil {
			return &lib.Inconclusive{Msg: err.Error()}
		}
		for i, u := range con.Uses {
			d := c.Deps[u.Dep]
			how := c.how(con, u.Dep)
			want, _, dirMode := expected(root, d, u, how)
			g := got[i]
			desc := fmt.Sprintf("%s: $(%s %s) [%s of the consumer, outputs %q]", label, u.Seq, c.useLabel(con, u), how, d.sortedOuts())
			if g == nil {
				return lib.Failf(cls("no-record"), "%s: the command recorded nothing", desc)
			}
			if g.argc != len(want) || len(g.words) != len(want) {
				return lib.Failf(cls("wrong-word-count"), "%s expanded to %d shell words %q, want %d: %q", desc, g.argc, g.words, len(want), want)
			}
			for k := range want {
				if g.words[k] != want[k] {
					return lib.Failf(cls("wrong-path"), "%s: word %d is %q, want %q", desc, k, g.words[k], want[k])
				}
				if !strings.HasPrefix(g.flags[k], "e") {
					return lib.Failf(cls("path-does-not-exist"), "%s: %q does not exist when the command runs", desc, g.words[k])
				}
				if (u.Seq == "exe" || u.Seq == "out_exe") && !strings.Contains(g.flags[k], "x") {
					return lib.Failf(cls("not-executable"), "%s: %q is not executable", desc, g.words[k])
				}
				if dirMode && !strings.Contains(g.flags[k], "d") {
					return lib.Failf(cls("not-a-directory"), "%s: %q is not a directory", desc, g.words[k])
				}
			}
			if dirMode {
				for j, out := range d.sortedOuts() {
					if g.x[j] != "e" {
						return lib.Failf(cls("output-not-under-dir"), "%s: output %q does not exist below %q", desc, out, g.words)
					}
				}
			}
			o.Label("seq:" + u.Seq)
			o.Label("how:" + how)
			o.LabelIf(u.EP != "", "entry-point")
		}
	}
	if anyNeg && res.Exit == 0 {
		return lib.Failf("faulty-sequence-exit-0", "a consumer uses a faulty sequence but plz exited 0\n%s", res.Brief())
	}
	if !anyNeg && res.Exit != 0 {
		return lib.Failf("valid-sequences-failed", "all sequences are valid but plz exited %d\n%s", res.Exit, res.Brief())
	}
	o.LabelIf(anyNeg, "has-negative")
	o.NonTrivial(nontrivial)
	var sample []string
	for _, con := range c.Cons {
		s := "//" + con.Pkg + ":" + con.Name + ":"
		for _, u := range con.Uses {
			s += fmt.Sprintf(" $(%s %s)[%s]", u.Seq, c.useLabel(con, u), c.how(con, u.Dep))
		}
		if con.Neg != nil {
			s += fmt.Sprintf(" FAULTY $(%s %s) %s", con.Neg.Seq, con.Neg.Label, con.Neg.Kind)
		}
		sample = append(sample, s)
	}
	var deps []string
	for _, d := range c.Deps {
		deps = append(deps, fmt.Sprintf("%s outs=%q binary=%v eps=%v", d.label(), d.Outs, d.Binary, d.EPs))
	}
	o.Sample(map[string]any{"deps": deps, "consumers": sample})
	return nil
}

// ---- generator -------------------------------------------------------------------------------------

var (
	handledChars  = ";<>|&()" // quote() wraps paths with these in double quotes
	harmlessChars = ",=+@%^#~!"
	pkgForbidden  = `|$*?[]{}:()&\` // validatePackageName
)

func genSegment(t *rapid.T, forPkg bool, allowUnquoted bool, label string) string {
	base := rapid.SampledFrom([]string{"a", "b", "ab", "c1", "d"}).Draw(t, label)
	mode := rapid.IntRange(0, 9).Draw(t, label+"mode")
	var pool string
	switch {
	case mode <= 2:
		return base
	case mode <= 5:
		pool = handledChars
	case mode <= 7:
		pool = harmlessChars
	default:
		if allowUnquoted {
			pool = unquotedChars
		} else {
			lib.Rec(spec).Excluded(knownClass)
			pool = handledChars
		}
	}
	var ok []rune
	for _, r := range pool {
		if forPkg && strings.ContainsRune(pkgForbidden, r) {
			continue
		}
		if r == ')' {
			continue // would end the $(...) sequence text
		}
		ok = append(ok, r)
	}
	if len(ok) == 0 {
		return base
	}
	ch := string(rapid.SampledFrom(ok).Draw(t, label+"ch"))
	switch rapid.IntRange(0, 2).Draw(t, label+"pos") {
	case 0:
		if ch == "#" || ch == "~" {
			if !allowUnquoted {
				return base + ch + "x" // a leading # or ~ starts a comment / tilde expansion: part of the known class
			}
		}
		if ch == " " {
			return base + ch + "x" // leading blanks are not interesting and awkward in labels
		}
		return ch + base
	case 1:
		return base + ch + "x"
	}
	if ch == " " || ch == "." {
		return base + ch + "x"
	}
	return base + ch
}

func gen(t *rapid.T) Case {
	allowUnquoted := !lib.Known("C37", knownClass)
	var c Case
	// packages
	nPkgs := rapid.IntRange(1, 3).Draw(t, "npkgs")
	var pkgs []string
	for i := 0; i < nPkgs; i++ {
		var p string
		switch rapid.IntRange(0, 5).Draw(t, "pkgshape") {
		case 0:
			p = "" // root package
		case 1:
			p = genSegment(t, true, allowUnquoted, "pseg") + "/" + genSegment(t, true, allowUnquoted, "pseg2")
		default:
			p = genSegment(t, true, allowUnquoted, "pseg")
		}
		dup := false
		for _, q := range pkgs {
			// one package must not be nested in another with an identical first directory (keeps BUILD ownership simple)
			if q == p || strings.HasPrefix(q, p+"/") || strings.HasPrefix(p, q+"/") {
				dup = true
			}
		}
		if p == "" && len(pkgs) > 0 {
			dup = true // the root package would contain every other package's directory: keep it alone in front
		}
		if !dup {
			pkgs = append(pkgs, p)
		}
	}
	if len(pkgs) == 0 {
		pkgs = []string{"p"}
	}
	// if the root package is used, other packages are fine too (their outputs are theirs)
	nDeps := rapid.IntRange(2, 4).Draw(t, "ndeps")
	usedOut := map[string]bool{}
	for i := 0; i < nDeps; i++ {
		d := Dep{Pkg: rapid.SampledFrom(pkgs).Draw(t, "dpkg"), Name: fmt.Sprintf("d%d", i)}
		d.Binary = rapid.IntRange(0, 3).Draw(t, "binary") == 0
		n := rapid.IntRange(1, 3).Draw(t, "nouts")
		if d.Binary {
			n = 1
		}
		for j := 0; j < n; j++ {
			o := genSegment(t, false, allowUnquoted, "oseg")
			if rapid.IntRange(0, 3).Draw(t, "subdir") == 0 {
				// sub-directories are named s...: never the directory of another package
				o = "s" + genSegment(t, false, allowUnquoted, "odir") + "/" + o
			}
			o = fmt.Sprintf("%s%d%d", o, i, j) // unique per repository
			key := d.Pkg + "\x00" + o
			if usedOut[key] || strings.HasPrefix(o, "-") {
				continue
			}
			usedOut[key] = true
			d.Outs = append(d.Outs, o)
		}
		if len(d.Outs) == 0 {
			d.Outs = []string{fmt.Sprintf("o%d", i)}
		}
		if rapid.IntRange(0, 3).Draw(t, "ep") == 0 {
			d.EPs = []EP{{Name: "ep", Out: rapid.SampledFrom(d.Outs).Draw(t, "epout")}}
		}
		c.Deps = append(c.Deps, d)
	}
	nCons := rapid.IntRange(2, 4).Draw(t, "ncons")
	for i := 0; i < nCons; i++ {
		con := Consumer{Pkg: rapid.SampledFrom(pkgs).Draw(t, "cpkg"), Name: fmt.Sprintf("c%d", i)}
		// references
		perm := rapid.Permutation(seq(len(c.Deps))).Draw(t, "refs")
		nRefs := rapid.IntRange(1, len(c.Deps)).Draw(t, "nrefs")
		for _, di := range perm[:nRefs] {
			con.Refs = append(con.Refs, Ref{Dep: di, How: rapid.SampledFrom([]string{"src", "src", "dep", "tool"}).Draw(t, "how")})
		}
		sort.Slice(con.Refs, func(a, b int) bool { return con.Refs[a].Dep < con.Refs[b].Dep })
		nUses := rapid.IntRange(1, 4).Draw(t, "nuses")
		for k := 0; k < nUses; k++ {
			r := rapid.SampledFrom(con.Refs).Draw(t, "useref")
			d := c.Deps[r.Dep]
			seqs := []string{"locations", "out_locations", "dir", "out_dir"}
			u := Use{Dep: r.Dep}
			if len(d.EPs) > 0 && rapid.Bool().Draw(t, "useep") {
				u.EP = d.EPs[0].Name
			}
			if len(d.Outs) == 1 || u.EP != "" {
				seqs = append(seqs, "location", "location", "out_location")
				if d.Binary {
					seqs = append(seqs, "exe", "exe", "out_exe")
				}
			}
			u.Seq = rapid.SampledFrom(seqs).Draw(t, "seq")
			if u.Seq == "dir" || u.Seq == "out_dir" {
				u.EP = ""
			}
			u.Local = d.Pkg == con.Pkg && rapid.Bool().Draw(t, "local")
			con.Uses = append(con.Uses, u)
		}
		if rapid.IntRange(0, 3).Draw(t, "neg") == 0 {
			kind := rapid.SampledFrom([]string{"not-a-dependency", "undefined-target", "several-outputs", "exe-nonbinary"}).Draw(t, "negkind")
			n := &Neg{Kind: kind}
			switch kind {
			case "not-a-dependency":
				for di, d := range c.Deps {
					if c.how(con, di) == "" {
						n.Label = d.label()
						n.Seq = rapid.SampledFrom([]string{"location", "locations", "dir", "out_location", "out_dir"}).Draw(t, "negseq")
						break
					}
				}
			case "undefined-target":
				n.Label = "//" + con.Pkg + ":nonexistent"
				n.Seq = rapid.SampledFrom([]string{"location", "locations", "dir", "exe"}).Draw(t, "negseq")
			case "several-outputs":
				for _, r := range con.Refs {
					if len(c.Deps[r.Dep].Outs) >= 2 {
						n.Label = c.Deps[r.Dep].label()
						n.Seq = rapid.SampledFrom([]string{"location", "out_location"}).Draw(t, "negseq")
						break
					}
				}
			case "exe-nonbinary":
				for _, r := range con.Refs {
					if !c.Deps[r.Dep].Binary {
						n.Label = c.Deps[r.Dep].label()
						n.Seq = rapid.SampledFrom([]string{"exe", "out_exe"}).Draw(t, "negseq")
						break
					}
				}
			}
			if n.Label != "" {
				con.Neg = n
			}
		}
		c.Cons = append(c.Cons, con)
	}
	return c
}

func seq(n int) []int {
	s := make([]int, n)
	for i := range s {
		s[i] = i
	}
	return s
}

func TestC37(t *testing.T) {
	lib.Check(t, spec, lib.Scale(40, 1000), gen, run)
}
