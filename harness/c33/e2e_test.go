package c33

// End-to-end half of C33: visibility / test_only are enforced by `plz build` on every build, also an
// incremental one in which the edge only became illegal through an edit of the *dependency* that leaves the
// dependent itself (and the dependency's output bytes) unchanged.

import (
	"fmt"
	"strings"

	"pgregory.net/rapid"

	"verifharness/lib"
)

type e2eCase struct {
	Before *lib.Repo // every edge legal (everything PUBLIC, nothing test_only)
	After  *lib.Repo // Before plus one edit of a dependency's visibility or test_only flag
	Edit   string
	Req    []string
	Wipe   bool // build After from an empty plz-out instead of incrementally
}

// illegalEdges lists "dependent -> dependency" edges (within the closure of req) that the documented rules forbid:
// different package and not covered by the visibility list (PUBLIC, //pkg:all, exact label); or a test_only
// dependency of a target that is neither a test nor test_only itself (generated dependents never are).
func illegalEdges(r *lib.Repo, req []string) []string {
	var bad []string
	for l := range r.TransitiveDeps(req) {
		t := r.Target(l)
		if t == nil {
			continue
		}
		for _, d := range r.ResolvedDeps(t) {
			dt := r.Target(d)
			if dt == nil {
				continue
			}
			visible := dt.Pkg == t.Pkg || dt.Visibility == nil
			for _, v := range dt.Visibility {
				if v == "PUBLIC" || v == "//"+t.Pkg+":all" || v == t.Label() {
					visible = true
				}
			}
			if !visible {
				bad = append(bad, t.Label()+" -> "+d+" (not visible)")
			}
			if dt.TestOnly && !t.TestOnly {
				bad = append(bad, t.Label()+" -> "+d+" (test_only)")
			}
		}
	}
	return bad
}

func genE2E(t *rapid.T) e2eCase {
	r := lib.GenRepo(t, lib.RepoGenOpts{MinTargets: 4, MaxTargets: 8, MaxPkgs: 3, NoGlob: true, Kinds: []string{"cat", "cat", "count", "strip"}})
	if len(r.Pkgs) < 2 {
		r.Pkgs = []string{"p", "q"}
		r.Files = append(r.Files, lib.RFile{Pkg: "q", Path: "a.txt", Content: "x\n"})
	}
	// make sure there is a cross-package edge: a consumer in another package of some earlier genrule
	var gens []*lib.RTarget
	for _, x := range r.Targets {
		if x.Kind == "genrule" {
			gens = append(gens, x)
		}
	}
	if len(gens) > 0 {
		dep := gens[rapid.IntRange(0, len(gens)-1).Draw(t, "xdep")]
		other := r.Pkgs[0]
		if other == dep.Pkg {
			other = r.Pkgs[1]
		}
		user := &lib.RTarget{Pkg: other, Name: "user", Kind: "genrule", Cmd: "cat", Srcs: []lib.RSrc{{Label: dep.Label()}}, Outs: []string{"user.out"}}
		r.Targets = append(r.Targets, user)
	}
	c := e2eCase{Before: r, Wipe: rapid.IntRange(0, 3).Draw(t, "wipe") == 0}
	after := r.Clone()
	// edit one target that something depends on
	var cands []*lib.RTarget
	for _, x := range after.Targets {
		if len(after.Dependents(x.Label())) > 0 {
			cands = append(cands, x)
		}
	}
	if len(cands) > 0 {
		x := cands[rapid.IntRange(0, len(cands)-1).Draw(t, "victim")]
		switch rapid.IntRange(0, 3).Draw(t, "edit") {
		case 0:
			x.TestOnly = true
			c.Edit = "test_only=True on " + x.Label()
		case 1:
			x.Visibility = []string{"//" + x.Pkg + ":all"}
			c.Edit = "visibility of " + x.Label() + " restricted to its own package"
		case 2:
			x.Visibility = []string{"//nowhere:all"}
			c.Edit = "visibility of " + x.Label() + " = [//nowhere:all]"
		default:
			// still legal for everyone: name every dependent explicitly
			x.Visibility = append([]string{}, after.Dependents(x.Label())...)
			c.Edit = "visibility of " + x.Label() + " = its dependents, listed explicitly"
		}
	}
	c.After = after
	c.Req = lib.GenRequest(t, after)
	return c
}

func runE2E(c e2eCase, o *lib.Obs) error {
	if c.Before == nil || c.After == nil {
		return nil
	}
	e := lib.NewE2E("c33-")
	defer e.Close()
	b := c.Before.Clone()
	b.Config = lib.NoCacheConfig
	if err := b.Sync(e.W, nil); err != nil {
		return &lib.Inconclusive{Msg: err.Error()}
	}
	if res := e.PlzW().Run(lib.BuildTimeout, append([]string{"build"}, b.Labels()...)...); res.Exit != 0 || res.TimedOut {
		return &lib.Inconclusive{Msg: "build of the all-legal state failed: " + res.Brief()}
	}
	a := c.After.Clone()
	a.Config = lib.NoCacheConfig
	if err := a.Sync(e.W, nil); err != nil {
		return &lib.Inconclusive{Msg: err.Error()}
	}
	if c.Wipe {
		lib.RemovePlzOut(e.W)
	}
	bad := illegalEdges(a, c.Req)
	res := e.PlzW().Run(lib.BuildTimeout, append([]string{"build"}, c.Req...)...)
	if res.TimedOut {
		return &lib.Inconclusive{Msg: "plz timed out"}
	}
	where := fmt.Sprintf("edit: %s; request %v; incremental=%v; forbidden edges per the documented rules: %v", c.Edit, c.Req, !c.Wipe, bad)
	if len(bad) > 0 && res.Exit == 0 {
		return lib.Failf("illegal-dependency-accepted", "%s: plz build exited 0\n%s", where, res.Brief())
	}
	if len(bad) == 0 && res.Exit != 0 {
		return lib.Failf("legal-dependency-rejected", "%s: plz build exited %d\n%s", where, res.Exit, res.Brief())
	}
	o.Label("e2e")
	o.LabelIf(len(bad) > 0, "e2e_forbidden_edge")
	o.LabelIf(!c.Wipe, "e2e_incremental")
	o.Label("e2e_edit:" + strings.Fields(c.Edit + " none")[0])
	o.NonTrivial(len(bad) > 0 && !c.Wipe)
	o.Sample(map[string]any{"e2e_edit": c.Edit, "request": c.Req, "forbidden": bad, "incremental": !c.Wipe})
	return nil
}
