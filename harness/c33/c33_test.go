// C33: visibility and test_only restrictions are enforced exactly.
package c33

import (
	"fmt"
	"os"
	"sort"
	"strings"
	"testing"

	"github.com/thought-machine/please/src/core"
	"pgregory.net/rapid"

	"verifharness/lib"
)

func TestMain(m *testing.M) {
	lib.QuietPleaseLogs()
	lib.Main(m)
}

var spec = lib.Spec{
	ID: "C33",
	Rule: "a dependent target (possibly a hidden sub-target _t#x / __t#x_y, possibly a test or test_only) with 1-4 declared dependencies; each dependency lives in the same package, a child, a prefix-sharing " +
		"sibling (p vs pfoo / p-x / p_ / p.q), a parent or an unrelated package, has a visibility list drawn from PUBLIC, //P:all, //P/..., exact labels (of the dependent, of its parent, of others) where P is related to the " +
		"dependent's package in the same ways, and may be test_only; 0-2 experimental dirs related to both packages. Oracle: reference implementation of the documented rules (same package | PUBLIC | pattern selects the " +
		"dependent's parent label | dependent is experimental; never from outside into an experimental dir; test_only needs a test or test_only dependent) gives a verdict per edge; CanSee must agree per edge and " +
		"CheckDependencyVisibility must fail iff some edge is bad and must name a bad edge. Non-trivial = an edge crosses packages and the dependency's visibility has a pattern whose package is a non-empty string prefix " +
		"of the dependent's package; distinct = the case",
	Assumptions: []string{
		"all targets are in the main repo (subrepos out of scope: the property does not mention them)",
		"a test_only dependency of a non-test target inside an experimental dir is not asserted either way: the code deliberately suppresses the restriction there (it logs that it does) while the property text does not mention it",
	},
}

type tgt struct {
	Pkg      string
	Name     string
	Vis      []string `json:",omitempty"` // "PUBLIC" or an absolute label / pattern
	Test     bool     `json:",omitempty"`
	TestOnly bool     `json:",omitempty"`
}

type visCase struct {
	ExpDirs []string `json:",omitempty"`
	From    tgt
	Deps    []tgt
}

var expPool = [][]string{
	nil, nil, nil, nil, nil, nil,
	{"exp"}, {"p"}, {"p/q"}, {"pfoo"}, {"p-x"}, {"p_"}, {"q"}, {"pq"}, {"p.q"}, {"exp/p"}, {"p/p"},
	{"exp", "p"}, {"p", "pfoo"}, {"p/q", "p-x"}, {"q", "p/pq"},
}

var depNames = []string{"d", "e", "_d#x", "lib"}
var fromNames = []string{"t", "u", "_t#x", "__t#x_y", "_u#a", "t#x", "_t"}

func genVis(t *rapid.T, from lib.RefLabel, depPkg string) []string {
	n := rapid.IntRange(0, 3).Draw(t, "nvis")
	var out []string
	for i := 0; i < n; i++ {
		switch k := rapid.IntRange(0, 11).Draw(t, "viskind"); {
		case k == 0:
			out = append(out, "PUBLIC")
		case k < 5:
			p := lib.GenRelatedPkg(t, "vis", from.Pkg)
			out = append(out, lib.RefLabel{Pkg: p, Name: "..."}.String())
		case k < 7:
			p := lib.GenRelatedPkg(t, "vis", from.Pkg)
			out = append(out, lib.RefLabel{Pkg: p, Name: "all"}.String())
		case k < 8:
			out = append(out, from.String()) // the dependent itself, by exact label (a hidden one is not its parent)
		case k < 10:
			out = append(out, lib.RefParent(from).String())
		case k < 11:
			out = append(out, lib.RefLabel{Pkg: from.Pkg, Name: rapid.SampledFrom(fromNames).Draw(t, "visname")}.String())
		default:
			p := lib.GenRelatedPkg(t, "vis", depPkg)
			out = append(out, lib.RefLabel{Pkg: p, Name: "..."}.String())
		}
	}
	return out
}

func gen(t *rapid.T) visCase {
	// experimental dirs come from a small fixed pool (a BuildState is expensive to construct and is cached per
	// configuration); packages are then drawn in relation to them often enough that every relation occurs.
	expDirs := append([]string{}, rapid.SampledFrom(expPool).Draw(t, "expdirs")...)
	fromPkg := lib.GenPkg(t, "from", 3)
	if len(expDirs) > 0 && rapid.IntRange(0, 2).Draw(t, "fromnearexp") == 0 {
		fromPkg = lib.GenRelatedPkg(t, "fromexp", rapid.SampledFrom(expDirs).Draw(t, "fromexpdir"))
	}
	c := visCase{ExpDirs: expDirs, From: tgt{Pkg: fromPkg, Name: rapid.SampledFrom(fromNames).Draw(t, "fromname")}}
	switch rapid.IntRange(0, 5).Draw(t, "fromkind") {
	case 0:
		c.From.Test = true
	case 1:
		c.From.TestOnly = true
	}
	from := lib.RefLabel{Pkg: c.From.Pkg, Name: c.From.Name}
	nDeps := rapid.IntRange(1, 4).Draw(t, "ndeps")
	seen := map[string]bool{from.String(): true}
	for i := 0; i < nDeps; i++ {
		depBase := fromPkg
		if len(expDirs) > 0 && rapid.IntRange(0, 3).Draw(t, "depnearexp") == 0 {
			depBase = rapid.SampledFrom(expDirs).Draw(t, "depexpdir")
		}
		d := tgt{Pkg: lib.GenRelatedPkg(t, "dep", depBase), Name: rapid.SampledFrom(depNames).Draw(t, "depname")}
		key := lib.RefLabel{Pkg: d.Pkg, Name: d.Name}.String()
		if seen[key] {
			continue
		}
		seen[key] = true
		d.Vis = genVis(t, from, d.Pkg)
		d.TestOnly = rapid.IntRange(0, 3).Draw(t, "deptestonly") == 0
		d.Test = rapid.IntRange(0, 9).Draw(t, "deptest") == 0
		c.Deps = append(c.Deps, d)
	}
	return c
}

// ---- reference -----------------------------------------------------------------------------------

func parseVis(s string) (lib.RefLabel, bool) {
	if s == "PUBLIC" {
		return lib.RefLabel{Name: "..."}, true // docs: PUBLIC is equivalent to //...
	}
	if !strings.HasPrefix(s, "//") {
		return lib.RefLabel{}, false
	}
	body := s[2:]
	if body == "..." {
		return lib.RefLabel{Name: "..."}, true
	}
	if strings.HasSuffix(body, "/...") {
		return lib.RefLabel{Pkg: strings.TrimSuffix(body, "/..."), Name: "..."}, true
	}
	i := strings.IndexByte(body, ':')
	if i < 0 {
		return lib.RefLabel{}, false
	}
	return lib.RefLabel{Pkg: body[:i], Name: body[i+1:]}, true
}

func refExperimental(expDirs []string, pkg string) bool {
	for _, e := range expDirs {
		if lib.RefUnder(e, pkg) {
			return true
		}
	}
	return false
}

type verdict struct {
	visible       bool
	testOnlyBad   bool // the test_only rule forbids the edge
	testOnlyUnset bool // ... but the dependent is experimental: not asserted
}

func refEdge(c visCase, d tgt, vis []lib.RefLabel) verdict {
	from := lib.RefLabel{Pkg: c.From.Pkg, Name: c.From.Name}
	fromExp := refExperimental(c.ExpDirs, c.From.Pkg)
	depExp := refExperimental(c.ExpDirs, d.Pkg)
	var v verdict
	switch {
	case c.From.Pkg == d.Pkg:
		v.visible = true
	case depExp && !fromExp:
		v.visible = false // "Code outside the experimental dir can never depend on code inside it"
	case fromExp:
		v.visible = true // "Code in the experimental dir can override normal visibility constraints"
	default:
		parent := lib.RefParent(from)
		for _, p := range vis {
			if lib.RefSelects(p, parent) {
				v.visible = true
			}
		}
	}
	if d.TestOnly && !c.From.Test && !c.From.TestOnly {
		if fromExp {
			v.testOnlyUnset = true
		} else {
			v.testOnlyBad = true
		}
	}
	return v
}

// ---- run ------------------------------------------------------------------------------------------

var states = map[string]*core.BuildState{}

// One graph is shared by all cases and states: dependency targets are looked up by label and their
// attributes are reset for each case (constructing a BuildGraph costs more than the check itself).
var graph = core.NewGraph()

func stateFor(expDirs []string) *core.BuildState {
	key := strings.Join(expDirs, "\x00")
	if s, ok := states[key]; ok {
		return s
	}
	cfg := core.DefaultConfiguration()
	cfg.Parse.ExperimentalDir = append([]string{}, expDirs...)
	s := core.NewBuildState(cfg)
	s.Graph = graph
	states[key] = s
	return s
}

func depTarget(x tgt) *core.BuildTarget {
	l := core.BuildLabel{PackageName: x.Pkg, Name: x.Name}
	t := graph.Target(l)
	if t == nil {
		t = graph.AddTarget(core.NewBuildTarget(l))
	}
	t.Visibility = nil
	t.Test = nil
	if x.Test {
		t.Test = new(core.TestFields)
	}
	t.TestOnly = x.TestOnly
	return t
}

func validName(n string) bool {
	return n != "" && !strings.ContainsAny(n, `|$*?[]{}:()&/\`) && n[0] != '.' && n != "all"
}

func validPkg(p string) bool {
	return p == "" || (!strings.ContainsAny(p, `|$*?[]{}:()&\`) && p[0] != '/' && p[len(p)-1] != '/' && !strings.Contains(p, "//"))
}

func mk(x tgt) *core.BuildTarget {
	t := core.NewBuildTarget(core.BuildLabel{PackageName: x.Pkg, Name: x.Name})
	if x.Test {
		t.Test = new(core.TestFields)
	}
	t.TestOnly = x.TestOnly
	return t
}

func run(c visCase, o *lib.Obs) error {
	// soundness: only cases a BUILD file could produce
	if !validPkg(c.From.Pkg) || !validName(c.From.Name) || len(c.Deps) == 0 {
		return nil
	}
	for _, e := range c.ExpDirs {
		if e == "" || !validPkg(e) {
			return nil
		}
	}
	fromRef := lib.RefLabel{Pkg: c.From.Pkg, Name: c.From.Name}
	seen := map[string]bool{fromRef.String(): true}
	for _, d := range c.Deps {
		k := lib.RefLabel{Pkg: d.Pkg, Name: d.Name}.String()
		if !validPkg(d.Pkg) || !validName(d.Name) || seen[k] {
			return nil
		}
		seen[k] = true
	}
	if len(states) >= 64 {
		if _, ok := states[strings.Join(c.ExpDirs, "\x00")]; !ok {
			return nil // replayed or shrunk case outside the pool: bounded number of live states
		}
	}
	state := stateFor(c.ExpDirs)
	from := mk(c.From)
	type edge struct {
		dep *core.BuildTarget
		v   verdict
		d   tgt
	}
	var edges []edge
	anyBad, anyUnset, nontrivial, confusable := false, false, false, false
	for _, d := range c.Deps {
		dt := depTarget(d)
		var refs []lib.RefLabel
		for _, s := range d.Vis {
			r, ok := parseVis(s)
			if !ok || !validPkg(r.Pkg) || r.Name == "" {
				return nil
			}
			refs = append(refs, r)
			// what the BUILD parser does with a visibility string
			if s == "PUBLIC" {
				dt.Visibility = append(dt.Visibility, core.WholeGraph[0])
			} else {
				l, err := core.TryParseBuildLabel(s, d.Pkg, "")
				if err != nil {
					return lib.Failf("visibility-label-rejected", "visibility entry %q does not parse: %v", s, err)
				}
				dt.Visibility = append(dt.Visibility, l)
			}
			if d.Pkg != c.From.Pkg && r.Pkg != "" && strings.HasPrefix(c.From.Pkg, r.Pkg) {
				nontrivial = true
				if lib.StringPrefixOnly(r.Pkg, c.From.Pkg) {
					confusable = true
				}
			}
		}
		from.AddDependency(dt.Label)
		v := refEdge(c, d, refs)
		edges = append(edges, edge{dt, v, d})
		if !v.visible || v.testOnlyBad {
			anyBad = true
		}
		if v.testOnlyUnset && v.visible {
			anyUnset = true
		}
	}
	fromExp := refExperimental(c.ExpDirs, c.From.Pkg)
	o.NonTrivial(nontrivial)
	o.LabelIf(confusable, "vis_pkg_string_prefix_only")
	o.LabelIf(fromRef != lib.RefParent(fromRef), "hidden_dependent")
	o.LabelIf(fromExp, "experimental_dependent")
	o.LabelIf(anyBad, "expected_failure")
	o.LabelIf(len(c.ExpDirs) > 0, "has_experimental_dirs")
	var intoExp, toViol, toAllowed, invisible bool
	for _, e := range edges {
		intoExp = intoExp || (refExperimental(c.ExpDirs, e.d.Pkg) && !fromExp)
		toViol = toViol || e.v.testOnlyBad
		toAllowed = toAllowed || (e.d.TestOnly && !e.v.testOnlyBad && !e.v.testOnlyUnset)
		invisible = invisible || !e.v.visible
	}
	o.LabelIf(intoExp, "into_experimental")
	o.LabelIf(toViol, "test_only_violation")
	o.LabelIf(toAllowed, "test_only_allowed")
	o.LabelIf(invisible, "invisible_edge")
	o.LabelIf(anyUnset, "test_only_experimental_unasserted")

	for _, e := range edges {
		if got := from.CanSee(state, e.dep); got != e.v.visible {
			return lib.Failf("cansee", "%s -> %s (visibility %v, experimental dirs %v): CanSee = %v, reference %v", fromRef, e.dep.Label, e.d.Vis, c.ExpDirs, got, e.v.visible)
		}
	}
	err := from.CheckDependencyVisibility(state)
	o.Sample(map[string]any{"case": c, "expected_error": anyBad, "got": fmt.Sprint(err)})
	if anyBad && err == nil {
		var bad []string
		for _, e := range edges {
			if !e.v.visible || e.v.testOnlyBad {
				bad = append(bad, e.dep.Label.String())
			}
		}
		sort.Strings(bad)
		return lib.Failf("missing-error", "%s (test=%v test_only=%v) depends on %v which the rules forbid, but CheckDependencyVisibility returned nil", fromRef, c.From.Test, c.From.TestOnly, bad)
	}
	if !anyBad && err != nil && !anyUnset {
		return lib.Failf("spurious-error", "%s: every dependency is allowed by the rules but CheckDependencyVisibility says: %v", fromRef, err)
	}
	if err != nil {
		// the error must name a dependency that is actually forbidden, with a matching reason
		msg := err.Error()
		named := false
		for _, e := range edges {
			l := e.dep.Label.String()
			visMsg := fmt.Sprintf("Target %s isn't visible to %s", l, from.Label)
			toMsg := fmt.Sprintf("Target %s can't depend on %s, it's marked test_only", from.Label, l)
			if (msg == visMsg && !e.v.visible) || (msg == toMsg && (e.v.testOnlyBad || e.v.testOnlyUnset)) {
				named = true
			}
		}
		if !named {
			return lib.Failf("wrong-culprit", "%s: error %q does not name a dependency that the rules forbid for that reason", fromRef, msg)
		}
	}
	return nil
}

func TestC33(t *testing.T) {
	lib.Check(t, spec, lib.Scale(20000, 2000000), gen, run)
	if t.Failed() {
		return
	}
	// end-to-end half: the same rules enforced by `plz build`, also on incremental builds (e2e_test.go)
	n := lib.Scale(8, 400)
	if v := os.Getenv("VERIF_E2E_CASES"); v != "" {
		fmt.Sscan(v, &n)
	}
	lib.Check(t, spec, n, genE2E, runE2E)
}
