// C29: the CAS-backed io/fs view (src/remote/fs) is faithful to the REAPI Tree it is built over.
//
// A case is a modelled file tree (lib.Node) plus a working directory. The tree is turned into a canonical
// pb.Tree + in-memory CAS; the reference is a walk of the model. Trees with symlinks are evaluated in a
// child process (a persistent worker: this test binary re-executed), because unbounded recursion in the
// code under test is a fatal Go error that cannot be recovered in-process.
package c29

import (
	"bufio"
	"bytes"
	"context"
	"encoding/json"
	"errors"
	"fmt"
	"io"
	iofs "io/fs"
	"os"
	"os/exec"
	"path"
	"runtime/debug"
	"sort"
	"strings"
	"sync"
	"testing"
	"testing/fstest"

	"github.com/bazelbuild/remote-apis-sdks/go/pkg/client"
	"github.com/bazelbuild/remote-apis-sdks/go/pkg/digest"
	pb "github.com/bazelbuild/remote-apis/build/bazel/remote/execution/v2"
	"google.golang.org/protobuf/types/known/wrapperspb"
	"pgregory.net/rapid"

	remotefs "github.com/thought-machine/please/src/remote/fs"

	"verifharness/lib"
)

var spec = lib.Spec{
	ID: "C29",
	Rule: "REAPI Trees built from generated file trees (depth <= 3, fan-out <= 4, colliding names, empty dirs, exec bits / unix modes, relative symlinks to files, dirs, '.', '..'-relative, dangling, chains, " +
		"loops a->a and a->b->a, absolute targets) with an in-memory CAS and a working directory ('' | '.' | a real sub-directory, via New or ChangeDir). " +
		"Oracle: reference walk of the model: for every path Stat kind/size/name/mode, FindNode kind, ReadDir(-1) names+types, Open+ReadAll bytes (through symlinks: the target's bytes / the target directory's listing), " +
		"missing names give fs.ErrNotExist, ReadDir(n) paging yields every entry once and ends with io.EOF, testing/fstest.TestFS on symlink-free trees, loops/absolute/escaping links give an error and the process survives " +
		"(symlink cases run in a child process with a 64 MiB stack limit). Non-trivial = tree has a symlink or an empty dir or depth >= 2; distinct = tree + working dir",
	Assumptions: []string{
		"paths handed to the view only traverse real directories; resolution through a symlinked directory in the middle of a path is not promised by the code or docs and only required not to crash",
		"Stat does not follow symlinks (it reports the symlink node), Open does",
		"FileNode.IsExecutable is not mapped to mode bits (only NodeProperties.UnixMode is), so modes are compared only when UnixMode is set",
	},
}

// ---- case ---------------------------------------------------------------------------------------

type Case struct {
	Root      *lib.Node
	WD        string // working directory: "", "." or a real directory path
	ChangeDir bool   `json:",omitempty"` // construct with New(…, "") and ChangeDir(WD)
	Modes     bool   `json:",omitempty"` // attach NodeProperties.UnixMode to files and dirs
	Raw       bool   `json:",omitempty"` // never generated: run fstest on the bare view even if a known finding is listed (used by that finding's replay)
}

func hasLinks(n *lib.Node) bool {
	_, _, l, _, _ := lib.CountNodes(n)
	return l > 0
}

func collect(n *lib.Node, p string, f func(n *lib.Node, p string)) {
	f(n, p)
	for _, c := range n.Children {
		collect(c, path.Join(p, c.Name), f)
	}
}

func gen(t *rapid.T) Case {
	opts := lib.TreeGenOpts{MaxDepth: 3, MaxFanout: 4, Symlinks: rapid.IntRange(0, 2).Draw(t, "links") > 0, EmptyDirs: true, ExecBits: true,
		LinkTarget: []string{"/abs", "/", "../..", "a/b", "b/a", "./a", "a/../b", "c/.."}}
	root := lib.GenDir(t, "", opts)
	// loops and chains on purpose: re-target some links at other links of the same directory
	var linkDirs []*lib.Node
	collect(root, "", func(n *lib.Node, _ string) {
		if n.Dir {
			k := 0
			for _, c := range n.Children {
				if c.Link {
					k++
				}
			}
			if k > 0 {
				linkDirs = append(linkDirs, n)
			}
		}
	})
	for _, d := range linkDirs {
		var links []*lib.Node
		for _, c := range d.Children {
			if c.Link {
				links = append(links, c)
			}
		}
		switch rapid.IntRange(0, 5).Draw(t, "loopkind") {
		case 0: // self loop
			links[0].Target = links[0].Name
		case 1: // two-cycle or chain into a self loop
			if len(links) >= 2 {
				links[0].Target = links[1].Name
				links[1].Target = links[0].Name
			} else {
				links[0].Target = "./" + links[0].Name
			}
		case 2: // chain
			if len(links) >= 2 {
				links[0].Target = links[1].Name
			}
		}
		// valid targets on purpose: a sibling file/dir, something inside a sibling dir, or via "..".
		for _, l := range links[len(links)/2:] {
			var sibs []string
			for _, c := range d.Children {
				if c != l {
					sibs = append(sibs, c.Name)
					if c.Dir {
						for _, cc := range c.Children {
							sibs = append(sibs, c.Name+"/"+cc.Name, c.Name+"/../"+l.Name)
						}
					}
				}
			}
			if len(sibs) > 0 && rapid.IntRange(0, 2).Draw(t, "valid") > 0 {
				l.Target = rapid.SampledFrom(sibs).Draw(t, "sibling")
			}
		}
	}
	// links that climb: point some links of non-root directories at an entry of their parent
	var climb func(parent, d *lib.Node)
	climb = func(parent, d *lib.Node) {
		for _, c := range d.Children {
			if c.Dir {
				climb(d, c)
			}
			if c.Link && parent != nil && rapid.IntRange(0, 3).Draw(t, "climb") == 0 {
				c.Target = "../" + rapid.SampledFrom(parent.Children).Draw(t, "uncle").Name
			}
		}
	}
	climb(nil, root)
	c := Case{Root: root, Modes: rapid.Bool().Draw(t, "modes")}
	var dirs []string
	collect(root, "", func(n *lib.Node, p string) {
		if n.Dir && p != "" {
			dirs = append(dirs, p)
		}
	})
	switch k := rapid.IntRange(0, 4).Draw(t, "wdkind"); {
	case k == 0:
		c.WD = "."
	case k >= 3 && len(dirs) > 0:
		c.WD = rapid.SampledFrom(dirs).Draw(t, "wd")
		c.ChangeDir = rapid.Bool().Draw(t, "chdir")
	}
	return c
}

// ---- building the Tree ---------------------------------------------------------------------------

type memCAS map[digest.Digest][]byte

func (m memCAS) ReadBlob(_ context.Context, d digest.Digest) ([]byte, *client.MovedBytesMetadata, error) {
	b, ok := m[d]
	if !ok {
		return nil, nil, fmt.Errorf("blob %s not in CAS", d)
	}
	return b, nil, nil
}

func modeOf(n *lib.Node) uint32 {
	switch {
	case n.Dir:
		return 0o755
	case n.Exec:
		return 0o755
	}
	return 0o644
}

func buildTree(c Case) (*pb.Tree, memCAS) {
	cas := memCAS{}
	tree := &pb.Tree{}
	var rec func(n *lib.Node) *pb.Directory
	rec = func(n *lib.Node) *pb.Directory {
		d := &pb.Directory{}
		if c.Modes {
			d.NodeProperties = &pb.NodeProperties{UnixMode: wrapperspb.UInt32(modeOf(n))}
		}
		ch := append([]*lib.Node{}, n.Children...)
		sort.Slice(ch, func(i, j int) bool { return ch[i].Name < ch[j].Name })
		for _, k := range ch {
			switch {
			case k.Dir:
				sub := rec(k)
				dg, _ := digest.NewFromMessage(sub)
				tree.Children = append(tree.Children, sub)
				d.Directories = append(d.Directories, &pb.DirectoryNode{Name: k.Name, Digest: dg.ToProto()})
			case k.Link:
				d.Symlinks = append(d.Symlinks, &pb.SymlinkNode{Name: k.Name, Target: k.Target})
			default:
				dg := digest.NewFromBlob([]byte(k.Content))
				cas[dg] = []byte(k.Content)
				fn := &pb.FileNode{Name: k.Name, Digest: dg.ToProto(), IsExecutable: k.Exec}
				if c.Modes {
					fn.NodeProperties = &pb.NodeProperties{UnixMode: wrapperspb.UInt32(modeOf(k))}
				}
				d.Files = append(d.Files, fn)
			}
		}
		return d
	}
	tree.Root = rec(c.Root)
	return tree, cas
}

// ---- reference model ------------------------------------------------------------------------------

// lookup walks real directories only. Returns nil if a component is missing or not a directory
// (throughLink reports that a non-final component was a symlink).
func lookup(root *lib.Node, p string) (n *lib.Node, throughLink bool) {
	p = path.Clean(p)
	if p == "." || p == "" {
		return root, false
	}
	if p == ".." || strings.HasPrefix(p, "../") || strings.HasPrefix(p, "/") {
		return nil, false
	}
	cur := root
	parts := strings.Split(p, "/")
	for i, part := range parts {
		var next *lib.Node
		for _, c := range cur.Children {
			if c.Name == part {
				next = c
			}
		}
		if next == nil {
			return nil, false
		}
		if i < len(parts)-1 && !next.Dir {
			return nil, next.Link
		}
		cur = next
	}
	return cur, false
}

type resolved struct {
	node   *lib.Node // final non-link node, when definite
	err    bool      // definitely an error: dangling, loop, absolute, escapes the tree
	unsure bool      // resolution passes through a symlinked directory: behaviour not specified
	why    string
}

// resolve follows the symlink chain starting at full path p the way POSIX would, restricted to the cases
// where lexical and physical resolution agree.
func resolve(root *lib.Node, p string) resolved {
	seen := map[string]bool{}
	for hops := 0; ; hops++ {
		p = path.Clean(p)
		if seen[p] {
			return resolved{err: true, why: "symlink loop"}
		}
		seen[p] = true
		n, through := lookup(root, p)
		if through {
			return resolved{unsure: true, why: "path through a symlinked directory"}
		}
		if n == nil {
			return resolved{err: true, why: "does not exist"}
		}
		if !n.Link {
			return resolved{node: n}
		}
		if path.IsAbs(n.Target) {
			return resolved{err: true, why: "absolute symlink target"}
		}
		p = path.Join(path.Dir(p), n.Target)
	}
}

// ---- the check -------------------------------------------------------------------------------------

type verdict struct {
	Class  string   `json:"class,omitempty"`
	Msg    string   `json:"msg,omitempty"`
	Labels []string `json:"labels,omitempty"`
}

func typeOf(n *lib.Node) iofs.FileMode {
	switch {
	case n.Dir:
		return iofs.ModeDir
	case n.Link:
		return iofs.ModeSymlink
	}
	return 0
}

func listing(n *lib.Node) []string {
	var out []string
	for _, c := range n.Children {
		out = append(out, fmt.Sprintf("%s|%s", c.Name, typeOf(c)))
	}
	sort.Strings(out)
	return out
}

func entriesStr(es []iofs.DirEntry) []string {
	var out []string
	for _, e := range es {
		out = append(out, fmt.Sprintf("%s|%s", e.Name(), e.Type()))
	}
	sort.Strings(out)
	return out
}

func fail(class, format string, args ...any) *verdict {
	return &verdict{Class: class, Msg: fmt.Sprintf(format, args...)}
}

// evaluate runs every observation of the case against the model. It is a pure function of the case.
func evaluate(c Case) (v verdict) {
	labels := map[string]bool{}
	defer func() {
		for l := range labels {
			v.Labels = append(v.Labels, l)
		}
		sort.Strings(v.Labels)
	}()
	tree, cas := buildTree(c)
	var fsys *remotefs.CASFileSystem
	if c.ChangeDir {
		fsys = remotefs.New(cas, tree, "").ChangeDir(c.WD)
	} else {
		fsys = remotefs.New(cas, tree, c.WD)
	}
	wdNode, _ := lookup(c.Root, c.WD)
	if wdNode == nil || !wdNode.Dir {
		return verdict{} // not a valid case (shrinking may produce it)
	}
	full := func(rel string) string { return path.Join(c.WD, rel) }
	var failure *verdict
	collect(wdNode, "", func(n *lib.Node, rel string) {
		if failure != nil {
			return
		}
		name := rel
		if name == "" {
			name = "."
		}
		// --- Stat
		fi, err := fsys.Stat(name)
		if err != nil {
			failure = fail("stat-error", "Stat(%q) failed: %v (model: %c)", name, err, n.Kind())
			return
		}
		if fi.Mode().Type() != typeOf(n) {
			failure = fail("stat-kind", "Stat(%q).Mode() = %v, model says %c", name, fi.Mode(), n.Kind())
			return
		}
		if rel != "" && fi.Name() != n.Name {
			failure = fail("stat-name", "Stat(%q).Name() = %q, want %q", name, fi.Name(), n.Name)
			return
		}
		if n.Kind() == 'f' && fi.Size() != int64(len(n.Content)) {
			failure = fail("stat-size", "Stat(%q).Size() = %d, want %d", name, fi.Size(), len(n.Content))
			return
		}
		if c.Modes && !n.Link && fi.Mode().Perm() != iofs.FileMode(modeOf(n)) {
			failure = fail("stat-mode", "Stat(%q).Mode().Perm() = %o, NodeProperties say %o", name, fi.Mode().Perm(), modeOf(n))
			return
		}
		// --- FindNode
		fn, dn, ln, err := fsys.FindNode(name)
		if err != nil {
			failure = fail("findnode-error", "FindNode(%q) failed: %v", name, err)
			return
		}
		if (fn != nil) != (n.Kind() == 'f') || (dn != nil) != n.Dir || (ln != nil) != n.Link {
			failure = fail("findnode-kind", "FindNode(%q) = file:%v dir:%v link:%v, model says %c", name, fn != nil, dn != nil, ln != nil, n.Kind())
			return
		}
		if ln != nil && ln.Target != n.Target {
			failure = fail("findnode-target", "FindNode(%q) symlink target %q, want %q", name, ln.Target, n.Target)
			return
		}
		// --- Open
		r := resolved{node: n}
		if n.Link {
			r = resolve(c.Root, full(rel))
			labels["link"] = true
		}
		f, err := fsys.Open(name)
		switch {
		case r.unsure:
			labels["link_through_linked_dir"] = true
			if err == nil {
				f.Close()
			}
		case r.err:
			labels["link_"+strings.ReplaceAll(r.why, " ", "_")] = true
			if err == nil {
				f.Close()
				failure = fail("open-bad-link", "Open(%q) succeeded but the symlink chain is invalid (%s)", name, r.why)
				return
			}
		case err != nil:
			failure = fail("open-error", "Open(%q) failed: %v (model resolves it to a %c)", name, err, r.node.Kind())
			return
		case r.node.Dir:
			labels["open_dir"] = true
			if n.Link {
				labels["link_to_dir"] = true
			}
			if msg := checkDir(f, name, r.node); msg != nil {
				failure = msg
				return
			}
			for _, page := range []int{1, 2, 3} {
				if msg := checkPaging(fsys, name, r.node, page); msg != nil {
					failure = msg
					return
				}
			}
		default:
			if n.Link {
				labels["link_to_file"] = true
			}
			b, rerr := io.ReadAll(f)
			f.Close()
			if rerr != nil {
				failure = fail("read-error", "reading %q: %v", name, rerr)
				return
			}
			if string(b) != r.node.Content {
				failure = fail("read-bytes", "Open(%q)+ReadAll = %q, model has %q", name, b, r.node.Content)
				return
			}
			st, serr := f.Stat()
			if serr != nil || st.Size() != int64(len(r.node.Content)) || st.IsDir() {
				failure = fail("file-stat", "Open(%q).Stat() = %v, %v; want a regular file of %d bytes", name, st, serr, len(r.node.Content))
				return
			}
		}
		// --- names that do not exist
		if n.Dir {
			for _, missing := range []string{"zz-missing", "zz-missing/x"} {
				m := path.Join(name, missing)
				if _, err := fsys.Stat(m); !errors.Is(err, iofs.ErrNotExist) {
					failure = fail("missing-stat", "Stat(%q) = %v, want fs.ErrNotExist", m, err)
					return
				}
				if fh, err := fsys.Open(m); !errors.Is(err, iofs.ErrNotExist) {
					if err == nil {
						fh.Close()
					}
					failure = fail("missing-open", "Open(%q) = %v, want fs.ErrNotExist", m, err)
					return
				}
			}
		} else if n.Kind() == 'f' {
			m := path.Join(name, "x")
			if fh, err := fsys.Open(m); err == nil {
				fh.Close()
				failure = fail("file-as-dir", "Open(%q) succeeded although %q is a regular file", m, name)
				return
			}
		}
	})
	if failure != nil {
		return *failure
	}
	return verdict{}
}

func checkDir(f iofs.File, name string, n *lib.Node) *verdict {
	defer f.Close()
	st, err := f.Stat()
	if err != nil || !st.IsDir() {
		return fail("dir-stat", "Open(%q).Stat() = %v, %v; want a directory", name, st, err)
	}
	rd, ok := f.(iofs.ReadDirFile)
	if !ok {
		return fail("dir-no-readdir", "Open(%q) on a directory does not implement fs.ReadDirFile", name)
	}
	es, err := rd.ReadDir(-1)
	if err != nil {
		return fail("readdir-error", "ReadDir(-1) of %q: %v", name, err)
	}
	got, want := entriesStr(es), listing(n)
	if strings.Join(got, "\n") != strings.Join(want, "\n") {
		return fail("readdir-listing", "ReadDir(-1) of %q = %q, model has %q", name, got, want)
	}
	for _, e := range es {
		info, err := e.Info()
		if err != nil {
			return fail("entry-info", "DirEntry.Info() of %q in %q: %v", e.Name(), name, err)
		}
		if info.Name() != e.Name() || info.Mode().Type() != e.Type() || info.IsDir() != e.IsDir() {
			return fail("entry-info", "DirEntry %q in %q disagrees with its Info(): %v vs %v", e.Name(), name, e.Type(), info.Mode())
		}
		for _, c := range n.Children {
			if c.Name == e.Name() && c.Kind() == 'f' && info.Size() != int64(len(c.Content)) {
				return fail("entry-size", "DirEntry %q in %q has size %d, want %d", e.Name(), name, info.Size(), len(c.Content))
			}
		}
	}
	return nil
}

// checkPaging reads the directory n entries at a time: every entry exactly once, then io.EOF.
func checkPaging(fsys iofs.FS, name string, n *lib.Node, page int) *verdict {
	f, err := fsys.Open(name)
	if err != nil {
		return fail("open-error", "re-Open(%q): %v", name, err)
	}
	defer f.Close()
	rd := f.(iofs.ReadDirFile)
	var all []iofs.DirEntry
	limit := len(n.Children)/page + 3
	for i := 0; ; i++ {
		if i > limit {
			return fail("readdir-paging-no-eof", "ReadDir(%d) of %q (%d entries) still returns entries after %d calls and never io.EOF", page, name, len(n.Children), i)
		}
		es, err := rd.ReadDir(page)
		if len(es) > page {
			return fail("readdir-paging-too-many", "ReadDir(%d) of %q returned %d entries", page, name, len(es))
		}
		all = append(all, es...)
		if err == io.EOF {
			if len(es) != 0 {
				return fail("readdir-paging-eof-with-entries", "ReadDir(%d) of %q returned entries together with io.EOF", page, name)
			}
			break
		}
		if err != nil {
			return fail("readdir-error", "ReadDir(%d) of %q: %v", page, name, err)
		}
		if len(es) == 0 {
			return fail("readdir-paging-empty", "ReadDir(%d) of %q returned no entries and no error (io.EOF expected at the end)", page, name)
		}
	}
	got, want := entriesStr(all), listing(n)
	if strings.Join(got, "\n") != strings.Join(want, "\n") {
		return fail("readdir-paging-listing", "ReadDir(%d) pages of %q add up to %q, model has %q", page, name, got, want)
	}
	return nil
}

// fstestCheck runs the io/fs conformance suite on a symlink-free tree.
func fstestCheck(c Case) *verdict {
	tree, cas := buildTree(c)
	fsys := remotefs.New(cas, tree, c.WD)
	wdNode, _ := lookup(c.Root, c.WD)
	if wdNode == nil {
		return nil
	}
	var expected []string
	collect(wdNode, "", func(n *lib.Node, rel string) {
		if rel != "" {
			expected = append(expected, rel)
		}
	})
	var tested iofs.FS = fsys
	if !c.Raw && (lib.Known("C29", "fstest-invalid-path-opened") || os.Getenv("VERIF_C29_VALIDATE") != "") {
		// known finding: Open/Stat accept names that are not fs.ValidPath. The wrapper supplies the missing
		// validation so that the rest of the conformance suite is still exercised.
		tested = validating{fsys}
		lib.Rec(spec).Excluded("fstest-invalid-path-opened")
	}
	if err := fstest.TestFS(tested, expected...); err != nil {
		msg := err.Error()
		return fail("fstest-"+fstestClass(msg), "testing/fstest.TestFS: %s", msg)
	}
	return nil
}

// validating rejects invalid names the way io/fs requires and otherwise delegates.
type validating struct{ fs *remotefs.CASFileSystem }

func (v validating) Open(name string) (iofs.File, error) {
	if !iofs.ValidPath(name) {
		return nil, &iofs.PathError{Op: "open", Path: name, Err: iofs.ErrInvalid}
	}
	return v.fs.Open(name)
}

func (v validating) Stat(name string) (iofs.FileInfo, error) {
	if !iofs.ValidPath(name) {
		return nil, &iofs.PathError{Op: "stat", Path: name, Err: iofs.ErrInvalid}
	}
	return v.fs.Stat(name)
}

// fstestClass maps the first complaint of fstest to a stable slug.
func fstestClass(msg string) string {
	lines := strings.Split(msg, "\n")
	first := msg
	for _, l := range lines {
		l = strings.TrimSpace(l)
		if l != "" && !strings.HasPrefix(l, "TestFS found errors") && !strings.HasPrefix(l, "testing fs.Sub") {
			first = l
			break
		}
	}
	switch {
	case strings.Contains(first, "ReadDir") && strings.Contains(first, "EOF"):
		return "readdir-eof"
	case strings.Contains(first, "ReadDir"):
		return "readdir"
	case strings.Contains(first, "Open(") && strings.Contains(first, "succeeded"):
		return "invalid-path-opened"
	case strings.Contains(first, "ModTime"):
		return "modtime"
	case strings.Contains(first, "mismatch"):
		return "mismatch"
	case strings.Contains(first, "Read"):
		return "read"
	case strings.Contains(first, "Seek"):
		return "seek"
	}
	return "other"
}

// ---- child worker ----------------------------------------------------------------------------------

const workerEnv = "VERIF_C29_WORKER"

func TestMain(m *testing.M) {
	if os.Getenv(workerEnv) != "" {
		workerMain()
		return
	}
	code := m.Run()
	stopWorker()
	lib.Flush()
	os.Exit(code)
}

func workerMain() {
	debug.SetMaxStack(64 << 20)
	in := bufio.NewReaderSize(os.Stdin, 1<<20)
	out := bufio.NewWriter(os.Stdout)
	for {
		line, err := in.ReadBytes('\n')
		if len(line) > 0 {
			var c Case
			v := verdict{}
			if jerr := json.Unmarshal(line, &c); jerr != nil {
				v = verdict{Class: "harness", Msg: "worker cannot decode case: " + jerr.Error()}
			} else {
				v = safeEvaluate(c)
			}
			b, _ := json.Marshal(v)
			out.Write(b)
			out.WriteByte('\n')
			out.Flush()
		}
		if err != nil {
			os.Exit(0)
		}
	}
}

func safeEvaluate(c Case) (v verdict) {
	defer func() {
		if r := recover(); r != nil {
			v = verdict{Class: "panic", Msg: fmt.Sprintf("panic: %v\n%s", r, debug.Stack())}
		}
	}()
	return evaluate(c)
}

type worker struct {
	cmd    *exec.Cmd
	stdin  io.WriteCloser
	stdout *bufio.Reader
	stderr *tailBuffer
}

type tailBuffer struct {
	mu  sync.Mutex
	buf []byte
}

func (t *tailBuffer) Write(p []byte) (int, error) {
	t.mu.Lock()
	defer t.mu.Unlock()
	t.buf = append(t.buf, p...)
	if len(t.buf) > 1<<16 { // keep head (the fatal error line) and tail
		t.buf = append(t.buf[:1<<12:1<<12], t.buf[len(t.buf)-(1<<12):]...)
	}
	return len(p), nil
}

func (t *tailBuffer) String() string {
	t.mu.Lock()
	defer t.mu.Unlock()
	return string(t.buf)
}

var theWorker *worker

func startWorker() (*worker, error) {
	exe, err := os.Executable()
	if err != nil {
		return nil, err
	}
	cmd := exec.Command(exe, "-test.run", "^$")
	cmd.Env = append(os.Environ(), workerEnv+"=1", "GOTRACEBACK=single", "VERIF_STATS_DIR=")
	stdin, err := cmd.StdinPipe()
	if err != nil {
		return nil, err
	}
	stdout, err := cmd.StdoutPipe()
	if err != nil {
		return nil, err
	}
	tb := &tailBuffer{}
	cmd.Stderr = tb
	if err := cmd.Start(); err != nil {
		return nil, err
	}
	return &worker{cmd: cmd, stdin: stdin, stdout: bufio.NewReaderSize(stdout, 1<<20), stderr: tb}, nil
}

func stopWorker() {
	if theWorker != nil {
		theWorker.stdin.Close()
		theWorker.cmd.Wait()
		theWorker = nil
	}
}

// inChild evaluates the case in the worker process. died=true means the worker was killed by the case.
func inChild(c Case) (v verdict, died bool, err error) {
	if theWorker == nil {
		w, err := startWorker()
		if err != nil {
			return verdict{}, false, err
		}
		theWorker = w
	}
	w := theWorker
	b, _ := json.Marshal(c)
	b = append(b, '\n')
	if _, werr := w.stdin.Write(b); werr != nil {
		// the worker is gone (it cannot have died of this case: it has not seen it) - restart once
		stopWorker()
		return verdict{}, false, fmt.Errorf("worker pipe: %v", werr)
	}
	line, rerr := w.stdout.ReadBytes('\n')
	if rerr != nil {
		werr := w.cmd.Wait()
		theWorker = nil
		msg := w.stderr.String()
		first := msg
		if i := strings.Index(msg, "\n\n"); i > 0 {
			first = msg[:i]
		}
		if len(first) > 600 {
			first = first[:600]
		}
		class := "crash"
		if strings.Contains(msg, "stack overflow") || strings.Contains(msg, "goroutine stack exceeds") {
			class = "crash-stack-overflow"
		}
		return verdict{Class: class, Msg: fmt.Sprintf("the process evaluating the case died (%v): %s", werr, first)}, true, nil
	}
	if jerr := json.Unmarshal(bytes.TrimSpace(line), &v); jerr != nil {
		return verdict{}, false, fmt.Errorf("worker reply: %v", jerr)
	}
	return v, false, nil
}

// ---- run ---------------------------------------------------------------------------------------------

// loopClass tells the known-finding machinery which narrow input shape a case has.
func hasLoop(c Case) bool {
	found := false
	collect(c.Root, "", func(n *lib.Node, p string) {
		if n.Link {
			if r := resolve(c.Root, p); r.err && r.why == "symlink loop" {
				found = true
			}
		}
	})
	return found
}

func run(c Case, o *lib.Obs) error {
	if c.Root == nil || !c.Root.Dir {
		return nil
	}
	files, dirs, links, empty, depth := lib.CountNodes(c.Root)
	_ = files
	o.LabelIf(links > 0, "symlinks")
	o.LabelIf(empty > 0, "empty_dir")
	o.LabelIf(depth >= 2, "depth2")
	o.LabelIf(c.WD != "" && c.WD != ".", "workdir")
	o.LabelIf(dirs > 1, "nested")
	o.NonTrivial(links > 0 || empty > 0 || depth >= 2)
	var v verdict
	if links > 0 {
		o.LabelIf(hasLoop(c), "loop")
		var died bool
		var err error
		for attempt := 0; attempt < 2; attempt++ {
			v, died, err = inChild(c)
			if err == nil {
				break
			}
		}
		if err != nil {
			return &lib.Inconclusive{Msg: "child worker unavailable: " + err.Error()}
		}
		_ = died
	} else {
		v = safeEvaluate(c)
		if v.Class == "" {
			if fv := fstestCheck(c); fv != nil {
				v = *fv
			}
			o.Label("fstest")
		}
	}
	for _, l := range v.Labels {
		o.Label(l)
	}
	if v.Class != "" {
		return lib.Failf(v.Class, "%s", v.Msg)
	}
	return nil
}

func TestC29(t *testing.T) {
	lib.Check(t, spec, lib.Scale(6000, 200000), gen, run)
}
