// C14: cleaning of the directory cache evicts only whole, unused entries and meets its bound.
package c14

import (
	"encoding/base64"
	"encoding/hex"
	"fmt"
	"os"
	"path/filepath"
	"strings"
	"testing"
	"time"

	"pgregory.net/rapid"

	"github.com/thought-machine/please/src/cache"
	"github.com/thought-machine/please/src/core"

	"verifharness/c12/cx"
	"verifharness/lib"
)

func TestMain(m *testing.M) { lib.Main(m) }

var spec = lib.Spec{
	ID: "C14",
	Rule: "generated cache directories: 0-14 entries over 3 packages (nested: a, a/b, c) x 3 target names x 4 keys (20 and 32 bytes), each written by the real Store of another cache object " +
		"(1-3 files of 0-6000 incompressible bytes, optionally in a sub-directory), access times set 0-20000 minutes back; compressed and uncompressed caches; optional stale `<key>=` temp entries (alone or next to an entry), " +
		"non-entry files and key-like names of the wrong kind; a marked set produced the real way (Store or Retrieve on the cache object that is then cleaned); " +
		"high/low water marks chosen at, one below and one above: 0, the unprotected total, the grand total, partial sums of entry sizes, and fractions. " +
		"Oracle after clean(high, low): (1) marked entries byte-identical; (2) every other entry is untouched or entirely gone, nothing new appears, non-entries untouched; " +
		"(3) if the unprotected total was >= high: afterwards the unprotected total is < low or no unprotected entry is left; if the grand total was < high nothing is removed; " +
		"(4) returned size = size clean attributes to what remains (walk sizes incl. directory inodes for unmarked, recorded sizes for marked). " +
		"Non-trivial = cleaning evicts >= 1 and keeps >= 1 entry, or a stale `<key>=` entry exists. distinct = case JSON",
	Assumptions: []string{
		"hysteresis as documented: cleaning starts only when the total is over the high-water mark; the bound is demanded only when the unprotected entries alone reach it",
		"eviction order (LRU by access time) is not part of the property and not checked: access times only vary the order",
		"no concurrent Store while cleaning (the property quantifies over histories and inputs, not schedules)",
	},
}

const classStaleSibling = "stale-temp-sibling"

var (
	pkgs  = []string{"a", "a/b", "c"}
	names = []string{"t", "b", "u"}
	keys  = []string{
		"000102030405060708090a0b0c0d0e0f10111213",
		"ff0102030405060708090a0b0c0d0e0f101112fb",
		"202122232425262728292a2b2c2d2e2f303132333435363738393a3b3c3d3e3f",
		"fffefdfcfbfaf9f8f7f6f5f4f3f2f1f0efeeedecebeae9e8e7e6e5e4e3e2e1e0",
	}
)

type entry struct {
	Pkg, Name, Key int    // indices
	Sizes          []int  // sizes of the output files
	SubDir         bool   `json:",omitempty"` // the last file lives in a sub-directory output
	AgeMin         int    // access time, minutes ago
	Mark           string `json:",omitempty"` // "" | "store" | "retrieve": touched by the cleaning process
	Tmp            string `json:",omitempty"` // "" | "sibling": a stale `<key>=` exists as well | "only": only the stale temp exists
}

type sel struct {
	Kind     string // "zero" | "unprotected" | "total" | "prefix" (sum of the first N unprotected entries) | "permille" (of total)
	N        int    `json:",omitempty"`
	Delta    int    `json:",omitempty"` // -1, 0, +1
	Permille int    `json:",omitempty"`
}

type c14Case struct {
	Compress bool
	Entries  []entry
	Junk     []string `json:",omitempty"` // relative paths of non-entry files to create ("/"-suffixed = directory)
	High     sel
	Low      sel
}

func genSel(t *rapid.T, label string) sel {
	s := sel{Kind: rapid.SampledFrom([]string{"zero", "unprotected", "total", "prefix", "prefix", "permille"}).Draw(t, label+"kind")}
	s.Delta = rapid.IntRange(-1, 1).Draw(t, label+"delta")
	switch s.Kind {
	case "prefix":
		s.N = rapid.IntRange(1, 8).Draw(t, label+"n")
	case "permille":
		s.Permille = rapid.IntRange(0, 1500).Draw(t, label+"permille")
	}
	return s
}

func gen(t *rapid.T) c14Case {
	c := c14Case{Compress: rapid.Bool().Draw(t, "compress")}
	n := rapid.IntRange(0, 14).Draw(t, "entries")
	seen := map[[3]int]bool{}
	for i := 0; i < n; i++ {
		e := entry{Pkg: rapid.IntRange(0, len(pkgs)-1).Draw(t, "pkg"), Name: rapid.IntRange(0, len(names)-1).Draw(t, "name"), Key: rapid.IntRange(0, len(keys)-1).Draw(t, "key")}
		k := [3]int{e.Pkg, e.Name, e.Key}
		if seen[k] {
			continue
		}
		seen[k] = true
		nf := rapid.IntRange(1, 3).Draw(t, "nfiles")
		for j := 0; j < nf; j++ {
			e.Sizes = append(e.Sizes, rapid.SampledFrom([]int{0, 1, 10, 100, 1000, 2500, 6000}).Draw(t, "size"))
		}
		e.SubDir = rapid.IntRange(0, 3).Draw(t, "subdir") == 0
		e.AgeMin = rapid.SampledFrom([]int{0, 1, 5, 9, 10, 11, 30, 600, 1440, 20000}).Draw(t, "age")
		e.Mark = rapid.SampledFrom([]string{"", "", "", "store", "retrieve"}).Draw(t, "mark")
		switch rapid.IntRange(0, 7).Draw(t, "tmp") {
		case 0:
			e.Tmp = "only"
			e.Mark = ""
		case 1:
			// a stale temp next to an entry this process has not touched (next to a marked one it is either
			// removed by the marking Store or, depending on the cache kind, protected or not: not modelled)
			if e.Mark == "" {
				e.Tmp = "sibling"
				if lib.Known("C14", classStaleSibling) {
					lib.Rec(spec).Excluded(classStaleSibling)
					e.Tmp = ""
				}
			}
		}
		c.Entries = append(c.Entries, e)
	}
	junk := []string{"README", "a/notes.txt", "a/b/t/not-a-key/", "a/b/t/not-a-key/file", "c/u/short=/", "c/u/short=/x",
		"c/t/AAECAwQFBgcICQoLDA0ODxAREhM", "a/t/wrongkind"}
	for _, j := range junk {
		if rapid.IntRange(0, 3).Draw(t, "junk") == 0 {
			c.Junk = append(c.Junk, j)
		}
	}
	c.High, c.Low = genSel(t, "high"), genSel(t, "low")
	return c
}

// ---- helpers -------------------------------------------------------------------------------------

func keyName(i int) string {
	b, _ := hex.DecodeString(keys[i])
	return base64.URLEncoding.EncodeToString(b)
}

func walkSize(path string) uint64 {
	var total uint64
	filepath.Walk(path, func(_ string, info os.FileInfo, err error) error {
		if err == nil {
			total += uint64(info.Size())
		}
		return nil
	})
	return total
}

// subtree returns the entries of a snapshot at or below rel.
func subtree(snap []lib.Entry, rel string) []lib.Entry {
	var out []lib.Entry
	for _, e := range snap {
		if e.Path == rel || strings.HasPrefix(e.Path, rel+"/") {
			out = append(out, e)
		}
	}
	return out
}

type liveEntry struct {
	rel       string // path relative to the cache dir
	marked    bool
	size      uint64 // size as measured by a walk before cleaning
	recorded  uint64 // marked only: the size clean attributes to it
	stale     bool
	hasSibTmp bool
}

func run(c c14Case, o *lib.Obs) error {
	dir, cleanup := lib.Scratch("c14-")
	defer cleanup()
	base := cx.Spec{Repo: filepath.Join(dir, "repo"), CacheDir: filepath.Join(dir, "cache"), Compress: c.Compress}
	suffix := ""
	if c.Compress {
		suffix = ".tar.gz"
	}
	if err := base.Enter(); err != nil {
		return &lib.Inconclusive{Msg: err.Error()}
	}
	writer := cache.NewCache(&core.BuildState{Config: base.Config()}) // "an earlier plz run"
	now := time.Now()

	type built struct {
		e      entry
		s      cx.Spec
		outs   []*lib.Node
		target *core.BuildTarget
	}
	var bs []built
	for i, e := range c.Entries {
		if e.Pkg < 0 || e.Pkg >= len(pkgs) || e.Name < 0 || e.Name >= len(names) || e.Key < 0 || e.Key >= len(keys) || len(e.Sizes) == 0 {
			continue
		}
		s := base
		s.Pkg, s.Name, s.Key = pkgs[e.Pkg], names[e.Name], keys[e.Key]
		var outs []*lib.Node
		for j, sz := range e.Sizes {
			f := &lib.Node{Name: fmt.Sprintf("%s_f%d", s.Name, j), Content: big(sz, i*7+j)}
			if e.SubDir && j == len(e.Sizes)-1 {
				f = &lib.Node{Name: s.Name + "_dir", Dir: true, Children: []*lib.Node{{Name: "inner", Content: big(sz, i*7+j)}}}
			}
			outs = append(outs, f)
		}
		s.Outs = cx.OutNames(outs)
		bs = append(bs, built{e, s, outs, s.Target()})
	}
	writeOuts := func(b built) error {
		// several targets share a package out dir: write this target's outputs without wiping the others'
		for _, out := range b.outs {
			p := filepath.Join(b.s.OutDir(), out.Name)
			os.RemoveAll(p)
			if err := os.MkdirAll(filepath.Dir(p), 0o755); err != nil {
				return err
			}
			if err := lib.Materialize(out, p); err != nil {
				return err
			}
		}
		return nil
	}
	entryRel := func(b built) string { return filepath.Join(b.s.Pkg, b.s.Name, keyName(b.e.Key)) + suffix }
	tmpRel := func(b built) string { return filepath.Join(b.s.Pkg, b.s.Name, keyName(b.e.Key)) + "=" + suffix }
	makeStale := func(rel string, seed int) error {
		p := filepath.Join(base.CacheDir, rel)
		if c.Compress {
			if err := os.MkdirAll(filepath.Dir(p), 0o755); err != nil {
				return err
			}
			return os.WriteFile(p, []byte(big(300+seed%500, seed)), 0o644)
		}
		return lib.Materialize(&lib.Node{Dir: true, Children: []*lib.Node{{Name: "partial", Content: big(200+seed%700, seed)}}}, p)
	}
	for i, b := range bs {
		if b.e.Tmp != "only" {
			if err := writeOuts(b); err != nil {
				return &lib.Inconclusive{Msg: err.Error()}
			}
			writer.Store(b.target, b.s.KeyBytes(), b.s.Outs)
			if _, err := os.Lstat(filepath.Join(base.CacheDir, entryRel(b))); err != nil {
				return &lib.Inconclusive{Msg: "set-up store left no entry: " + err.Error()}
			}
		}
		if b.e.Tmp != "" {
			if err := makeStale(tmpRel(b), i); err != nil {
				return &lib.Inconclusive{Msg: err.Error()}
			}
		}
	}
	for _, j := range c.Junk {
		p := filepath.Join(base.CacheDir, strings.TrimSuffix(j, "/"))
		if _, err := os.Lstat(p); err == nil {
			continue
		}
		os.MkdirAll(filepath.Dir(p), 0o755)
		if strings.HasSuffix(j, "/") {
			os.MkdirAll(p, 0o755)
		} else if strings.HasSuffix(j, "wrongkind") {
			// a key-like name of the wrong kind: a file in a plain cache, a directory in a compressed one
			p = filepath.Join(filepath.Dir(p), keyName(1)+suffix)
			if _, err := os.Lstat(p); err == nil {
				continue
			}
			if c.Compress {
				os.MkdirAll(filepath.Join(p, "x"), 0o755)
			} else {
				os.WriteFile(p, []byte("not an entry"), 0o644)
			}
		} else {
			os.WriteFile(p, []byte("junk "+j), 0o644)
		}
	}
	// access times (order of eviction only)
	for _, b := range bs {
		at := now.Add(-time.Duration(b.e.AgeMin) * time.Minute)
		for _, rel := range []string{entryRel(b), tmpRel(b)} {
			os.Chtimes(filepath.Join(base.CacheDir, rel), at, at)
		}
	}

	// the process whose cleaner runs: marks entries the real way
	cleaner := cache.NewCache(&core.BuildState{Config: base.Config()})
	var live []liveEntry
	for _, b := range bs {
		rel := entryRel(b)
		abs := filepath.Join(base.CacheDir, rel)
		marked := false
		var recorded uint64
		if b.e.Tmp != "only" {
			switch b.e.Mark {
			case "store":
				if err := writeOuts(b); err != nil {
					return &lib.Inconclusive{Msg: err.Error()}
				}
				cleaner.Store(b.target, b.s.KeyBytes(), b.s.Outs)
				marked = true
				if c.Compress {
					recorded = walkSize(abs)
				} else {
					for _, out := range b.s.Outs {
						recorded += walkSize(filepath.Join(abs, out))
					}
				}
			case "retrieve":
				if !cleaner.Retrieve(b.target, b.s.KeyBytes(), b.s.Outs) {
					return lib.Failf("miss-after-store", "set-up: Retrieve of %s misses right after its Store", rel)
				}
				marked = true // recorded size 0
			}
		}
		if b.e.Tmp != "only" {
			live = append(live, liveEntry{rel: rel, marked: marked, recorded: recorded, hasSibTmp: b.e.Tmp == "sibling"})
		}
		if b.e.Tmp != "" {
			// a marked entry's `<key>=` is protected with it (markDir marks both names)
			live = append(live, liveEntry{rel: tmpRel(b), marked: marked, recorded: recorded, stale: true})
		}
	}
	// a Store by the cleaner removes a stale sibling temp of that entry (it is its own temp dir)
	kept := live[:0]
	for _, l := range live {
		if _, err := os.Lstat(filepath.Join(base.CacheDir, l.rel)); err == nil {
			kept = append(kept, l)
		}
	}
	live = kept
	before, err := lib.Snapshot(base.CacheDir)
	if err != nil {
		return &lib.Inconclusive{Msg: err.Error()}
	}
	var unprot, total uint64
	var unprotSizes []uint64
	for i := range live {
		live[i].size = walkSize(filepath.Join(base.CacheDir, live[i].rel))
		total += live[i].size
		if !live[i].marked {
			unprot += live[i].size
			unprotSizes = append(unprotSizes, live[i].size)
		}
	}
	resolve := func(s sel) uint64 {
		var v int64
		switch s.Kind {
		case "unprotected":
			v = int64(unprot)
		case "total":
			v = int64(total)
		case "prefix":
			for i := 0; i < s.N && i < len(unprotSizes); i++ {
				v += int64(unprotSizes[i])
			}
		case "permille":
			v = int64(total) * int64(s.Permille) / 1000
		}
		v += int64(s.Delta)
		if v < 0 {
			v = 0
		}
		return uint64(v)
	}
	high, low := resolve(c.High), resolve(c.Low)
	if low > high {
		low = high
	}

	returned := cache.VerifDirCacheClean(cleaner, high, low)

	after, err := lib.Snapshot(base.CacheDir)
	if err != nil {
		return lib.Failf("cache-unreadable", "after clean: %v", err)
	}
	where := fmt.Sprintf("clean(high=%d, low=%d) on %d entries (total %d, unprotected %d, compress=%v)", high, low, len(live), total, unprot, c.Compress)
	staleShape := false
	for _, l := range live {
		if l.hasSibTmp && !l.marked {
			staleShape = true
		}
	}
	class := func(k string) string {
		if staleShape {
			return classStaleSibling
		}
		return k
	}
	// (1) + (2): per entry all-or-nothing, marked untouched
	isEntryPath := func(p string) bool {
		for _, l := range live {
			if p == l.rel || strings.HasPrefix(p, l.rel+"/") {
				return true
			}
		}
		return false
	}
	var evicted, survivors int
	var unprotAfter, attributed uint64
	for _, l := range live {
		b, a := subtree(before, l.rel), subtree(after, l.rel)
		switch {
		case len(a) == 0 && l.marked:
			return lib.Failf("marked-entry-removed", "%s: entry %s was stored/retrieved by this process but has been removed", where, l.rel)
		case len(a) == 0:
			evicted++
		default:
			if d := lib.DiffEntries(b, a, lib.DiffOpts{}); d != "" {
				k := "entry-partially-removed"
				if l.marked {
					k = "marked-entry-changed"
				}
				return lib.Failf(k, "%s: entry %s changed (first = before):\n%s", where, l.rel, cut(d))
			}
			survivors++
			if l.marked {
				attributed += l.recorded
			} else {
				unprotAfter += l.size
				attributed += l.size
			}
		}
	}
	var nonEntryBefore, nonEntryAfter []lib.Entry
	for _, e := range before {
		if !isEntryPath(e.Path) {
			nonEntryBefore = append(nonEntryBefore, e)
		}
	}
	for _, e := range after {
		if !isEntryPath(e.Path) {
			nonEntryAfter = append(nonEntryAfter, e)
		}
	}
	if d := lib.DiffEntries(nonEntryBefore, nonEntryAfter, lib.DiffOpts{}); d != "" {
		return lib.Failf(class("non-entry-changed"), "%s: paths that are not cache entries changed (first = before):\n%s", where, cut(d))
	}
	// (3) bound
	unprotLeft := 0
	for _, l := range live {
		if !l.marked && len(subtree(after, l.rel)) > 0 {
			unprotLeft++
		}
	}
	if total < high && evicted > 0 {
		return lib.Failf("evicted-below-high-water-mark", "%s: the total is below the high-water mark but %d entries were removed", where, evicted)
	}
	if unprot >= high && !(unprotAfter < low || unprotLeft == 0) {
		return lib.Failf(class("bound-not-met"), "%s: afterwards %d unprotected entries with %d bytes remain (not < low)", where, unprotLeft, unprotAfter)
	}
	// (4) returned size
	if returned != attributed {
		return lib.Failf(class("returned-size-wrong"), "%s: clean returned %d but what remains accounts for %d (unmarked by walk size, marked by recorded size)", where, returned, attributed)
	}
	nStale := 0
	for _, l := range live {
		if l.stale {
			nStale++
		}
	}
	o.LabelIf(c.Compress, "compressed")
	o.LabelIf(evicted > 0, "evicted_some")
	o.LabelIf(evicted > 0 && survivors > 0, "evicted_some_kept_some")
	o.LabelIf(nStale > 0, "stale_tmp")
	o.LabelIf(staleShape, "stale_sibling_of_unmarked")
	o.LabelIf(unprot >= high, "bound_demanded")
	o.LabelIf(total < high, "below_high")
	o.LabelIf(len(c.Junk) > 0, "junk")
	marked := 0
	for _, l := range live {
		if l.marked {
			marked++
		}
	}
	o.LabelIf(marked > 0, "has_marked")
	o.NonTrivial((evicted > 0 && survivors > 0) || nStale > 0)
	o.Sample(map[string]any{"compress": c.Compress, "entries": len(live), "marked": marked, "stale_tmp": nStale, "total": total, "unprotected": unprot,
		"high": high, "low": low, "evicted": evicted, "returned": returned})
	return nil
}

func cut(d string) string {
	lines := strings.Split(d, "\n")
	for i, l := range lines {
		if len(l) > 160 {
			lines[i] = l[:160] + fmt.Sprintf("… (%d bytes)", len(l))
		}
	}
	return strings.Join(lines, "\n")
}

var bigCache = map[[2]int]string{}

// big returns n incompressible bytes (salted).
func big(n, salt int) string {
	if n == 0 {
		return ""
	}
	k := [2]int{n, salt}
	if s, ok := bigCache[k]; ok {
		return s
	}
	s := cx.BigContent(n/1024+1, salt%250)[:n]
	bigCache[k] = s
	return s
}

func TestC14(t *testing.T) {
	cx.Quiet()
	lib.Check(t, spec, lib.Scale(1200, 100000), gen, run)
}
