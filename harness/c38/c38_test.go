// C38: `plz fmt` never changes what a BUILD file means.
package c38

import (
	"bytes"
	"encoding/json"
	"fmt"
	"os"
	"path/filepath"
	"sort"
	"strings"
	"sync"
	"testing"

	"github.com/thought-machine/please/src/core"
	"github.com/thought-machine/please/src/format"
	"pgregory.net/rapid"

	"verifharness/lib"
	"verifharness/lib/aspenv"
)

func TestMain(m *testing.M) { lib.Main(m) }

var spec = lib.Spec{
	ID: "C38",
	Rule: "generated BUILD files: 2-9 top-level statements (typed so that they evaluate: assignments of int/str/bool/list/dict expressions, augmented and index assignment, unpacking, if/elif/else, for with continue/break, assert, def with type annotations / aliases / docstrings, calls of those functions, " +
		"filegroup/genrule/build_rule/text_file/gentest calls with shuffled named arguments) using plz-specific surface: adjacent string literals, f-strings, raw strings, single/triple quotes, escapes, %-format, .format, join, comprehensions, inline if, dict union, 1-3 (consecutive or merged) subinclude() of build_defs files that define overlapping names, " +
		"with layout noise (comments between/inside/after statements, blank lines, 2/4/8-space blocks, tight or loose operators, single-line / multi-line / trailing-comma lists and calls, missing final newline). " +
		"Only files the asp interpreter accepts are used. Oracle (metamorphic, in-process): format.Format rewrites the file; the result is accepted by asp; JSON of the package's global values and the attributes of every created target (srcs, named srcs, data, outs, tools, labels, cmd, test fields, flags... in order; deps and visibility as sets) are identical before/after; formatting the result again changes nothing. " +
		"Non-trivial = formatting changed the bytes and the file uses >= 1 plz-specific construct; distinct = file text",
	Assumptions: []string{
		"a file that format.Format refuses (buildtools cannot parse it, e.g. argument aliases) is left unchanged by plz fmt and counts as held",
		"docstrings and comments are not part of a file's meaning",
	},
}

// Case is one generated file.
type Case struct {
	Src  string
	Defs []string `json:",omitempty"`
	Feat []string `json:",omitempty"`
}

var plzSpecific = map[string]bool{
	"adjacent_literals": true, "fstring": true, "raw_string": true, "type_annotation": true, "arg_alias": true, "comprehension": true,
	"inline_if": true, "dict_union": true, "subinclude": true, "consecutive_subincludes": true, "non_adjacent_subinclude": true, "percent_format": true, "dot_format": true, "join": true,
	"rule_call": true, "non_canonical_quotes": true, "docstring": true,
}

func opts() Opts {
	rec := lib.Rec(spec)
	_ = rec
	return Opts{
		NoSortableLiteralLists: lib.Known("C38", "sortable-list-reordered"),
		NoReinterpretedEscapes: lib.Known("C38", "escape-reinterpreted"),
		NoOddComments:          lib.Known("C38", "odd-comment-indentation"),
		NoBareIs:               lib.Known("C38", "is-operator-precedence"),
	}
}

func genCase(t *rapid.T) Case {
	p := genProgram(t, opts())
	rec := lib.Rec(spec)
	for class, n := range p.Excluded {
		for i := 0; i < n; i++ {
			rec.Excluded(class)
		}
	}
	return Case{Src: p.Src, Defs: p.Defs, Feat: p.Features}
}

var (
	envOnce sync.Once
	env     *aspenv.Env
	envErr  error
	fmtDir  string
	cfg     *core.Configuration
)

func setup() error {
	envOnce.Do(func() {
		base := os.Getenv("VERIF_SCRATCH")
		if base == "" {
			base, envErr = os.MkdirTemp("", "c38-")
			if envErr != nil {
				return
			}
		}
		root := filepath.Join(base, "root")
		env, envErr = aspenv.New(root)
		fmtDir = filepath.Join(base, "fmt")
		os.MkdirAll(fmtDir, 0o755)
		cfg = core.DefaultConfiguration()
	})
	return envErr
}

// fmtText runs the formatter the way `plz fmt -w` does.
func fmtText(src string) (string, error) {
	p := filepath.Join(fmtDir, "BUILD")
	if err := os.WriteFile(p, []byte(src), 0o644); err != nil {
		return "", err
	}
	if _, err := format.Format(cfg, []string{p}, true, true); err != nil {
		return "", err
	}
	b, err := os.ReadFile(p)
	return string(b), err
}

func inputs(in []core.BuildInput) []string {
	out := make([]string, 0, len(in))
	for _, i := range in {
		out = append(out, i.String())
	}
	return out
}

func namedInputs(m map[string][]core.BuildInput) map[string][]string {
	if len(m) == 0 {
		return nil
	}
	out := map[string][]string{}
	for k, v := range m {
		out[k] = inputs(v)
	}
	return out
}

func labels(ls []core.BuildLabel) []string {
	out := make([]string, 0, len(ls))
	for _, l := range ls {
		out = append(out, l.String())
	}
	return out
}

// sorted: the order of these label sets carries no meaning (dependencies, visibility).
func sorted(ss []string) []string {
	sort.Strings(ss)
	return ss
}

// dumpTargets serialises the attributes of every target of the package (JSON, keys sorted).
func dumpTargets(pkg *core.Package, pkgName string) (string, int) {
	ts := pkg.AllTargets()
	sort.Slice(ts, func(i, j int) bool { return ts[i].Label.String() < ts[j].Label.String() })
	all := []map[string]any{}
	for _, t := range ts {
		m := map[string]any{
			"label": t.Label.String(), "srcs": inputs(t.Sources), "named_srcs": namedInputs(t.NamedSources), "data": inputs(t.Data), "named_data": namedInputs(t.NamedData),
			"outs": t.DeclaredOutputs(), "named_outs": t.DeclaredNamedOutputs(), "optional_outs": t.OptionalOutputs, "deps": sorted(labels(t.DeclaredDependencies())),
			"exported_deps": sorted(labels(t.ExportedDependencies())), "labels": t.Labels, "cmd": t.Command, "cmds": t.Commands, "tools": inputs(t.AllTools()), "named_tools": namedInputs(t.AllNamedTools()),
			"visibility": sorted(labels(t.Visibility)), "requires": t.Requires, "provides": fmt.Sprint(t.Provides), "env": t.Env, "content": t.FileContent, "binary": t.IsBinary, "test_only": t.TestOnly,
			"filegroup": t.IsFilegroup, "text_file": t.IsTextFile, "secrets": t.Secrets, "licences": t.Licences, "hashes": t.Hashes, "building_description": t.BuildingDescription,
			"output_is_complete": t.OutputIsComplete, "sandbox": t.Sandbox, "local": t.Local, "stamp": t.Stamp, "needs_transitive_deps": t.NeedsTransitiveDependencies,
			"build_timeout": t.BuildTimeout.String(), "entry_points": t.EntryPoints, "exit_on_error": t.ExitOnError,
		}
		if t.PassEnv != nil {
			m["pass_env"] = *t.PassEnv
		}
		if t.Test != nil {
			m["test"] = map[string]any{"cmd": t.Test.Command, "cmds": t.Test.Commands, "timeout": t.Test.Timeout.String(), "outputs": t.Test.Outputs, "flaky": t.Test.Flakiness,
				"sandbox": t.Test.Sandbox, "no_output": t.Test.NoOutput, "no_coverage": t.Test.NoCoverage}
		}
		all = append(all, m)
	}
	b, _ := json.Marshal(all)
	return strings.ReplaceAll(string(b), "//"+pkgName+":", "//PKG:"), len(ts)
}

type evalResult struct {
	globals string
	targets string
	ntarget int
}

func eval(pkgName, src string) (*evalResult, error) {
	vs, pkg, err := env.EvalBuild(pkgName, src)
	if err != nil {
		return nil, err
	}
	g, err := vs.Globals()
	if err != nil {
		return nil, fmt.Errorf("globals cannot be serialised: %w", err)
	}
	ts, n := dumpTargets(pkg, pkgName)
	return &evalResult{globals: strings.ReplaceAll(string(g), pkgName, "PKG"), targets: ts, ntarget: n}, nil
}

func firstDiff(a, b string) string {
	i := 0
	for i < len(a) && i < len(b) && a[i] == b[i] {
		i++
	}
	lo := i - 80
	if lo < 0 {
		lo = 0
	}
	cut := func(s string) string {
		hi := i + 120
		if hi > len(s) {
			hi = len(s)
		}
		if lo > len(s) {
			return ""
		}
		return s[lo:hi]
	}
	return fmt.Sprintf("before: ...%s...\nafter:  ...%s...", cut(a), cut(b))
}

func jsonEqual(a, b string) bool {
	if a == b {
		return true
	}
	var x, y any
	if json.Unmarshal([]byte(a), &x) != nil || json.Unmarshal([]byte(b), &y) != nil {
		return false
	}
	ca, _ := json.Marshal(x)
	cb, _ := json.Marshal(y)
	return bytes.Equal(ca, cb)
}

func run(c Case, o *lib.Obs) error {
	if err := setup(); err != nil {
		return &lib.Inconclusive{Msg: "cannot set up the interpreter: " + err.Error()}
	}
	src := c.Src
	for i, d := range c.Defs {
		label, _, err := env.AddDefs(d)
		if err != nil {
			return &lib.Inconclusive{Msg: err.Error()}
		}
		src = strings.ReplaceAll(src, fmt.Sprintf("//defs:DEFS%d", i), label)
	}
	o.Key(c.Src)
	o.Sample(map[string]any{"file": c.Src, "features": c.Feat})
	specific := false
	for _, f := range c.Feat {
		o.Label("f_" + f)
		if plzSpecific[f] {
			specific = true
		}
	}
	seq := env.Seq()
	pa, pb := fmt.Sprintf("c38p%da", seq), fmt.Sprintf("c38p%db", seq)
	before, err := eval(pa, src)
	if err != nil {
		o.Label("rejected_before_formatting")
		return nil
	}
	o.Label("accepted")
	o.LabelIf(before.ntarget > 0, "has_targets")
	formatted, err := fmtText(src)
	if err != nil {
		o.Label("fmt_refused")
		return nil
	}
	changed := formatted != src
	o.LabelIf(changed, "fmt_changed_bytes")
	o.NonTrivial(changed && specific)
	after, err := eval(pb, formatted)
	if err != nil {
		class := "formatted-rejected"
		if strings.Contains(formatted, "\\\n") && strings.Contains(err.Error(), `Unknown symbol \`) {
			class = "formatted-rejected-backslash-continuation"
		}
		return lib.Failf(class, "plz accepts the file but rejects its formatted version: %v\n--- original ---\n%s\n--- formatted ---\n%s", err, src, formatted)
	}
	if !jsonEqual(before.globals, after.globals) {
		return lib.Failf(classify(src, formatted, "globals-differ"), "global values differ after formatting\n%s\n--- original ---\n%s\n--- formatted ---\n%s", firstDiff(before.globals, after.globals), src, formatted)
	}
	if before.targets != after.targets {
		class := classify(src, formatted, "targets-differ")
		if class == "targets-differ" && canonLists(before.targets) == canonLists(after.targets) {
			class = "sortable-list-reordered" // the only differences are the order / duplicates of list attributes
		}
		return lib.Failf(class, "target attributes differ after formatting\n%s\n--- original ---\n%s\n--- formatted ---\n%s", firstDiff(before.targets, after.targets), src, formatted)
	}
	again, err := fmtText(formatted)
	if err != nil {
		return lib.Failf("reformat-refused", "the formatter refuses its own output: %v\n%s", err, formatted)
	}
	if again != formatted {
		return lib.Failf("not-idempotent", "formatting the formatted file changes it again\n--- first ---\n%s\n--- second ---\n%s", formatted, again)
	}
	return nil
}

// classify recognises the shapes behind listed findings so that they are reported under their own class.
func classify(src, formatted, dflt string) string {
	nonASCII := false
	for i := 0; i < len(src); i++ {
		if src[i] >= 0x80 {
			nonASCII = true
		}
	}
	switch {
	case strings.Contains(formatted, " is (") && !strings.Contains(src, " is ("):
		return "is-operator-precedence"
	case nonASCII || strings.Contains(src, `\x41`) || strings.Contains(src, `\101`) || strings.Contains(src, `\1`) || strings.Contains(src, `\0`):
		return "escape-reinterpreted"
	}
	return dflt
}

// canonLists sorts and de-duplicates every list of strings in a JSON document.
func canonLists(doc string) string {
	var v any
	if json.Unmarshal([]byte(doc), &v) != nil {
		return doc
	}
	var walk func(x any) any
	walk = func(x any) any {
		switch t := x.(type) {
		case map[string]any:
			for k, e := range t {
				t[k] = walk(e)
			}
			return t
		case []any:
			allStr := true
			for i, e := range t {
				t[i] = walk(e)
				if _, ok := e.(string); !ok {
					allStr = false
				}
			}
			if allStr && len(t) > 1 {
				ss := make([]string, len(t))
				for i, e := range t {
					ss[i] = e.(string)
				}
				sort.Strings(ss)
				out := []any{}
				for i, s := range ss {
					if i == 0 || s != ss[i-1] {
						out = append(out, s)
					}
				}
				return out
			}
			return t
		}
		return x
	}
	b, _ := json.Marshal(walk(v))
	return string(b)
}

func TestC38(t *testing.T) {
	lib.Check(t, spec, lib.Scale(600, 300000), genCase, run)
}
