package c38

import (
	"fmt"
	"sort"
	"strings"

	"pgregory.net/rapid"
)

// uni draws an approximately uniform integer in [0, n) (rapid's own integer generators are strongly
// biased towards small values for ranges wider than a few bits).
func uni(t *rapid.T, n int, label string) int {
	if n <= 1 {
		return 0
	}
	if n <= 8 {
		return rapid.IntRange(0, n-1).Draw(t, label)
	}
	v, span := 0, 1
	for span < n*4 {
		v = v*8 + rapid.IntRange(0, 7).Draw(t, label)
		span *= 8
	}
	return v % n
}

// Opts switches off, by construction, input shapes behind listed known findings.
type Opts struct {
	NoSortableLiteralLists bool // multi-element literal lists in arguments buildifier sorts (srcs, deps, tools, ...)
	NoReinterpretedEscapes bool // non-ASCII characters, \x.., \ooo, \u.... in plain string literals
	NoBareIs               bool // `x is y` used as an operand without parentheses
	NoOddComments          bool // comment lines indented differently from the block they are in
}

type vtype int

const (
	tInt vtype = iota
	tStr
	tBool
	tList // list of str
	tDict // dict str -> str
)


type gen struct {
	t     *rapid.T
	o     Opts
	out   []string
	vars  map[vtype][]string
	fns   []string
	rules []string
	feats map[string]bool
	seq   int
	excl  map[string]int
	defs  []string
}

func (g *gen) n(k int, l string) int { return uni(g.t, k, l) }
func (g *gen) chance(pct int, l string) bool {
	return uni(g.t, 100, l) < pct
}
func (g *gen) feat(f string) { g.feats[f] = true }
func (g *gen) pick(xs []string, l string) string {
	return xs[g.n(len(xs), l)]
}

func (g *gen) fresh(prefix string) string {
	g.seq++
	return fmt.Sprintf("%s%d", prefix, g.seq)
}

// ---- strings ---------------------------------------------------------------------------------------

var plainBodies = []string{"a", "abc", "hello world", "x.go", "//pkg:target", ":local", "a-b_c", "", "UPPER", "with space ", "50%", "a,b;c", "path/to/file.txt", "$(location :x)", "#notacomment", "key=value"}

// bodies given as source text between the quotes (already escaped for the given quote)
func (g *gen) strBody(q string, raw bool) string {
	switch k := g.n(14, "sbk"); {
	case k < 7:
		return g.pick(plainBodies, "sb")
	case k == 7:
		g.feat("escape")
		if raw {
			return `a\d+\.b`
		}
		return g.pick([]string{`line\nnext`, `tab\there`, `back\\slash`, `dollar \$X`, `unknown \q \e`, `cr\r`, `\\\\`}, "sbe")
	case k == 8:
		g.feat("quote_in_string")
		if strings.HasPrefix(q, `"`) {
			if raw {
				return `it's`
			}
			return g.pick([]string{`it's`, `say \"hi\"`, `both ' and \"`}, "sbq")
		}
		if raw {
			return `say "hi"`
		}
		return g.pick([]string{`say "hi"`, `it\'s`, `both \' and "`}, "sbq")
	case k == 9:
		if g.o.NoReinterpretedEscapes {
			g.excl["escape-reinterpreted"]++
			return "plain"
		}
		g.feat("non_ascii_or_numeric_escape")
		if raw {
			return "é"
		}
		return g.pick([]string{"é", "naïve ✓", `\x41`, `\101`, `\1`, `\0`, `é`}, "sbu")
	case k == 10:
		return g.pick([]string{"{", "}", "{}", "{x}", "${X}", "{{}}"}, "sbb")
	case k == 11 && len(q) == 3:
		g.feat("multiline_string")
		return g.pick([]string{"first\nsecond", "a\n  indented\nb", "trailing\n"}, "sbm")
	default:
		return g.pick(plainBodies, "sb")
	}
}

func (g *gen) quoteStyle() string {
	return g.pick([]string{`"`, `"`, `"`, `'`, `'`, `"""`, `'''`}, "q")
}

// strLit renders one plain (or raw) string literal.
func (g *gen) strLit() string {
	q := g.quoteStyle()
	raw := g.chance(12, "raw")
	b := g.strBody(q, raw)
	if len(q) == 1 && strings.Contains(b, "\n") {
		q = strings.Repeat(q, 3)
	}
	if raw && (strings.HasSuffix(b, `\`) || strings.Contains(b, q[:1])) {
		raw = false
		b = "abc"
	}
	if q != `"` {
		g.feat("non_canonical_quotes")
	}
	if raw {
		g.feat("raw_string")
		return "r" + q + b + q
	}
	return q + b + q
}

// fString renders an f-string over variables in scope.
func (g *gen) fString() string {
	g.feat("fstring")
	q := g.pick([]string{`"`, `'`}, "fq")
	var sb strings.Builder
	sb.WriteString("f" + q)
	n := 1 + g.n(3, "fn")
	for i := 0; i < n; i++ {
		sb.WriteString(g.pick([]string{"", "a", "-", " x ", "{{", "}}", "${", "$", "%", "//p:"}, "fpre"))
		cands := append(append([]string{}, g.vars[tStr]...), g.vars[tInt]...)
		if len(cands) > 0 {
			sb.WriteString("{" + g.pick(cands, "fv") + "}")
		}
	}
	sb.WriteString(g.pick([]string{"", ".txt", " end"}, "fsuf"))
	sb.WriteString(q)
	return sb.String()
}

// adjacent renders 2-3 adjacent literals (implicit concatenation).
func (g *gen) adjacent() string {
	g.feat("adjacent_literals")
	n := 2 + g.n(2, "adjn")
	var parts []string
	for i := 0; i < n; i++ {
		if g.chance(30, "adjf") {
			parts = append(parts, g.fString())
		} else {
			parts = append(parts, g.strLit())
		}
	}
	return strings.Join(parts, g.pick([]string{" ", " ", "  "}, "adjsep"))
}

func (g *gen) varOr(ty vtype, lit func() string) string {
	if vs := g.vars[ty]; len(vs) > 0 && g.chance(55, "usevar") {
		return g.pick(vs, "var")
	}
	return lit()
}

func (g *gen) sp() string { return g.pick([]string{" ", " ", " ", ""}, "sp") }

func (g *gen) strExpr(d int) string {
	if d <= 0 {
		return g.varOr(tStr, g.strLit)
	}
	switch g.n(15, "sek") {
	case 0, 1:
		return g.strLit()
	case 2:
		return g.varOr(tStr, g.strLit)
	case 3:
		return g.fString()
	case 4:
		return g.adjacent()
	case 5:
		s := g.sp()
		return g.strExpr(d-1) + s + "+" + s + g.strExpr(d-1)
	case 6:
		g.feat("percent_format")
		return `"%s-%s" % (` + g.strExpr(d-1) + ", " + g.intExpr(d-1) + ")"
	case 7:
		g.feat("dot_format")
		return g.pick([]string{`"{a}/{b}"`, `'{a}:{b}'`}, "fmtlit") + ".format(a" + g.sp() + "=" + g.sp() + g.strExpr(d-1) + ", b=" + g.intExpr(d-1) + ")"
	case 8:
		return "(" + g.strExpr(d-1) + ")." + g.pick([]string{"upper()", "lower()", "strip()", `replace("a", "b")`, `lstrip("/")`}, "smeth")
	case 9:
		g.feat("join")
		return g.pick([]string{`" "`, `","`, `''`, `"/"`}, "joinsep") + ".join(" + g.listExpr(d-1) + ")"
	case 10:
		g.feat("inline_if")
		return g.strExpr(d-1) + " if " + g.boolExpr(d-1) + " else " + g.strExpr(d-1)
	case 11:
		g.feat("parens")
		return "(" + g.strExpr(d-1) + ")"
	case 12:
		if len(g.fns) > 0 {
			g.feat("call_user_function")
			f := g.pick(g.fns, "fn")
			args := g.strExpr(d - 1)
			if strings.Contains(args, " if ") {
				args = "(" + args + ")"
			}
			if g.chance(50, "fnkw") {
				args += "," + g.sp() + "b" + g.sp() + "=" + g.sp() + g.listExpr(d-1)
			}
			return f + "(" + args + ")"
		}
		return g.strLit()
	case 13:
		if vs := g.vars[tDict]; len(vs) > 0 {
			return g.pick(vs, "dv") + `.get("k1", ` + g.strLit() + ")"
		}
		return g.strLit()
	default:
		return "str(" + g.intExpr(d-1) + ")"
	}
}

func (g *gen) intLit() string {
	switch g.n(8, "ilk") {
	case 0:
		return "0"
	case 1:
		return "-" + fmt.Sprint(1+g.n(9, "neg"))
	case 2:
		g.feat("octal")
		return "0o17"
	case 3:
		g.feat("legacy_octal")
		return "017"
	default:
		return fmt.Sprint(g.n(1000, "int"))
	}
}

func (g *gen) intExpr(d int) string {
	if d <= 0 {
		return g.varOr(tInt, g.intLit)
	}
	switch g.n(9, "iek") {
	case 0, 1:
		return g.intLit()
	case 2:
		return g.varOr(tInt, g.intLit)
	case 3:
		s := g.sp()
		return g.intExpr(d-1) + s + g.pick([]string{"+", "*"}, "iop") + s + g.intExpr(d-1)
	case 4:
		return g.intExpr(d-1) + " - " + g.intExpr(d-1)
	case 5:
		return "(" + g.intExpr(d-1) + ")" + g.sp() + g.pick([]string{"//", "%"}, "idiv") + g.sp() + fmt.Sprint(1+g.n(7, "div"))
	case 6:
		return "len(" + g.listExpr(d-1) + ")"
	case 7:
		g.feat("unary_minus")
		return g.pick([]string{"-", "- "}, "um") + "(" + g.intExpr(d-1) + ")"
	default:
		g.feat("inline_if")
		return "(" + g.intExpr(d-1) + " if " + g.boolExpr(d-1) + " else " + g.intExpr(d-1) + ")"
	}
}

func (g *gen) boolExpr(d int) string {
	if d <= 0 {
		return g.varOr(tBool, func() string { return g.pick([]string{"True", "False"}, "bl") })
	}
	switch g.n(9, "bek") {
	case 0:
		return g.pick([]string{"True", "False"}, "bl")
	case 1:
		return g.varOr(tBool, func() string { return "True" })
	case 2:
		s := g.sp()
		return g.intExpr(d-1) + s + g.pick([]string{"==", "!=", "<", ">=", "<=", ">"}, "cmp") + s + g.intExpr(d-1)
	case 3:
		return g.strExpr(d-1) + " " + g.pick([]string{"==", "!="}, "scmp") + " " + g.strExpr(d-1)
	case 4:
		return g.strLit() + " " + g.pick([]string{"in", "not in"}, "inop") + " " + g.listExpr(d-1)
	case 5:
		return g.boolExpr(d-1) + " " + g.pick([]string{"and", "or"}, "lop") + " " + g.boolExpr(d-1)
	case 6:
		return "not " + "(" + g.boolExpr(d-1) + ")"
	case 7:
		return "(" + g.strExpr(d-1) + ").startswith(" + g.strLit() + ")"
	default:
		e := g.varOr(tStr, g.strLit) + " " + g.pick([]string{"is None", "is not None"}, "isn")
		if g.o.NoBareIs {
			g.excl["is-operator-precedence"]++
			return "(" + e + ")"
		}
		g.feat("bare_is")
		return e
	}
}

// listLit renders a literal list with layout noise.
func (g *gen) listLit(items []string) string {
	if len(items) == 0 {
		return g.pick([]string{"[]", "[ ]"}, "emptyl")
	}
	switch g.n(4, "llay") {
	case 0:
		return "[" + strings.Join(items, ", ") + "]"
	case 1:
		return "[" + strings.Join(items, ",") + ",]"
	case 2:
		g.feat("multiline_list")
		var sb strings.Builder
		sb.WriteString("[\n")
		for i, it := range items {
			sb.WriteString("      " + it + ",")
			if g.chance(20, "lcmt") {
				g.feat("comment_in_list")
				sb.WriteString("  # item " + fmt.Sprint(i))
			}
			sb.WriteString("\n")
		}
		sb.WriteString("  ]")
		return sb.String()
	default:
		g.feat("multiline_list")
		return "[" + strings.Join(items, ",\n     ") + "\n]"
	}
}

func (g *gen) listExpr(d int) string {
	lit := func() string {
		n := g.n(4, "ln")
		var items []string
		for i := 0; i < n; i++ {
			items = append(items, g.strExpr(0))
		}
		return g.listLit(items)
	}
	if d <= 0 {
		return g.varOr(tList, lit)
	}
	switch g.n(8, "lek") {
	case 0, 1:
		return lit()
	case 2:
		return g.varOr(tList, lit)
	case 3:
		return g.listExpr(d-1) + " + " + g.listExpr(d-1)
	case 4:
		g.feat("comprehension")
		v := g.pick([]string{"x", "item", "_v"}, "cv")
		cond := ""
		if g.chance(50, "ccond") {
			cond = " if " + v + " != " + g.strLit()
		}
		return "[" + v + g.pick([]string{"", " + " + `".x"`, ".upper()"}, "cbody") + " for " + v + " in " + g.listExpr(d-1) + cond + "]"
	case 5:
		return "sorted(" + g.listExpr(d-1) + ")"
	case 6:
		if vs := g.vars[tDict]; len(vs) > 0 {
			g.feat("comprehension")
			return "[k + \"=\" + v for k, v in " + g.pick(vs, "dv") + ".items()]"
		}
		return lit()
	default:
		g.feat("inline_if")
		return "(" + g.listExpr(d-1) + " if " + g.boolExpr(d-1) + " else " + g.listExpr(d-1) + ")"
	}
}

func (g *gen) dictExpr(d int) string {
	lit := func() string {
		n := g.n(4, "dn")
		var items []string
		for i := 0; i < n; i++ {
			q := g.pick([]string{`"`, `'`}, "dq")
			items = append(items, fmt.Sprintf("%sk%d%s:%s%s", q, i+g.n(2, "dk"), q, g.sp(), g.strExpr(0)))
		}
		if len(items) == 0 {
			return "{}"
		}
		switch g.n(3, "dlay") {
		case 0:
			return "{" + strings.Join(items, ", ") + "}"
		case 1:
			g.feat("multiline_dict")
			return "{\n    " + strings.Join(items, ",\n    ") + ",\n}"
		default:
			return "{ " + strings.Join(items, " , ") + " }"
		}
	}
	if d <= 0 {
		return g.varOr(tDict, lit)
	}
	switch g.n(5, "dek") {
	case 0, 1:
		return lit()
	case 2:
		return g.varOr(tDict, lit)
	case 3:
		g.feat("dict_union")
		return g.dictExpr(d-1) + " | " + g.dictExpr(d-1)
	default:
		if vs := g.vars[tDict]; len(vs) > 0 {
			g.feat("comprehension")
			return "{k: v + \"!\" for k, v in " + g.pick(vs, "dv") + ".items()}"
		}
		return lit()
	}
}

func (g *gen) expr(ty vtype, d int) string {
	switch ty {
	case tInt:
		return g.intExpr(d)
	case tStr:
		return g.strExpr(d)
	case tBool:
		return g.boolExpr(d)
	case tList:
		return g.listExpr(d)
	}
	return g.dictExpr(d)
}

// ---- statements ------------------------------------------------------------------------------------

func (g *gen) emit(indent string, s string) {
	for _, l := range strings.Split(s, "\n") {
		g.out = append(g.out, indent+l)
	}
}

// emitStmt emits a (possibly multi-line) statement; continuation lines are inside brackets, so their
// indentation does not matter to asp.
func (g *gen) emitStmt(indent, s string) {
	lines := strings.Split(s, "\n")
	if g.chance(12, "tc") && !strings.Contains(lines[len(lines)-1], "#") && !strings.Contains(s, `"""`) && !strings.Contains(s, `'''`) {
		g.feat("trailing_comment")
		lines[len(lines)-1] += g.pick([]string{" # why", "  # TODO(x): fix", " #tight"}, "tcm")
	}
	g.out = append(g.out, indent+lines[0])
	g.out = append(g.out, lines[1:]...)
}

func (g *gen) noise(indent string, inBlock bool) {
	switch g.n(10, "noise") {
	case 0:
		g.feat("comment_line")
		g.out = append(g.out, indent+g.pick([]string{"# a comment", "#no space", "# comment with 'quotes' and \"more\""}, "cm"))
	case 1:
		g.out = append(g.out, "")
	case 2:
		g.out = append(g.out, "", "")
		g.feat("blank_lines")
	case 3:
		if inBlock {
			if g.o.NoOddComments {
				g.excl["odd-comment-indentation"]++
				return
			}
			g.feat("odd_comment_indent")
			g.out = append(g.out, g.pick([]string{"", " ", indent + "   "}, "oddi")+"# oddly indented comment")
		}
	}
}

func (g *gen) defineVar(ty vtype, indent string, d int) {
	name := g.fresh(map[vtype]string{tInt: "n", tStr: "s", tBool: "b", tList: "l", tDict: "d"}[ty])
	eq := g.pick([]string{" = ", " = ", "=", " =  "}, "eq")
	g.emitStmt(indent, name+eq+g.expr(ty, d))
	g.vars[ty] = append(g.vars[ty], name)
}

func (g *gen) anyType() vtype { return vtype(g.n(5, "ty")) }

func (g *gen) stmt(indent string, depth int) {
	g.noise(indent, depth > 0)
	switch k := g.n(14, "sk"); {
	case k < 5:
		g.defineVar(g.anyType(), indent, 2)
	case k == 5:
		if vs := g.vars[tList]; len(vs) > 0 {
			g.feat("aug_assign")
			g.emitStmt(indent, g.pick(vs, "v")+" += "+g.listExpr(1))
			return
		}
		g.defineVar(tList, indent, 1)
	case k == 6:
		if vs := g.vars[tStr]; len(vs) > 0 {
			g.feat("aug_assign")
			g.emitStmt(indent, g.pick(vs, "v")+"+="+g.strExpr(1))
			return
		}
		g.defineVar(tStr, indent, 1)
	case k == 7:
		if vs := g.vars[tDict]; len(vs) > 0 {
			g.feat("index_assign")
			g.emitStmt(indent, g.pick(vs, "v")+"["+g.pick([]string{`"k1"`, `'k9'`}, "ik")+"] = "+g.strExpr(1))
			return
		}
		g.defineVar(tDict, indent, 1)
	case k == 8 && depth < 2:
		// if / elif / else assigning an existing or new variable in every branch
		g.feat("if_block")
		ty := g.anyType()
		name := g.fresh("c")
		unit := g.pick([]string{"    ", "  ", "        "}, "unit")
		if unit != "    " {
			g.feat("nonstandard_indent")
		}
		g.emit(indent, "if "+g.boolExpr(2)+":")
		g.emitStmt(indent+unit, name+" = "+g.expr(ty, 1))
		g.noise(indent+unit, true)
		if g.chance(40, "elif") {
			g.emit(indent, "elif "+g.boolExpr(1)+":")
			g.emitStmt(indent+unit, name+" = "+g.expr(ty, 1))
		}
		g.emit(indent, "else:")
		g.emitStmt(indent+unit, name+" = "+g.expr(ty, 1))
		g.vars[ty] = append(g.vars[ty], name)
	case k == 9 && depth < 2:
		g.feat("for_loop")
		acc := g.fresh("acc")
		unit := g.pick([]string{"    ", "  "}, "unit")
		g.emit(indent, acc+" = []")
		v := g.pick([]string{"x", "it"}, "lv")
		g.emit(indent, "for "+v+" in "+g.listExpr(1)+":")
		if g.chance(30, "cont") {
			g.emit(indent+unit, "if "+v+" == "+g.strLit()+":")
			g.emit(indent+unit+unit, g.pick([]string{"continue", "break"}, "cb"))
		}
		g.emitStmt(indent+unit, acc+" += ["+v+" + "+g.strExpr(0)+"]")
		g.vars[tList] = append(g.vars[tList], acc)
	case k == 10:
		g.feat("assert")
		g.emitStmt(indent, "assert "+g.pick([]string{"len("+g.listExpr(1)+") >= 0", "1 == 1", "True"}, "as")+g.pick([]string{"", `, "message"`, ", 'msg ' 'two'"}, "asm"))
	case k == 11 && depth == 0:
		g.defFunc()
	case k == 12 && depth == 0:
		g.rule()
	case k == 13:
		g.feat("unpack")
		a, b := g.fresh("s"), g.fresh("s")
		g.emitStmt(indent, a+", "+b+" = ("+g.strExpr(1)+", "+g.strExpr(1)+")")
		g.vars[tStr] = append(g.vars[tStr], a, b)
	default:
		g.defineVar(g.anyType(), indent, 1)
	}
}

func (g *gen) defFunc() {
	g.feat("def")
	name := g.fresh("fn")
	unit := g.pick([]string{"    ", "  "}, "unit")
	sig := "a"
	switch g.n(4, "ann") {
	case 1:
		sig = "a:str"
		g.feat("type_annotation")
	case 2:
		sig = "a: str|list"
		g.feat("type_annotation")
	}
	b := "b=[]"
	switch g.n(4, "annb") {
	case 1:
		b = "b:list=[]"
		g.feat("type_annotation")
	case 2:
		b = "b: list = []"
		g.feat("type_annotation")
	case 3:
		b = "b&bee=[]"
		g.feat("arg_alias")
	}
	ret := g.pick([]string{"", "", " -> str"}, "ret")
	if ret != "" {
		g.feat("type_annotation")
	}
	g.emit("", "def "+name+"("+sig+", "+b+", c=1)"+ret+":")
	if g.chance(50, "doc") {
		g.feat("docstring")
		g.emit(unit, g.pick([]string{`"""Docstring."""`, "\"\"\"Docstring.\n\n" + unit + "More text.\n" + unit + "\"\"\"", `'single quoted doc'`}, "docs"))
	}
	// body uses only its parameters and literals
	saved := g.vars
	g.vars = map[vtype][]string{tInt: {"c"}, tList: {"b"}}
	g.noise(unit, true)
	g.emitStmt(unit, "r = "+g.pick([]string{`"%s" % a`, `str(a)`, `"<" + str(a) + ">"`, `f"{a}"`, `"p" "q" + str(a)`}, "rbody"))
	if g.chance(50, "fif") {
		g.emit(unit, "if c > "+g.intLit()+":")
		g.emitStmt(unit+unit, "r += "+g.strExpr(1))
	}
	if g.chance(40, "ffor") {
		g.emit(unit, "for y in b:")
		g.emitStmt(unit+unit, "r += y")
	}
	g.noise(unit, true)
	g.emitStmt(unit, "return r"+g.pick([]string{"", " + " + `"."`, ` + "x" 'y'`}, "rsuf"))
	g.vars = saved
	g.fns = append(g.fns, name)
}

// ---- rules -----------------------------------------------------------------------------------------

var fileNames = []string{"a.txt", "b.txt", "c/d.go", "z.py", "m.sh", "Makefile"}

func (g *gen) fileList(min int) []string {
	n := min + g.n(3, "fln")
	var out []string
	for i := 0; i < n; i++ {
		q := g.pick([]string{`"`, `'`}, "flq")
		s := g.pick(fileNames, "fl")
		if len(g.rules) > 0 && g.chance(25, "fllab") {
			s = ":" + g.pick(g.rules, "fllabel")
		}
		out = append(out, q+s+q)
	}
	return out
}

// sortableArg renders the value of an argument that buildifier sorts when it is a literal list.
func (g *gen) sortableArg(min int) string {
	items := g.fileList(min)
	if g.o.NoSortableLiteralLists && len(items) > 1 {
		g.excl["sortable-list-reordered"]++
		switch g.n(3, "nosort") {
		case 0:
			items = items[:1]
		case 1:
			// a non-literal expression is left alone by the formatter
			return g.listLit(items[:1]) + " + " + g.listLit(items[1:2])
		default:
			sort.Strings(items)
			items = items[:1]
		}
	}
	return g.listLit(items)
}

func (g *gen) rule() {
	g.feat("rule_call")
	name := g.fresh("t")
	type kv struct{ k, v string }
	var args []kv
	q := g.pick([]string{`"`, `'`}, "nq")
	args = append(args, kv{"name", q + name + q})
	kind := g.pick([]string{"filegroup", "genrule", "build_rule", "text_file", "gentest"}, "rk")
	labels := func() string {
		n := g.n(3, "nl")
		var it []string
		for i := 0; i < n; i++ {
			it = append(it, g.strExpr(0))
		}
		return g.listLit(it)
	}
	switch kind {
	case "filegroup":
		args = append(args, kv{"srcs", g.sortableArg(1)})
		if g.chance(40, "fgd") && len(g.rules) > 0 {
			args = append(args, kv{"deps", `[":` + g.pick(g.rules, "dep") + `"]`})
		}
	case "genrule":
		args = append(args, kv{"srcs", g.listLit(g.fileList(0))}) // genrule.srcs/outs are on buildifier's do-not-sort list
		args = append(args, kv{"outs", g.listLit([]string{`"` + name + `.out"`, `'` + name + `.aux'`}[:1+g.n(2, "nouts")])})
		args = append(args, kv{"cmd", g.pick([]string{g.strExpr(1), `"echo " "hi > $OUT"`, `[` + g.strLit() + ", " + g.strLit() + `]`}, "cmdk")})
		if g.chance(40, "tools") {
			args = append(args, kv{"tools", g.sortableArg(1)})
		}
	case "build_rule":
		args = append(args, kv{"cmd", g.strExpr(1)})
		args = append(args, kv{"srcs", g.sortableArg(0)})
		args = append(args, kv{"outs", g.sortableArg(1)})
		if g.chance(30, "req") {
			args = append(args, kv{"requires", labels()})
		}
		if g.chance(30, "bin") {
			args = append(args, kv{"binary", g.boolExpr(0)})
		}
	case "text_file":
		args = append(args, kv{"content", g.strExpr(2)})
	case "gentest":
		args = append(args, kv{"test_cmd", g.strExpr(1)})
		args = append(args, kv{"no_test_output", "True"})
		if g.chance(50, "data") {
			args = append(args, kv{"data", g.sortableArg(1)})
		}
		if g.chance(30, "flaky") {
			args = append(args, kv{"flaky", g.pick([]string{"True", "2"}, "flv")})
		}
	}
	if kind != "text_file" && g.chance(50, "lab") {
		args = append(args, kv{"labels", labels()})
	}
	if g.chance(40, "vis") {
		args = append(args, kv{"visibility", g.pick([]string{`["PUBLIC"]`, `['//pkg/...']`, `["//z/...", "//a/..."]`, `["//a/...", "//z/..."]`}, "visv")})
	}
	if g.chance(25, "to") && kind != "gentest" {
		args = append(args, kv{"test_only", g.boolExpr(0)})
	}
	// shuffle the named arguments (keeping name first half of the time)
	if g.chance(50, "shuffle") {
		i := 1 + g.n(len(args)-1+0, "shi")
		if i < len(args) {
			args[0], args[i] = args[i], args[0]
			g.feat("name_not_first")
		}
	}
	var parts []string
	for _, a := range args {
		eq := g.pick([]string{" = ", "=", " = "}, "req")
		parts = append(parts, a.k+eq+a.v)
	}
	var s string
	switch g.n(4, "rlay") {
	case 0:
		s = kind + "(" + strings.Join(parts, ", ") + ")"
	case 1:
		s = kind + "(" + strings.Join(parts, ", ") + ",)"
	case 2:
		s = kind + "(\n    " + strings.Join(parts, ",\n    ") + ",\n)"
	default:
		g.feat("comment_in_call")
		s = kind + "(\n  " + strings.Join(parts, ",\n  # about the next argument\n  ") + "\n)"
	}
	g.emit("", s)
	g.rules = append(g.rules, name)
}

// ---- whole files -----------------------------------------------------------------------------------

// Program is a generated BUILD file plus the build_defs files it subincludes.
type Program struct {
	Src      string   // BUILD text; subinclude labels are written as //defs:DEFS<i>
	Defs     []string // contents of the subincluded files
	Features []string
	Excluded map[string]int
}

func genProgram(t *rapid.T, o Opts) Program {
	g := &gen{t: t, o: o, vars: map[vtype][]string{}, feats: map[string]bool{}, excl: map[string]int{}}
	if g.chance(15, "lead") {
		g.out = append(g.out, "# leading comment", "")
	}
	// consecutive subincludes of files that define overlapping names (the later one wins)
	if g.chance(45, "subinc") {
		g.feat("subinclude")
		n := 1 + g.n(3, "nsub")
		for i := 0; i < n; i++ {
			g.defs = append(g.defs, fmt.Sprintf("SHARED = \"from defs %d\"\nONLY%d = [\"d%d\"]\ndef shared_fn(a, b=[], c=1):\n    return a + \"-%d\"\n", i, i, i, i))
		}
		switch {
		case n >= 2 && g.chance(70, "subsep"):
			g.feat("consecutive_subincludes")
			for i := 0; i < n; i++ {
				q := g.pick([]string{`"`, `'`}, "sq")
				g.out = append(g.out, fmt.Sprintf("subinclude(%s//defs:DEFS%d%s)", q, i, q))
				if g.chance(20, "subcm") {
					g.out = append(g.out, "# between subincludes")
				}
			}
		default:
			var ls []string
			for i := 0; i < n; i++ {
				ls = append(ls, fmt.Sprintf(`"//defs:DEFS%d"`, i))
			}
			g.out = append(g.out, "subinclude("+strings.Join(ls, ", ")+")")
		}
		g.vars[tStr] = append(g.vars[tStr], "SHARED")
		g.vars[tList] = append(g.vars[tList], "ONLY0")
		g.fns = append(g.fns, "shared_fn")
	}
	n := 2 + g.n(7, "stmts")
	for i := 0; i < n; i++ {
		g.stmt("", 0)
	}
	if g.feats["subinclude"] && g.chance(50, "late_subinclude") {
		// a further subinclude that is NOT adjacent to the first ones, after a package-level assignment to a
		// name the subincluded file also sets: where it is evaluated relative to that assignment matters
		g.feat("non_adjacent_subinclude")
		k := len(g.defs)
		g.defs = append(g.defs, fmt.Sprintf("SHARED = \"from late defs %d\"\nLATE_ONLY = [\"late\"]\n", k))
		g.out = append(g.out, "SHARED = \"from the package\"", fmt.Sprintf("subinclude(\"//defs:DEFS%d\")", k), "AFTER_LATE = SHARED + LATE_ONLY[0]")
	}
	if g.chance(60, "final_rule") {
		g.rule()
	}
	src := strings.Join(g.out, "\n")
	switch g.n(6, "eof") {
	case 0:
		g.feat("no_final_newline")
	case 1:
		src += "\n\n\n"
	case 2:
		src += "  \n"
		g.feat("trailing_whitespace")
	default:
		src += "\n"
	}
	p := Program{Src: src, Defs: g.defs, Excluded: g.excl}
	for f := range g.feats {
		p.Features = append(p.Features, f)
	}
	sort.Strings(p.Features)
	return p
}
