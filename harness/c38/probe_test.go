package c38

import (
	"fmt"
	"os"
	"path/filepath"
	"testing"

	"github.com/thought-machine/please/src/core"
	"github.com/thought-machine/please/src/format"
)

func fmtText(t *testing.T, src string) (string, error) {
	d := t.TempDir()
	p := filepath.Join(d, "BUILD")
	os.WriteFile(p, []byte(src), 0o644)
	cfg := core.DefaultConfiguration()
	_, err := format.Format(cfg, []string{p}, true, true)
	b, _ := os.ReadFile(p)
	return string(b), err
}

func TestProbe(t *testing.T) {
	for _, src := range []string{
		"x = \"a\" \"b\"\n",
		"x = 'a' f'{y}'\n",
		"x = r'\\d+' \"q\"\n",
		"def f(a: str|list, b&c=1):\n    return a\n",
		"def f(a:str, b:list=[]) -> str:\n    return a\n",
		"x = [i for i in [1,2,3] if i]\n",
		"x = 1 if y else 2\n",
		"x = {'a':1} | {'b':2}\n",
		"subinclude('//a:b')\nsubinclude('//c:d')\n",
		"subinclude('//a:b')\n# c\nsubinclude('//c:d')\n",
		"filegroup(name='x',srcs=['b','a'],deps=[':z',':y'],)\n",
		"x = '''multi\nline'''\n",
		"x = \"it's\" + 'say \"hi\"'\n",
		"x = f'{a}' 'b'\n",
		"def f():\n    x = 1\n  # odd comment\n    return x\n",
		"def f():\n    x = 1\n# col0 comment\n    return x\n",
		"x = (1,\n     2)\n",
		"x = [\n  1, 2,\n]\n",
		"x = 0o17\n",
		"x = -1\n",
		"x = not y\n",
		"x = a[1:2]\n",
		"x = lambda a, b=1: a\n",
		"if x:\n    y = 1\nelif z:\n    y = 2\nelse:\n    y = 3\n",
		"assert x, 'm'\n",
		"x = y.format(a=1)\n",
		"x = ' '.join([a, b])\n",
		"for a, b in c:\n    continue\n",
		"x = 1;y = 2\n",
		"x = \"a\"\\\n  \"b\"\n",
		"x = 'a' \\\n    + 'b'\n",
		"genrule(name = 'a', cmd = 'echo ' 'hi', outs = ['o'])\n",
		"x = \"\"\"a\"b\"\"\"\n",
		"x = 'tab\\there'\n",
		"x = 'a' 'b'.upper()\n",
		"x = f\"{CONFIG.FOO}\"\n",
		"package(default_visibility = ['PUBLIC'])\n",
		"x = 'long' + 'long' + 'long' + 'long' + 'long' + 'long' + 'long' + 'long' + 'long' + 'long' + 'long' + 'long' + 'long' + 'long' + 'long' + 'long' + 'long' + 'long'\n",
		"filegroup(\n    name = 'a',\n    srcs = glob(['*.go'], exclude=['x.go']),\n    visibility = ['PUBLIC'],\n)\n",
		"x = 1 # trailing\n",
		"x = [  # c1\n  1, # c2\n  2,\n]\n",
		"x = {\n 'b': 1,\n 'a': 2}\n",
		"x = a if b else c if d else e\n",
		"x = a and b or not c\n",
		"x = a % b\n",
		"x = \"%s\" % (a,)\n",
		"x = a in b\n",
		"x = a not in b\n",
		"x = a is None\n",
		"x = a is not None\n",
		"x = a//b\n",
		"x += [1]\n",
		"x[1] = 2\n",
		"x, y = 1, 2\n",
		"x = (1)\n",
		"x = ()\n",
		"x = (1,)\n",
		"def f(a, b):\n    \"\"\"Doc.\n\n    More.\n    \"\"\"\n    pass\n",
		"x = 1\n\n\n\n\ny = 2\n",
		"load('//a:b', 'c')\n",
		"x = '\\\\'\n",
		"x = '\\q'\n",
		"x = u'a'\n",
		"x = b'a'\n",
		"x = r\"a\\\"b\"\n",
	} {
		out, err := fmtText(t, src)
		fmt.Printf("IN : %q\nOUT: %q err=%v\n", src, out, err)
	}
}
