// C31: concurrent plz invocations on one repo do not corrupt outputs.
package c31

import (
	"fmt"
	"path/filepath"
	"strings"
	"sync"
	"testing"
	"time"

	"pgregory.net/rapid"

	"verifharness/lib"
)

func TestMain(m *testing.M) { lib.Main(m) }

var spec = lib.Spec{
	ID: "C31",
	Rule: "generated repositories (4-10 targets; commands sleep a drawn 0-50 ms; file, multi-file and directory outputs, filegroups) built by 2-4 simultaneous `plz build` processes with overlapping requested sets, start offsets 0-100 ms, " +
		"-n in {1,2,4}, with or without a shared case-local directory cache, from an empty plz-out or from a plz-out warmed at a previous state followed by an edit. " +
		"Oracle: every process exits 0; afterwards every requested target's outputs equal the Go model's prediction and a single clean build; in the action log no two start..end intervals of the same label overlap (per-target lock). " +
		"Non-trivial = >= 2 processes requested a common command target and their wall-clock intervals overlapped; distinct = JSON of the case",
	Assumptions: []string{"interleavings between processes are sampled (offsets, sleeps), not enumerated"},
}

type Proc struct {
	Req      []string
	OffsetMs int
	Workers  int
}

type Case struct {
	Before *lib.Repo `json:",omitempty"` // if set: built first (warm plz-out), then edited to R
	Edit   string    `json:",omitempty"`
	R      *lib.Repo
	Procs  []Proc
	Cache  bool
}

func gen(t *rapid.T) Case {
	o := lib.RepoGenOpts{MinTargets: 4, MaxTargets: 10, MaxSleepMs: 50}
	r := lib.GenRepo(t, o)
	c := Case{R: r, Cache: rapid.Bool().Draw(t, "cache")}
	if rapid.IntRange(0, 2).Draw(t, "warm") == 0 {
		c.Before = r
		c.R, c.Edit = lib.GenEdit(t, r, o)
	}
	ls := c.R.Labels()
	np := rapid.IntRange(2, 4).Draw(t, "nprocs")
	// a shared core requested by everyone, plus individual extras
	nshared := rapid.IntRange(1, min(3, len(ls))).Draw(t, "nshared")
	shared := rapid.Permutation(ls).Draw(t, "shared")[:nshared]
	for i := 0; i < np; i++ {
		p := Proc{OffsetMs: rapid.IntRange(0, 100).Draw(t, "offset"), Workers: rapid.SampledFrom([]int{1, 2, 4}).Draw(t, "workers")}
		p.Req = append(p.Req, shared...)
		if rapid.Bool().Draw(t, "extra") {
			p.Req = append(p.Req, rapid.SampledFrom(ls).Draw(t, "extra_target"))
		}
		if rapid.IntRange(0, 3).Draw(t, "all") == 0 {
			p.Req = ls
		}
		c.Procs = append(c.Procs, p)
	}
	return c
}

func run(c Case, o *lib.Obs) error {
	e := lib.NewE2E("c31-")
	defer e.Close()
	cfg := lib.NoCacheConfig
	if c.Cache {
		cfg = "[cache]\ndir = " + filepath.Join(e.Dir, "cache") + "\n"
	}
	if c.Before != nil {
		b := c.Before.Clone()
		b.Config = cfg
		if err := b.Sync(e.W, nil); err != nil {
			return &lib.Inconclusive{Msg: err.Error()}
		}
		if res := e.PlzW().Run(lib.BuildTimeout, append([]string{"build"}, b.Labels()...)...); res.Exit != 0 || res.TimedOut {
			return &lib.Inconclusive{Msg: "warm-up build failed: " + res.Brief()}
		}
	}
	st := c.R.Clone()
	st.Config = cfg
	if err := st.Sync(e.W, nil); err != nil {
		return &lib.Inconclusive{Msg: err.Error()}
	}
	lib.ResetActions(e.W)
	type outcome struct {
		res        lib.PlzResult
		start, end time.Time
	}
	outsP := make([]outcome, len(c.Procs))
	var wg sync.WaitGroup
	t0 := time.Now()
	for i, p := range c.Procs {
		wg.Add(1)
		go func(i int, p Proc) {
			defer wg.Done()
			time.Sleep(time.Until(t0.Add(time.Duration(p.OffsetMs) * time.Millisecond)))
			pl := e.PlzW()
			s := time.Now()
			r := pl.Run(lib.BuildTimeout, append([]string{"build", "-n", fmt.Sprint(p.Workers)}, p.Req...)...)
			outsP[i] = outcome{r, s, time.Now()}
		}(i, p)
	}
	wg.Wait()
	desc := fmt.Sprintf("procs %+v cache=%v warm=%v edit=%q", c.Procs, c.Cache, c.Before != nil, c.Edit)
	for i, oc := range outsP {
		if oc.res.TimedOut {
			return &lib.Inconclusive{Msg: "plz timed out"}
		}
		if strings.Contains(oc.res.Stderr, "panic:") || strings.Contains(oc.res.Stderr, "fatal error:") {
			return lib.Failf("go-panic", "process %d: %s", i, oc.res.Brief())
		}
		if oc.res.Exit != 0 {
			return lib.Failf("process-failed", "%s: process %d exited %d\n%s", desc, i, oc.res.Exit, oc.res.Brief())
		}
	}
	// log: no overlapping intervals per label
	open := map[string]int{}
	ev := lib.ReadActions(e.W)
	for _, a := range ev {
		switch a.Kind {
		case "S":
			if open[a.Label] > 0 {
				return lib.Failf("overlapping-actions", "%s: two commands of %s ran at the same time\nlog: %v", desc, a.Label, ev)
			}
			open[a.Label]++
		case "E":
			open[a.Label]--
		}
	}
	// final outputs
	union := map[string]bool{}
	for _, p := range c.Procs {
		for _, l := range p.Req {
			union[l] = true
		}
	}
	var req []string
	for _, l := range st.Labels() {
		if union[l] {
			req = append(req, l)
		}
	}
	outs, _ := st.Eval()
	snapW := st.SnapshotOutputs(e.W, req, outs)
	exp := st.ExpectedOutputs(req, outs)
	if d := lib.DiffEntries(exp, snapW, lib.DiffOpts{IgnoreExec: true}); d != "" {
		// confirm with a real clean build before blaming plz
		f, resF, err := e.CleanBuild(st, req)
		if err != nil || resF.Exit != 0 || resF.TimedOut {
			e.RemoveClean(f)
			return &lib.Inconclusive{Msg: "clean build problem: " + resF.Brief()}
		}
		snapF := st.SnapshotOutputs(f, req, outs)
		e.RemoveClean(f)
		if d2 := lib.DiffEntries(snapF, snapW, lib.DiffOpts{}); d2 != "" {
			return lib.Failf("outputs-differ", "%s: after the concurrent builds plz-out differs from a single clean build (first=clean, second=concurrent):\n%s", desc, d2)
		}
		return &lib.Inconclusive{Msg: "model disagrees with clean build:\n" + d}
	}
	// non-triviality
	overl := false
	for i := range c.Procs {
		for j := i + 1; j < len(c.Procs); j++ {
			if outsP[i].start.Before(outsP[j].end) && outsP[j].start.Before(outsP[i].end) {
				for _, a := range c.Procs[i].Req {
					for _, b := range c.Procs[j].Req {
						if a == b {
							if t := st.Target(a); t != nil && t.Kind == "genrule" {
								overl = true
							}
						}
					}
				}
			}
		}
	}
	o.LabelIf(c.Cache, "shared_cache")
	o.LabelIf(c.Before != nil, "warm_then_edit")
	o.Label(fmt.Sprintf("procs_%d", len(c.Procs)))
	reran := map[string]int{}
	for _, a := range ev {
		if a.Kind == "S" {
			reran[a.Label]++
		}
	}
	for _, n := range reran {
		if n > 1 {
			o.Label("same_action_ran_sequentially_twice")
			break
		}
	}
	o.NonTrivial(overl)
	var ts []string
	for _, t := range st.Targets {
		ts = append(ts, fmt.Sprintf("%s(%s/%s,%dms)<-%v", t.Label(), t.Kind, t.Cmd, t.SleepMs, t.Deps()))
	}
	o.Sample(map[string]any{"targets": ts, "procs": c.Procs, "cache": c.Cache, "warm_edit": c.Edit})
	return nil
}

func TestC31(t *testing.T) {
	lib.Check(t, spec, lib.Scale(16, 400), gen, run)
}
