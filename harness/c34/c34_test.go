// C34: output trees are copied and linked faithfully.
//
// Round trip: a generated tree is materialised, copied / hard-linked with the exported entry points
// of src/fs/copy.go, and the destination is compared with the model on (relative name, kind, bytes,
// link target); the source is snapshotted (incl. inode, mtime, mode) before and after.
package c34

import (
	"errors"
	"fmt"
	"os"
	"path/filepath"
	"sort"
	"strings"
	"syscall"
	"testing"

	"github.com/thought-machine/please/src/fs"
	"pgregory.net/rapid"

	"verifharness/lib"
)

func TestMain(m *testing.M) { lib.Main(m) }

var spec = lib.Spec{
	ID: "C34",
	Rule: "G-trees (depth<=3, fanout<=4, colliding names incl. hidden/space/non-ASCII, empty files, empty dirs, relative symlinks to files/dirs/dangling/'..'/'.', exec bits) whose root is a directory, a regular file or (link modes only) a symlink; " +
		"operation drawn from RecursiveCopy(mode 0/0644/0755), RecursiveLink, RecursiveCopyOrLinkFile(link,fallback / link,no fallback), onto an absent destination, a pre-existing destination tree (files and dirs, partly derived from the source so that paths overlap), " +
		"a destination on another filesystem (hard links impossible), or twice in a row with independently drawn modes (second run lands on hard links of the source). " +
		"Oracle: absent destination => no error and TreeDiff(model, dst) empty on names, kinds, bytes, link targets; existing destination => either an error (only when a source path meets an existing non-directory / kind clash) or every source entry reproduced; source snapshot (names, kinds, bytes, targets, inode, mtime, mode) identical afterwards. " +
		"Non-trivial = source tree has a symlink and an empty directory; distinct = JSON of the case",
	Assumptions: []string{
		"file modes / exec bits of the destination are not part of the property (callers pass the mode they want)",
		"a top-level symlink is only copied in link mode, where the code documents re-creating it (copy mode follows it by design)",
		"pre-existing destinations contain no symlinks (callers remove outputs first; merging happens for export and source preparation, into plain directories)",
	},
}

type copyCase struct {
	Src      *lib.Node
	Op       string    // copy | link | orlink-fallback | orlink-nofallback
	FileMode uint32    `json:",omitempty"` // for copy
	Pre      *lib.Node `json:",omitempty"` // pre-existing destination (nil = absent)
	CrossDev bool      `json:",omitempty"`
	Op2      string    `json:",omitempty"` // if set, a second operation onto the same destination
}

func doOp(op string, from, to string, mode os.FileMode) error {
	switch op {
	case "copy":
		return fs.RecursiveCopy(from, to, mode)
	case "link":
		return fs.RecursiveLink(from, to)
	case "orlink-fallback":
		return fs.RecursiveCopyOrLinkFile(from, to, mode, true, true)
	case "orlink-nofallback":
		return fs.RecursiveCopyOrLinkFile(from, to, mode, true, false)
	}
	panic("unknown op " + op)
}

type statEntry struct {
	Path   string
	Mode   os.FileMode
	Size   int64
	Mtime  int64
	Ino    uint64
	Detail string
}

func statSnapshot(root string) ([]statEntry, error) {
	var out []statEntry
	err := filepath.Walk(root, func(p string, fi os.FileInfo, err error) error {
		if err != nil {
			return err
		}
		e := statEntry{Path: strings.TrimPrefix(p, root), Mode: fi.Mode(), Mtime: fi.ModTime().UnixNano()}
		if st, ok := fi.Sys().(*syscall.Stat_t); ok {
			e.Ino = st.Ino
		}
		switch {
		case fi.Mode()&os.ModeSymlink != 0:
			e.Detail, _ = os.Readlink(p)
		case fi.Mode().IsRegular():
			b, err := os.ReadFile(p)
			if err != nil {
				return err
			}
			e.Detail = string(b)
			e.Size = fi.Size()
		}
		out = append(out, e)
		return nil
	})
	return out, err
}

func diffStat(a, b []statEntry) string {
	if len(a) != len(b) {
		return fmt.Sprintf("%d entries before, %d after", len(a), len(b))
	}
	for i := range a {
		if a[i] != b[i] {
			return fmt.Sprintf("%+v became %+v", a[i], b[i])
		}
	}
	return ""
}

func otherFS() (string, bool) {
	// scratch is /dev/shm (tmpfs) by default; /var/tmp or /tmp is normally a different filesystem
	for _, d := range []string{"/var/tmp", "/tmp"} {
		var a, b syscall.Stat_t
		base := os.Getenv("VERIF_SCRATCH")
		if base == "" {
			base = "/dev/shm"
		}
		if syscall.Stat(base, &a) == nil && syscall.Stat(d, &b) == nil && a.Dev != b.Dev {
			return d, true
		}
	}
	return "", false
}

// conflict reports whether a source path meets an existing destination entry where not both are directories.
func conflict(src, pre []lib.Entry) (string, bool) {
	pm := map[string]lib.Entry{}
	for _, e := range pre {
		pm[e.Path] = e
	}
	for _, e := range src {
		if p, ok := pm[e.Path]; ok && !(p.Kind == 'd' && e.Kind == 'd') {
			return e.Path, true
		}
	}
	return "", false
}

// overwritable: the only clash is regular file over regular file (a copy replaces it atomically).
func onlyFileOverFile(src, pre []lib.Entry) bool {
	pm := map[string]lib.Entry{}
	for _, e := range pre {
		pm[e.Path] = e
	}
	for _, e := range src {
		if p, ok := pm[e.Path]; ok && !(p.Kind == 'd' && e.Kind == 'd') && !(p.Kind == 'f' && e.Kind == 'f') {
			return false
		}
	}
	return true
}

func subsetDiff(want, got []lib.Entry) string {
	gm := map[string]lib.Entry{}
	for _, e := range got {
		gm[e.Path] = e
	}
	var d []string
	for _, e := range want {
		g, ok := gm[e.Path]
		if !ok {
			d = append(d, "missing in destination: "+e.String())
			continue
		}
		e.Exec, g.Exec = false, false
		if e != g {
			d = append(d, "differs: want "+e.String()+"  got "+g.String())
		}
	}
	if len(d) > 10 {
		d = d[:10]
	}
	return strings.Join(d, "\n")
}

func run(c copyCase, o *lib.Obs) error {
	if c.Src == nil {
		return nil
	}
	scratch, cleanup := lib.Scratch("c34-")
	defer cleanup()
	from := filepath.Join(scratch, "from", "src")
	to := filepath.Join(scratch, "to", "nested", "dst")
	if c.CrossDev {
		other, ok := otherFS()
		if !ok {
			return &lib.Inconclusive{Msg: "no second filesystem available for the cross-device case"}
		}
		d, err := os.MkdirTemp(other, "c34x-")
		if err != nil {
			return &lib.Inconclusive{Msg: err.Error()}
		}
		defer os.RemoveAll(d)
		to = filepath.Join(d, "nested", "dst")
	}
	if err := os.MkdirAll(filepath.Dir(from), 0o755); err != nil {
		return &lib.Inconclusive{Msg: err.Error()}
	}
	if err := lib.Materialize(c.Src, from); err != nil {
		return &lib.Inconclusive{Msg: "materialise: " + err.Error()}
	}
	if c.Src.Link {
		// give the top-level link something to point at (not needed by the code, but realistic)
		os.WriteFile(filepath.Join(scratch, "from", "a"), []byte("target"), 0o644)
	}
	// callers make sure the parent of the destination exists (EnsureDir / ensureStoreReady)
	if err := os.MkdirAll(filepath.Dir(to), 0o755); err != nil {
		return &lib.Inconclusive{Msg: err.Error()}
	}
	if c.Pre != nil {
		if err := lib.Materialize(c.Pre, to); err != nil {
			return &lib.Inconclusive{Msg: "materialise pre-existing destination: " + err.Error()}
		}
	}
	model := lib.Flatten(c.Src, "")
	_, _, links, empties, _ := lib.CountNodes(c.Src)
	o.Label("op:" + c.Op)
	o.Label("root:" + string(c.Src.Kind()))
	o.LabelIf(c.Pre != nil, "preexisting_dst")
	o.LabelIf(c.CrossDev, "cross_device")
	o.LabelIf(c.Op2 != "", "twice")
	o.LabelIf(links > 0, "has_symlink")
	o.LabelIf(empties > 0, "has_empty_dir")
	o.NonTrivial(links > 0 && empties > 0)

	before, err := statSnapshot(filepath.Join(scratch, "from"))
	if err != nil {
		return &lib.Inconclusive{Msg: err.Error()}
	}
	checkSource := func(when string) error {
		after, err := statSnapshot(filepath.Join(scratch, "from"))
		if err != nil {
			return lib.Failf("source-modified", "%s: source tree unreadable: %v", when, err)
		}
		if d := diffStat(before, after); d != "" {
			return lib.Failf("source-modified", "%s: source tree changed: %s", when, d)
		}
		return nil
	}

	opErr := doOp(c.Op, from, to, os.FileMode(c.FileMode))
	if err := checkSource("after " + c.Op); err != nil {
		return err
	}
	var pre []lib.Entry
	if c.Pre != nil {
		pre = lib.Flatten(c.Pre, "")
	}
	verify := func(op string, opErr error, pre []lib.Entry, exact bool) error {
		if opErr != nil {
			o.Label("op_error")
			if c.CrossDev && op == "orlink-nofallback" && errors.Is(opErr, syscall.EXDEV) {
				return nil // documented: no fallback requested
			}
			// every operation except link-without-fallback replaces an existing regular file by a regular file
			overwrites := op != "orlink-nofallback"
			if _, clash := conflict(model, pre); clash && !(overwrites && onlyFileOverFile(model, pre)) {
				o.Label("error_on_clash")
				return nil
			}
			return lib.Failf("copy-error", "%s(%s -> %s) failed without any clash at the destination: %v", op, from, to, opErr)
		}
		got, err := lib.Snapshot(to)
		if err != nil {
			return lib.Failf("dst-unreadable", "%s returned nil but the destination cannot be read: %v", op, err)
		}
		if exact {
			if d := lib.DiffEntries(model, got, lib.DiffOpts{IgnoreExec: true}); d != "" {
				return lib.Failf("unfaithful", "%s returned nil but destination differs from source (first = source):\n%s", op, d)
			}
			return nil
		}
		if d := subsetDiff(model, got); d != "" {
			return lib.Failf("unfaithful", "%s onto an existing destination returned nil but did not reproduce the source:\n%s", op, d)
		}
		return nil
	}
	if err := verify(c.Op, opErr, pre, c.Pre == nil); err != nil {
		return err
	}
	if c.Op2 != "" && opErr == nil {
		// second run onto what the first produced
		cur, err := lib.Snapshot(to)
		if err != nil {
			return &lib.Inconclusive{Msg: err.Error()}
		}
		err2 := doOp(c.Op2, from, to, os.FileMode(c.FileMode))
		if err := checkSource("after second operation " + c.Op2); err != nil {
			return err
		}
		if err := verify(c.Op2, err2, cur, false); err != nil {
			return err
		}
	}
	return nil
}

// ---- generator ---------------------------------------------------------------------------------

var ops = []string{"copy", "link", "orlink-fallback", "orlink-nofallback"}

func stripLinks(n *lib.Node) {
	var keep []*lib.Node
	for _, c := range n.Children {
		if c.Link {
			continue
		}
		stripLinks(c)
		keep = append(keep, c)
	}
	n.Children = keep
}

// derivePre builds a destination tree that overlaps the source: a subset of its entries with other contents.
func derivePre(t *rapid.T, src *lib.Node) *lib.Node {
	var rec func(n *lib.Node) *lib.Node
	rec = func(n *lib.Node) *lib.Node {
		switch {
		case n.Dir:
			d := &lib.Node{Name: n.Name, Dir: true}
			for _, c := range n.Children {
				switch rapid.IntRange(0, 5).Draw(t, "keep") {
				case 0, 1: // drop
				case 2: // clash: other kind
					if c.Dir {
						d.Children = append(d.Children, &lib.Node{Name: c.Name, Content: "was a file"})
					} else {
						d.Children = append(d.Children, &lib.Node{Name: c.Name, Dir: true})
					}
				default:
					if k := rec(c); k != nil {
						d.Children = append(d.Children, k)
					}
				}
			}
			if rapid.IntRange(0, 2).Draw(t, "extra") == 0 {
				d.Children = append(d.Children, &lib.Node{Name: "zz-extra", Content: "extra"})
			}
			return d
		case n.Link:
			if rapid.Bool().Draw(t, "linkasfile") {
				return &lib.Node{Name: n.Name, Content: "old"}
			}
			return nil
		}
		return &lib.Node{Name: n.Name, Content: "old " + n.Content}
	}
	p := rec(src)
	if p == nil {
		p = &lib.Node{Name: src.Name, Content: "old"}
	}
	return p
}

func gen(t *rapid.T) copyCase {
	c := copyCase{Op: rapid.SampledFrom(ops).Draw(t, "op")}
	if c.Op == "copy" || strings.HasPrefix(c.Op, "orlink") {
		c.FileMode = rapid.SampledFrom([]uint32{0, 0o644, 0o755, 0o444}).Draw(t, "mode")
	}
	opts := lib.TreeGenOpts{MaxDepth: rapid.IntRange(0, 3).Draw(t, "depth"), Symlinks: true, EmptyDirs: true, ExecBits: true,
		LinkTarget: []string{"a/b", "../..", "b/../a"}}
	if opts.MaxDepth == 0 {
		opts.MaxDepth = 1
	}
	rk := rapid.IntRange(0, 9).Draw(t, "rootkind")
	switch {
	case rk == 0:
		c.Src = lib.GenFile(t, "src", lib.TreeGenOpts{ExecBits: true})
	case rk == 1 && c.Op != "copy":
		c.Src = &lib.Node{Name: "src", Link: true, Target: rapid.SampledFrom([]string{"a", "nonexistent", "../x"}).Draw(t, "target")}
	default:
		c.Src = lib.GenDir(t, "src", opts)
		// make the interesting shapes (symlink + empty directory in one tree) common
		if rapid.Bool().Draw(t, "enrich") {
			ds := dirsOf(c.Src)
			d := ds[rapid.IntRange(0, len(ds)-1).Draw(t, "emptydirat")]
			addChild(d, &lib.Node{Name: "empty.d", Dir: true})
			d = ds[rapid.IntRange(0, len(ds)-1).Draw(t, "linkat")]
			addChild(d, &lib.Node{Name: "ln", Link: true, Target: rapid.SampledFrom([]string{"empty.d", "a", "../ln", "nonexistent", "."}).Draw(t, "lntarget")})
		}
	}
	switch rapid.IntRange(0, 9).Draw(t, "variant") {
	case 0, 1:
		c.Pre = derivePre(t, c.Src)
		c.Pre.Name = "dst"
	case 2:
		c.Pre = lib.GenDir(t, "dst", lib.TreeGenOpts{MaxDepth: 2, EmptyDirs: true})
		stripLinks(c.Pre)
	case 3:
		c.CrossDev = true
	case 4, 5:
		c.Op2 = rapid.SampledFrom(ops).Draw(t, "op2")
		if c.Src.Link && c.Op2 == "copy" {
			c.Op2 = "link" // copy mode follows a top-level symlink by design (see assumptions)
		}
	}
	sortTree(c.Src)
	return c
}

func dirsOf(n *lib.Node) []*lib.Node {
	var out []*lib.Node
	if n.Dir {
		out = append(out, n)
		for _, c := range n.Children {
			out = append(out, dirsOf(c)...)
		}
	}
	return out
}

func addChild(d, c *lib.Node) {
	for _, x := range d.Children {
		if x.Name == c.Name {
			return
		}
	}
	d.Children = append(d.Children, c)
}

func sortTree(n *lib.Node) {
	sort.Slice(n.Children, func(i, j int) bool { return n.Children[i].Name < n.Children[j].Name })
	for _, c := range n.Children {
		sortTree(c)
	}
}

func TestC34(t *testing.T) {
	lib.Check(t, spec, lib.Scale(4000, 400000), gen, run)
}
