// C23: dependency queries (deps, revdeps, somepath) agree with graph reachability.
//
// A generated model graph (lib.GGraph: rules with hidden sub-targets, require/provide, shortcut edges
// that make nodes reachable at two depths) is installed into a real BuildGraph; query.Deps,
// query.FindRevdeps and query.SomePath are run on it and compared with reference searches written
// here (fixpoint relaxation, no queue discipline to get wrong).
package c23

import (
	"bytes"
	"fmt"
	"io"
	"os"
	"sort"
	"strings"
	"testing"

	"github.com/thought-machine/please/src/core"
	"github.com/thought-machine/please/src/query"
	"pgregory.net/rapid"

	"verifharness/lib"
)

func TestMain(m *testing.M) {
	lib.QuietPleaseLogs()
	lib.Main(m)
}

var spec = lib.Spec{
	ID: "C23",
	Rule: "generated DAGs of 2-8 rules in up to 4 packages (each rule = visible target + 0-3 hidden `_x#tag` sub-targets; dependencies on earlier rules' visible or hidden targets; require/provide pairs; shortcut edges u->w next to u->v->w; names drawn independently of dependency order). " +
		"deps / revdeps: 1-2 query labels, EVERY level from -1 to (largest distance + 1), with and without --hidden, compared with {t : 1 <= dist(t) <= level} where an edge inside one rule (to a hidden sub-target) costs 0 unless --hidden; " +
		"somepath: 1-2 labels on each side, optional except set, hidden on/off: a path is printed iff one endpoint reaches the other, and every printed step is a real (resolved) dependency. " +
		"Non-trivial = (deps/revdeps) some reported node is reachable from the query labels by paths of two different costs, so that some tested level cuts between them; (somepath) the shortest connecting path has >= 2 edges, or an except node lies on some path; distinct = case JSON",
	Assumptions: []string{
		"queries are called in-process on a graph built through the exported core API: query.Deps (writer), query.FindRevdeps (the set ReverseDeps prints), query.SomePath (stdout captured)",
		"narrow readings: without --hidden, deps reports visible targets only (a hidden target of another rule costs one step and is not itself reported); revdeps reports the owning visible rule of a hidden dependent; targets of the query labels' own rules are ignored in the revdeps comparison",
		"generated graphs never make a hidden sub-target depend on its own visible parent, and except sets only name targets that neither provide nor are provided (both under-specified)",
		"somepath also accepts a path ending in a hidden sub-target of the requested target (documented in the code as intended)",
	},
}

// Case is one query scenario.
type Case struct {
	Kind       string // "deps" | "revdeps" | "somepath"
	G          lib.GGraph
	Roots      []int `json:",omitempty"` // deps / revdeps: query labels
	From       []int `json:",omitempty"` // somepath
	To         []int `json:",omitempty"`
	Except     []int `json:",omitempty"`
	ShowHidden bool  `json:",omitempty"`
}

const inf = 1 << 30

var sharedState *core.BuildState

// relax computes shortest distances by fixpoint iteration. start gives initial distances (inf = none);
// edges(u) lists (v, cost). If viaEdgeOnly, the returned distances only count paths with >= 1 edge
// (so a source is reported only if another source reaches it).
func relax(n int, start []int, succ func(u int) [][2]int, viaEdgeOnly bool) []int {
	best := make([]int, n)
	for i := range best {
		best[i] = inf
		if !viaEdgeOnly {
			best[i] = start[i]
		}
	}
	val := func(u int) int {
		if start[u] < best[u] {
			return start[u]
		}
		return best[u]
	}
	for changed := true; changed; {
		changed = false
		for u := 0; u < n; u++ {
			du := val(u)
			if du >= inf {
				continue
			}
			for _, e := range succ(u) {
				if du+e[1] < best[e[0]] {
					best[e[0]] = du + e[1]
					changed = true
				}
			}
		}
	}
	return best
}

// longest path cost from the sources in a DAG (nodes are in dependency order: deps have smaller index).
func longest(n int, start []int, succ func(u int) [][2]int, forward bool) []int {
	far := make([]int, n)
	for i := range far {
		far[i] = -1
	}
	order := make([]int, n)
	for i := range order {
		if forward { // edges go to smaller indices: process from large to small
			order[i] = n - 1 - i
		} else {
			order[i] = i
		}
	}
	for _, u := range order {
		du := far[u]
		if start[u] < inf && du < 0 {
			du = 0
		}
		if du < 0 {
			continue
		}
		for _, e := range succ(u) {
			if du+e[1] > far[e[0]] {
				far[e[0]] = du + e[1]
			}
		}
	}
	return far
}

type world struct {
	g     *lib.GGraph
	adj   [][]int
	radj  [][]int
	state *core.BuildState
	idx   map[core.BuildLabel]int
}

func setup(g *lib.GGraph) (*world, error) {
	if err := g.Validate(); err != nil {
		return nil, fmt.Errorf("malformed case: %v", err)
	}
	w := &world{g: g, adj: g.Adjacency(), idx: map[core.BuildLabel]int{}}
	w.radj = make([][]int, len(g.Targets))
	for u, vs := range w.adj {
		for _, v := range vs {
			w.radj[v] = append(w.radj[v], u)
		}
	}
	// one BuildState is reused (constructing it costs far more than a case); every case gets a fresh graph
	if sharedState == nil {
		sharedState = core.NewDefaultBuildState()
	}
	sharedState.Graph = core.NewGraph()
	w.state = sharedState
	ts, err := g.Install(w.state)
	if err != nil {
		return nil, fmt.Errorf("harness: %v", err)
	}
	if err := g.CheckInstalled(ts); err != nil {
		return nil, lib.Failf("harness-model-mismatch", "%v", err)
	}
	for i := range g.Targets {
		w.idx[g.Label(i)] = i
	}
	return w, nil
}

func (w *world) labels(is []int) []core.BuildLabel {
	out := make([]core.BuildLabel, len(is))
	for i, x := range is {
		out[i] = w.g.Label(x)
	}
	return out
}

func (w *world) names(set map[int]bool) []string {
	var out []string
	for i := range set {
		out = append(out, w.g.Label(i).String())
	}
	sort.Strings(out)
	return out
}

func checkIdx(n int, lists ...[]int) error {
	for _, l := range lists {
		for _, x := range l {
			if x < 0 || x >= n {
				return fmt.Errorf("malformed case: index %d out of range", x)
			}
		}
	}
	return nil
}

func run(c Case, o *lib.Obs) error {
	if err := checkIdx(len(c.G.Targets), c.Roots, c.From, c.To, c.Except); err != nil {
		return err
	}
	w, err := setup(&c.G)
	if err != nil {
		return err
	}
	o.Label(c.Kind)
	hasHidden, hasProv := false, false
	for i, t := range c.G.Targets {
		hasHidden = hasHidden || c.G.IsHidden(i)
		hasProv = hasProv || len(t.Provides) > 0
	}
	o.LabelIf(hasHidden, "hidden_subtargets")
	provUsed := false
	for u := range c.G.Targets {
		if fmt.Sprint(w.adj[u]) != fmt.Sprint(sortedCopy(c.G.Targets[u].Deps)) {
			provUsed = true
		}
	}
	o.LabelIf(provUsed, "provide_redirects_an_edge")
	switch c.Kind {
	case "deps":
		if len(c.Roots) == 0 {
			return fmt.Errorf("malformed case: no roots")
		}
		return runDeps(c, w, o)
	case "revdeps":
		if len(c.Roots) == 0 {
			return fmt.Errorf("malformed case: no roots")
		}
		return runRevdeps(c, w, o)
	case "somepath":
		if len(c.From) == 0 || len(c.To) == 0 {
			return fmt.Errorf("malformed case: no endpoints")
		}
		return runSomePath(c, w, o)
	}
	return fmt.Errorf("malformed case: kind %q", c.Kind)
}

func sortedCopy(s []int) []int {
	out := append([]int{}, s...)
	sort.Ints(out)
	return out
}

// ---- deps --------------------------------------------------------------------------------------

func runDeps(c Case, w *world, o *lib.Obs) error {
	g := w.g
	n := len(g.Targets)
	start := make([]int, n)
	for i := range start {
		start[i] = inf
	}
	for _, r := range c.Roots {
		start[r] = 0
	}
	nontrivial := false
	for _, hidden := range []bool{false, true} {
		succ := func(u int) [][2]int {
			var out [][2]int
			for _, v := range w.adj[u] {
				cost := 1
				if !hidden && g.IsHidden(v) && g.SameRule(u, v) {
					cost = 0
				}
				out = append(out, [2]int{v, cost})
			}
			return out
		}
		best := relax(n, start, succ, true)
		far := longest(n, start, succ, true)
		maxd := 0
		for v := 0; v < n; v++ {
			if best[v] < inf && far[v] > maxd {
				maxd = far[v]
			}
			if best[v] < inf && (hidden || !g.IsHidden(v)) && far[v] > best[v] {
				nontrivial = true
			}
		}
		for level := -1; level <= maxd+1; level++ {
			want := map[int]bool{}
			for v := 0; v < n; v++ {
				if best[v] < inf && (hidden || !g.IsHidden(v)) && (level == -1 || best[v] <= level) {
					want[v] = true
				}
			}
			var buf bytes.Buffer
			query.Deps(&buf, w.state, w.labels(c.Roots), hidden, level, false)
			got := map[int]bool{}
			for _, line := range strings.Split(buf.String(), "\n") {
				line = strings.TrimSpace(line)
				if line == "" {
					continue
				}
				l, err := core.TryParseBuildLabel(line, "", "")
				if err != nil {
					return lib.Failf("deps-unparseable-output", "deps printed %q", line)
				}
				i, ok := w.idx[l]
				if !ok {
					return lib.Failf("deps-unknown-target", "deps printed %s, which is not in the graph", l)
				}
				got[i] = true
			}
			for v := range want {
				if !got[v] {
					return lib.Failf("deps-missing", "query deps %v --level %d hidden=%v: %s is %d step(s) away but was not printed (printed %v, expected %v)",
						w.labels(c.Roots), level, hidden, g.Label(v), best[v], w.names(got), w.names(want))
				}
			}
			for v := range got {
				if !want[v] {
					d := "unreachable"
					if best[v] < inf {
						d = fmt.Sprintf("%d step(s) away", best[v])
					}
					return lib.Failf("deps-extra", "query deps %v --level %d hidden=%v: printed %s, which is %s (hidden target: %v; expected %v)",
						w.labels(c.Roots), level, hidden, g.Label(v), d, g.IsHidden(v), w.names(want))
				}
			}
		}
	}
	o.LabelIf(nontrivial, "deps_node_at_two_depths")
	o.LabelIf(len(c.Roots) > 1, "several_query_labels")
	o.NonTrivial(nontrivial)
	return nil
}

// ---- revdeps -----------------------------------------------------------------------------------

func runRevdeps(c Case, w *world, o *lib.Obs) error {
	g := w.g
	n := len(g.Targets)
	nontrivial := false
	dontCare := map[string]bool{}
	for _, r := range c.Roots {
		dontCare[g.RuleKey(r)] = true
	}
	for _, hidden := range []bool{false, true} {
		start := make([]int, n)
		for i := range start {
			start[i] = inf
		}
		for _, r := range c.Roots {
			start[r] = 0
			if !hidden && !g.IsHidden(r) {
				// the hidden sub-targets of a named rule are part of the question
				for i := range g.Targets {
					if g.IsHidden(i) && g.SameRule(i, r) {
						start[i] = 0
					}
				}
			}
		}
		succ := func(u int) [][2]int { // reversed edges: who depends on u
			var out [][2]int
			for _, v := range w.radj[u] {
				cost := 1
				if !hidden && g.SameRule(u, v) {
					cost = 0
				}
				out = append(out, [2]int{v, cost})
			}
			return out
		}
		best := relax(n, start, succ, false)
		far := longest(n, start, succ, false)
		maxd := 0
		for v := 0; v < n; v++ {
			if best[v] < inf && far[v] > maxd {
				maxd = far[v]
			}
			if best[v] < inf && best[v] >= 1 && far[v] > best[v] && !dontCare[g.RuleKey(v)] {
				nontrivial = true
			}
		}
		for level := -1; level <= maxd+1; level++ {
			want := map[int]bool{}
			for v := 0; v < n; v++ {
				if best[v] < inf && best[v] >= 1 && (level == -1 || best[v] <= level) {
					r := v
					if !hidden {
						r = g.ParentIdx(v)
					}
					want[r] = true
				}
			}
			res := query.FindRevdeps(w.state, w.labels(c.Roots), hidden, true, true, level)
			got := map[int]bool{}
			for t := range res {
				i, ok := w.idx[t.Label]
				if !ok {
					return lib.Failf("revdeps-unknown-target", "revdeps returned %s, which is not in the graph", t.Label)
				}
				got[i] = true
			}
			for v := range want {
				if !got[v] && !dontCare[g.RuleKey(v)] {
					return lib.Failf("revdeps-missing", "query revdeps %v --level %d hidden=%v: %s is within %d step(s) but was not reported (reported %v, expected %v)",
						w.labels(c.Roots), level, hidden, g.Label(v), level, w.names(got), w.names(want))
				}
			}
			for v := range got {
				if !want[v] && !dontCare[g.RuleKey(v)] {
					return lib.Failf("revdeps-extra", "query revdeps %v --level %d hidden=%v: reported %s, which is not within %d step(s) (reported %v, expected %v)",
						w.labels(c.Roots), level, hidden, g.Label(v), level, w.names(got), w.names(want))
				}
			}
		}
	}
	o.LabelIf(nontrivial, "revdeps_node_at_two_depths")
	o.LabelIf(len(c.Roots) > 1, "several_query_labels")
	o.NonTrivial(nontrivial)
	return nil
}

// ---- somepath ----------------------------------------------------------------------------------

// reach returns the set of nodes reachable from a (including a) without entering an except node,
// and the number of edges on a shortest such path.
func (w *world) reach(a int, except map[int]bool) []int {
	d := make([]int, len(w.g.Targets))
	for i := range d {
		d[i] = inf
	}
	d[a] = 0
	queue := []int{a}
	for len(queue) > 0 {
		u := queue[0]
		queue = queue[1:]
		for _, v := range w.adj[u] {
			if d[v] == inf && !except[v] {
				d[v] = d[u] + 1
				queue = append(queue, v)
			}
		}
	}
	return d
}

func captureStdout(f func()) (string, error) {
	old := os.Stdout
	r, wr, err := os.Pipe()
	if err != nil {
		return "", err
	}
	done := make(chan string)
	go func() {
		b, _ := io.ReadAll(r)
		done <- string(b)
	}()
	os.Stdout = wr
	func() {
		defer func() { os.Stdout = old; wr.Close() }()
		f()
	}()
	s := <-done
	r.Close()
	return s, nil
}

func runSomePath(c Case, w *world, o *lib.Obs) error {
	g := w.g
	except := map[int]bool{}
	for _, e := range c.Except {
		except[e] = true
	}
	// reference
	strict := false  // some pair is connected (either direction), endpoint to endpoint
	relaxed := false // ... or to a hidden sub-target of the endpoint
	shortest := inf
	blocked := false
	endsAt := func(d []int, b int) (bool, bool) {
		s := d[b] < inf
		r := s
		for i := range g.Targets {
			if g.IsHidden(i) && g.ParentIdx(i) == b && d[i] < inf {
				r = true
			}
		}
		return s, r
	}
	for _, a := range c.From {
		for _, b := range c.To {
			for _, p := range [][2]int{{a, b}, {b, a}} {
				d := w.reach(p[0], except)
				s, r := endsAt(d, p[1])
				strict = strict || s
				relaxed = relaxed || r
				if s && d[p[1]] < shortest {
					shortest = d[p[1]]
				}
				if len(c.Except) > 0 {
					free := w.reach(p[0], nil)
					for e := range except { // an excluded node lies on some path between the two
						if free[e] < inf && w.reach(e, nil)[p[1]] < inf {
							blocked = true
						}
					}
				}
			}
		}
	}
	o.LabelIf(strict, "path_exists")
	o.LabelIf(!relaxed, "no_path")
	o.LabelIf(blocked, "except_on_a_path")
	o.NonTrivial((strict && shortest >= 2) || blocked)

	var qerr error
	out, err := captureStdout(func() {
		qerr = query.SomePath(w.state.Graph, w.labels(c.From), w.labels(c.To), w.labels(c.Except), c.ShowHidden)
	})
	if err != nil {
		return &lib.Inconclusive{Msg: "pipe: " + err.Error()}
	}
	found := qerr == nil
	desc := fmt.Sprintf("somepath from %v to %v except %v hidden=%v", w.labels(c.From), w.labels(c.To), w.labels(c.Except), c.ShowHidden)
	if strict && !found {
		return lib.Failf("somepath-missed", "%s: a dependency path exists but none was found (%v)", desc, qerr)
	}
	if found && !relaxed {
		return lib.Failf("somepath-invented", "%s: no dependency path exists but one was printed:\n%s", desc, out)
	}
	if !found {
		if strings.Contains(out, "Found path") {
			return lib.Failf("somepath-inconsistent", "%s: returned an error but printed a path:\n%s", desc, out)
		}
		return nil
	}
	// validate the printed path
	lines := strings.Split(strings.TrimRight(out, "\n"), "\n")
	if len(lines) < 2 || lines[0] != "Found path:" {
		return lib.Failf("somepath-unparseable-output", "%s: printed %q", desc, out)
	}
	var path []int
	for _, line := range lines[1:] {
		l, err := core.TryParseBuildLabel(strings.TrimSpace(line), "", "")
		if err != nil {
			return lib.Failf("somepath-unparseable-output", "%s: printed %q", desc, line)
		}
		i, ok := w.idx[l]
		if !ok {
			return lib.Failf("somepath-invalid-path", "%s: path contains %s, which is not in the graph", desc, l)
		}
		path = append(path, i)
	}
	inList := func(x int, l []int) bool {
		for _, y := range l {
			if x == y {
				return true
			}
		}
		return false
	}
	vis := func(i int) int {
		if c.ShowHidden {
			return i
		}
		return g.ParentIdx(i)
	}
	// endpoints: one end belongs to From, the other to To (or is a hidden sub-target of it)
	endOK := func(p int, l []int) bool {
		for _, x := range l {
			if p == vis(x) || (c.ShowHidden && g.IsHidden(p) && g.ParentIdx(p) == x) {
				return true
			}
		}
		return false
	}
	first, last := path[0], path[len(path)-1]
	if !(inList(first, mapInts(c.From, vis)) && endOK(last, c.To)) && !(inList(first, mapInts(c.To, vis)) && endOK(last, c.From)) {
		return lib.Failf("somepath-invalid-path", "%s: printed path does not join the requested targets:\n%s", desc, out)
	}
	for i := 0; i+1 < len(path); i++ {
		a, b := path[i], path[i+1]
		ok := false
		if c.ShowHidden {
			ok = inList(b, w.adj[a])
		} else {
			// some member of rule a depends on some member of rule b
			for u := range g.Targets {
				if g.ParentIdx(u) != a {
					continue
				}
				for _, v := range w.adj[u] {
					if g.ParentIdx(v) == b {
						ok = true
					}
				}
			}
			if a == b {
				return lib.Failf("somepath-invalid-path", "%s: printed path repeats %s consecutively:\n%s", desc, g.Label(a), out)
			}
		}
		if !ok {
			return lib.Failf("somepath-invalid-path", "%s: printed step %s -> %s is not a dependency:\n%s", desc, g.Label(a), g.Label(b), out)
		}
		if i > 0 && c.ShowHidden && except[a] {
			return lib.Failf("somepath-invalid-path", "%s: printed path goes through excluded %s:\n%s", desc, g.Label(a), out)
		}
	}
	return nil
}

func mapInts(l []int, f func(int) int) []int {
	out := make([]int, len(l))
	for i, x := range l {
		out[i] = f(x)
	}
	return out
}

// ---- generator ---------------------------------------------------------------------------------

func pick(t *rapid.T, n, lo, hi int, name string) []int {
	k := rapid.IntRange(lo, hi).Draw(t, name+"N")
	var out []int
	for i := 0; i < k; i++ {
		x := rapid.IntRange(0, n-1).Draw(t, name)
		dup := false
		for _, y := range out {
			dup = dup || x == y
		}
		if !dup {
			out = append(out, x)
		}
	}
	return out
}

func gen(t *rapid.T) Case {
	g := lib.GenGGraph(t, lib.GGraphOpts{})
	n := len(g.Targets)
	c := Case{G: g}
	switch rapid.IntRange(0, 5).Draw(t, "kind") {
	case 0, 1:
		c.Kind = "deps"
		// bias towards late targets: they have the deepest dependency trees
		c.Roots = []int{n - 1 - rapid.IntRange(0, min(3, n-1)).Draw(t, "root")}
		if rapid.IntRange(0, 3).Draw(t, "second") == 0 {
			c.Roots = appendNew(c.Roots, rapid.IntRange(0, n-1).Draw(t, "root2"))
		}
	case 2, 3:
		c.Kind = "revdeps"
		c.Roots = []int{rapid.IntRange(0, min(4, n-1)).Draw(t, "root")}
		if rapid.IntRange(0, 3).Draw(t, "second") == 0 {
			c.Roots = appendNew(c.Roots, rapid.IntRange(0, n-1).Draw(t, "root2"))
		}
	default:
		c.Kind = "somepath"
		c.From = pick(t, n, 1, 2, "from")
		c.To = pick(t, n, 1, 2, "to")
		if rapid.Bool().Draw(t, "farApart") { // a late target and an early one: long paths, or none
			c.From = []int{n - 1 - rapid.IntRange(0, min(2, n-1)).Draw(t, "fromLate")}
			c.To = []int{rapid.IntRange(0, min(3, n-1)).Draw(t, "toEarly")}
			if rapid.Bool().Draw(t, "swap") {
				c.From, c.To = c.To, c.From
			}
		}
		c.ShowHidden = rapid.Bool().Draw(t, "showHidden")
		if rapid.Bool().Draw(t, "useExcept") {
			provided := map[int]bool{}
			for _, tg := range g.Targets {
				for _, p := range tg.Provides {
					provided[p] = true
				}
			}
			// prefer nodes that lie between the endpoints, so that the except set matters
			adj := g.Adjacency()
			reachFrom := func(a int) map[int]bool {
				seen := map[int]bool{a: true}
				for stack := []int{a}; len(stack) > 0; {
					u := stack[len(stack)-1]
					stack = stack[:len(stack)-1]
					for _, v := range adj[u] {
						if !seen[v] {
							seen[v] = true
							stack = append(stack, v)
						}
					}
				}
				return seen
			}
			var between []int
			for _, a := range append(append([]int{}, c.From...), c.To...) {
				ra := reachFrom(a)
				for m := 0; m < n; m++ {
					if !ra[m] || m == a {
						continue
					}
					rm := reachFrom(m)
					for _, b := range append(append([]int{}, c.From...), c.To...) {
						if b != m && b != a && rm[b] {
							between = ggAppendNew(between, m)
						}
					}
				}
			}
			cands := pick(t, n, 1, 2, "except")
			if len(between) > 0 && rapid.IntRange(0, 3).Draw(t, "exceptBetween") > 0 {
				cands = nil
				for k := rapid.IntRange(1, 2).Draw(t, "betweenN"); k > 0; k-- {
					cands = appendNew(cands, between[rapid.IntRange(0, len(between)-1).Draw(t, "betweenIdx")])
				}
			}
			for _, e := range cands {
				ok := len(g.Targets[e].Provides) == 0 && !provided[e]
				for _, x := range append(append([]int{}, c.From...), c.To...) {
					// endpoints and members of their rules stay out of the except set
					ok = ok && !g.SameRule(x, e)
				}
				if ok {
					c.Except = append(c.Except, e)
				}
			}
		}
	}
	return c
}

func ggAppendNew(s []int, v int) []int { return appendNew(s, v) }

func appendNew(s []int, v int) []int {
	for _, x := range s {
		if x == v {
			return s
		}
	}
	return append(s, v)
}

func TestC23(t *testing.T) {
	lib.Check(t, spec, lib.Scale(6000, 500000), gen, run)
}
