// C32: crashes never leave files that later builds trust wrongly.
package c32

import (
	"bytes"
	"context"
	"fmt"
	"os"
	"os/exec"
	"path/filepath"
	"runtime"
	"strconv"
	"strings"
	"syscall"
	"testing"
	"time"

	"pgregory.net/rapid"

	pfs "github.com/thought-machine/please/src/fs"

	"verifharness/lib"
)

func init() { runtime.LockOSThread() }

func TestMain(m *testing.M) {
	if os.Getenv("VERIF_C32_HELPER") != "" {
		// helper mode (run under strace): one fs.WriteFile over the destination; all file syscalls
		// are issued from the locked initial thread (GOMAXPROCS=1 is set by the parent)
		dst, src := os.Getenv("VERIF_C32_DST"), os.Getenv("VERIF_C32_SRC")
		f, err := os.Open(src)
		if err != nil {
			os.Exit(3)
		}
		if err := pfs.WriteFile(f, dst, 0o755); err != nil {
			fmt.Fprintln(os.Stderr, err)
			os.Exit(4)
		}
		os.Exit(0)
	}
	lib.Main(m)
}

var spec = lib.Spec{
	ID: "C32",
	Rule: "generated repositories (5-10 targets incl. directory outputs and filegroups; commands sleep 20-120 ms) are built at state A, edited (1-2 edits) to state B, then `plz build` of B is started and killed: " +
		"either SIGKILL of plz and every process it started 0-150 ms after the n-th command of the build has started (n drawn 0-6, observed through the action log), or under `strace -f -e inject=<syscall>:signal=KILL:when=k` for a drawn metadata syscall " +
		"(renameat, renameat2, setxattr, lsetxattr, fsetxattr, unlinkat, linkat, symlinkat, mkdirat, openat, write, chmod/fchmodat) and a drawn k (1-40, mostly small; counters are per thread, so k lands on varying operations: exploration, not enumeration). " +
		"Optionally a second kill follows. Then a normal `plz build` runs. Oracle: it exits 0 and every requested target's outputs equal the Go model of B (a mismatch is confirmed against a real clean build before it is reported). " +
		"Sub-check (b), exhaustive per case: fs.WriteFile over an existing/absent destination in a single-threaded helper is killed before EVERY mutating syscall it issues (grid of old/new sizes 0..300000 bytes); the destination must hold exactly the old bytes with the old mode or exactly the new bytes with the requested mode. Non-trivial = the kill hit a running plz (exit by signal) after at least one action of the B build had started, or the strace-injected kill fired; distinct = JSON of the case",
	Assumptions: []string{
		"crash = SIGKILL of the plz process and of every process it started (no power-loss / page-cache loss semantics)",
		"kill points of the multi-threaded plz process are sampled, not enumerated",
	},
}

type Kill struct {
	Mode    string // "time": kill DelayMs after the AfterActions-th command of the build has started | "syscall"
	DelayMs int    `json:",omitempty"`
	After   int    `json:",omitempty"`
	Syscall string `json:",omitempty"`
	When    int    `json:",omitempty"`
}

type Case struct {
	A, B  *lib.Repo `json:",omitempty"`
	Edits []string  `json:",omitempty"`
	Req   []string  `json:",omitempty"`
	Kills []Kill    `json:",omitempty"`
	WF    *WFCase   `json:",omitempty"` // sub-check (b): fs.WriteFile killed at every mutating syscall
}

// WFCase: the destination holds Old (absent if HasOld is false) and is overwritten with New bytes.
type WFCase struct {
	HasOld  bool
	OldSize int
	NewSize int
}

func pattern(n int, seed byte) []byte {
	b := make([]byte, n)
	for i := range b {
		b[i] = seed + byte(i%251)
	}
	return b
}

func runWF(c WFCase, o *lib.Obs) error {
	if err := lib.StraceAvailable(); err != nil {
		return &lib.Inconclusive{Msg: "strace unavailable: " + err.Error()}
	}
	dir, cleanup := lib.Scratch("c32wf-")
	defer cleanup()
	oldB, newB := pattern(c.OldSize, 1), pattern(c.NewSize, 101)
	src := filepath.Join(dir, "src.bin")
	os.WriteFile(src, newB, 0o644)
	self, _ := os.Executable()
	points, fired := 0, 0
	runOnce := func(inj *lib.Inject) (*lib.StraceResult, string, error) {
		d := filepath.Join(dir, "out")
		os.RemoveAll(d)
		os.MkdirAll(d, 0o755)
		dst := filepath.Join(d, "dest.bin")
		if c.HasOld {
			os.WriteFile(dst, oldB, 0o644)
		}
		r, err := lib.Strace(lib.StraceOpts{Inject: inj, Env: []string{"VERIF_C32_HELPER=1", "VERIF_C32_DST=" + dst, "VERIF_C32_SRC=" + src, "GOMAXPROCS=1", "PATH=/usr/bin:/bin"}}, self)
		return r, dst, err
	}
	base, _, err := runOnce(nil)
	if err != nil || base.ExitCode != 0 {
		return &lib.Inconclusive{Msg: fmt.Sprintf("baseline traced run failed: %v", err)}
	}
	counts := base.Count(base.MainTID)
	for _, name := range lib.MutatingSyscalls {
		for k := 1; k <= counts[name]; k++ {
			r, dst, err := runOnce(&lib.Inject{Syscall: name, When: k, Signal: "KILL"})
			if err != nil {
				return &lib.Inconclusive{Msg: "strace: " + err.Error()}
			}
			points++
			if !r.Fired && r.Killed == "" {
				continue
			}
			fired++
			got, rerr := os.ReadFile(dst)
			var perm os.FileMode
			if fi, serr := os.Stat(dst); serr == nil {
				perm = fi.Mode().Perm()
			}
			where := fmt.Sprintf("old=%v(%d bytes) new=%d bytes, killed before %s #%d (%s)", c.HasOld, c.OldSize, c.NewSize, name, k, r.LastCall)
			switch {
			case rerr != nil && c.HasOld:
				return lib.Failf("destination-lost", "%s: destination no longer exists", where)
			case rerr != nil:
				// no old file: absent is fine
			case bytes.Equal(got, newB) && !(c.HasOld && bytes.Equal(oldB, newB) && perm == 0o644):
				// the new content must come with the requested mode (the helper asks for 0755; the old
				// file is 0644): content and permissions have to change together
				if perm != 0o755 {
					return lib.Failf("torn-mode", "%s: destination has the new content but mode %o instead of the requested 755", where, perm)
				}
			case c.HasOld && bytes.Equal(got, oldB):
				if perm != 0o644 {
					return lib.Failf("torn-mode", "%s: destination has the old content but mode %o instead of its old 644", where, perm)
				}
			default:
				return lib.Failf("torn-write", "%s: destination holds %d bytes that are neither the old nor the new content", where, len(got))
			}
		}
	}
	lib.Rec(spec).AddExtra("writefile_crash_points", int64(fired))
	o.Label("writefile_enumeration")
	o.NonTrivial(fired >= 3 && c.HasOld)
	o.Sample(map[string]any{"writefile": c, "crash_points": fired, "syscalls": counts})
	if fired == 0 {
		return &lib.Inconclusive{Msg: "no injection fired"}
	}
	return nil
}

var killSyscalls = []string{"renameat", "renameat", "renameat", "renameat2", "renameat2", "renameat", "renameat2", "setxattr", "lsetxattr", "fsetxattr", "unlinkat", "linkat", "symlinkat", "mkdirat", "openat", "write", "fchmodat", "rename"}

func genKill(t *rapid.T) Kill {
	if rapid.IntRange(0, 1).Draw(t, "mode") == 0 {
		return Kill{Mode: "syscall", Syscall: rapid.SampledFrom(killSyscalls).Draw(t, "syscall"), When: rapid.SampledFrom([]int{1, 1, 2, 2, 3, 4, 5, 6, 8, 12, 20, 40}).Draw(t, "when")}
	}
	return Kill{Mode: "time", After: rapid.IntRange(0, 6).Draw(t, "after"), DelayMs: rapid.IntRange(0, 150).Draw(t, "delay")}
}

func gen(t *rapid.T) Case {
	o := lib.RepoGenOpts{MinTargets: 5, MaxTargets: 10, MaxSleepMs: 100, OptOuts: true}
	a := lib.GenRepo(t, o)
	for _, tg := range a.Targets {
		if tg.Kind == "genrule" {
			tg.SleepMs += 20
		}
	}
	c := Case{A: a}
	b := a
	for i := 0; i < rapid.IntRange(1, 2).Draw(t, "nedits"); i++ {
		var d string
		b, d = lib.GenEdit(t, b, o)
		c.Edits = append(c.Edits, d)
	}
	if rapid.IntRange(0, 3).Draw(t, "touch_all") > 0 {
		// make (almost) every command re-run in the B build so that the kill lands inside real work
		b = b.Clone()
		for i := range b.Files {
			b.Files[i].Content += "!\n"
		}
		c.Edits = append(c.Edits, "append a line to every source file")
	}
	c.B = b
	c.Req = lib.GenRequest(t, b)
	c.Kills = []Kill{genKill(t)}
	if rapid.IntRange(0, 3).Draw(t, "second") == 0 {
		c.Kills = append(c.Kills, genKill(t))
	}
	return c
}

// killAll kills every process whose environment mentions dir (build actions carry TMP_DIR under it).
func killAll(dir string) {
	for round := 0; round < 20; round++ {
		found := false
		ents, _ := os.ReadDir("/proc")
		for _, e := range ents {
			pid, err := strconv.Atoi(e.Name())
			if err != nil || pid == os.Getpid() {
				continue
			}
			b, err := os.ReadFile(filepath.Join("/proc", e.Name(), "environ"))
			if err != nil || !bytes.Contains(b, []byte(dir)) {
				continue
			}
			found = true
			syscall.Kill(pid, syscall.SIGKILL)
		}
		if !found {
			return
		}
		time.Sleep(20 * time.Millisecond)
	}
}

// crashBuild starts `plz build` and kills it as described by k. It reports whether the kill hit a live plz.
func crashBuild(e *lib.E2E, k Kill, req []string) (killed bool, started int, err error) {
	p := e.PlzW()
	args := append([]string{"-p", "--nocolour", "-v", "warning", "build"}, req...)
	ctx, cancel := context.WithTimeout(context.Background(), lib.BuildTimeout)
	defer cancel()
	var cmd *exec.Cmd
	if k.Mode == "syscall" {
		// -b execve: strace detaches from a child as soon as it execs, so only plz itself (all its threads) is
		// subject to the injected kill. Without it a kill could hit a tool inside a build action (ln, cat, find);
		// plz does not run commands with `set -e`, so such an action would "succeed" with incomplete outputs -
		// which is a property of the generated command, not of plz's crash recovery.
		full := append([]string{"-f", "-b", "execve", "-qq", "-o", "/dev/null", "-e", "trace=" + k.Syscall, "-e", fmt.Sprintf("inject=%s:signal=KILL:when=%d", k.Syscall, k.When), lib.PlzBin()}, args...)
		cmd = p.Cmd(ctx, args...)
		cmd.Path, _ = exec.LookPath("strace")
		cmd.Args = append([]string{"strace"}, full...)
	} else {
		cmd = p.Cmd(ctx, args...)
	}
	var se bytes.Buffer
	cmd.Stderr = &se
	if err := cmd.Start(); err != nil {
		return false, 0, err
	}
	done := make(chan error, 1)
	go func() { done <- cmd.Wait() }()
	var werr error
	if k.Mode == "time" {
		// wait until the k.After-th command has started (observed through the action log), then
		// DelayMs more; this places the kill inside real work whatever the machine load is
		fire := make(chan struct{})
		stop := make(chan struct{})
		go func() {
			for {
				select {
				case <-stop:
					return
				case <-time.After(3 * time.Millisecond):
				}
				if len(lib.Started(lib.ReadActions(e.W))) >= k.After {
					time.Sleep(time.Duration(k.DelayMs) * time.Millisecond)
					close(fire)
					return
				}
			}
		}()
		select {
		case werr = <-done:
			close(stop)
		case <-fire:
			syscall.Kill(-cmd.Process.Pid, syscall.SIGKILL)
			killAll(e.Dir)
			werr = <-done
			killed = true
		}
	} else {
		werr = <-done
		if ee, ok := werr.(*exec.ExitError); ok {
			if ws, ok := ee.Sys().(syscall.WaitStatus); ok && (ws.Signaled() || ws.ExitStatus() == 137) {
				killed = true
			}
		}
		if strings.Contains(se.String(), "killed by SIGKILL") {
			killed = true
		}
	}
	killAll(e.Dir)
	if ctx.Err() != nil {
		return killed, 0, fmt.Errorf("timeout")
	}
	return killed, len(lib.Started(lib.ReadActions(e.W))), nil
}

func run(c Case, o *lib.Obs) error {
	if c.WF != nil {
		return runWF(*c.WF, o)
	}
	e := lib.NewE2E("c32-")
	defer e.Close()
	defer killAll(e.Dir)
	a := c.A.Clone()
	a.Config = lib.NoCacheConfig
	if err := a.Sync(e.W, nil); err != nil {
		return &lib.Inconclusive{Msg: err.Error()}
	}
	if res := e.PlzW().Run(lib.BuildTimeout, append([]string{"build"}, a.Labels()...)...); res.Exit != 0 || res.TimedOut {
		return &lib.Inconclusive{Msg: "build of state A failed: " + res.Brief()}
	}
	b := c.B.Clone()
	b.Config = lib.NoCacheConfig
	if err := b.Sync(e.W, nil); err != nil {
		return &lib.Inconclusive{Msg: err.Error()}
	}
	nontrivial := false
	for _, k := range c.Kills {
		lib.ResetActions(e.W)
		killed, started, err := crashBuild(e, k, c.Req)
		if err != nil {
			return &lib.Inconclusive{Msg: "crash run: " + err.Error()}
		}
		o.Label("kill_mode_" + k.Mode)
		if killed {
			o.Label("kill_hit_live_plz")
			if k.Mode == "syscall" {
				o.Label("killed_at_" + k.Syscall)
				nontrivial = true
			} else if started > 0 {
				o.Label("killed_after_an_action_started")
				nontrivial = true
			}
		} else {
			o.Label("build_finished_before_kill")
		}
	}
	res := e.PlzW().Run(lib.BuildTimeout, append([]string{"build"}, c.Req...)...)
	desc := fmt.Sprintf("edits %v, request %v, kills %+v", c.Edits, c.Req, c.Kills)
	if res.TimedOut {
		return &lib.Inconclusive{Msg: "recovery build timed out"}
	}
	if res.Exit != 0 {
		return lib.Failf("recovery-build-failed", "%s: the build after the crash exits %d\n%s", desc, res.Exit, res.Brief())
	}
	outs, _ := b.Eval()
	snapW := b.SnapshotOutputs(e.W, c.Req, outs)
	if d := lib.DiffEntries(b.ExpectedOutputs(c.Req, outs), snapW, lib.DiffOpts{IgnoreExec: true}); d != "" {
		f, resF, err := e.CleanBuild(b, c.Req)
		if err != nil || resF.Exit != 0 || resF.TimedOut {
			e.RemoveClean(f)
			return &lib.Inconclusive{Msg: "clean build problem: " + resF.Brief()}
		}
		snapF := b.SnapshotOutputs(f, c.Req, outs)
		e.RemoveClean(f)
		if d2 := lib.DiffEntries(snapF, snapW, lib.DiffOpts{}); d2 != "" {
			return lib.Failf("stale-after-crash", "%s: outputs after crash+rebuild differ from a clean build (first=clean, second=recovered):\n%s", desc, d2)
		}
		return &lib.Inconclusive{Msg: "model disagrees with clean build:\n" + d}
	}
	o.NonTrivial(nontrivial)
	o.Sample(map[string]any{"edits": c.Edits, "request": c.Req, "kills": c.Kills, "targets": len(b.Targets)})
	return nil
}

func TestC32(t *testing.T) {
	if lib.ReplayMode(t, spec, run) {
		return
	}
	// (b) fs.WriteFile killed at every mutating syscall, over a small grid of sizes (exhaustive per case)
	shard, shards := lib.Shard()
	sizes := []int{0, 1, 4096, 70000}
	if lib.Thorough() {
		sizes = []int{0, 1, 100, 4096, 32768, 32769, 70000, 300000}
	}
	i := 0
	for _, hasOld := range []bool{true, false} {
		for _, osz := range []int{0, 10, 50000} {
			if !hasOld && osz != 0 {
				continue
			}
			for _, nsz := range sizes {
				i++
				if i%shards != shard {
					continue
				}
				if !lib.Each(t, spec, Case{WF: &WFCase{HasOld: hasOld, OldSize: osz, NewSize: nsz}}, run) {
					return
				}
			}
		}
	}
	lib.Check(t, spec, lib.Scale(16, 400), gen, run)
}
