// C08: any change to a build-relevant attribute changes the rule hash.
//
// A case is a pair of target definitions (A, B) that differ in the value of exactly one attribute.
// Both are turned into core.BuildTargets through the exported setters, in the order and with the
// conversions the BUILD parser (src/parse/asp/targets.go: createTarget / populateTarget) uses, and
// build.RuleHash(state, target, false, false) of the two must differ.
//
// "Differ" is decided on a canonical *semantic* form of the attribute (what reaches the build
// action): outs are a sorted set, srcs an ordered de-duplicated list, env the set of K=V entries of
// the process environment, labels the effective label set, ... so that two spellings of the same
// definition are never demanded to hash differently.
package c08

import (
	"bytes"
	"encoding/hex"
	"encoding/json"
	"fmt"
	"os"
	"reflect"
	"sort"
	"strings"
	"testing"

	"github.com/thought-machine/please/src/build"
	"github.com/thought-machine/please/src/core"
	"pgregory.net/rapid"

	"verifharness/lib"
)

func TestMain(m *testing.M) {
	lib.QuietPleaseLogs()
	lib.Main(m)
}

var spec = lib.Spec{
	ID: "C08",
	Rule: "pairs of target definitions (genrule-like or text_file) differing in exactly one of: cmd, srcs, named srcs, outs, named outs, optional_outs, deps, tools, named tools, env, pass_env (names and process-environment values), labels, secrets, named secrets, binary, sandbox, output_dirs, entry_points, text_file content, requires, provides, hashes. " +
		"Values come from tiny alphabets (a b = / :) so that entries share prefixes and suffixes; the changed attribute is mutated by re-splitting the concatenation of its entries at other boundaries, shifting a boundary, merging neighbours, moving text across the '=' of a K=V pair or across group names, as well as by plain edit/add/remove/swap. " +
		"Targets are built through the exported core setters in the order the BUILD parser uses; oracle: RuleHash(A) != RuleHash(B) whenever the canonical semantic values differ. " +
		"Non-trivial = the two values of the changed attribute serialise to the same byte string when their entries are concatenated without separators (names directly followed by entries, K=V pairs back to back); distinct = (attribute, canonical value A, canonical value B)",
	Assumptions: []string{
		"in-process: targets are constructed with core.NewBuildTarget + exported setters exactly as populateTarget does (same order, same conversions); no BUILD file is parsed",
		"pass_env values are provided through the process environment of the test binary (variables with one- to four-letter names over {Q,Z}, set only around each hash computation)",
		"two env dicts that produce the same set of K=V process-environment entries are the same definition ({'a=b':'c'} and {'a':'b=c'} are therefore not a pair)",
	},
}

// ---- model ------------------------------------------------------------------------------------

type KV struct{ K, V string }

type KVs struct {
	K string
	V []string
}

// Target is a target definition as written in a BUILD file. Strings beginning with "//" inside
// srcs / tools / named groups are build labels, everything else is a file (srcs) or a tool on PATH.
type Target struct {
	Str   map[string]string   `json:",omitempty"` // cmd, file_content
	Bool  map[string]bool     `json:",omitempty"` // binary, sandbox, text_file
	List  map[string][]string `json:",omitempty"` // srcs outs optional_outs deps tools labels secrets output_dirs requires hashes
	Map   map[string][]KV     `json:",omitempty"` // env entry_points pass_env
	Named map[string][]KVs    `json:",omitempty"` // named_srcs named_outs named_tools named_secrets provides
}

type Case struct {
	Attr string
	Op   string // how B was derived (informational)
	A, B Target
}

const (
	kStr = iota
	kBool
	kList
	kMap
	kNamed
)

type attrDesc struct {
	name string
	kind int
	// canonicalisation of lists: ordered (keep order), dedupe, or sorted set
	sortedSet bool
	dedupe    bool
	words     string // alphabet of entries
	keys      string // alphabet of names / keys
	labels    bool   // entries are build labels
	prefix    string // fixed prefix of every entry (secrets: "/")
}

var attrs = []attrDesc{
	{name: "cmd", kind: kStr},
	{name: "file_content", kind: kStr},
	{name: "binary", kind: kBool},
	{name: "sandbox", kind: kBool},
	{name: "srcs", kind: kList, dedupe: true, words: "abc"},
	{name: "outs", kind: kList, sortedSet: true, words: "abc"},
	{name: "optional_outs", kind: kList, sortedSet: true, words: "abc"},
	{name: "deps", kind: kList, sortedSet: true, labels: true},
	{name: "tools", kind: kList, words: "ab"},
	{name: "labels", kind: kList, sortedSet: true, words: "ab:"},
	{name: "secrets", kind: kList, dedupe: true, words: "ab/", prefix: "/"},
	{name: "output_dirs", kind: kList, sortedSet: true, words: "ab"},
	{name: "requires", kind: kList, sortedSet: true, words: "ab"},
	{name: "hashes", kind: kList, sortedSet: true, words: "ab0"},
	{name: "env", kind: kMap, words: "ab=", keys: "AB="},
	{name: "entry_points", kind: kMap, words: "ab=", keys: "cd="},
	{name: "pass_env", kind: kMap, words: "QZ=_", keys: "QZ"},
	{name: "named_srcs", kind: kNamed, dedupe: true, words: "abc", keys: "ab"},
	{name: "named_outs", kind: kNamed, sortedSet: true, words: "abc", keys: "ab"},
	{name: "named_tools", kind: kNamed, words: "ab", keys: "ab"},
	{name: "named_secrets", kind: kNamed, dedupe: true, words: "ab/", keys: "ab", prefix: "/"},
	{name: "provides", kind: kNamed, labels: true, keys: "ab"},
}

func desc(name string) *attrDesc {
	for i := range attrs {
		if attrs[i].name == name {
			return &attrs[i]
		}
	}
	return nil
}

// pass_env variable names are used as they are (Q, Z, QZ, ...: nothing real is called that), so that a
// value can contain text that looks like the next NAME=value pair.
const passEnvPrefix = ""

// ---- canonical semantic form --------------------------------------------------------------------

func dedupe(l []string) []string {
	seen := map[string]bool{}
	out := []string{}
	for _, s := range l {
		if !seen[s] {
			seen[s] = true
			out = append(out, s)
		}
	}
	return out
}

func sortedSet(l []string) []string {
	out := dedupe(l)
	sort.Strings(out)
	return out
}

func canonList(d *attrDesc, l []string) []string {
	switch {
	case d.sortedSet:
		return sortedSet(l)
	case d.dedupe:
		return dedupe(l)
	}
	return append([]string{}, l...)
}

// canonMap: later entries win, sorted by key.
func canonMap(m []KV) []KV {
	idx := map[string]int{}
	out := []KV{}
	for _, kv := range m {
		if i, ok := idx[kv.K]; ok {
			out[i].V = kv.V
			continue
		}
		idx[kv.K] = len(out)
		out = append(out, kv)
	}
	sort.Slice(out, func(i, j int) bool { return out[i].K < out[j].K })
	return out
}

// canonNamed merges groups with the same name (provides: the last one wins, as AddProvide does),
// drops empty groups, sorts by name.
func canonNamed(d *attrDesc, n []KVs) []KVs {
	idx := map[string]int{}
	out := []KVs{}
	for _, g := range n {
		if i, ok := idx[g.K]; ok {
			if d.name == "provides" {
				out[i].V = append([]string{}, g.V...)
			} else {
				out[i].V = append(out[i].V, g.V...)
			}
			continue
		}
		idx[g.K] = len(out)
		out = append(out, KVs{g.K, append([]string{}, g.V...)})
	}
	res := []KVs{}
	for _, g := range out {
		g.V = canonList(d, g.V)
		if len(g.V) > 0 || d.name == "provides" {
			res = append(res, g)
		}
	}
	sort.Slice(res, func(i, j int) bool { return res[i].K < res[j].K })
	return res
}

// effectiveLabels is what ends up in target.Labels: binary adds "bin", labels, then requires.
func effectiveLabels(t Target) []string {
	l := []string{}
	if t.Bool["binary"] {
		l = append(l, "bin")
	}
	l = append(l, t.List["labels"]...)
	l = append(l, t.List["requires"]...)
	return sortedSet(l)
}

// canon returns the canonical semantic value of an attribute as a JSON string.
func canon(attr string, t Target) string {
	d := desc(attr)
	var v any
	switch d.kind {
	case kStr:
		v = strings.TrimSpace(t.Str[attr])
		if attr == "file_content" {
			v = t.Str[attr]
		}
	case kBool:
		v = t.Bool[attr]
	case kList:
		if attr == "labels" {
			v = effectiveLabels(t)
		} else {
			v = canonList(d, t.List[attr])
		}
	case kMap:
		m := canonMap(t.Map[attr])
		if attr == "env" {
			// the build action sees environment entries "K=V"
			e := []string{}
			for _, kv := range m {
				e = append(e, kv.K+"="+kv.V)
			}
			v = sortedSet(e)
		} else {
			v = m
		}
	case kNamed:
		v = canonNamed(d, t.Named[attr])
	}
	b, _ := json.Marshal(v)
	return string(b)
}

// naive is the attribute's entries concatenated without any separator: the byte string a
// delimiter-free hash would see.
func naive(attr string, t Target) string {
	d := desc(attr)
	var sb strings.Builder
	switch d.kind {
	case kStr:
		sb.WriteString(t.Str[attr])
	case kBool:
		fmt.Fprint(&sb, t.Bool[attr])
	case kList:
		l := canonList(d, t.List[attr])
		if attr == "labels" {
			l = effectiveLabels(t)
		}
		sb.WriteString(strings.Join(l, ""))
	case kMap:
		for _, kv := range canonMap(t.Map[attr]) {
			sb.WriteString(kv.K + "=" + kv.V)
		}
	case kNamed:
		for _, g := range canonNamed(d, t.Named[attr]) {
			sb.WriteString(g.K + strings.Join(g.V, ""))
		}
	}
	return sb.String()
}

// ---- construction through the exported setters ---------------------------------------------------

var state = core.NewDefaultBuildState()

var thePkg = core.NewPackage("pkg")

func parseLabel(s string) (core.BuildLabel, bool) {
	if !strings.HasPrefix(s, "//") {
		return core.BuildLabel{}, false
	}
	p, n, ok := strings.Cut(s[2:], ":")
	if !ok || n == "" {
		return core.BuildLabel{}, false
	}
	return core.BuildLabel{PackageName: p, Name: n}, true
}

func srcInput(s string) core.BuildInput {
	if l, ok := parseLabel(s); ok {
		return l
	}
	return core.NewFileLabel(s, thePkg)
}

func toolInput(s string) core.BuildInput {
	if l, ok := parseLabel(s); ok {
		return l
	}
	if strings.HasPrefix(s, "/") {
		return core.SystemFileLabel{Path: strings.TrimRight(s, "/")}
	}
	return core.SystemPathLabel{Name: s, Path: state.Config.Path()}
}

// construct mirrors createTarget + populateTarget of src/parse/asp/targets.go.
func construct(m Target) (*core.BuildTarget, error) {
	t := core.NewBuildTarget(core.BuildLabel{PackageName: "pkg", Name: "t"})
	t.IsBinary = m.Bool["binary"]
	t.Sandbox = m.Bool["sandbox"]
	t.IsTextFile = m.Bool["text_file"]
	for _, o := range m.List["output_dirs"] {
		t.AddOutputDirectory(o)
	}
	if pe, ok := m.Map["pass_env"]; ok {
		l := []string{}
		for _, kv := range pe {
			l = append(l, passEnvPrefix+kv.K)
		}
		t.PassEnv = &l
	}
	if t.IsBinary {
		t.AddLabel("bin")
	}
	if t.IsTextFile {
		t.Command = "text_file"
		t.FileContent = m.Str["file_content"]
	} else {
		t.Command = strings.TrimSpace(m.Str["cmd"])
	}
	for _, s := range m.List["srcs"] {
		t.AddSource(srcInput(s))
	}
	for _, g := range m.Named["named_srcs"] {
		for _, s := range g.V {
			t.AddNamedSource(g.K, srcInput(s))
		}
	}
	for _, s := range m.List["tools"] {
		t.AddTool(toolInput(s))
	}
	for _, g := range m.Named["named_tools"] {
		for _, s := range g.V {
			t.AddNamedTool(g.K, toolInput(s))
		}
	}
	for _, o := range m.List["outs"] {
		t.AddOutput(o)
	}
	for _, g := range m.Named["named_outs"] {
		for _, o := range g.V {
			t.AddNamedOutput(g.K, o)
		}
	}
	for _, o := range m.List["optional_outs"] {
		t.AddOptionalOutput(o)
	}
	for _, s := range m.List["deps"] {
		l, ok := parseLabel(s)
		if !ok {
			return nil, fmt.Errorf("bad dep %q", s)
		}
		t.AddMaybeExportedDependency(l, false, false, false, false)
	}
	for _, s := range m.List["labels"] {
		t.AddLabel(s)
	}
	for _, s := range m.List["hashes"] {
		t.AddHash(s)
	}
	for _, s := range m.List["requires"] {
		t.AddRequire(s)
	}
	t.Visibility = core.WholeGraph
	for _, kv := range canonMap(m.Map["entry_points"]) { // a dict: keys are unique
		if t.NamedOutputs(kv.K) != nil {
			return nil, fmt.Errorf("entry point %q clashes with a named output", kv.K)
		}
		t.AddEntryPoint(kv.K, kv.V)
	}
	if e, ok := m.Map["env"]; ok {
		env := map[string]string{}
		for _, kv := range e {
			env[kv.K] = kv.V
		}
		t.Env = env
	}
	for _, s := range m.List["secrets"] {
		t.AddSecret(s)
	}
	for _, g := range m.Named["named_secrets"] {
		for _, s := range g.V {
			t.AddNamedSecret(g.K, s)
		}
	}
	for _, g := range m.Named["provides"] {
		ls := make([]core.BuildLabel, 0, len(g.V))
		for _, s := range g.V {
			l, ok := parseLabel(s)
			if !ok {
				return nil, fmt.Errorf("bad provide %q", s)
			}
			ls = append(ls, l)
		}
		t.AddProvide(g.K, ls)
	}
	return t, nil
}

func hashOf(m Target) ([]byte, error) {
	t, err := construct(m)
	if err != nil {
		return nil, err
	}
	pe := canonMap(m.Map["pass_env"])
	for _, kv := range pe {
		os.Setenv(passEnvPrefix+kv.K, kv.V)
	}
	defer func() {
		for _, kv := range pe {
			os.Unsetenv(passEnvPrefix + kv.K)
		}
	}()
	return build.RuleHash(state, t, false, false), nil
}

// ---- the property -------------------------------------------------------------------------------

// onlyAttrDiffers checks that B is A with (at most) attribute attr replaced.
func onlyAttrDiffers(c Case) bool {
	d := desc(c.Attr)
	if d == nil {
		return false
	}
	a := cloneTarget(c.A)
	switch d.kind {
	case kStr:
		setOrDelete(a.Str, c.B.Str, c.Attr)
	case kBool:
		setOrDelete(a.Bool, c.B.Bool, c.Attr)
	case kList:
		setOrDelete(a.List, c.B.List, c.Attr)
	case kMap:
		setOrDelete(a.Map, c.B.Map, c.Attr)
	case kNamed:
		setOrDelete(a.Named, c.B.Named, c.Attr)
	}
	return reflect.DeepEqual(normalise(a), normalise(c.B))
}

func setOrDelete[V any](dst, src map[string]V, k string) {
	if v, ok := src[k]; ok {
		dst[k] = v
	} else {
		delete(dst, k)
	}
}

func normalise(t Target) Target {
	b, _ := json.Marshal(t)
	var out Target
	json.Unmarshal(b, &out)
	return out
}

func cloneTarget(t Target) Target {
	out := normalise(t)
	if out.Str == nil {
		out.Str = map[string]string{}
	}
	if out.Bool == nil {
		out.Bool = map[string]bool{}
	}
	if out.List == nil {
		out.List = map[string][]string{}
	}
	if out.Map == nil {
		out.Map = map[string][]KV{}
	}
	if out.Named == nil {
		out.Named = map[string][]KVs{}
	}
	return out
}

func run(c Case, o *lib.Obs) error {
	if !onlyAttrDiffers(c) {
		o.Label("invalid:more-than-one-attribute")
		return nil
	}
	if (c.Attr == "cmd" && c.A.Bool["text_file"]) || (c.Attr == "file_content" && !c.A.Bool["text_file"]) {
		o.Label("invalid:attribute-not-applicable")
		return nil
	}
	ca, cb := canon(c.Attr, c.A), canon(c.Attr, c.B)
	if ca == cb {
		o.Label("invalid:same-definition")
		return nil
	}
	// passing a process-environment variable twice with different values is not expressible
	for _, t := range []Target{c.A, c.B} {
		seen := map[string]string{}
		for _, kv := range t.Map["pass_env"] {
			if v, ok := seen[kv.K]; ok && v != kv.V {
				o.Label("invalid:pass-env")
				return nil
			}
			seen[kv.K] = kv.V
			if kv.K == "" || strings.ContainsAny(kv.K, "=\x00") || strings.Contains(kv.V, "\x00") {
				o.Label("invalid:pass-env")
				return nil
			}
		}
	}
	ha, err := hashOf(c.A)
	if err != nil {
		o.Label("invalid:construct")
		return nil
	}
	hb, err := hashOf(c.B)
	if err != nil {
		o.Label("invalid:construct")
		return nil
	}
	collides := naive(c.Attr, c.A) == naive(c.Attr, c.B)
	o.Label("attr:" + c.Attr)
	if c.Op != "" {
		o.Label("op:" + c.Op)
	}
	o.LabelIf(collides, "undelimited-serialisations-equal")
	o.LabelIf(c.A.Bool["text_file"], "text_file")
	o.NonTrivial(collides)
	o.Key(c.Attr + "\x00" + ca + "\x00" + cb)
	o.Sample(map[string]any{"attr": c.Attr, "a": json.RawMessage(ca), "b": json.RawMessage(cb), "op": c.Op})
	if bytes.Equal(ha, hb) {
		cls := "collision-" + c.Attr
		return lib.Failf(cls, "%s = %s and %s = %s give the same rule hash %s", c.Attr, ca, c.Attr, cb, hex.EncodeToString(ha))
	}
	// determinism guard: a second construction of A hashes the same (otherwise the comparison means nothing)
	if h2, _ := hashOf(c.A); !bytes.Equal(h2, ha) {
		return lib.Failf("nondeterministic", "hashing the same definition twice gave %x and %x", ha, h2)
	}
	return nil
}

func TestC08(t *testing.T) {
	lib.Check(t, spec, lib.Scale(20000, 2000000), gen, run)
}

// ---- generators ---------------------------------------------------------------------------------

var labelPool = []string{"//a:b", "//a:bc", "//ab:c", "//a/b:c", "//a:b_c", "//b:a", "//a:a", "//b:ab"}

// labels used in srcs / tools are disjoint from the deps pool so that removing a dep never leaves the
// same dependency declared through another attribute.
var inputLabelPool = []string{"//s:a", "//s:ab", "//sa:b", "//s/a:b", "//s:b"}

func word(t *rapid.T, alphabet string, min, max int, label string) string {
	return rapid.StringOfN(rapid.RuneFrom([]rune(alphabet)), min, max, -1).Draw(t, label)
}

// entry draws one entry of a list-like attribute.
func entry(t *rapid.T, d *attrDesc) string {
	if d.labels {
		return rapid.SampledFrom(labelPool).Draw(t, "label")
	}
	switch d.name {
	case "srcs", "named_srcs", "tools", "named_tools":
		if rapid.IntRange(0, 4).Draw(t, "islabel") == 0 {
			return rapid.SampledFrom(inputLabelPool).Draw(t, "inlabel")
		}
	}
	if d.prefix != "" {
		// secrets: absolute paths /x/y
		n := rapid.IntRange(1, 2).Draw(t, "segs")
		s := ""
		for i := 0; i < n; i++ {
			s += d.prefix + word(t, "ab", 1, 2, "seg")
		}
		return s
	}
	w := word(t, d.words, 1, 3, "w")
	if d.name == "labels" {
		w = strings.Trim(w, ":")
		if w == "" {
			w = "a"
		}
	}
	return w
}

func key(t *rapid.T, d *attrDesc) string {
	k := word(t, d.keys, 1, 2, "k")
	if strings.Trim(k, "=") == "" || strings.HasPrefix(k, "=") {
		k = string(d.keys[0]) + k
	}
	if d.name == "pass_env" {
		k = strings.ReplaceAll(k, "=", "Q")
	}
	return k
}

func genList(t *rapid.T, d *attrDesc, min, max int) []string {
	n := rapid.IntRange(min, max).Draw(t, "n")
	l := make([]string, 0, n)
	for i := 0; i < n; i++ {
		l = append(l, entry(t, d))
	}
	return l
}

func genMap(t *rapid.T, d *attrDesc, min, max int) []KV {
	n := rapid.IntRange(min, max).Draw(t, "n")
	m := []KV{}
	seen := map[string]bool{}
	for i := 0; i < n; i++ {
		k := key(t, d)
		if seen[k] {
			continue
		}
		seen[k] = true
		m = append(m, KV{k, word(t, d.words, 0, 3, "v")})
	}
	return m
}

func genNamed(t *rapid.T, d *attrDesc, min, max int) []KVs {
	n := rapid.IntRange(min, max).Draw(t, "n")
	out := []KVs{}
	seen := map[string]bool{}
	for i := 0; i < n; i++ {
		k := key(t, d)
		if seen[k] {
			continue
		}
		seen[k] = true
		out = append(out, KVs{k, genList(t, d, 1, 2)})
	}
	return out
}

// genValue fills attribute d of target tg; rich values (>= 1 entry) for the attribute under test.
func genValue(t *rapid.T, tg *Target, d *attrDesc, rich bool) {
	min, max := 0, 2
	if rich {
		min, max = 1, 3
	}
	switch d.kind {
	case kStr:
		tg.Str[d.name] = rapid.SampledFrom([]string{"", "true", "echo a > $OUT", "echo ab > $OUT", "cat $SRCS > $OUT", "a", "ab"}).Draw(t, "str")
	case kBool:
		tg.Bool[d.name] = rapid.Bool().Draw(t, "bool")
	case kList:
		if l := genList(t, d, min, max); len(l) > 0 {
			tg.List[d.name] = l
		}
	case kMap:
		if m := genMap(t, d, min, max); len(m) > 0 || (d.name == "pass_env" && rapid.Bool().Draw(t, "emptypassenv")) {
			tg.Map[d.name] = m
		}
	case kNamed:
		if n := genNamed(t, d, min, max); len(n) > 0 {
			tg.Named[d.name] = n
		}
	}
}

// compose cuts s into a random number of non-empty parts. With prefix != "" cuts are only made in
// front of the prefix character (secrets are absolute paths).
func compose(t *rapid.T, s, prefix string, label string) []string {
	parts := []string{}
	cur := ""
	rs := []rune(s)
	for i, r := range rs {
		if i > 0 && (prefix == "" || string(r) == prefix) && rapid.IntRange(0, 2).Draw(t, label) == 0 {
			parts = append(parts, cur)
			cur = ""
		}
		cur += string(r)
	}
	if cur != "" {
		parts = append(parts, cur)
	}
	return parts
}

// mutateList derives a different list from l.
func mutateList(t *rapid.T, d *attrDesc, l []string) ([]string, string) {
	l = append([]string{}, l...)
	ops := []string{"resplit", "resplit", "shift", "merge", "edit", "add", "remove", "swap"}
	if d.labels {
		ops = []string{"edit", "add", "remove", "swap"}
	}
	op := rapid.SampledFrom(ops).Draw(t, "op")
	hasLabel := func(ss ...string) bool {
		for _, s := range ss {
			if strings.HasPrefix(s, "//") {
				return true
			}
		}
		return false
	}
	switch op {
	case "resplit":
		if len(l) > 0 && !hasLabel(l...) {
			return compose(t, strings.Join(canonList(d, l), ""), d.prefix, "cut"), op
		}
	case "shift":
		if len(l) >= 2 {
			i := rapid.IntRange(0, len(l)-2).Draw(t, "i")
			a, b := l[i], l[i+1]
			if !hasLabel(a, b) && d.prefix == "" {
				if len(a) > 1 && rapid.Bool().Draw(t, "dir") {
					l[i], l[i+1] = a[:len(a)-1], a[len(a)-1:]+b
					return l, op
				} else if len(b) > 1 {
					l[i], l[i+1] = a+b[:1], b[1:]
					return l, op
				}
			}
		}
	case "merge":
		if len(l) >= 2 {
			i := rapid.IntRange(0, len(l)-2).Draw(t, "i")
			if !hasLabel(l[i], l[i+1]) {
				l[i] = l[i] + l[i+1]
				return append(l[:i+1], l[i+2:]...), op
			}
		}
	case "edit":
		if len(l) > 0 {
			i := rapid.IntRange(0, len(l)-1).Draw(t, "i")
			l[i] = entry(t, d)
			return l, op
		}
	case "remove":
		if len(l) > 0 {
			i := rapid.IntRange(0, len(l)-1).Draw(t, "i")
			return append(l[:i], l[i+1:]...), op
		}
	case "swap":
		if len(l) >= 2 {
			i := rapid.IntRange(0, len(l)-2).Draw(t, "i")
			l[i], l[i+1] = l[i+1], l[i]
			return l, op
		}
	}
	i := rapid.IntRange(0, len(l)).Draw(t, "at")
	e := entry(t, d)
	l = append(l[:i], append([]string{e}, l[i:]...)...)
	return l, "add"
}

// parseKV re-reads a string "k=vk=v..." as a different sequence of pairs: a non-empty subset of the
// '=' characters become separators and the text between two separators is cut at a drawn point.
func parseKV(t *rapid.T, s string) []KV {
	eqs := []int{}
	for i, r := range s {
		if r == '=' && i > 0 {
			eqs = append(eqs, i)
		}
	}
	if len(eqs) == 0 {
		return nil
	}
	seps := []int{}
	for _, e := range eqs {
		// a separator needs a non-empty key: at least one character after the previous separator
		if len(seps) > 0 && e-seps[len(seps)-1] < 2 {
			continue
		}
		if rapid.IntRange(0, 2).Draw(t, "sep") > 0 {
			seps = append(seps, e)
		}
	}
	if len(seps) == 0 {
		seps = append(seps, eqs[0])
	}
	out := []KV{}
	start := 0
	for i, sep := range seps {
		end := len(s)
		if i+1 < len(seps) {
			// cut somewhere in (sep, next sep), leaving at least one character for the next key
			end = rapid.IntRange(sep+1, seps[i+1]-1).Draw(t, "cut")
		}
		out = append(out, KV{s[start:sep], s[sep+1 : end]})
		start = end
	}
	return out
}

func mutateMap(t *rapid.T, d *attrDesc, m []KV) ([]KV, string) {
	m = append([]KV{}, m...)
	op := rapid.SampledFrom([]string{"reparse", "reparse", "move-eq", "edit-value", "edit-key", "add", "remove"}).Draw(t, "op")
	switch op {
	case "reparse":
		if len(m) > 0 {
			var sb strings.Builder
			for _, kv := range canonMap(m) {
				sb.WriteString(kv.K + "=" + kv.V)
			}
			if r := parseKV(t, sb.String()); r != nil {
				return fixKeys(d, r), op
			}
		}
	case "move-eq":
		if len(m) > 0 {
			i := rapid.IntRange(0, len(m)-1).Draw(t, "i")
			k, v := m[i].K, m[i].V
			if len(k) > 1 && rapid.Bool().Draw(t, "dir") {
				m[i] = KV{k[:len(k)-1], k[len(k)-1:] + v}
				return fixKeys(d, m), op
			} else if len(v) > 0 {
				m[i] = KV{k + v[:1], v[1:]}
				return fixKeys(d, m), op
			}
		}
	case "edit-value":
		if len(m) > 0 {
			i := rapid.IntRange(0, len(m)-1).Draw(t, "i")
			m[i].V = word(t, d.words, 0, 3, "v")
			return m, op
		}
	case "edit-key":
		if len(m) > 0 {
			i := rapid.IntRange(0, len(m)-1).Draw(t, "i")
			m[i].K = key(t, d)
			return m, op
		}
	case "remove":
		if len(m) > 0 {
			i := rapid.IntRange(0, len(m)-1).Draw(t, "i")
			return append(m[:i], m[i+1:]...), op
		}
	}
	return append(m, KV{key(t, d), word(t, d.words, 0, 3, "v")}), "add"
}

// fixKeys keeps generated keys inside what the attribute allows (pass_env names cannot contain '=').
func fixKeys(d *attrDesc, m []KV) []KV {
	if d.name != "pass_env" {
		return m
	}
	out := []KV{}
	for _, kv := range m {
		if kv.K == "" || strings.Contains(kv.K, "=") {
			continue
		}
		out = append(out, kv)
	}
	return out
}

func mutateNamed(t *rapid.T, d *attrDesc, n []KVs) ([]KVs, string) {
	n = normaliseNamed(n)
	ops := []string{"regroup", "regroup", "name-shift", "rename", "move-entry", "inner", "add-group", "remove-group"}
	if d.labels {
		ops = []string{"rename", "move-entry", "inner", "add-group", "remove-group"}
	}
	op := rapid.SampledFrom(ops).Draw(t, "op")
	anyLabel := func() bool {
		for _, g := range n {
			for _, s := range g.V {
				if strings.HasPrefix(s, "//") {
					return true
				}
			}
		}
		return false
	}
	switch op {
	case "regroup":
		// same concatenation name1+entries1+name2+..., other names / boundaries
		if len(n) > 0 && !anyLabel() {
			var sb strings.Builder
			for _, g := range canonNamed(d, n) {
				sb.WriteString(g.K + strings.Join(g.V, ""))
			}
			s := sb.String()
			if d.prefix != "" {
				// names are words, entries start with the prefix: "a/x/yb/z" -> cut names off in front of words
				return regroupPrefixed(t, d, s), op
			}
			parts := compose(t, s, "", "cut")
			out := []KVs{}
			for i := 0; i < len(parts); {
				if len(parts)-i < 2 {
					// a lone trailing part joins the previous group
					if len(out) > 0 {
						out[len(out)-1].V = append(out[len(out)-1].V, parts[i])
					}
					break
				}
				k := rapid.IntRange(1, len(parts)-i-1).Draw(t, "entries")
				if rapid.Bool().Draw(t, "all") {
					k = len(parts) - i - 1
				}
				out = append(out, KVs{parts[i], append([]string{}, parts[i+1:i+1+k]...)})
				i += 1 + k
			}
			if len(out) > 0 {
				return out, op
			}
		}
	case "name-shift":
		// move a character between a group's name and its first entry
		if len(n) > 0 {
			i := rapid.IntRange(0, len(n)-1).Draw(t, "i")
			g := n[i]
			if len(g.V) > 0 && !strings.HasPrefix(g.V[0], "//") && d.prefix == "" {
				if len(g.K) > 1 && rapid.Bool().Draw(t, "dir") {
					g.V[0] = g.K[len(g.K)-1:] + g.V[0]
					g.K = g.K[:len(g.K)-1]
				} else if len(g.V[0]) > 1 {
					g.K += g.V[0][:1]
					g.V[0] = g.V[0][1:]
				}
				n[i] = g
				return n, op
			}
		}
	case "rename":
		if len(n) > 0 {
			i := rapid.IntRange(0, len(n)-1).Draw(t, "i")
			n[i].K = key(t, d)
			return n, op
		}
	case "move-entry":
		// move the last entry of a group to the front of the next group (same overall sequence)
		if len(n) >= 2 {
			gs := canonNamed(d, n)
			if len(gs) >= 2 {
				i := rapid.IntRange(0, len(gs)-2).Draw(t, "i")
				if len(gs[i].V) >= 2 {
					last := gs[i].V[len(gs[i].V)-1]
					gs[i].V = gs[i].V[:len(gs[i].V)-1]
					gs[i+1].V = append([]string{last}, gs[i+1].V...)
					return gs, op
				}
			}
		}
	case "inner":
		if len(n) > 0 {
			i := rapid.IntRange(0, len(n)-1).Draw(t, "i")
			l, sub := mutateList(t, d, n[i].V)
			if len(l) > 0 {
				n[i].V = l
				return n, "inner-" + sub
			}
		}
	case "remove-group":
		if len(n) > 0 {
			i := rapid.IntRange(0, len(n)-1).Draw(t, "i")
			return append(n[:i], n[i+1:]...), op
		}
	}
	return append(n, KVs{key(t, d), genList(t, d, 1, 2)}), "add-group"
}

// regroupPrefixed re-reads "name/x/yname/z" (names are words, entries begin with the prefix).
func regroupPrefixed(t *rapid.T, d *attrDesc, s string) []KVs {
	// tokens: maximal runs without the prefix char at their start; split s in front of every prefix char
	toks := []string{}
	cur := ""
	for _, r := range s {
		if string(r) == d.prefix && cur != "" {
			toks = append(toks, cur)
			cur = ""
		}
		cur += string(r)
	}
	if cur != "" {
		toks = append(toks, cur)
	}
	// toks[0] is the first name; every later token is "/seg" possibly followed by the next name's text.
	// A token "/xyb" may be read as entry "/xy" + name "b", or as entry "/xyb" joined to what follows.
	out := []KVs{{K: toks[0]}}
	for _, tk := range toks[1:] {
		g := &out[len(out)-1]
		body := tk[len(d.prefix):]
		if len(body) >= 2 && len(g.V) >= 0 && rapid.IntRange(0, 2).Draw(t, "newname") == 0 {
			cut := rapid.IntRange(1, len(body)-1).Draw(t, "namecut")
			g.V = append(g.V, d.prefix+body[:cut])
			out = append(out, KVs{K: body[cut:]})
			continue
		}
		if len(g.V) > 0 && rapid.IntRange(0, 2).Draw(t, "join") == 0 {
			g.V[len(g.V)-1] += tk
		} else {
			g.V = append(g.V, tk)
		}
	}
	res := []KVs{}
	for _, g := range out {
		if len(g.V) > 0 {
			res = append(res, g)
		}
	}
	return res
}

func normaliseNamed(n []KVs) []KVs {
	out := make([]KVs, len(n))
	for i, g := range n {
		out[i] = KVs{g.K, append([]string{}, g.V...)}
	}
	return out
}

func gen(t *rapid.T) Case {
	d := &attrs[rapid.IntRange(0, len(attrs)-1).Draw(t, "attr")]
	if only := os.Getenv("VERIF_C08_ATTR"); only != "" && desc(only) != nil { // development aid: one attribute only
		d = desc(only)
	}
	a := cloneTarget(Target{})
	a.Bool["text_file"] = d.name == "file_content" || (d.name != "cmd" && rapid.IntRange(0, 5).Draw(t, "text_file") == 0)
	for i := range attrs {
		o := &attrs[i]
		if o == d {
			genValue(t, &a, o, true)
			continue
		}
		// other attributes: sparse
		if o.kind == kStr || o.kind == kBool || rapid.IntRange(0, 2).Draw(t, "has") == 0 {
			genValue(t, &a, o, false)
		}
	}
	b := cloneTarget(a)
	op := ""
	for try := 0; try < 4; try++ {
		switch d.kind {
		case kStr:
			b.Str[d.name] = rapid.SampledFrom([]string{"", "true", "echo a > $OUT", "echo ab > $OUT", "cat $SRCS > $OUT", "a", "ab", "b"}).Draw(t, "str2")
			op = "edit"
		case kBool:
			b.Bool[d.name] = !a.Bool[d.name]
			op = "flip"
		case kList:
			var l []string
			l, op = mutateList(t, d, a.List[d.name])
			if len(l) == 0 {
				delete(b.List, d.name)
			} else {
				b.List[d.name] = l
			}
		case kMap:
			var m []KV
			m, op = mutateMap(t, d, a.Map[d.name])
			if len(m) == 0 && d.name != "pass_env" {
				delete(b.Map, d.name)
			} else {
				b.Map[d.name] = m
			}
		case kNamed:
			var n []KVs
			n, op = mutateNamed(t, d, a.Named[d.name])
			if len(n) == 0 {
				delete(b.Named, d.name)
			} else {
				b.Named[d.name] = n
			}
		}
		if canon(d.name, a) != canon(d.name, b) {
			break
		}
	}
	if canon(d.name, a) == canon(d.name, b) {
		// make them differ for certain
		switch d.kind {
		case kStr:
			b.Str[d.name] = a.Str[d.name] + " #"
		case kList:
			if d.labels {
				b.List[d.name] = append(append([]string{}, a.List[d.name]...), "//zz:zz")
			} else {
				b.List[d.name] = append(append([]string{}, a.List[d.name]...), d.prefix+"zz")
			}
		case kMap:
			b.Map[d.name] = append(append([]KV{}, a.Map[d.name]...), KV{"ZZ", "zz"})
		case kNamed:
			e := d.prefix + "zz"
			if d.labels {
				e = "//zz:zz"
			}
			b.Named[d.name] = append(normaliseNamed(a.Named[d.name]), KVs{"zz", []string{e}})
		}
		op = "fallback-add"
	}
	return Case{Attr: d.name, Op: op, A: normalise(a), B: normalise(b)}
}
