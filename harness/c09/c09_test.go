// C09: path hashes distinguish every difference in a file tree.
//
// Oracle (metamorphic, both directions): two trees that differ in any (relative name, kind, bytes,
// symlink target) must get different PathHasher hashes; the same tree must hash the same wherever it
// lives. The hasher is used exactly as plz uses it: rooted at the working directory, relative paths.
package c09

import (
	"crypto/sha1"
	"encoding/binary"
	"encoding/hex"
	"fmt"
	"os"
	"path/filepath"
	"sort"
	"strings"
	"sync"
	"testing"

	"github.com/thought-machine/please/src/fs"
	"pgregory.net/rapid"

	"verifharness/lib"
)

var (
	baseOnce    sync.Once
	baseDir     string
	baseCleanup = func() {}
	caseCounter int
)

func TestMain(m *testing.M) {
	code := m.Run()
	baseCleanup()
	lib.Flush()
	os.Exit(code)
}

// base creates the per-process scratch directory and makes it the working directory, because
// PathHasher works on paths relative to the repo root = working directory.
func base() string {
	baseOnce.Do(func() {
		baseDir, baseCleanup = lib.Scratch("c09-")
		if err := os.Chdir(baseDir); err != nil {
			panic(err)
		}
	})
	return baseDir
}

const knownMimic = "collision-toplevel-file-mimics-encoding"

var spec = lib.Spec{
	ID: "C09",
	Rule: "exhaustive: every tree of the small scope (root dir with names {a,b,ab}; entries file {\"\",a,b,ab} / symlink {a,b} / subdir with names {a,b}; plus top-level files and symlinks) is hashed and ALL unordered pairs are compared by grouping equal hashes; " +
		"random: G-trees (depth<=3, fanout<=4, colliding names/contents, relative+dangling symlinks, empty dirs/files; root may be a file or a symlink) paired with a copy changed by one structural mutation " +
		"(edit, rename, move, re-split contents across adjacent files, retarget symlink, change kind, wrap file in dir / unwrap, add/remove empty file or dir, swap sibling names) or left identical. " +
		"Oracle: TreeDiff(t1,t2) on (relative name, kind, bytes, link target) non-empty => hashes differ; identical trees hash equal, also after being moved elsewhere. " +
		"Non-trivial = the trees differ AND have the same concatenation of file bytes (one marker byte per symlink) in walk order, i.e. the class a contents-only hash cannot see; distinct = JSON of the pair",
	Assumptions: []string{
		"exec bits and other mode bits are not part of the property (statement lists contents, names, positions, symlink targets, kinds)",
		"sha1 is treated as collision free",
		"a top-level regular file is hashed as its bare content (kept so single-file hashes do not move); a file whose bytes equal the hasher's own encoding of a symlink/directory is the recorded known class " + knownMimic,
	},
}

type pairCase struct {
	T1, T2 *lib.Node
	Mut    string `json:",omitempty"`
}

// ---- model side ---------------------------------------------------------------------------------

func sortTree(n *lib.Node) {
	sort.Slice(n.Children, func(i, j int) bool { return n.Children[i].Name < n.Children[j].Name })
	for _, c := range n.Children {
		sortTree(c)
	}
}

// sig is what a contents-only directory hash would see: file bytes in walk order, one marker per symlink.
func sig(n *lib.Node, top bool) string {
	switch {
	case n.Dir:
		cs := append([]*lib.Node{}, n.Children...)
		sort.Slice(cs, func(i, j int) bool { return cs[i].Name < cs[j].Name })
		var sb strings.Builder
		for _, c := range cs {
			sb.WriteString(sig(c, false))
		}
		return sb.String()
	case n.Link:
		if top {
			return "\x02" + n.Target
		}
		return "\x02"
	}
	return n.Content
}

// canon is a canonical string of the tree (ignoring the root's name and exec bits).
func canon(n *lib.Node) string {
	var sb strings.Builder
	for _, e := range lib.Flatten(n, "") {
		fmt.Fprintf(&sb, "%q%c%q%q;", e.Path, e.Kind, e.Content, e.Target)
	}
	return sb.String()
}

// encoding reproduces what the hasher feeds to the hash function for a top-level symlink or
// directory (used only to craft / classify the "file mimics encoding" cases; if it is out of date
// those cases simply stop colliding).
func encoding(n *lib.Node) string {
	switch {
	case n.Link:
		return "\x02" + n.Target
	case n.Dir:
		var sb strings.Builder
		var rec func(n *lib.Node, rel string)
		rec = func(n *lib.Node, rel string) {
			sb.WriteString(rel)
			sb.WriteByte(0)
			switch {
			case n.Dir:
				sb.WriteByte(3)
				cs := append([]*lib.Node{}, n.Children...)
				sort.Slice(cs, func(i, j int) bool { return cs[i].Name < cs[j].Name })
				for _, c := range cs {
					r := c.Name
					if rel != "." {
						r = rel + "/" + c.Name
					}
					rec(c, r)
				}
			case n.Link:
				sb.WriteByte(2)
				sb.WriteString(n.Target)
				sb.WriteByte(0)
			default:
				sb.WriteByte(4)
				var sz [9]byte // executable flag + size
				if n.Exec {
					sz[0] = 1
				}
				binary.BigEndian.PutUint64(sz[1:], uint64(len(n.Content)))
				sb.Write(sz[:])
				sb.WriteString(n.Content)
			}
		}
		rec(n, ".")
		return sb.String()
	}
	return n.Content
}

func isFile(n *lib.Node) bool { return !n.Dir && !n.Link }

func mimics(a, b *lib.Node) bool {
	return (isFile(a) && !isFile(b) && a.Content == encoding(b)) || (isFile(b) && !isFile(a) && b.Content == encoding(a))
}

// ---- system side --------------------------------------------------------------------------------

// place materialises the tree at <dir>/t (with sibling files a and b so that a top-level symlink resolves).
func place(n *lib.Node, dir string) (string, error) {
	if err := os.MkdirAll(dir, 0o755); err != nil {
		return "", err
	}
	if n.Link {
		for _, s := range []string{"a", "b"} {
			if err := os.WriteFile(filepath.Join(dir, s), []byte("sibling "+s), 0o644); err != nil {
				return "", err
			}
		}
	}
	// Every other case lives in a directory whose own name is made of the characters that entry
	// names are drawn from: a hash that derives entry names from full paths by anything other than a
	// proper relative-path computation (trimming, cut sets, string prefixes) then confuses entries
	// with the directory they live in.
	name := "t"
	if caseCounter%2 == 0 {
		name = "ab.c-hB#xy é"
	}
	p := filepath.Join(dir, name)
	return p, lib.Materialize(n, p)
}

func hashAt(rel string) (string, error) {
	h := fs.NewPathHasher(base(), false, sha1.New, "sha1")
	b, err := h.Hash(rel, true, false, false)
	if err != nil {
		return "", err
	}
	return hex.EncodeToString(b), nil
}

func newCaseDir() (string, func()) {
	base()
	caseCounter++
	d := fmt.Sprintf("k%d", caseCounter)
	return d, func() { os.RemoveAll(filepath.Join(baseDir, d)) }
}

// hashTree materialises a tree in a fresh place and hashes it.
func hashTree(n *lib.Node) (string, error) {
	d, cleanup := newCaseDir()
	defer cleanup()
	p, err := place(n, filepath.Join(d, "1"))
	if err != nil {
		return "", &lib.Inconclusive{Msg: "cannot materialise: " + err.Error()}
	}
	return hashAt(p)
}

func run(c pairCase, o *lib.Obs) error {
	if c.T1 == nil || c.T2 == nil {
		return nil
	}
	d, cleanup := newCaseDir()
	defer cleanup()
	p1, err := place(c.T1, filepath.Join(d, "1"))
	if err != nil {
		return &lib.Inconclusive{Msg: "cannot materialise: " + err.Error()}
	}
	p2, err := place(c.T2, filepath.Join(d, "2"))
	if err != nil {
		return &lib.Inconclusive{Msg: "cannot materialise: " + err.Error()}
	}
	h1, err := hashAt(p1)
	if err != nil {
		return lib.Failf("hash-error", "hashing first tree: %v", err)
	}
	h2, err := hashAt(p2)
	if err != nil {
		return lib.Failf("hash-error", "hashing second tree: %v", err)
	}
	diff := lib.DiffEntries(lib.Flatten(c.T1, ""), lib.Flatten(c.T2, ""), lib.DiffOpts{IgnoreExec: true})
	sameSig := sig(c.T1, true) == sig(c.T2, true)
	if c.Mut != "" {
		o.Label("mut:" + c.Mut)
	}
	o.LabelIf(diff == "", "identical")
	o.LabelIf(diff != "" && sameSig, "same_bytes_in_walk_order")
	o.LabelIf(c.T1.Kind() != c.T2.Kind(), "root_kind_differs")
	o.LabelIf(!c.T1.Dir || !c.T2.Dir, "toplevel_non_dir")
	_, _, links, empties, _ := lib.CountNodes(c.T1)
	o.LabelIf(links > 0, "has_symlink")
	o.LabelIf(empties > 0, "has_empty_dir")
	o.NonTrivial(diff != "" && sameSig)
	if diff == "" {
		if h1 != h2 {
			return lib.Failf("unstable", "identical trees hash differently: %s vs %s", h1, h2)
		}
	} else if h1 == h2 {
		class := "collision"
		if mimics(c.T1, c.T2) {
			class = knownMimic
		}
		return lib.Failf(class, "trees differ but both hash to %s:\n%s", h1, diff)
	}
	// the hash must not depend on where the tree lives (outputs are hashed in plz-out/tmp and then moved)
	moved := filepath.Join(d, "3", "deeper", "u")
	if err := os.MkdirAll(filepath.Dir(moved), 0o755); err != nil {
		return &lib.Inconclusive{Msg: err.Error()}
	}
	if err := os.Rename(p1, moved); err != nil {
		return &lib.Inconclusive{Msg: err.Error()}
	}
	h3, err := hashAt(moved)
	if err != nil {
		return lib.Failf("hash-error", "hashing moved tree: %v", err)
	}
	if h3 != h1 {
		return lib.Failf("location-dependent", "the same tree hashes to %s at %s and to %s at %s", h1, p1, h3, moved)
	}
	return nil
}

// ---- exhaustive small scope ---------------------------------------------------------------------

func file(c string) *lib.Node { return &lib.Node{Content: c} }
func link(t string) *lib.Node { return &lib.Node{Link: true, Target: t} }

// dirsOver returns every directory whose entries are named by names (each absent or one of alts).
func dirsOver(names []string, alts []*lib.Node) []*lib.Node {
	out := []*lib.Node{{Dir: true}}
	for _, nm := range names {
		var next []*lib.Node
		for _, d := range out {
			next = append(next, d)
			for _, a := range alts {
				nd := d.Clone()
				ch := a.Clone()
				ch.Name = nm
				nd.Children = append(nd.Children, ch)
				next = append(next, nd)
			}
		}
		out = next
	}
	return out
}

func smallScope(thorough bool) []*lib.Node {
	leaves := []*lib.Node{file(""), file("a"), file("b"), file("ab"), link("a"), link("b")}
	subLeaves := []*lib.Node{file(""), file("a"), link("a")}
	if thorough {
		subLeaves = leaves
	}
	subdirs := dirsOver([]string{"a", "b"}, subLeaves)
	alts := append(append([]*lib.Node{}, leaves...), subdirs...)
	all := dirsOver([]string{"a", "b", "ab"}, alts)
	all = append(all, leaves...) // top-level files and symlinks
	for _, n := range all {
		n.Name = "t"
		sortTree(n)
	}
	return all
}

func exhaustive(t *testing.T) bool {
	rec := lib.Rec(spec)
	trees := smallScope(lib.Thorough())
	byHash := map[string]int{}
	bySig := map[string]int{}
	canons := make([]string, len(trees))
	ok := true
	for i, n := range trees {
		canons[i] = canon(n)
		h, err := hashTree(n)
		if err != nil {
			if _, inc := err.(*lib.Inconclusive); inc {
				t.Logf("inconclusive: %v", err)
				return false
			}
			lib.Each(t, spec, pairCase{T1: n, T2: n, Mut: "exhaustive"}, run) // reports hash-error
			return false
		}
		if j, dup := byHash[h]; dup && canons[j] != canons[i] {
			// a colliding pair: run it as a case so that it is reported with a replay file
			if !lib.Each(t, spec, pairCase{T1: trees[j], T2: n, Mut: "exhaustive"}, run) {
				ok = false
				break
			}
		} else if !dup {
			byHash[h] = i
		}
		// record one full pair evaluation per tree: partner = the last tree with the same
		// contents-only signature if there is one (non-trivial pair), else the previous tree
		s := sig(n, true)
		partner := i - 1
		if j, have := bySig[s]; have {
			partner = j
		}
		bySig[s] = i
		if partner >= 0 {
			if !lib.Each(t, spec, pairCase{T1: trees[partner], T2: n, Mut: "exhaustive"}, run) {
				ok = false
				break
			}
		}
	}
	n := int64(len(trees))
	rec.Subspace(fmt.Sprintf("all unordered pairs among the %d small-scope trees (equal hashes grouped, structurally different members reported)", n), n*(n-1)/2, ok)
	rec.Extra("exhaustive_trees", n)
	rec.Extra("exhaustive_distinct_hashes", int64(len(byHash)))
	return ok
}

// crafted: a top-level regular file whose bytes equal the hasher's encoding of a symlink / directory.
func crafted(t *testing.T) bool {
	rec := lib.Rec(spec)
	l := &lib.Node{Name: "t", Link: true, Target: "a"}
	d := &lib.Node{Name: "t", Dir: true, Children: []*lib.Node{{Name: "a", Content: "x"}}}
	cases := []pairCase{
		{T1: l, T2: &lib.Node{Name: "t", Content: encoding(l)}, Mut: "crafted"},
		{T1: d, T2: &lib.Node{Name: "t", Content: encoding(d)}, Mut: "crafted"},
	}
	for _, c := range cases {
		if lib.Known("C09", knownMimic) {
			rec.Excluded(knownMimic)
			continue
		}
		if !lib.Each(t, spec, c, run) {
			return false
		}
	}
	return true
}

// ---- random trees + one mutation ----------------------------------------------------------------

var contents = append(append([]string{}, lib.CollidingContents...), "\x02", "\x02a")

type ref struct {
	n, parent *lib.Node
}

func collect(root *lib.Node) []ref {
	var out []ref
	var rec func(n, p *lib.Node)
	rec = func(n, p *lib.Node) {
		out = append(out, ref{n, p})
		for _, c := range n.Children {
			rec(c, n)
		}
	}
	rec(root, nil)
	return out
}

func hasChild(d *lib.Node, name string) bool {
	for _, c := range d.Children {
		if c.Name == name {
			return true
		}
	}
	return false
}

func removeChild(d, c *lib.Node) {
	for i, x := range d.Children {
		if x == c {
			d.Children = append(d.Children[:i:i], d.Children[i+1:]...)
			return
		}
	}
}

func inside(n, anc *lib.Node) bool {
	if n == anc {
		return true
	}
	for _, c := range anc.Children {
		if inside(n, c) {
			return true
		}
	}
	return false
}

func pick[T any](t *rapid.T, xs []T, label string) T {
	return xs[rapid.IntRange(0, len(xs)-1).Draw(t, label)]
}

func filter(rs []ref, f func(ref) bool) []ref {
	var out []ref
	for _, r := range rs {
		if f(r) {
			out = append(out, r)
		}
	}
	return out
}

var mutations = []string{"edit", "rename", "move", "resplit", "retarget", "kind", "wrap", "unwrap", "addempty", "rmempty", "swap"}

var names = append(append([]string{}, lib.CollidingNames...), "z", "a b")

// mutate applies one mutation in place; returns false if it is not applicable to this tree.
func mutate(t *rapid.T, root *lib.Node, kind string) bool {
	all := collect(root)
	switch kind {
	case "edit":
		fs := filter(all, func(r ref) bool { return isFile(r.n) })
		if len(fs) == 0 {
			return false
		}
		f := pick(t, fs, "file").n
		f.Content = pick(t, contents, "newcontent")
	case "rename":
		es := filter(all, func(r ref) bool { return r.parent != nil })
		if len(es) == 0 {
			return false
		}
		e := pick(t, es, "entry")
		nn := pick(t, names, "newname")
		if hasChild(e.parent, nn) {
			return false
		}
		e.n.Name = nn
	case "move":
		es := filter(all, func(r ref) bool { return r.parent != nil })
		if len(es) == 0 {
			return false
		}
		e := pick(t, es, "entry")
		ds := filter(all, func(r ref) bool { return r.n.Dir && r.n != e.parent && !inside(r.n, e.n) && !hasChild(r.n, e.n.Name) })
		if len(ds) == 0 {
			return false
		}
		d := pick(t, ds, "dest").n
		removeChild(e.parent, e.n)
		d.Children = append(d.Children, e.n)
	case "resplit":
		sortTree(root)
		fs := filter(collect(root), func(r ref) bool { return isFile(r.n) })
		if len(fs) < 2 {
			return false
		}
		i := rapid.IntRange(0, len(fs)-2).Draw(t, "pair")
		a, b := fs[i].n, fs[i+1].n
		whole := a.Content + b.Content
		k := rapid.IntRange(0, len(whole)).Draw(t, "split")
		a.Content, b.Content = whole[:k], whole[k:]
	case "retarget":
		ls := filter(all, func(r ref) bool { return r.n.Link })
		if len(ls) == 0 {
			return false
		}
		l := pick(t, ls, "link").n
		l.Target = pick(t, []string{"a", "b", "ab", "../a", "nonexistent", ".", "a/b", "b/a"}, "target")
	case "kind":
		e := pick(t, all, "entry")
		n := e.n
		to := rapid.IntRange(0, 2).Draw(t, "to")
		switch {
		case to == 0 && !isFile(n): // -> file
			c := pick(t, contents, "content")
			if n.Dir && rapid.Bool().Draw(t, "keepbytes") {
				c = sig(n, false)
			}
			if n.Link && e.parent != nil && rapid.Bool().Draw(t, "marker") {
				c = "\x02"
			}
			if n.Link && e.parent == nil && c == encoding(n) && lib.Known("C09", knownMimic) {
				lib.Rec(spec).Excluded(knownMimic)
				return false
			}
			*n = lib.Node{Name: n.Name, Content: c}
		case to == 1 && !n.Dir: // -> empty dir
			*n = lib.Node{Name: n.Name, Dir: true}
		case to == 2 && !n.Link: // -> symlink
			*n = lib.Node{Name: n.Name, Link: true, Target: pick(t, []string{"a", "b", "nonexistent"}, "target")}
		default:
			return false
		}
	case "wrap":
		fs := filter(all, func(r ref) bool { return isFile(r.n) })
		if len(fs) == 0 {
			return false
		}
		f := pick(t, fs, "file").n
		*f = lib.Node{Name: f.Name, Dir: true, Children: []*lib.Node{{Name: pick(t, names, "inner"), Content: f.Content}}}
	case "unwrap":
		ds := filter(all, func(r ref) bool { return r.n.Dir && len(r.n.Children) == 1 && isFile(r.n.Children[0]) })
		if len(ds) == 0 {
			return false
		}
		d := pick(t, ds, "dir").n
		*d = lib.Node{Name: d.Name, Content: d.Children[0].Content}
	case "addempty":
		ds := filter(all, func(r ref) bool { return r.n.Dir })
		if len(ds) == 0 {
			return false
		}
		d := pick(t, ds, "dir").n
		nn := pick(t, names, "newname")
		if hasChild(d, nn) {
			return false
		}
		d.Children = append(d.Children, &lib.Node{Name: nn, Dir: rapid.Bool().Draw(t, "asdir")})
	case "rmempty":
		es := filter(all, func(r ref) bool {
			return r.parent != nil && ((r.n.Dir && len(r.n.Children) == 0) || (isFile(r.n) && r.n.Content == ""))
		})
		if len(es) == 0 {
			return false
		}
		e := pick(t, es, "entry")
		removeChild(e.parent, e.n)
	case "swap":
		ds := filter(all, func(r ref) bool { return r.n.Dir && len(r.n.Children) >= 2 })
		if len(ds) == 0 {
			return false
		}
		d := pick(t, ds, "dir").n
		i := rapid.IntRange(0, len(d.Children)-2).Draw(t, "i")
		j := rapid.IntRange(i+1, len(d.Children)-1).Draw(t, "j")
		d.Children[i].Name, d.Children[j].Name = d.Children[j].Name, d.Children[i].Name
	}
	sortTree(root)
	return true
}

func gen(t *rapid.T) pairCase {
	opts := lib.TreeGenOpts{MaxDepth: rapid.IntRange(1, 3).Draw(t, "depth"), MaxFanout: 4, Symlinks: true, EmptyDirs: true, Contents: contents}
	var t1 *lib.Node
	switch rapid.IntRange(0, 11).Draw(t, "rootkind") {
	case 0:
		t1 = &lib.Node{Name: "t", Content: pick(t, lib.CollidingContents, "content")}
	case 1:
		t1 = &lib.Node{Name: "t", Link: true, Target: pick(t, []string{"a", "b"}, "target")}
	default:
		t1 = lib.GenDir(t, "t", opts)
	}
	sortTree(t1)
	t2 := t1.Clone()
	if rapid.IntRange(0, 11).Draw(t, "identity") == 0 {
		return pairCase{T1: t1, T2: t2}
	}
	start := rapid.IntRange(0, len(mutations)-1).Draw(t, "mutation")
	for i := 0; i < len(mutations); i++ {
		m := mutations[(start+i)%len(mutations)]
		if mutate(t, t2, m) {
			return pairCase{T1: t1, T2: t2, Mut: m}
		}
		t2 = t1.Clone()
	}
	return pairCase{T1: t1, T2: t2}
}

func TestC09(t *testing.T) {
	defer func() {
		// leave the scratch directory before it is removed
		os.Chdir("/")
	}()
	if lib.ReplayMode(t, spec, run) {
		return
	}
	lib.RunKnown(t, spec, run)
	if shard, _ := lib.Shard(); shard == 0 {
		if !crafted(t) || !exhaustive(t) {
			return
		}
	}
	lib.Check(t, spec, lib.Scale(6000, 600000), gen, run)
}
