// C27: coverage aggregation does not depend on test completion order.
package c27

import (
	"fmt"
	"reflect"
	"sort"
	"strings"
	"testing"

	"github.com/thought-machine/please/src/core"
	"pgregory.net/rapid"

	"verifharness/lib"
)

func TestMain(m *testing.M) { lib.Main(m) }

var spec = lib.Spec{
	ID: "C27",
	Rule: "exhaustive: all ordered pairs and triples of line-state vectors (4 states) of length 0..4 (pairs) / 0..2 (triples) through MergeCoverageLines; " +
		"random: multisets of 2-6 TestCoverage objects (1-3 files, unequal vector lengths 0-8, distinct test labels as the code documents) aggregated in up to 24 permutations and with duplicates. " +
		"Oracle: pointwise max with length = max length; commutative, associative, idempotent; inputs not mutated; per-test map keeps every label. " +
		"Non-trivial = vectors of unequal length with >= 2 distinct states (pairs) / a file covered by >= 2 runs with unequal lengths (multisets); distinct = canonical string of the case",
	Assumptions: []string{"distinct test labels per run (documented assumption in Aggregate)", "line states are ordered NotExecutable < Unreachable < Uncovered < Covered as in the enum"},
}

type vec = []core.LineCoverage

func refMerge(vs ...vec) vec {
	n := 0
	for _, v := range vs {
		if len(v) > n {
			n = len(v)
		}
	}
	out := make(vec, n)
	for _, v := range vs {
		for i, x := range v {
			if x > out[i] {
				out[i] = x
			}
		}
	}
	return out
}

func vstr(v vec) string { return core.TestCoverageString(v) }

func eqVec(a, b vec) bool {
	if len(a) != len(b) {
		return false
	}
	for i := range a {
		if a[i] != b[i] {
			return false
		}
	}
	return true
}

// allVecs enumerates every vector over the 4 states with length <= maxLen.
func allVecs(maxLen int) []vec {
	out := []vec{{}}
	prev := []vec{{}}
	for l := 1; l <= maxLen; l++ {
		var cur []vec
		for _, p := range prev {
			for s := 0; s < 4; s++ {
				v := append(append(vec{}, p...), core.LineCoverage(s))
				cur = append(cur, v)
			}
		}
		out = append(out, cur...)
		prev = cur
	}
	return out
}

type pairCase struct {
	A, B, C string // vectors as NXUC strings; C only used for triples
	Triple  bool
}

func parse(s string) vec {
	v := make(vec, len(s))
	for i, ch := range s {
		v[i] = core.LineCoverage(strings.IndexRune("NXUC", ch))
	}
	return v
}

func distinctStates(vs ...vec) int {
	seen := map[core.LineCoverage]bool{}
	for _, v := range vs {
		for _, x := range v {
			seen[x] = true
		}
	}
	return len(seen)
}

func runPair(c pairCase, o *lib.Obs) error {
	a, b := parse(c.A), parse(c.B)
	a0, b0 := append(vec{}, a...), append(vec{}, b...)
	ab := core.MergeCoverageLines(a, b)
	ba := core.MergeCoverageLines(b, a)
	want := refMerge(a, b)
	o.LabelIf(len(a) != len(b), "unequal_length")
	o.NonTrivial(len(a) != len(b) && distinctStates(a, b) >= 2)
	if !eqVec(a, a0) || !eqVec(b, b0) {
		return lib.Failf("input-mutated", "merge(%s,%s) mutated an input: now %s,%s", c.A, c.B, vstr(a), vstr(b))
	}
	if !eqVec(ab, want) {
		return lib.Failf("not-max", "merge(%s,%s)=%s want %s", c.A, c.B, vstr(ab), vstr(want))
	}
	if !eqVec(ba, want) {
		return lib.Failf("not-commutative", "merge(%s,%s)=%s but merge(%s,%s)=%s", c.A, c.B, vstr(ab), c.B, c.A, vstr(ba))
	}
	if aa := core.MergeCoverageLines(ab, b); !eqVec(aa, ab) {
		return lib.Failf("not-idempotent", "merging %s again into %s gives %s", c.B, vstr(ab), vstr(aa))
	}
	// result must not alias an input: writing to it must leave the inputs alone
	for i := range ab {
		ab[i] = core.Covered
	}
	if !eqVec(a, a0) || !eqVec(b, b0) {
		return lib.Failf("result-aliases-input", "result of merge(%s,%s) shares memory with an input", c.A, c.B)
	}
	if c.Triple {
		cc := parse(c.C)
		l := core.MergeCoverageLines(core.MergeCoverageLines(a, b), cc)
		r := core.MergeCoverageLines(a, core.MergeCoverageLines(b, cc))
		if !eqVec(l, r) || !eqVec(l, refMerge(a, b, cc)) {
			return lib.Failf("not-associative", "(%s+%s)+%s=%s, %s+(%s+%s)=%s", c.A, c.B, c.C, vstr(l), c.A, c.B, c.C, vstr(r))
		}
	}
	return nil
}

func TestC27(t *testing.T) {
	if lib.ReplayMode(t, spec, runAny) {
		return
	}
	rec := lib.Rec(spec)
	lib.RunKnown(t, spec, runAny)
	shard, shards := lib.Shard()
	// exhaustive pairs
	vs := allVecs(4)
	n := 0
	ok := true
	for i, a := range vs {
		if i%shards != shard {
			continue
		}
		for _, b := range vs {
			n++
			if !lib.Each(t, spec, anyCase{Pair: &pairCase{A: vstr(a), B: vstr(b)}}, runAny) {
				ok = false
				break
			}
		}
		if !ok {
			break
		}
	}
	rec.Subspace("ordered pairs of line-state vectors, length 0..4", int64(len(vs)*len(vs)), ok && shards == 1)
	vt := allVecs(2)
	if lib.Thorough() {
		vt = allVecs(3)
	}
	for i, a := range vt {
		if i%shards != shard || !ok {
			continue
		}
		for _, b := range vt {
			for _, c := range vt {
				if !lib.Each(t, spec, anyCase{Pair: &pairCase{A: vstr(a), B: vstr(b), C: vstr(c), Triple: true}}, runAny) {
					ok = false
				}
			}
		}
	}
	rec.Subspace(fmt.Sprintf("ordered triples of line-state vectors, length 0..%d", map[bool]int{false: 2, true: 3}[lib.Thorough()]), int64(len(vt)*len(vt)*len(vt)), ok && shards == 1)
	if !ok {
		return
	}
	lib.Check(t, spec, lib.Scale(20000, 2000000), genAny, runAny)
}

// ---- multiset aggregation ----------------------------------------------------------------------

type covRun struct {
	Label string            // test label name (distinct per run)
	Files map[string]string // file -> NXUC vector
}

type multiCase struct {
	Runs  []covRun
	Perms [][]int // orders (with possible repeats of an index = the same run merged twice)
}

type anyCase struct {
	Pair  *pairCase  `json:",omitempty"`
	Multi *multiCase `json:",omitempty"`
}

func runAny(c anyCase, o *lib.Obs) error {
	if c.Pair != nil {
		o.Label("pair")
		return runPair(*c.Pair, o)
	}
	if c.Multi != nil {
		o.Label("multiset")
		return runMulti(*c.Multi, o)
	}
	return nil
}

func genAny(t *rapid.T) anyCase {
	nRuns := rapid.IntRange(2, 6).Draw(t, "runs")
	files := []string{"a.go", "b/c.go", "d.py"}
	vecGen := rapid.StringOfN(rapid.RuneFrom([]rune("NXUC")), 0, 8, -1)
	mc := multiCase{}
	for i := 0; i < nRuns; i++ {
		r := covRun{Label: fmt.Sprintf("t%d", i), Files: map[string]string{}}
		for _, f := range files {
			if rapid.IntRange(0, 3).Draw(t, "has") > 0 {
				r.Files[f] = vecGen.Draw(t, "vec")
			}
		}
		mc.Runs = append(mc.Runs, r)
	}
	nPerms := rapid.IntRange(2, 6).Draw(t, "perms")
	for p := 0; p < nPerms; p++ {
		perm := rapid.Permutation(seq(nRuns)).Draw(t, "perm")
		// sometimes merge a run twice
		if rapid.IntRange(0, 2).Draw(t, "dup") == 0 {
			perm = append(perm, perm[rapid.IntRange(0, nRuns-1).Draw(t, "dupidx")])
		}
		mc.Perms = append(mc.Perms, perm)
	}
	return anyCase{Multi: &mc}
}

func seq(n int) []int {
	s := make([]int, n)
	for i := range s {
		s[i] = i
	}
	return s
}

func mkCov(r covRun) *core.TestCoverage {
	c := core.NewTestCoverage()
	l := core.BuildLabel{PackageName: "p", Name: r.Label}
	c.Tests[l] = map[string][]core.LineCoverage{}
	for f, v := range r.Files {
		c.Files[f] = parse(v)
		c.Tests[l][f] = parse(v)
	}
	return c
}

func runMulti(c multiCase, o *lib.Obs) error {
	// reference: per file, max over all runs
	want := map[string]vec{}
	perFile := map[string][]vec{}
	for _, r := range c.Runs {
		for f, v := range r.Files {
			perFile[f] = append(perFile[f], parse(v))
		}
	}
	nt := false
	for f, vs := range perFile {
		want[f] = refMerge(vs...)
		if len(vs) >= 2 {
			for _, v := range vs[1:] {
				if len(v) != len(vs[0]) {
					nt = true
				}
			}
		}
	}
	o.NonTrivial(nt)
	for _, perm := range c.Perms {
		covs := make([]*core.TestCoverage, len(c.Runs))
		for i, r := range c.Runs {
			covs[i] = mkCov(r)
		}
		agg := core.NewTestCoverage()
		if len(perm)%2 == 1 {
			agg = &core.TestCoverage{} // nil maps: Aggregate documents lazy initialisation
		}
		for _, idx := range perm {
			if idx < 0 || idx >= len(covs) {
				continue
			}
			agg.Aggregate(covs[idx])
		}
		seen := map[int]bool{}
		for _, idx := range perm {
			seen[idx] = true
		}
		full := len(seen) == len(c.Runs)
		if full {
			if len(agg.Files) != len(want) {
				return lib.Failf("files-differ", "order %v: %d files aggregated, want %d", perm, len(agg.Files), len(want))
			}
			for f, w := range want {
				if !eqVec(agg.Files[f], w) {
					return lib.Failf("order-dependent", "order %v: file %s = %s, want max-merge %s", perm, f, vstr(agg.Files[f]), vstr(w))
				}
			}
			if len(agg.Tests) != len(c.Runs) {
				return lib.Failf("tests-lost", "order %v: %d per-test entries, want %d", perm, len(agg.Tests), len(c.Runs))
			}
		}
		// inputs untouched
		for i, r := range c.Runs {
			fresh := mkCov(r)
			if !reflect.DeepEqual(fresh.Files, covs[i].Files) {
				return lib.Failf("input-mutated", "order %v: run %d's coverage was modified by aggregation", perm, i)
			}
		}
	}
	o.Sample(map[string]any{"runs": c.Runs, "orders": c.Perms, "expected": func() map[string]string {
		m := map[string]string{}
		ks := []string{}
		for f := range want {
			ks = append(ks, f)
		}
		sort.Strings(ks)
		for _, f := range ks {
			m[f] = vstr(want[f])
		}
		return m
	}()})
	return nil
}
