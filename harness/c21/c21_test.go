// C21: glob() returns exactly the files its documented semantics select.
//
// Differential: fs.Glob (the function behind asp's glob(), called the way asp calls it: package
// directory relative to the repo root = working directory, BUILD file names appended to the
// excludes, symlinks included) against a segment-wise reference matcher written here.
package c21

import (
	"fmt"
	"os"
	"path/filepath"
	"sort"
	"strings"
	"testing"

	"github.com/thought-machine/please/src/fs"
	"pgregory.net/rapid"

	"verifharness/lib"
)

func TestMain(m *testing.M) { lib.Main(m) }

var buildFileNames = []string{"BUILD", "BUILD.plz"}

var spec = lib.Spec{
	ID: "C21",
	Rule: "repository trees (depth<=3) with nested sub-packages (BUILD / BUILD.plz in a sub-directory, with files sorting before and after it), hidden files and hidden directories, plz-out at the root, symlinks, names with regex metacharacters (+ . ( ) $ ^ | { }), spaces and '#'; " +
		"package = the root or any directory; 1-3 include and 0-2 exclude patterns of the documented grammar only (literal, *, ?, [class], and ** as a whole segment), half of them generalised from a real path of the tree so that they select something; hidden true/false. " +
		"Oracle: reference matcher working on path segments (*, ?, class never match '/'; ** matches >= 0 whole segments), minus sub-packages and plz-out, minus (unless hidden) paths with any hidden component, minus excludes (slash-free exclude = basename rule); directories ignored on both sides; compared as sets. " +
		"Non-trivial = tree has a sub-package and a hidden directory, and some include contains ** or a class; distinct = JSON of the case",
	Assumptions: []string{
		"hidden = name starts with '.' (documented); names that start and end with '#' (also hidden in the code, undocumented) are not generated",
		"a literal exclude that names a directory excludes the files below it in the code (tested there, undocumented): such excludes are not generated",
		"directories called BUILD and symlinks called BUILD are not generated; directory entries in results are ignored (the property speaks about files)",
		"** only as a whole path segment, never two ** segments in a row (documented grammar: ** matches complete path components)",
	},
}

type globCase struct {
	Tree    *lib.Node
	Pkg     string // "" = repo root
	Include []string
	Exclude []string `json:",omitempty"`
	Hidden  bool     `json:",omitempty"`
}

// ---- reference ---------------------------------------------------------------------------------

func isHiddenName(n string) bool { return strings.HasPrefix(n, ".") }

// segMatch matches one path segment against a pattern segment: * ? [class] literal.
func segMatch(p, s []rune) bool {
	for len(p) > 0 {
		switch p[0] {
		case '*':
			for i := 0; i <= len(s); i++ {
				if segMatch(p[1:], s[i:]) {
					return true
				}
			}
			return false
		case '?':
			if len(s) == 0 {
				return false
			}
			p, s = p[1:], s[1:]
		case '[':
			end := -1
			for i := 2; i < len(p); i++ { // a class has at least one member
				if p[i] == ']' {
					end = i
					break
				}
			}
			if end < 0 { // not a class: literal '['
				if len(s) == 0 || s[0] != '[' {
					return false
				}
				p, s = p[1:], s[1:]
				continue
			}
			if len(s) == 0 {
				return false
			}
			body := p[1:end]
			neg := false
			if body[0] == '^' {
				neg, body = true, body[1:]
			}
			in := false
			for i := 0; i < len(body); i++ {
				if i+2 < len(body) && body[i+1] == '-' {
					if body[i] <= s[0] && s[0] <= body[i+2] {
						in = true
					}
					i += 2
				} else if body[i] == s[0] {
					in = true
				}
			}
			if in == neg {
				return false
			}
			p, s = p[end+1:], s[1:]
		default:
			if len(s) == 0 || s[0] != p[0] {
				return false
			}
			p, s = p[1:], s[1:]
		}
	}
	return len(s) == 0
}

func pathMatch(pat, path []string) bool {
	if len(pat) == 0 {
		return len(path) == 0
	}
	if pat[0] == "**" {
		if len(pat) == 1 {
			// a trailing ** stands for at least one component: "a/**" selects what is below a, and whether
			// it also selects a file called a (zero components, dangling separator) is not documented
			return len(path) >= 1
		}
		for i := 0; i <= len(path); i++ {
			if pathMatch(pat[1:], path[i:]) {
				return true
			}
		}
		return false
	}
	if len(path) == 0 {
		return false
	}
	return segMatch([]rune(pat[0]), []rune(path[0])) && pathMatch(pat[1:], path[1:])
}

func refMatch(pattern, rel string) bool {
	return pathMatch(strings.Split(pattern, "/"), strings.Split(rel, "/"))
}

func find(n *lib.Node, rel string) *lib.Node {
	if rel == "" {
		return n
	}
	for _, seg := range strings.Split(rel, "/") {
		var next *lib.Node
		for _, c := range n.Children {
			if c.Name == seg {
				next = c
			}
		}
		if next == nil {
			return nil
		}
		n = next
	}
	return n
}

func isPackageDir(d *lib.Node) bool {
	for _, c := range d.Children {
		if !c.Dir && !c.Link && (c.Name == "BUILD" || c.Name == "BUILD.plz") {
			return true
		}
	}
	return false
}

// candidates lists the non-directory entries owned by the package at pkg (paths relative to it).
func candidates(tree *lib.Node, pkg string) []string {
	root := find(tree, pkg)
	var out []string
	var rec func(d *lib.Node, rel string)
	rec = func(d *lib.Node, rel string) {
		for _, c := range d.Children {
			p := c.Name
			if rel != "" {
				p = rel + "/" + c.Name
			}
			if c.Dir {
				if isPackageDir(c) {
					continue
				}
				if pkg == "" && rel == "" && c.Name == "plz-out" {
					continue
				}
				rec(c, p)
				continue
			}
			out = append(out, p)
		}
	}
	rec(root, "")
	return out
}

func reference(c globCase) map[string]bool {
	excludes := append(append([]string{}, c.Exclude...), buildFileNames...)
	out := map[string]bool{}
	for _, f := range candidates(c.Tree, c.Pkg) {
		segs := strings.Split(f, "/")
		if !c.Hidden {
			hid := false
			for _, s := range segs {
				hid = hid || isHiddenName(s)
			}
			if hid {
				continue
			}
		}
		inc := false
		for _, p := range c.Include {
			inc = inc || refMatch(p, f)
		}
		if !inc {
			continue
		}
		exc := false
		for _, e := range excludes {
			if strings.Contains(e, "/") {
				exc = exc || refMatch(e, f)
			} else {
				exc = exc || refMatch(e, segs[len(segs)-1])
			}
		}
		if !exc {
			out[f] = true
		}
	}
	return out
}

// ---- run ---------------------------------------------------------------------------------------

func hasHiddenDir(n *lib.Node) bool {
	for _, c := range n.Children {
		if c.Dir && (isHiddenName(c.Name) && len(c.Children) > 0 || hasHiddenDir(c)) {
			return true
		}
	}
	return false
}

func hasSubPackage(n *lib.Node) bool {
	for _, c := range n.Children {
		if c.Dir && (isPackageDir(c) || hasSubPackage(c)) {
			return true
		}
	}
	return false
}

func run(c globCase, o *lib.Obs) (err error) {
	if c.Tree == nil || len(c.Include) == 0 {
		return nil
	}
	scratch, cleanup := lib.Scratch("c21-")
	defer cleanup()
	if err := lib.Materialize(c.Tree, scratch); err != nil {
		return &lib.Inconclusive{Msg: "materialise: " + err.Error()}
	}
	if err := os.Chdir(scratch); err != nil {
		return &lib.Inconclusive{Msg: err.Error()}
	}
	defer os.Chdir("/")
	want := reference(c)

	special := false
	for _, p := range c.Include {
		special = special || strings.Contains(p, "**") || strings.Contains(p, "[")
	}
	o.LabelIf(c.Pkg == "", "root_package")
	o.LabelIf(c.Hidden, "hidden=true")
	o.LabelIf(len(c.Exclude) > 0, "has_exclude")
	o.LabelIf(len(want) > 0, "selects_something")
	o.LabelIf(hasHiddenDir(c.Tree), "hidden_dir")
	o.LabelIf(hasSubPackage(c.Tree), "sub_package")
	o.LabelIf(special, "doublestar_or_class")
	o.NonTrivial(hasHiddenDir(c.Tree) && hasSubPackage(c.Tree) && special)

	var got []string
	func() {
		defer func() {
			if r := recover(); r != nil {
				err = lib.Failf("panic", "glob(%q, exclude=%q, hidden=%v) in package %q panicked: %v", c.Include, c.Exclude, c.Hidden, c.Pkg, r)
			}
		}()
		excludes := append(append([]string{}, c.Exclude...), buildFileNames...) // as asp's glob() does
		got = fs.Glob(fs.HostFS, buildFileNames, c.Pkg, c.Include, excludes, c.Hidden)
	}()
	if err != nil {
		return err
	}
	gotSet := map[string]bool{}
	pkgNode := find(c.Tree, c.Pkg)
	for _, g := range got {
		if g == "." {
			continue // the package directory itself
		}
		n := find(pkgNode, g)
		if n != nil && n.Dir {
			continue // directories are ignored on both sides
		}
		gotSet[g] = true
	}
	var extra, missing []string
	for g := range gotSet {
		if !want[g] {
			extra = append(extra, g)
		}
	}
	for w := range want {
		if !gotSet[w] {
			missing = append(missing, w)
		}
	}
	sort.Strings(extra)
	sort.Strings(missing)
	desc := fmt.Sprintf("glob(%q, exclude=%q, hidden=%v) in package %q", c.Include, c.Exclude, c.Hidden, c.Pkg)
	if len(extra) > 0 {
		class := "returned-extra"
		for _, seg := range strings.Split(filepath.Dir(extra[0]), "/") {
			if !c.Hidden && isHiddenName(seg) && seg != "." {
				class = "returned-file-in-hidden-dir"
			}
		}
		return lib.Failf(class, "%s returned %q which the documented semantics do not select (reference: %v)", desc, extra, keys(want))
	}
	if len(missing) > 0 {
		return lib.Failf("missed", "%s did not return %q (returned %q)", desc, missing, got)
	}
	return nil
}

func keys(m map[string]bool) []string {
	var ks []string
	for k := range m {
		ks = append(ks, k)
	}
	sort.Strings(ks)
	return ks
}

// ---- generator ---------------------------------------------------------------------------------

var dirNames = []string{"a", "b", "sub", "d+e", ".hid", "x y", "(p)", "$v", "a.b", "#x", "é"}
var fileNames = []string{"a", "b", "a.go", "b.go", "ab.go", "A.go", "0.txt", "a.txt", "z.go", ".hidden.go", "a+b.go", "x y.txt",
	"f(1).go", "f1.go", "$x.go", "a^b", "c|d.go", "{e}.go", "a.b.go", "agoo", "#x", "x#", "axb.go", "é.go"}

func genTreeDir(t *rapid.T, name string, depth int, isRoot bool) *lib.Node {
	d := &lib.Node{Name: name, Dir: true}
	used := map[string]bool{}
	add := func(n *lib.Node) {
		if !used[n.Name] {
			used[n.Name] = true
			d.Children = append(d.Children, n)
		}
	}
	nf := rapid.IntRange(0, 5).Draw(t, "nfiles")
	for i := 0; i < nf; i++ {
		nm := rapid.SampledFrom(fileNames).Draw(t, "fname")
		if rapid.IntRange(0, 9).Draw(t, "aslink") == 0 {
			add(&lib.Node{Name: nm, Link: true, Target: rapid.SampledFrom([]string{"a.go", "sub", "nonexistent", ".."}).Draw(t, "target")})
		} else {
			add(&lib.Node{Name: nm, Content: "x"})
		}
	}
	if !isRoot && rapid.IntRange(0, 3).Draw(t, "pkg") == 0 {
		add(&lib.Node{Name: rapid.SampledFrom(buildFileNames).Draw(t, "buildname"), Content: "# build file"})
	}
	if isRoot && rapid.Bool().Draw(t, "rootbuild") {
		add(&lib.Node{Name: "BUILD", Content: "# build file"})
	}
	if depth > 0 {
		nd := rapid.IntRange(0, 3).Draw(t, "ndirs")
		for i := 0; i < nd; i++ {
			nm := rapid.SampledFrom(dirNames).Draw(t, "dname")
			if !used[nm] {
				add(genTreeDir(t, nm, depth-1, false))
			}
		}
	}
	if depth > 0 && !used[".hid"] && rapid.IntRange(0, 3).Draw(t, "hiddendir") == 0 {
		add(genTreeDir(t, ".hid", depth-1, false))
	}
	if isRoot && rapid.IntRange(0, 2).Draw(t, "plzout") == 0 {
		add(&lib.Node{Name: "plz-out", Dir: true, Children: []*lib.Node{{Name: "gen", Dir: true, Children: []*lib.Node{{Name: "a.go", Content: "generated"}}}, {Name: "a.go", Content: "generated"}}})
	}
	sort.Slice(d.Children, func(i, j int) bool { return d.Children[i].Name < d.Children[j].Name })
	return d
}

func allDirs(n *lib.Node, rel string, out *[]string) {
	*out = append(*out, rel)
	for _, c := range n.Children {
		if c.Dir && !(rel == "" && c.Name == "plz-out") {
			p := c.Name
			if rel != "" {
				p = rel + "/" + c.Name
			}
			allDirs(c, p, out)
		}
	}
}

func allFilesBelow(n *lib.Node, rel string, out *[]string) {
	for _, c := range n.Children {
		p := c.Name
		if rel != "" {
			p = rel + "/" + c.Name
		}
		if c.Dir {
			allFilesBelow(c, p, out)
		} else {
			*out = append(*out, p)
		}
	}
}

var classes = []string{"[a-z]", "[^0-9]", "[abc]", "[A-Z]", "[^a]", "[0-9a]"}
var chunks = []string{"a", "b", "ab", ".go", ".txt", ".", "+", "(", ")", "(1)", "$", "^", "|", "{e}", "x y", "x", "f", "1", "é", "#"}

func genSegment(t *rapid.T, last bool) string {
	switch rapid.IntRange(0, 5).Draw(t, "segkind") {
	case 0:
		return "**"
	case 1:
		return "*"
	case 2:
		if last {
			return rapid.SampledFrom(fileNames).Draw(t, "lit")
		}
		return rapid.SampledFrom(dirNames).Draw(t, "lit")
	}
	n := rapid.IntRange(1, 3).Draw(t, "atoms")
	var sb strings.Builder
	prevStar := false
	for i := 0; i < n; i++ {
		switch k := rapid.IntRange(0, 5).Draw(t, "atom"); {
		case k == 0 && !prevStar:
			sb.WriteString("*")
			prevStar = true
			continue
		case k == 1:
			sb.WriteString("?")
		case k == 2:
			sb.WriteString(rapid.SampledFrom(classes).Draw(t, "class"))
		default:
			sb.WriteString(rapid.SampledFrom(chunks).Draw(t, "chunk"))
		}
		prevStar = false
	}
	if s := sb.String(); s != "." && s != ".." {
		return s
	}
	return "*" // "." and ".." are path syntax, not patterns
}

// generalise turns a real relative path into a pattern that still matches it (by the reference).
func generalise(t *rapid.T, rel string) string {
	segs := strings.Split(rel, "/")
	var out []string
	for i, s := range segs {
		last := i == len(segs)-1
		switch k := rapid.IntRange(0, 6).Draw(t, "gen"); {
		case k == 0 && !last:
			if len(out) == 0 || out[len(out)-1] != "**" {
				out = append(out, "**")
			}
			// ** swallows this segment (and may swallow more)
		case k == 1:
			out = append(out, "*")
		case k == 2:
			r := []rune(s)
			j := rapid.IntRange(0, len(r)-1).Draw(t, "qpos")
			if r[j] != '[' {
				r[j] = '?'
			}
			out = append(out, string(r))
		case k == 3:
			if j := strings.LastIndex(s, "."); j > 0 {
				out = append(out, "*"+s[j:])
			} else {
				out = append(out, s)
			}
		case k == 4:
			r := []rune(s)
			if r[0] >= 'a' && r[0] <= 'z' {
				out = append(out, "[a-z]"+string(r[1:]))
			} else {
				out = append(out, s)
			}
		case k == 5 && last:
			if len(out) == 0 || out[len(out)-1] != "**" {
				out = append(out, "**")
			}
			out = append(out, s)
		default:
			out = append(out, s)
		}
	}
	if len(out) == 1 && out[0] == "**" {
		out = append(out, "*")
	}
	return strings.Join(out, "/")
}

func genPattern(t *rapid.T, files []string) string {
	if len(files) > 0 && rapid.Bool().Draw(t, "fromfile") {
		return generalise(t, rapid.SampledFrom(files).Draw(t, "file"))
	}
	n := rapid.IntRange(1, 3).Draw(t, "segs")
	var segs []string
	for i := 0; i < n; i++ {
		s := genSegment(t, i == n-1)
		if s == "**" && len(segs) > 0 && segs[len(segs)-1] == "**" {
			s = "*"
		}
		segs = append(segs, s)
	}
	return strings.Join(segs, "/")
}

func hasGlobChars(s string) bool { return strings.ContainsAny(s, "*?[") }

func gen(t *rapid.T) globCase {
	tree := genTreeDir(t, "repo", rapid.IntRange(1, 3).Draw(t, "depth"), true)
	var dirs []string
	allDirs(tree, "", &dirs)
	pkg := ""
	if rapid.IntRange(0, 2).Draw(t, "rootpkg") != 0 {
		pkg = rapid.SampledFrom(dirs).Draw(t, "pkg")
	}
	var files []string
	allFilesBelow(find(tree, pkg), "", &files)
	c := globCase{Tree: tree, Pkg: pkg, Hidden: rapid.IntRange(0, 3).Draw(t, "hidden") == 0}
	ni := rapid.IntRange(1, 3).Draw(t, "nincludes")
	for i := 0; i < ni; i++ {
		c.Include = append(c.Include, genPattern(t, files))
	}
	ne := rapid.IntRange(0, 2).Draw(t, "nexcludes")
	for i := 0; i < ne; i++ {
		e := genPattern(t, files)
		if rapid.Bool().Draw(t, "basename_exclude") {
			e = e[strings.LastIndex(e, "/")+1:]
		}
		// undocumented code path: a literal exclude naming a directory excludes its subtree
		if !hasGlobChars(e) {
			if n := find(find(tree, pkg), e); n != nil && n.Dir {
				continue
			}
		}
		c.Exclude = append(c.Exclude, e)
	}
	return c
}

func TestC21(t *testing.T) {
	defer os.Chdir("/")
	lib.Check(t, spec, lib.Scale(6000, 300000), gen, run)
}
