// C25: `plz gc` never proposes removing anything a kept root still needs.
//
// A generated model graph (lib.GGraph with binaries, tests, test_only libraries, hidden sub-targets,
// keep labels, gc_sibling labels, shared sources, subincludes) is installed into a real BuildGraph;
// gc.GarbageCollect is run in dry-run mode with stdout captured, and the printed removal lists are
// compared with a reference closure of the GC roots computed on the model. Safety only: GC may keep
// more than the reference, never less.
package c25

import (
	"fmt"
	"io"
	"os"
	"sort"
	"strings"
	"testing"

	"github.com/thought-machine/please/src/core"
	"github.com/thought-machine/please/src/gc"
	"pgregory.net/rapid"

	"verifharness/lib"
)

func TestMain(m *testing.M) {
	lib.QuietPleaseLogs()
	lib.Main(m)
}

var spec = lib.Spec{
	ID: "C25",
	Rule: "generated DAGs of 2-8 rules in up to 4 packages (visible target + 0-3 hidden sub-targets each; ~20% non-test binaries, ~30% tests, ~10% test_only libraries; keep / gc_sibling labels; 0-2 sources per target from a pool of 4 per package, so sources are shared; require/provide; direct dependencies on other rules' hidden targets; sometimes a registered subinclude), " +
		"with drawn gc arguments: conservative on/off, keep labels, keep patterns (a target or //pkg:all) passed the way `plz gc` passes them, optional filter. " +
		"Oracle: roots = non-test binaries (all binaries if conservative) + labelled + named + subincludes, closed under declared and resolved dependencies, then (not conservative) extended to a fixpoint with every test one of whose direct dependencies outside its own rule is kept and not test_only; no removed target may be in that set, no removed rule may own a hidden target in it, no removed source may belong to a target in it. " +
		"Non-trivial = GC proposes at least one removal AND some needed target is reachable from the roots only through a hidden sub-target, or is needed only through a test of a kept target; distinct = case JSON",
	Assumptions: []string{
		"gc.GarbageCollect is called in-process with dryRun=true on a graph built through the exported core API; its stdout is the observation",
		"removing a visible rule removes the hidden sub-targets it generates (RewriteFile deletes the whole rule statement), so a removed rule that owns a needed hidden target is reported as a violation of its own class",
		"a test is 'a test of X' when it (or one of its own hidden sub-targets) declares a dependency on X",
	},
}

// Case is a graph plus gc arguments. Patterns are written "//pkg:name" or "//pkg:all".
type Case struct {
	G            lib.GGraph
	Conservative bool     `json:",omitempty"`
	KeepLabels   []string `json:",omitempty"`
	Keep         []string `json:",omitempty"` // [gc] keep entries
	Filter       []string `json:",omitempty"` // command-line targets limiting gc
}

func parsePattern(p string) (pkg, name string, err error) {
	if !strings.HasPrefix(p, "//") || !strings.Contains(p, ":") {
		return "", "", fmt.Errorf("malformed case: pattern %q", p)
	}
	i := strings.LastIndex(p, ":")
	return p[2:i], p[i+1:], nil
}

func matches(patterns []string, pkg, name string) bool {
	for _, p := range patterns {
		pp, pn, _ := parsePattern(p)
		if pp == pkg && (pn == name || pn == "all") {
			return true
		}
	}
	return false
}

func captureStdout(f func()) (string, error) {
	oldOut, oldErr := os.Stdout, os.Stderr
	r, wr, err := os.Pipe()
	if err != nil {
		return "", err
	}
	null, err := os.OpenFile(os.DevNull, os.O_WRONLY, 0)
	if err != nil {
		return "", err
	}
	done := make(chan string)
	go func() {
		b, _ := io.ReadAll(r)
		done <- string(b)
	}()
	os.Stdout, os.Stderr = wr, null
	func() {
		defer func() { os.Stdout, os.Stderr = oldOut, oldErr; wr.Close(); null.Close() }()
		f()
	}()
	s := <-done
	r.Close()
	return s, nil
}

var sharedState *core.BuildState

func run(c Case, o *lib.Obs) error {
	g := &c.G
	if err := g.Validate(); err != nil {
		return fmt.Errorf("malformed case: %v", err)
	}
	for _, p := range append(append([]string{}, c.Keep...), c.Filter...) {
		if _, _, err := parsePattern(p); err != nil {
			return err
		}
	}
	n := len(g.Targets)
	if sharedState == nil {
		sharedState = core.NewDefaultBuildState()
	}
	sharedState.Graph = core.NewGraph()
	state := sharedState
	ts, err := g.Install(state)
	if err != nil {
		return fmt.Errorf("harness: %v", err)
	}
	if err := g.CheckInstalled(ts); err != nil {
		return lib.Failf("harness-model-mismatch", "%v", err)
	}
	idx := map[string]int{}
	for i := range g.Targets {
		idx[g.Label(i).String()] = i
	}

	// ---- reference ------------------------------------------------------------------------------
	adj := g.Adjacency()
	edges := make([][]int, n) // declared + resolved
	for i := range edges {
		edges[i] = append(append([]int{}, g.Targets[i].Deps...), adj[i]...)
	}
	closure := func(set map[int]bool, from int, skipHidden bool) {
		stack := []int{from}
		for len(stack) > 0 {
			u := stack[len(stack)-1]
			stack = stack[:len(stack)-1]
			if set[u] {
				continue
			}
			set[u] = true
			for _, v := range edges[u] {
				if skipHidden && g.IsHidden(v) {
					continue
				}
				stack = append(stack, v)
			}
		}
	}
	hasLabel := func(i int, ls []string) bool {
		for _, l := range g.Targets[i].Labels {
			for _, k := range ls {
				if l == k {
					return true
				}
			}
		}
		return false
	}
	var roots []int
	for i, t := range g.Targets {
		if (t.Binary && (!t.Test || c.Conservative)) || hasLabel(i, c.KeepLabels) || matches(c.Keep, t.Pkg, t.Name) {
			roots = append(roots, i)
		}
	}
	pkgNames := make([]string, 0, len(g.Subincludes))
	for p := range g.Subincludes {
		pkgNames = append(pkgNames, p)
	}
	sort.Strings(pkgNames)
	for _, p := range pkgNames {
		roots = append(roots, g.Subincludes[p]...)
	}
	k0 := map[int]bool{}
	noHidden := map[int]bool{}
	for _, r := range roots {
		closure(k0, r, false)
		closure(noHidden, r, true)
	}
	// direct dependencies of a test outside its own rule (through its own hidden sub-targets)
	var public func(i int, seen map[int]bool) []int
	public = func(i int, seen map[int]bool) []int {
		var out []int
		for _, d := range g.Targets[i].Deps {
			if g.SameRule(d, i) {
				if !seen[d] {
					seen[d] = true
					out = append(out, public(d, seen)...)
				}
			} else {
				out = append(out, d)
			}
		}
		return out
	}
	testOf := func(i int, kept map[int]bool) bool {
		for _, d := range public(i, map[int]bool{}) {
			if kept[d] && !g.Targets[d].TestOnly {
				return true
			}
		}
		return false
	}
	k1 := map[int]bool{} // snapshot reading: tests of what the roots keep
	for i := range k0 {
		k1[i] = true
	}
	k := map[int]bool{} // fixpoint reading
	for i := range k0 {
		k[i] = true
	}
	if !c.Conservative {
		for i, t := range g.Targets {
			if t.Test && testOf(i, k0) {
				closure(k1, i, false)
			}
		}
		for changed := true; changed; {
			changed = false
			for i, t := range g.Targets {
				if t.Test && !k[i] && testOf(i, k) {
					closure(k, i, false)
					changed = true
				}
			}
		}
	}
	neededSrcs := map[string]int{}
	for i := range k {
		for _, s := range g.Targets[i].Srcs {
			neededSrcs[g.Targets[i].Pkg+"/"+s] = i
		}
	}
	viaHidden, viaTest := false, false
	for i := range k {
		if k0[i] && !noHidden[i] && !g.IsHidden(i) {
			viaHidden = true
		}
		if !k0[i] {
			viaTest = true
		}
	}

	// ---- run gc ---------------------------------------------------------------------------------
	toLabels := func(ps []string, onlySpecific bool) []core.BuildLabel {
		var out []core.BuildLabel
		for _, p := range ps {
			pkg, name, _ := parsePattern(p)
			if onlySpecific && name == "all" {
				// `plz gc` passes state.ExpandLabels(keep): the targets of the package
				for i, t := range g.Targets {
					if t.Pkg == pkg {
						out = append(out, g.Label(i))
					}
				}
				continue
			}
			out = append(out, core.BuildLabel{PackageName: pkg, Name: name})
		}
		return out
	}
	for _, p := range c.Keep {
		pkg, name, _ := parsePattern(p)
		if name != "all" {
			if _, ok := idx[core.BuildLabel{PackageName: pkg, Name: name}.String()]; !ok {
				return fmt.Errorf("malformed case: keep entry %s is not a target", p)
			}
		}
	}
	out, err := captureStdout(func() {
		gc.GarbageCollect(state, toLabels(c.Filter, false), toLabels(c.Keep, true), toLabels(c.Keep, false), c.KeepLabels,
			c.Conservative, false, false, true, true, false)
	})
	if err != nil {
		return &lib.Inconclusive{Msg: "pipe: " + err.Error()}
	}
	var removed []int
	var removedSrcs []string
	for _, line := range strings.Split(out, "\n") {
		line = strings.TrimSpace(line)
		if line == "" {
			continue
		}
		if strings.HasPrefix(line, "//") {
			i, ok := idx[line]
			if !ok {
				return lib.Failf("removed-unknown-target", "gc proposes removing %s, which is not in the graph", line)
			}
			removed = append(removed, i)
		} else {
			removedSrcs = append(removedSrcs, line)
		}
	}

	sibling := false
	for _, t := range g.Targets {
		for _, l := range t.Labels {
			sibling = sibling || strings.HasPrefix(l, "gc_sibling:")
		}
	}
	o.LabelIf(c.Conservative, "conservative")
	o.LabelIf(len(removed) > 0, "something_removed")
	o.LabelIf(len(removedSrcs) > 0, "sources_removed")
	o.LabelIf(viaHidden, "needed_only_through_hidden_target")
	o.LabelIf(viaTest, "needed_only_through_test_of_kept_target")
	o.LabelIf(sibling, "gc_sibling")
	o.LabelIf(len(g.Subincludes) > 0, "subinclude_root")
	o.LabelIf(len(c.Keep) > 0, "keep_pattern")
	o.LabelIf(len(c.Filter) > 0, "filter")
	o.NonTrivial(len(removed) > 0 && (viaHidden || viaTest))
	names := func(is []int) []string {
		var out []string
		for _, i := range is {
			out = append(out, g.Label(i).String())
		}
		sort.Strings(out)
		return out
	}
	var keptList []int
	for i := range k {
		keptList = append(keptList, i)
	}
	desc := fmt.Sprintf("gc conservative=%v keep_label=%v keep=%v filter=%v; roots %v; needed %v; proposed removals %v, sources %v",
		c.Conservative, c.KeepLabels, c.Keep, c.Filter, names(roots), names(keptList), names(removed), removedSrcs)

	for _, r := range removed {
		if k[r] {
			class := "removed-needed-target"
			why := "is needed by a kept root"
			switch {
			case hasSiblingLabel(g.Targets[r]):
				class, why = "removed-needed-target-with-gc-sibling", "is needed by a kept root (it carries a gc_sibling label whose sibling is not kept)"
			case !k1[r]:
				class, why = "removed-test-of-target-kept-via-another-test", "is a test of (or needed by a test of) a target that is kept because another kept test needs it"
			}
			return lib.Failf(class, "%s %s, but gc proposes removing it. %s", g.Label(r), why, desc)
		}
	}
	for _, r := range removed {
		for i := range g.Targets {
			if k[i] && g.IsHidden(i) && g.SameRule(i, r) {
				return lib.Failf("removed-rule-owning-needed-hidden-target", "gc proposes removing %s, whose hidden sub-target %s is needed by a kept root. %s", g.Label(r), g.Label(i), desc)
			}
		}
	}
	for _, s := range removedSrcs {
		if i, ok := neededSrcs[s]; ok {
			return lib.Failf("removed-needed-source", "gc proposes deleting %s, a source of kept target %s. %s", s, g.Label(i), desc)
		}
	}
	return nil
}

func hasSiblingLabel(t lib.GTarget) bool {
	for _, l := range t.Labels {
		if strings.HasPrefix(l, "gc_sibling:") {
			return true
		}
	}
	return false
}

// ---- generator ---------------------------------------------------------------------------------

func gen(t *rapid.T) Case {
	g := lib.GenGGraph(t, lib.GGraphOpts{Kinds: true, Subincludes: true})
	c := Case{G: g}
	n := len(g.Targets)
	var visible []int
	for i := range g.Targets {
		if !g.IsHidden(i) {
			visible = append(visible, i)
		}
	}
	// gc_sibling labels: "this target shares the fate of <sibling in the same package>"
	if !lib.Known("C25", "removed-needed-target-with-gc-sibling") {
		for _, i := range visible {
			if rapid.IntRange(0, 7).Draw(t, "sibling") == 0 {
				j := visible[rapid.IntRange(0, len(visible)-1).Draw(t, "siblingOf")]
				if j != i && g.Targets[j].Pkg == g.Targets[i].Pkg {
					g.Targets[i].Labels = append(g.Targets[i].Labels, "gc_sibling:"+g.Targets[j].Name)
				}
			}
		}
	} else {
		lib.Rec(spec).Excluded("removed-needed-target-with-gc-sibling")
	}
	c.Conservative = rapid.IntRange(0, 3).Draw(t, "conservative") == 0
	if rapid.IntRange(0, 2).Draw(t, "keepLabel") == 0 {
		c.KeepLabels = []string{rapid.SampledFrom([]string{"keep", "lib"}).Draw(t, "kl")}
	}
	pattern := func(name string) string {
		i := rapid.IntRange(0, n-1).Draw(t, name)
		if rapid.IntRange(0, 3).Draw(t, name+"All") == 0 {
			return "//" + g.Targets[i].Pkg + ":all"
		}
		if g.IsHidden(i) { // people name visible targets
			i = g.ParentIdx(i)
		}
		return g.Label(i).String()
	}
	for k := rapid.SampledFrom([]int{0, 0, 1, 1, 2}).Draw(t, "keeps"); k > 0; k-- {
		c.Keep = append(c.Keep, pattern("keep"))
	}
	if rapid.IntRange(0, 3).Draw(t, "useFilter") == 0 {
		c.Filter = []string{pattern("filter")}
	}
	c.G = g
	return c
}

func TestC25(t *testing.T) {
	lib.Check(t, spec, lib.Scale(6000, 300000), gen, run)
}
