package aspgen

import (
	"strconv"
	"strings"
)

// flagSnap remembers the generator's knowledge about a variable.
type flagSnap struct {
	v      *avar
	copy   avar
	writes int
}

// enterReeval is called before generating code that runs more than once or later (loop bodies,
// function bodies): what the generator knows about the existing variables only holds for the first
// execution, so it is replaced by the conservative assumption.
func (g *aspGen) enterReeval() []flagSnap {
	snap := make([]flagSnap, len(g.vars))
	for i, v := range g.vars {
		snap[i] = flagSnap{v: v, copy: *v, writes: v.writes}
		v.ln = -1
		v.nonASCII = true
		if v.t.container() {
			v.aliased = true
		}
		if v.t.K == AspList {
			v.folded = true
		}
	}
	return snap
}

// exitReeval restores the knowledge about variables the block did not write to.
func (g *aspGen) exitReeval(snap []flagSnap) {
	for _, s := range snap {
		if s.v.writes == s.writes {
			marks := s.v.amarks
			*s.v = s.copy
			if marks != s.copy.amarks {
				s.v.aliased, s.v.amarks = true, marks
			}
		}
	}
}

func (g *aspGen) newListVar(ind int, minLen int) *avar {
	// a List[int] variable of known length >= minLen, built in one of several ways (literal,
	// filtered comprehension, += in a loop: the last two leave spare capacity in asp's slice)
	name := g.name("l")
	n := g.n(minLen, minLen+3, "plen")
	var e ex
	switch g.n(0, 3, "pbuild") {
	case 0:
		parts := make([]string, n)
		for i := range parts {
			parts[i] = strconv.Itoa(g.n(-3, 9, "pelem"))
		}
		e = atom("[" + strings.Join(parts, ", ") + "]")
		e.constLit, e.cpart = true, true
		if g.reeval() && g.o.ExclFoldedConst {
			g.excluded("folded-constant")
			e.s += " + []"
			e.constLit, e.cpart = false, false
		}
		g.emit(ind, name+" = "+e.s)
	case 1:
		c := g.name("c")
		g.feat("list_comprehension")
		g.feat("comprehension_filter")
		g.emit(ind, name+" = ["+c+" for "+c+" in range("+strconv.Itoa(n+g.n(1, 4, "extra"))+") if "+c+" < "+strconv.Itoa(n)+"]")
		g.op(pCmp)
	case 2:
		x := g.name("x")
		g.feat("for")
		g.feat("augassign_list")
		g.emit(ind, name+" = []")
		g.emit(ind, "for "+x+" in range("+strconv.Itoa(n)+"):")
		g.emit(ind+1, name+" += ["+x+" * "+strconv.Itoa(g.n(1, 3, "mul"))+"]")
		g.op(pMul)
	default:
		g.emit(ind, name+" = "+"["+strconv.Itoa(g.n(0, 5, "pelem"))+"] * "+strconv.Itoa(n))
		g.feat("list_repeat")
		g.op(pMul)
	}
	e.fresh, e.ln = true, n
	v := g.declare(name, AspListOf(tInt), e)
	v.ln = n
	if g.depth > 0 {
		v.ln = -1
	}
	return v
}

// pattern emits one of the aliasing / sharing patterns the property statement names.
func (g *aspGen) pattern(ind int) {
	g.startStmt()
	lt := AspListOf(tInt)
	k := g.n(0, 13, "pattern")
	if g.depth > 0 && (k == 1 || k == 9 || k == 11) {
		k = 3
	}
	switch k {
	case 0: // y = x; x[i] = v
		x := g.newListVar(ind, 2)
		y := g.name("l")
		g.emit(ind, y+" = "+x.name)
		g.alias(x)
		yv := g.declare(y, lt, g.varEx(x))
		yv.folded = x.folded
		g.emit(ind, x.name+"[0] = "+g.intExpr(1).s)
		g.meta.Aliasing = true
		g.feat("p_alias_mutate")
	case 1: // same function called twice, one result mutated
		f := g.name("f")
		lit := "[" + strconv.Itoa(g.n(0, 5, "e0")) + ", " + strconv.Itoa(g.n(0, 5, "e1")) + "]"
		if g.o.ExclFoldedConst {
			g.excluded("folded-constant")
			lit += " + []"
		} else {
			g.feat("folded_constant_mutation")
		}
		g.emit(ind, "def "+f+"():")
		g.emit(ind+1, "return "+lit)
		a, b := g.name("l"), g.name("l")
		g.emit(ind, a+" = "+f+"()")
		g.emit(ind, a+"[0] = "+g.intExpr(1).s)
		g.emit(ind, b+" = "+f+"()")
		g.declare(a, lt, ex{fresh: true, ln: 2})
		g.declare(b, lt, ex{fresh: true, ln: 2})
		g.funcs = append(g.funcs, &afunc{name: f, ret: lt, fresh: true, folded: !g.o.ExclFoldedConst})
		g.meta.Aliasing = true
		g.feat("p_call_twice")
		g.feat("def")
	case 2: // the same literal evaluated on every iteration, each result mutated
		acc, tmp, x := g.name("l"), g.name("l"), g.name("x")
		lit := "[0, " + strconv.Itoa(g.n(0, 5, "e1")) + "]"
		if g.o.ExclFoldedConst {
			g.excluded("folded-constant")
			lit += " + []"
		} else {
			g.feat("folded_constant_mutation")
		}
		g.emit(ind, acc+" = []")
		g.emit(ind, "for "+x+" in range("+strconv.Itoa(g.n(2, 4, "iters"))+"):")
		g.emit(ind+1, tmp+" = "+lit)
		g.emit(ind+1, tmp+"[0] = "+x)
		g.emit(ind+1, acc+" = "+acc+" + ["+tmp+"]")
		g.op(pAdd)
		av := g.declare(acc, AspListOf(lt), ex{fresh: true, ln: -1})
		av.folded = !g.o.ExclFoldedConst
		g.meta.Aliasing = true
		g.feat("p_literal_in_loop")
		g.feat("for")
	case 3, 4: // two lists grown from the same list (spare capacity)
		x := g.newListVar(ind, 1)
		y, z := g.name("l"), g.name("l")
		g.emit(ind, y+" = "+x.name+" + ["+strconv.Itoa(g.n(5, 9, "e"))+"]")
		g.emit(ind, z+" = "+x.name+" + ["+strconv.Itoa(g.n(0, 4, "e"))+", "+g.intExpr(1).s+"]")
		g.op(pAdd)
		g.op(pAdd)
		g.declare(y, lt, ex{fresh: true, ln: -1})
		g.declare(z, lt, ex{fresh: true, ln: -1})
		g.meta.Aliasing = true
		g.feat("p_append_twice")
		g.feat("list_concat")
	case 5: // sorted / reversed must not touch their argument
		x := g.newListVar(ind, 2)
		y := g.name("l")
		fn := []string{"sorted(%s)", "reversed(%s)", "sorted(%s, reverse = True)", "sorted(%s, key = lambda q: -q)"}[g.n(0, 3, "sortfn")]
		g.emit(ind, y+" = "+strings.Replace(fn, "%s", x.name, 1))
		g.declare(y, lt, ex{fresh: true, ln: x.ln})
		g.meta.Aliasing = true
		g.feat("p_sorted_copy")
		g.feat("sorted")
	case 6: // a slice is a copy
		x := g.newListVar(ind, 3)
		y := g.name("l")
		g.emit(ind, y+" = "+x.name+"["+[]string{"1:3", ":2", "1:", ":"}[g.n(0, 3, "slice")]+"]")
		g.emit(ind, y+"[0] = "+g.intExpr(1).s)
		if g.chance(50, "grow") {
			z := g.name("l")
			g.emit(ind, z+" = "+y+" + [77]")
			g.op(pAdd)
			g.declare(z, lt, ex{fresh: true, ln: -1})
		}
		g.declare(y, lt, ex{fresh: true, ln: -1})
		g.meta.Aliasing = true
		g.feat("p_slice_copy")
		g.feat("list_slice")
	case 7: // nested sharing
		x := g.newListVar(ind, 2)
		m, q := g.name("l"), g.name("l")
		g.emit(ind, m+" = ["+x.name+", "+x.name+", ["+strconv.Itoa(g.n(0, 9, "e"))+"]]")
		g.emit(ind, q+" = "+m+"["+strconv.Itoa(g.n(0, 2, "mi"))+"]")
		g.emit(ind, q+"[0] = "+g.intExpr(1).s)
		g.alias(x)
		mv := g.declare(m, AspListOf(lt), ex{fresh: true, ln: 3})
		qv := g.declare(q, lt, ex{fresh: false, ln: -1})
		mv.folded, qv.folded = x.folded, true
		g.meta.Aliasing = true
		g.feat("p_nested_share")
	case 8: // dict alias
		dt := AspDictOf(tInt)
		a, b := g.name("d"), g.name("d")
		g.emit(ind, a+" = "+g.literal(dt, 1).s)
		g.emit(ind, b+" = "+a)
		g.emit(ind, b+"["+quote(dictKeys[g.n(0, len(dictKeys)-1, "key")], false)+"] = "+g.intExpr(1).s)
		g.declare(a, dt, ex{fresh: false, ln: -1, nonASCII: true})
		g.declare(b, dt, ex{fresh: false, ln: -1, nonASCII: true})
		g.meta.Aliasing = true
		g.feat("p_dict_alias")
		g.feat("dict_assign")
	case 9: // a function mutating its argument
		x := g.newListVar(ind, 1)
		f, p, r := g.name("f"), g.name("p"), g.name("l")
		g.emit(ind, "def "+f+"("+p+"):")
		g.emit(ind+1, p+"[0] = "+p+"[0] + "+strconv.Itoa(g.n(1, 9, "inc")))
		g.op(pAdd)
		g.emit(ind+1, "return "+p)
		g.emit(ind, r+" = "+f+"("+x.name+")")
		g.alias(x)
		rv := g.declare(r, lt, ex{fresh: false, ln: x.ln})
		rv.folded = x.folded
		g.meta.Aliasing = true
		g.feat("p_mutating_func")
		g.feat("def")
	case 10: // sorting more than 12 items with a key that has ties: Python's sort is stable
		y := g.name("l")
		n := g.n(13, 40, "nsort")
		var src string
		if g.chance(50, "words") {
			ws := make([]string, n)
			for i := range ws {
				ws[i] = quote(strings.Repeat(string(rune('a'+g.n(0, 5, "ch"))), g.n(1, 3, "wl"))+strconv.Itoa(i%7), false)
			}
			src = "[" + strings.Join(ws, ", ") + "], key = lambda q: len(q)"
			y = g.name("l")
			g.emit(ind, y+" = sorted("+src+[]string{"", ", reverse = True"}[g.n(0, 1, "rev")]+")")
			g.declare(y, AspListOf(tStr), ex{fresh: true, ln: n})
		} else {
			c := g.name("c")
			src = "[" + c + " * " + strconv.Itoa(g.n(3, 11, "mul")) + " % " + strconv.Itoa(n) + " for " + c + " in range(" + strconv.Itoa(n) + ")], key = lambda q: q % " + strconv.Itoa(g.n(2, 4, "mod"))
			g.op(pMul)
			g.op(pMul)
			g.emit(ind, y+" = sorted("+src+[]string{"", ", reverse = True"}[g.n(0, 1, "rev")]+")")
			g.declare(y, lt, ex{fresh: true, ln: n})
		}
		g.feat("p_sort_stability")
		g.feat("sorted_key")
	case 11: // default argument reading a global that changes before the call
		v := g.varOf(tInt)
		if v == nil || !g.assignable(v) || g.depth > 0 {
			g.assignNew(ind, tInt, 2)
			return
		}
		if g.o.ExclLateDefault {
			g.excluded("late-default")
			g.assignNew(ind, tInt, 2)
			return
		}
		f, p, r := g.name("f"), g.name("p"), g.name("n")
		g.emit(ind, "def "+f+"("+p+"="+v.name+"):")
		g.emit(ind+1, "return "+p+" + 1")
		g.emit(ind, v.name+" = "+v.name+" + 1")
		g.emit(ind, r+" = "+f+"()")
		g.op(pAdd)
		g.op(pAdd)
		v.writes++
		g.declare(r, tInt, ex{fresh: true, ln: -1})
		g.feat("default_reads_global")
		g.feat("def")
	case 12: // += on a list that has another name
		x := g.newListVar(ind, 1)
		y := g.name("l")
		g.emit(ind, y+" = "+x.name)
		if g.o.ExclAugAssignAlias {
			g.excluded("augassign-alias")
			g.emit(ind, x.name+" = "+x.name+" + ["+strconv.Itoa(g.n(0, 9, "e"))+"]")
			g.op(pAdd)
		} else {
			g.feat("augassign_aliased_list")
			g.emit(ind, x.name+" += ["+strconv.Itoa(g.n(0, 9, "e"))+"]")
		}
		x.ln = -1
		yv := g.declare(y, lt, ex{fresh: false, ln: -1})
		yv.folded = x.folded
		g.meta.Aliasing = true
		g.feat("p_augassign_alias")
	default: // evaluating the same literal expression twice
		a, b := g.name("l"), g.name("l")
		lit := g.literal(AspListOf(lt), 2)
		g.emit(ind, a+" = "+lit.s)
		g.emit(ind, b+" = "+lit.s)
		av := g.declare(a, AspListOf(lt), lit)
		g.declare(b, AspListOf(lt), lit)
		if lit.ln > 0 {
			if av.folded && g.o.ExclFoldedConst {
				g.excluded("folded-constant")
			} else {
				g.emit(ind, a+"[0] = [42]")
			}
		}
		g.meta.Aliasing = true
		g.feat("p_literal_twice")
	}
}
