package aspgen

import (
	"strconv"
	"strings"
)

// ---- variables -------------------------------------------------------------------------------------

func (g *aspGen) pickVar(label string, ok func(*avar) bool) *avar {
	var c []*avar
	for _, v := range g.vars {
		if ok(v) {
			c = append(c, v)
		}
	}
	if len(c) == 0 {
		return nil
	}
	return c[g.n(0, len(c)-1, label)]
}

func (g *aspGen) varOf(t AspType) *avar {
	return g.pickVar("var", func(v *avar) bool { return v.t.eq(t) })
}

func (g *aspGen) varEx(v *avar) ex {
	e := ident(v.name)
	e.nonASCII, e.rng, e.ln, e.fold = v.nonASCII, v.rng, v.ln, v.folded
	return e
}

func (g *aspGen) funcRet(t AspType) *afunc {
	var c []*afunc
	for _, f := range g.funcs {
		if f.ret.eq(t) {
			c = append(c, f)
		}
	}
	if len(c) == 0 {
		return nil
	}
	return c[g.n(0, len(c)-1, "func")]
}

// callFunc builds a call of a user function with positional / keyword arguments.
func (g *aspGen) callFunc(f *afunc, d int) ex {
	g.feat("call_user_func")
	var args []string
	kw := false
	for i, p := range f.params {
		hasDef := i >= len(f.params)-f.ndef
		if hasDef && g.chance(50, "omitarg") {
			kw = true // everything after an omitted argument must be passed by keyword
			continue
		}
		a := g.expr(p.t, d-1)
		if p.t.container() {
			g.markAliased(a)
		}
		if kw || g.chance(30, "kwarg") {
			kw = true
			g.feat("keyword_call")
			args = append(args, p.name+" = "+arg(a))
		} else {
			args = append(args, arg(a))
		}
	}
	e := call(f.name, args...)
	e.fresh = f.fresh
	e.nonASCII = true
	e.fold = f.folded
	return e
}

func (g *aspGen) alias(v *avar) {
	v.aliased = true
	v.amarks++
}

// markAliased records that the object an expression evaluates to (if it is a plain variable) now has
// another reference.
func (g *aspGen) markAliased(e ex) {
	for _, v := range g.vars {
		if v.name == e.s {
			g.alias(v)
		}
	}
}

// ---- generic dispatch ------------------------------------------------------------------------------

func (g *aspGen) expr(t AspType, d int) ex {
	switch t.K {
	case AspInt:
		return g.intExpr(d)
	case AspStr:
		return g.strExpr(d)
	case AspBool:
		return g.boolExpr(d)
	case AspList:
		return g.listExpr(t, d)
	default:
		return g.dictExpr(t, d)
	}
}

// common tries the type-independent forms (variable, ternary, user function, container element);
// ok=false means "use a type specific form".
func (g *aspGen) common(t AspType, d int) (ex, bool) {
	switch k := g.n(0, 19, "common"); {
	case k < 6:
		if v := g.varOf(t); v != nil {
			return g.varEx(v), true
		}
	case k < 8 && d > 0:
		a, c, b := g.expr(t, d-1), g.boolExpr(d-1), g.expr(t, d-1)
		return g.ternary(a, c, b), true
	case k < 10 && d > 0:
		if f := g.funcRet(t); f != nil {
			return g.callFunc(f, d), true
		}
	case k < 12 && d > 0:
		// element of a list / dict of this type, guarded so that it cannot fail
		if l := g.varOf(AspListOf(t)); l != nil && !l.rng {
			return g.elemOf(l, t, d), true
		}
		if dv := g.varOf(AspDictOf(t)); dv != nil {
			g.feat("dict_get")
			k := quote(dictKeys[g.n(0, len(dictKeys)-1, "getkey")], false)
			e := method(g.varEx(dv), "get", k, arg(g.elemAliased(t, d-1)))
			e.fresh = false
			e.nonASCII = true
			e.fold = dv.folded || g.reeval()
			return e, true
		}
	case k < 13 && d > 0 && t.K != AspBool:
		// "a or b" / "a and b" return one of the operands
		a, b := g.expr(t, d-1), g.expr(t, d-1)
		if a.rng || b.rng {
			break
		}
		op, p := "or", pOr
		if g.chance(40, "andor") {
			op, p = "and", pAnd
		}
		e := g.bin(op, p, a, b)
		e.fresh = false
		e.nonASCII = a.nonASCII || b.nonASCII
		e.fold, e.cpart = a.fold || b.fold, a.cpart || b.cpart
		g.markAliased(a)
		g.markAliased(b)
		g.feat("and_or_value")
		return e, true
	}
	return ex{}, false
}

// elemOf indexes list variable l (element type t) without risking an IndexError.
func (g *aspGen) elemOf(l *avar, t AspType, d int) ex {
	g.feat("index")
	le := g.varEx(l)
	if l.ln > 0 {
		i := g.n(-l.ln, l.ln-1, "idx")
		if i < 0 {
			g.feat("negative_index")
		}
		e := index(le, strconv.Itoa(i))
		e.nonASCII = l.nonASCII
		return e
	}
	i := g.n(0, 2, "idx")
	idx := strconv.Itoa(i)
	cond := "len(" + l.name + ") > " + idx
	if g.chance(30, "negidx") {
		idx = strconv.Itoa(-i - 1)
		g.feat("negative_index")
	}
	g.op(pCmp)
	alt := g.elemAliased(t, d-1)
	e := ex{s: index(le, idx).s + " if " + cond + " else " + par(alt, pTernary), p: pTernary, post: 2, ln: -1, nonASCII: true,
		fold: l.folded || alt.fold, cpart: alt.cpart}
	g.feat("inline_if")
	return e
}

// ---- int -------------------------------------------------------------------------------------------

func (g *aspGen) intAtom() ex {
	if g.chance(45, "intvar") {
		if v := g.varOf(tInt); v != nil {
			return g.varEx(v)
		}
	}
	if g.chance(12, "len") {
		if v := g.pickVar("lenvar", func(v *avar) bool { return (v.t.K == AspList || v.t.K == AspStr || v.t.K == AspDict) && !v.rng }); v != nil {
			g.feat("len")
			return call("len", v.name)
		}
	}
	return g.intLit()
}

func (g *aspGen) intExpr(d int) ex {
	if d <= 0 {
		return g.intAtom()
	}
	if e, ok := g.common(tInt, d); ok {
		return e
	}
	switch k := g.n(0, 29, "intform"); {
	case k < 5:
		return g.intAtom()
	case k < 18:
		l, r := g.intExpr(d-1), g.intExpr(d-1)
		switch g.n(0, 6, "arith") {
		case 0, 1:
			return g.bin("+", pAdd, l, r)
		case 2, 3:
			return g.bin("-", pAdd, l, r)
		case 4:
			return g.bin("*", pMul, l, r)
		case 5:
			g.feat("floordiv")
			return g.bin("//", pMul, l, g.divisor(r))
		default:
			g.feat("modulo")
			return g.bin("%", pMul, l, g.divisor(r))
		}
	case k < 21:
		return g.neg(g.intExpr(d - 1))
	case k < 23:
		g.feat("len")
		return call("len", arg(g.lenArg(d-1)))
	case k < 25:
		// min / max / reduce over a non-empty list
		l := g.listExpr(AspListOf(tInt), d-1)
		l = g.derange(l)
		ne := g.bin("+", pAdd, l, atom("["+g.intLit().s+"]"))
		switch g.n(0, 3, "agg") {
		case 0:
			g.feat("min")
			return call("min", arg(ne))
		case 1:
			g.feat("max")
			return call("max", arg(ne))
		case 2:
			g.feat("max_key")
			return call("max", arg(ne), "key = lambda q: "+g.lambdaIntBody("q"))
		default:
			g.feat("reduce")
			return call("reduce", "lambda acc, q: acc + q", arg(l), g.intLit().s)
		}
	case k < 27:
		s := g.strExpr(d - 1)
		m := []string{"count", "find", "rfind"}[g.n(0, 2, "strint")]
		if m != "count" && s.nonASCII {
			if g.o.ExclNonASCIISlice {
				g.excluded("str-byte-offsets")
				m = "count"
			}
		}
		needle := g.strLit()
		if needle.ln == 0 {
			needle = atom(`"a"`)
		}
		g.feat("str_" + m)
		return method(s, m, needle.s)
	case k < 28:
		g.feat("int_of_str")
		return call("int", call("str", arg(g.intExpr(d-1))).s)
	default:
		return g.intAtom()
	}
}

// divisor makes a divisor that is rarely zero.
func (g *aspGen) divisor(r ex) ex {
	if g.chance(85, "safediv") {
		v := []int{1, 2, 3, 5, 7, -1, -2, -3, 10, 1000, 64}[g.n(0, 10, "div")]
		if v < 0 {
			g.meta.NegOp = true
			return ex{s: strconv.Itoa(v), p: pUnary, post: 2, ln: -1}
		}
		return atom(strconv.Itoa(v))
	}
	return r
}

func (g *aspGen) lambdaIntBody(v string) string {
	switch g.n(0, 4, "lambody") {
	case 0:
		return "-" + v
	case 1:
		return v + " % 3"
	case 2:
		return v + " * " + v
	case 3:
		return v + " // 2"
	default:
		return "0 - " + v + " % 2"
	}
}

func (g *aspGen) lenArg(d int) ex {
	switch g.n(0, 2, "lenarg") {
	case 0:
		return g.strExpr(d)
	case 1:
		return g.derange(g.listExpr(AspListOf(tInt), d))
	default:
		return g.dictExpr(AspDictOf(tInt), d)
	}
}

// derange makes sure a raw range() object is not handed to something that needs a real list (asp's
// builtins reject range objects with an error, which is allowed but makes the program useless).
func (g *aspGen) derange(l ex) ex {
	if !l.rng {
		return l
	}
	e := g.bin("+", pAdd, l, atom("[]"))
	e.ln = l.ln
	return e
}

// ---- bool ------------------------------------------------------------------------------------------

var cmpOps = []string{"==", "!=", "<", "<=", ">", ">="}

func (g *aspGen) boolExpr(d int) ex {
	if d <= 0 {
		if v := g.varOf(tBool); v != nil && g.chance(50, "boolvar") {
			return g.varEx(v)
		}
		if v := g.varOf(tInt); v != nil && g.chance(60, "cmpvar") {
			return g.cmp(cmpOps[g.n(0, 5, "cmp")], g.varEx(v), g.intLit())
		}
		return g.boolLit()
	}
	if e, ok := g.common(tBool, d); ok {
		return e
	}
	switch k := g.n(0, 29, "boolform"); {
	case k < 8:
		op := cmpOps[g.n(0, 5, "cmp")]
		l, r := g.intExpr(d-1), g.intExpr(d-1)
		if g.chance(3, "chain") {
			// chained comparison: a < b < c
			if g.o.ExclChainedCompare {
				g.excluded("chained-comparison")
			} else {
				g.feat("chained_comparison")
				m := g.intExpr(d - 1)
				g.op(pCmp)
				g.op(pCmp)
				return ex{s: par(l, pCmp+1) + " " + op + " " + par(m, pCmp+1) + " " + cmpOps[g.n(0, 5, "cmp2")] + " " + par(r, pCmp+1), p: pCmp, post: 2, ln: -1}
			}
		}
		return g.cmp(op, l, r)
	case k < 11:
		return g.cmp(cmpOps[g.n(0, 5, "cmp")], g.strExpr(d-1), g.strExpr(d-1))
	case k < 14:
		return g.not(g.boolExpr(d - 1))
	case k < 19:
		l, r := g.boolExpr(d-1), g.boolExpr(d-1)
		if g.chance(50, "and") {
			return g.bin("and", pAnd, l, r)
		}
		return g.bin("or", pOr, l, r)
	case k < 22:
		op := "in"
		if g.chance(40, "notin") {
			op = "not in"
		}
		g.feat("in")
		switch g.n(0, 2, "inkind") {
		case 0:
			return g.cmp(op, g.intExpr(d-1), g.derange(g.listExpr(AspListOf(tInt), d-1)))
		case 1:
			return g.cmp(op, g.strExpr(d-1), g.strExpr(d-1))
		default:
			return g.cmp(op, g.strLitKey(), g.dictExpr(AspDictOf(tInt), d-1))
		}
	case k < 24:
		// equality of containers
		t := g.containerType()
		op := []string{"==", "!="}[g.n(0, 1, "eqop")]
		l, r := g.expr(t, d-1), g.expr(t, d-1)
		if l.rng || r.rng {
			if g.o.ExclRangeObject {
				g.excluded("range-object")
				l, r = g.derange(l), g.derange(r)
			} else {
				g.feat("range_object_compare")
			}
		}
		g.feat("container_equality")
		return g.cmp(op, l, r)
	case k < 26:
		s := g.strExpr(d - 1)
		m := []string{"startswith", "endswith"}[g.n(0, 1, "sw")]
		g.feat("str_" + m)
		return method(s, m, g.strLit().s)
	case k < 27:
		g.feat("any_all")
		f := []string{"any", "all"}[g.n(0, 1, "anyall")]
		l := g.derange(g.listExpr(AspListOf(tInt), d-1))
		if g.chance(50, "anycomp") {
			v := g.name("c")
			g.op(pCmp)
			return call(f, "["+v+" > "+g.intLit().s+" for "+v+" in "+par(l, pOr)+"]")
		}
		return call(f, arg(l))
	case k < 28:
		g.feat("isinstance")
		t := g.anyType()
		e := g.expr(t, d-1)
		if e.rng {
			e = g.derange(e)
		}
		tn := []string{"int", "str", "bool", "list", "dict"}[g.n(0, 4, "isty")]
		if t.K == AspBool && tn == "int" {
			tn = "bool"
		}
		return call("isinstance", arg(e), tn)
	case k < 29:
		// truthiness of a value of any type
		t := g.anyType()
		e := g.expr(t, d-1)
		if e.rng {
			if g.o.ExclRangeObject {
				g.excluded("range-object")
				e = g.derange(e)
			} else {
				g.feat("range_object_truth")
			}
		}
		g.feat("truthiness")
		return call("bool", arg(e))
	default:
		return g.boolLit()
	}
}

func (g *aspGen) strLitKey() ex { return atom(quote(dictKeys[g.n(0, len(dictKeys)-1, "key")], false)) }

// ---- str -------------------------------------------------------------------------------------------

func (g *aspGen) strAtom() ex {
	if v := g.varOf(tStr); v != nil && g.chance(50, "strvar") {
		return g.varEx(v)
	}
	return g.strLit()
}

// scalarNames returns names of scalar variables usable inside f-strings / format.
func (g *aspGen) scalarVar() *avar {
	return g.pickVar("scalar", func(v *avar) bool { return !v.t.container() })
}

func (g *aspGen) strExpr(d int) ex {
	if d <= 0 {
		return g.strAtom()
	}
	if e, ok := g.common(tStr, d); ok {
		return e
	}
	switch k := g.n(0, 39, "strform"); {
	case k < 5:
		return g.strAtom()
	case k < 10:
		l, r := g.strExpr(d-1), g.strExpr(d-1)
		e := g.bin("+", pAdd, l, r)
		e.nonASCII = l.nonASCII || r.nonASCII
		return e
	case k < 12:
		s := g.strExpr(d - 1)
		n := atom(strconv.Itoa(g.n(0, 3, "rep")))
		g.feat("str_repeat")
		var e ex
		if g.chance(30, "intfirst") {
			e = g.bin("*", pMul, n, s)
		} else {
			e = g.bin("*", pMul, s, n)
		}
		e.nonASCII = s.nonASCII
		return e
	case k < 16:
		// % formatting
		g.feat("percent_format")
		tmpl, kinds := g.percentTemplate()
		single := len(kinds) == 1 && g.chance(60, "single")
		if len(kinds) == 1 && !single {
			tmpl = tmpl[:len(tmpl)-1] + `/%s"`
			kinds = append(kinds, 's')
		}
		var args []ex
		for _, kd := range kinds {
			var a ex
			if kd == 'd' || g.chance(50, "fmtint") {
				a = g.intExpr(d - 1)
			} else {
				a = g.strExpr(d - 1)
			}
			args = append(args, a)
		}
		var e ex
		if single {
			e = g.bin("%", pMul, atom(tmpl), args[0])
		} else {
			parts := make([]string, len(args))
			for i, a := range args {
				parts[i] = arg(a)
			}
			e = g.bin("%", pMul, atom(tmpl), atom("("+strings.Join(parts, ", ")+")"))
		}
		e.nonASCII = true
		return e
	case k < 19:
		// f-string over scalar variables
		var b strings.Builder
		b.WriteString(`f"`)
		nv := g.n(1, 3, "fvars")
		used := false
		for i := 0; i < nv; i++ {
			b.WriteString([]string{"", "-", " ", "x=", "é", "{{", "}}", "a:b"}[g.n(0, 7, "fpre")])
			if v := g.scalarVar(); v != nil {
				b.WriteString("{" + v.name + "}")
				used = true
			}
		}
		b.WriteString(`"`)
		if used {
			g.feat("fstring")
		}
		e := atom(b.String())
		e.nonASCII, e.fresh = true, true
		return e
	case k < 21:
		g.feat("str_format")
		if g.chance(50, "named") {
			a, b := g.intExpr(d-1), g.strExpr(d-1)
			e := method(atom(`"{x}:{y}{x}"`), "format", "x = "+arg(a), "y = "+arg(b))
			e.nonASCII = b.nonASCII
			return e
		}
		a, b := g.strExpr(d-1), g.intExpr(d-1)
		e := method(atom(`"{}-{} "`), "format", arg(a), arg(b))
		e.nonASCII = a.nonASCII
		return e
	case k < 23:
		g.feat("str_of")
		if g.chance(50, "strint") {
			return call("str", arg(g.intExpr(d-1)))
		}
		return call("str", arg(g.boolExpr(d-1)))
	case k < 30:
		s := g.strExpr(d - 1)
		var e ex
		switch m := g.n(0, 11, "strmeth"); m {
		case 0:
			e = method(s, "upper")
		case 1:
			e = method(s, "lower")
		case 2:
			e = method(s, "strip", g.cutset())
		case 3:
			e = method(s, "lstrip", g.cutset())
		case 4:
			e = method(s, "rstrip", g.cutset())
		case 5:
			o, n := g.nonEmptyLit(), g.strLit()
			e = method(s, "replace", o.s, n.s)
			s.nonASCII = s.nonASCII || n.nonASCII
		case 6:
			e = method(s, "removeprefix", g.strLit().s)
		case 7:
			e = method(s, "removesuffix", g.strLit().s)
		case 8:
			e = method(s, "ljust", strconv.Itoa(g.n(0, 8, "width")), g.fillchar())
			s.nonASCII = true
		case 9:
			e = method(s, "rjust", strconv.Itoa(g.n(0, 8, "width")))
		case 10:
			// (strip() without a cutset is not documented: docs/lexicon.html only has strip(cutset))
			e = method(s, "strip", `" \n"`)
		default:
			// join of a list of strings
			l := g.derange(g.listExpr(AspListOf(tStr), d-1))
			e = method(s, "join", arg(l))
			s.nonASCII = true
		}
		g.feat("str_method")
		e.nonASCII = s.nonASCII
		return e
	case k < 34:
		// slicing
		s := g.strExpr(d - 1)
		if s.nonASCII && g.o.ExclNonASCIISlice {
			g.excluded("str-byte-offsets")
			return s
		}
		g.feat("str_slice")
		if s.nonASCII {
			g.feat("nonascii_slice")
		}
		e := index(s, g.sliceBounds(s.ln))
		e.fresh = true
		return e
	case k < 37:
		// indexing, guarded
		if v := g.varOf(tStr); v != nil {
			i := g.n(0, 2, "sidx")
			idx := strconv.Itoa(i)
			if g.chance(30, "neg") {
				idx = strconv.Itoa(-i - 1)
			}
			g.feat("str_index")
			g.op(pCmp)
			return ex{s: v.name + "[" + idx + "] if len(" + v.name + ") > " + strconv.Itoa(i) + " else " + g.strLit().s, p: pTernary, post: 2, ln: -1, nonASCII: true}
		}
		return g.strAtom()
	default:
		return g.strAtom()
	}
}

func (g *aspGen) percentTemplate() (string, []byte) {
	n := g.n(1, 3, "pcts")
	var b strings.Builder
	var kinds []byte
	b.WriteByte('"')
	for i := 0; i < n; i++ {
		b.WriteString([]string{"", "-", " ", "v=", "é", "%%", ":"}[g.n(0, 6, "ppre")])
		if g.chance(35, "pd") {
			b.WriteString("%d")
			kinds = append(kinds, 'd')
		} else {
			b.WriteString("%s")
			kinds = append(kinds, 's')
		}
	}
	b.WriteByte('"')
	return b.String(), kinds
}

func (g *aspGen) cutset() string {
	return []string{`" "`, `"a"`, `"ab"`, `" \n"`, `"-,"`, `"é"`, `"xyz "`}[g.n(0, 6, "cutset")]
}

func (g *aspGen) fillchar() string {
	return []string{`" "`, `"-"`, `"0"`, `"é"`}[g.n(0, 3, "fill")]
}

func (g *aspGen) nonEmptyLit() ex {
	e := g.strLit()
	if e.ln == 0 {
		return atom(`"a"`)
	}
	return e
}

// sliceBounds draws "[a:b]" bounds that never make asp's Go slicing panic more often than needed:
// Python clamps everything, asp errors when start > end, which is allowed but useless.
func (g *aspGen) sliceBounds(ln int) string {
	hi := 4
	if ln >= 0 {
		hi = ln + 1
	}
	switch g.n(0, 5, "slicekind") {
	case 0:
		return ":" + strconv.Itoa(g.n(0, hi, "end"))
	case 1:
		return strconv.Itoa(g.n(0, minInt(hi, 2), "start")) + ":"
	case 2:
		a := g.n(0, minInt(hi, 2), "start")
		return strconv.Itoa(a) + ":" + strconv.Itoa(g.n(a, a+3, "end"))
	case 3:
		g.feat("negative_slice")
		return ":" + strconv.Itoa(-g.n(1, 2, "nend"))
	case 4:
		g.feat("negative_slice")
		return strconv.Itoa(-g.n(1, 2, "nstart")) + ":"
	default:
		return ":"
	}
}

func minInt(a, b int) int {
	if a < b {
		return a
	}
	return b
}
