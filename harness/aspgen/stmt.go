package aspgen

import (
	"strconv"
	"strings"

	"pgregory.net/rapid"
)

// GenAspProgram draws a program.
func GenAspProgram(t *rapid.T, o AspOpts) AspProgram {
	g := newAspGen(t, o)
	// a few variables first so that expressions have something to talk about
	for i, n := 0, g.n(2, 4, "nseed"); i < n; i++ {
		g.assignNew(0, g.anyType(), 1)
	}
	for i, n := 0, g.n(2, g.o.MaxStmts, "nstmts"); i < n; i++ {
		g.stmt(0)
	}
	return g.finish()
}

func prefixOf(t AspType) string {
	switch t.K {
	case AspInt:
		return "n"
	case AspStr:
		return "s"
	case AspBool:
		return "b"
	case AspList:
		return "l"
	default:
		return "d"
	}
}

// reeval: is the code being generated executed more than once (loop body, function body)?
func (g *aspGen) reeval() bool { return g.inFunc || g.inLoop }

func (g *aspGen) startStmt() { g.curOps = 0 }

func (g *aspGen) declare(name string, t AspType, e ex) *avar {
	v := &avar{name: name, t: t, aliased: !e.fresh, nonASCII: e.nonASCII, rng: e.rng, ln: e.ln, depth: g.depth,
		folded: e.fold || (e.cpart && g.reeval())}
	if g.depth > 0 {
		v.ln = -1
	}
	if !e.fresh {
		g.markAliased(e)
	}
	g.vars = append(g.vars, v)
	return v
}

func (g *aspGen) assignNew(ind int, t AspType, d int) *avar {
	g.startStmt()
	e := g.expr(t, d)
	name := g.name(prefixOf(t))
	g.emit(ind, name+" = "+e.s)
	return g.declare(name, t, e)
}

// assignable: may the statement being generated rebind v?
func (g *aspGen) assignable(v *avar) bool {
	if v.ro {
		return false
	}
	if g.inFunc && v.depth < g.funcDepth() {
		return false // globals are not assigned from inside functions (that would create a local in Python)
	}
	return true
}

func (g *aspGen) funcDepth() int {
	if g.inFunc {
		return g.fdepth
	}
	return 0
}

// block runs body one level deeper; variables declared inside are forgotten afterwards and the known
// lengths of everything are invalidated (the block may or may not have run).
func (g *aspGen) block(body func()) {
	nv := len(g.vars)
	g.depth++
	body()
	g.depth--
	g.vars = g.vars[:nv]
	for _, v := range g.vars {
		v.ln = -1
	}
}

func (g *aspGen) stmts(ind, n int) {
	start := len(g.lines)
	for i := 0; i < n; i++ {
		g.stmt(ind)
	}
	if len(g.lines) == start {
		g.emit(ind, "pass")
	}
}

func (g *aspGen) stmt(ind int) {
	g.startStmt()
	deep := g.depth >= 2
	switch k := g.n(0, 99, "stmt"); {
	case k < 22:
		g.assignNew(ind, g.anyType(), g.n(1, 3, "depth"))
	case k < 32:
		// precedence-heavy arithmetic / boolean expression
		if g.chance(65, "arith") {
			g.assignNew(ind, tInt, g.n(3, 4, "depth"))
		} else {
			g.assignNew(ind, tBool, g.n(3, 4, "depth"))
		}
	case k < 40:
		g.reassign(ind)
	case k < 49:
		g.augAssign(ind)
	case k < 56:
		g.indexAssign(ind)
	case k < 63 && !deep:
		g.ifStmt(ind)
	case k < 71 && !deep:
		g.forStmt(ind)
	case k < 77 && g.depth == 0 && !g.inFunc:
		g.funcDef(ind)
	case k < 90 && !g.inFunc:
		g.pattern(ind)
	case k < 93 && len(g.funcs) > 0:
		g.callStmt(ind)
	case k < 95:
		g.unpack(ind)
	case k < 97 && !g.inFunc:
		g.appendStmt(ind)
	default:
		g.assignNew(ind, g.anyType(), 2)
	}
}

func (g *aspGen) reassign(ind int) {
	v := g.pickVar("reassign", func(v *avar) bool { return g.assignable(v) })
	if v == nil {
		g.assignNew(ind, g.anyType(), 2)
		return
	}
	e := g.expr(v.t, g.n(1, 3, "depth"))
	if e.rng && !v.rng {
		e = g.derange(e)
	}
	g.emit(ind, v.name+" = "+e.s)
	v.writes++
	if !e.fresh {
		g.markAliased(e)
	}
	v.nonASCII = v.nonASCII || e.nonASCII
	fold := e.fold || (e.cpart && g.reeval())
	if g.depth > v.depth {
		// conditional assignment: the old value may survive
		v.aliased, v.folded, v.ln = v.aliased || !e.fresh, v.folded || fold, -1
	} else {
		v.aliased, v.folded, v.ln = !e.fresh, fold, e.ln
	}
	if g.depth > 0 {
		v.ln = -1
	}
	g.feat("reassign")
}

func (g *aspGen) augAssign(ind int) {
	v := g.pickVar("augvar", func(v *avar) bool {
		return g.assignable(v) && (v.t.K == AspInt || v.t.K == AspStr || v.t.K == AspList) && !v.rng
	})
	if v == nil {
		g.assignNew(ind, tInt, 2)
		return
	}
	e := g.expr(v.t, g.n(1, 2, "depth"))
	v.writes++
	g.feat("augassign")
	if v.t.K == AspList {
		e = g.derange(e)
		if v.aliased {
			if g.o.ExclAugAssignAlias {
				// Python extends the shared list in place, asp rebinds the name: recorded finding
				g.excluded("augassign-alias")
				g.emit(ind, v.name+" = "+v.name+" + "+par(e, pAdd+1))
				g.op(pAdd)
				v.aliased, v.ln = g.depth > v.depth, -1
				return
			}
			g.feat("augassign_aliased_list")
		}
		g.feat("augassign_list")
	}
	g.emit(ind, v.name+" += "+e.s)
	v.nonASCII = v.nonASCII || e.nonASCII
	if v.ln >= 0 && e.ln >= 0 && g.depth == 0 {
		v.ln += e.ln
	} else {
		v.ln = -1
	}
}

func (g *aspGen) indexAssign(ind int) {
	v := g.pickVar("idxvar", func(v *avar) bool {
		if g.inFunc && v.depth < g.funcDepth() {
			return false
		}
		return v.t.container() && !v.rng
	})
	if v == nil {
		g.assignNew(ind, g.containerType(), 2)
		return
	}
	et := *v.t.E
	v.writes++
	val := g.expr(et, g.n(1, 2, "depth"))
	if et.container() {
		g.markAliased(val)
	}
	aug := (et.K == AspInt || et.K == AspStr) && g.chance(30, "idxaug")
	op := " = "
	if aug {
		op = " += "
		g.feat("index_augassign")
	}
	if v.t.K == AspDict {
		key := quote(dictKeys[g.n(0, len(dictKeys)-1, "key")], false)
		g.feat("dict_assign")
		if aug {
			g.emit(ind, "if "+key+" in "+v.name+":")
			g.emit(ind+1, v.name+"["+key+"]"+op+val.s)
		} else {
			g.emit(ind, v.name+"["+key+"]"+op+val.s)
		}
		v.ln = -1
		v.nonASCII = true
		return
	}
	if v.folded {
		if g.o.ExclFoldedConst {
			g.excluded("folded-constant")
			g.emit(ind, "pass")
			return
		}
		g.feat("folded_constant_mutation")
	}
	g.feat("list_index_assign")
	v.nonASCII = v.nonASCII || val.nonASCII
	if v.ln > 0 {
		i := g.n(0, v.ln-1, "idx")
		g.emit(ind, v.name+"["+strconv.Itoa(i)+"]"+op+val.s)
		return
	}
	i := g.n(0, 2, "idx")
	g.emit(ind, "if len("+v.name+") > "+strconv.Itoa(i)+":")
	g.emit(ind+1, v.name+"["+strconv.Itoa(i)+"]"+op+val.s)
}

func (g *aspGen) ifStmt(ind int) {
	g.feat("if")
	g.emit(ind, "if "+g.boolExpr(g.n(1, 3, "depth")).s+":")
	g.block(func() { g.stmts(ind+1, g.n(1, 3, "nbody")) })
	for i, n := 0, g.n(0, 2, "nelif"); i < n; i++ {
		g.feat("elif")
		g.startStmt()
		g.emit(ind, "elif "+g.boolExpr(g.n(1, 2, "depth")).s+":")
		g.block(func() { g.stmts(ind+1, g.n(1, 2, "nbody")) })
	}
	if g.chance(50, "else") {
		g.feat("else")
		g.emit(ind, "else:")
		g.block(func() { g.stmts(ind+1, g.n(1, 2, "nbody")) })
	}
}

func (g *aspGen) forStmt(ind int) {
	g.feat("for")
	var names string
	var lv []*avar
	switch g.n(0, 9, "forkind") {
	case 0, 1:
		// for i, x in enumerate(list)
		if l := g.pickVar("enumvar", func(v *avar) bool { return v.t.K == AspList && !v.rng }); l != nil {
			g.feat("enumerate")
			i, x := &avar{name: g.name("i"), t: tInt, ro: true, ln: -1}, &avar{name: g.name("x"), t: *l.t.E, ro: true, aliased: true, ln: -1, nonASCII: true, folded: l.folded}
			lv = []*avar{i, x}
			names = i.name + ", " + x.name + " in enumerate(" + l.name + ")"
		}
	case 2:
		// for k, v in sorted(d.items())
		if dv := g.pickVar("itemsvar", func(v *avar) bool { return v.t.K == AspDict }); dv != nil {
			g.feat("dict_items_sorted")
			k, x := &avar{name: g.name("k"), t: tStr, ro: true, ln: -1, nonASCII: true}, &avar{name: g.name("x"), t: *dv.t.E, ro: true, aliased: true, ln: -1, nonASCII: true, folded: dv.folded}
			lv = []*avar{k, x}
			names = k.name + ", " + x.name + " in sorted(" + dv.name + ".items())"
		}
	}
	if lv == nil {
		src, et := g.iterSource(g.n(0, 2, "depth"))
		x := &avar{name: g.name("x"), t: et, ro: true, aliased: true, ln: -1, nonASCII: true, folded: src.fold || (src.cpart && g.reeval())}
		lv = []*avar{x}
		names = x.name + " in " + src.s
	}
	g.emit(ind, "for "+names+":")
	was := g.inLoop
	g.inLoop = true
	snap := g.enterReeval()
	defer g.exitReeval(snap)
	g.block(func() {
		for _, v := range lv {
			v.depth = g.depth
			g.vars = append(g.vars, v)
		}
		n := g.n(1, 3, "nbody")
		g.stmts(ind+1, n)
		if g.chance(25, "breakcont") {
			g.feat("break_continue")
			g.startStmt()
			g.emit(ind+1, "if "+g.boolExpr(1).s+":")
			g.emit(ind+2, []string{"break", "continue"}[g.n(0, 1, "bc")])
			if g.chance(50, "after") {
				g.stmts(ind+1, 1)
			}
		}
	})
	g.inLoop = was
}

func (g *aspGen) funcDef(ind int) {
	g.feat("def")
	f := &afunc{name: g.name("f"), ret: g.anyType()}
	np := g.n(0, 3, "nparams")
	f.ndef = g.n(0, np, "ndefaults")
	var sig []string
	late := false
	for i := 0; i < np; i++ {
		t := g.anyType()
		if i >= np-f.ndef && g.o.ExclLateDefault && hasDict(t) {
			// a dict default is a fresh object per call in asp but one shared object in CPython
			g.excluded("late-default")
			t = AspListOf(tInt)
		}
		p := avar{name: g.name("p"), t: t, aliased: true, ln: -1, nonASCII: true}
		s := p.name
		if g.chance(30, "annot") {
			g.feat("type_annotation")
			s += ":" + []string{"int", "str", "bool", "list", "dict"}[t.K]
		}
		if i >= np-f.ndef {
			g.feat("default_arg")
			var def ex
			if v := g.varOf(t); v != nil && !t.container() && g.chance(25, "latedefault") {
				// default that reads a global: Python evaluates it at def time, asp at call time
				if g.o.ExclLateDefault {
					g.excluded("late-default")
					def = g.literal(t, 1)
				} else {
					g.feat("default_reads_global")
					def = g.varEx(v)
					late = true
				}
			} else {
				def = g.literal(t, 1)
			}
			if t.K == AspList && !def.constLit && g.o.ExclLateDefault {
				// a list default that asp does not fold (e.g. containing "- 1") is rebuilt on every call,
				// CPython shares it between calls
				g.excluded("late-default")
				for try := 0; try < 4 && !def.constLit; try++ {
					def = g.literal(t, 1)
				}
				if !def.constLit {
					def = atom("[]")
					def.constLit, def.fresh, def.ln = true, true, 0
				}
			}
			if strings.Contains(s, ":") {
				s += " = " + arg(def)
			} else {
				s += "=" + arg(def)
			}
		}
		f.params = append(f.params, p)
		sig = append(sig, s)
	}
	_ = late
	hdr := "def " + f.name + "(" + strings.Join(sig, ", ") + ")"
	if g.chance(15, "retannot") {
		hdr += " -> " + []string{"int", "str", "bool", "list", "dict"}[f.ret.K]
	}
	g.emit(ind, hdr+":")
	if g.chance(15, "docstring") {
		g.emit(ind+1, `"""Docstring of `+f.name+`."""`)
	}
	g.inFunc = true
	g.fdepth = g.depth + 1
	f.fresh = true
	snap := g.enterReeval()
	g.block(func() {
		for i := range f.params {
			p := f.params[i]
			p.depth = g.depth
			g.vars = append(g.vars, &p)
		}
		g.stmts(ind+1, g.n(0, 3, "nbody"))
		if g.chance(25, "earlyret") {
			g.startStmt()
			g.emit(ind+1, "if "+g.boolExpr(1).s+":")
			r := g.expr(f.ret, 1)
			g.emit(ind+2, "return "+r.s)
			g.noteReturn(f, r)
		}
		g.startStmt()
		r := g.expr(f.ret, g.n(1, 2, "depth"))
		g.emit(ind+1, "return "+r.s)
		g.noteReturn(f, r)
	})
	g.inFunc = false
	g.funcs = append(g.funcs, f)
	g.exitReeval(snap)
	for i, n := 0, g.n(0, 2, "ncalls"); i < n; i++ {
		g.callOf(ind, f)
	}
}

// callStmt assigns the result of calling one of the user functions.
func (g *aspGen) callStmt(ind int) {
	g.callOf(ind, g.funcs[g.n(0, len(g.funcs)-1, "callee")])
}

func (g *aspGen) callOf(ind int, f *afunc) {
	g.startStmt()
	e := g.callFunc(f, 2)
	if f.folded {
		e.fold = true
	}
	name := g.name(prefixOf(f.ret))
	g.emit(ind, name+" = "+e.s)
	v := g.declare(name, f.ret, e)
	v.nonASCII = true
}

func (g *aspGen) noteReturn(f *afunc, r ex) {
	f.fresh = f.fresh && r.fresh
	if !r.fresh {
		g.markAliased(r)
	}
	if r.fold || r.cpart {
		f.folded = true
	}
}

func (g *aspGen) unpack(ind int) {
	g.feat("unpack")
	t := []AspType{tInt, tStr}[g.n(0, 1, "unpackt")]
	a, b := g.expr(t, 1), g.expr(t, 1)
	n1, n2 := g.name(prefixOf(t)), g.name(prefixOf(t))
	open, close := "(", ")"
	if g.chance(40, "brackets") {
		open, close = "[", "]"
	}
	g.emit(ind, n1+", "+n2+" = "+open+arg(a)+", "+arg(b)+close)
	g.declare(n1, t, ex{fresh: true, ln: -1, nonASCII: true})
	g.declare(n2, t, ex{fresh: true, ln: -1, nonASCII: true})
}

func (g *aspGen) appendStmt(ind int) {
	if g.o.ExclAppend {
		g.excluded("append-buildfile")
		g.augAssign(ind)
		return
	}
	v := g.pickVar("appendvar", func(v *avar) bool {
		return g.assignable(v) && v.t.K == AspList && !v.rng && (!v.aliased || !g.o.ExclAugAssignAlias)
	})
	if v == nil {
		g.assignNew(ind, AspListOf(tInt), 1)
		return
	}
	v.writes++
	if v.aliased {
		g.feat("append_aliased_list")
	}
	if g.chance(60, "append") {
		g.feat("append")
		e := g.expr(*v.t.E, 1)
		if v.t.E.container() {
			g.markAliased(e)
		}
		g.emit(ind, v.name+".append("+arg(e)+")")
	} else {
		g.feat("extend")
		g.emit(ind, v.name+".extend("+arg(g.derange(g.listExpr(v.t, 1)))+")")
	}
	v.ln = -1
	v.nonASCII = true
}
