package aspgen

import (
	"strconv"
	"strings"
)

// ---- lists -----------------------------------------------------------------------------------------

func (g *aspGen) rangeCall() ex {
	g.feat("range")
	var e ex
	switch g.n(0, 5, "rangekind") {
	case 0, 1:
		n := g.n(0, 6, "stop")
		e = call("range", strconv.Itoa(n))
		e.ln = n
	case 2:
		a := g.n(-2, 3, "start")
		b := a + g.n(0, 5, "span")
		e = call("range", strconv.Itoa(a), strconv.Itoa(b))
		e.ln = b - a
	case 3:
		a := g.n(-2, 3, "start")
		b := a + g.n(0, 7, "span")
		st := g.n(1, 3, "step")
		g.feat("range_step")
		e = call("range", strconv.Itoa(a), strconv.Itoa(b), strconv.Itoa(st))
	case 4:
		a := g.n(0, 8, "start")
		b := a - g.n(0, 7, "span")
		st := -g.n(1, 3, "step")
		g.feat("range_negative_step")
		g.meta.NegOp = true
		e = call("range", strconv.Itoa(a), strconv.Itoa(b), strconv.Itoa(st))
	default:
		if v := g.varOf(tInt); v != nil {
			// bounded so that a big variable cannot create a huge list
			e = call("range", v.name+" % 7")
			g.op(pMul)
		} else {
			e = call("range", "3")
			e.ln = 3
		}
	}
	e.rng = true
	return e
}

// iterSource returns something a for loop / comprehension can iterate over, with its element type.
func (g *aspGen) iterSource(d int) (ex, AspType) {
	switch g.n(0, 9, "itersrc") {
	case 0, 1, 2:
		return g.rangeCall(), tInt
	case 3, 4, 5:
		t := []AspType{tInt, tStr, AspListOf(tInt)}[g.n(0, 2, "itert")]
		if v := g.varOf(AspListOf(t)); v != nil {
			return g.varEx(v), t
		}
		return g.listExpr(AspListOf(t), d), t
	case 6:
		if v := g.pickVar("dvar", func(v *avar) bool { return v.t.K == AspDict }); v != nil {
			g.feat("dict_keys_sorted")
			return call("sorted", method(g.varEx(v), "keys").s), tStr
		}
		return g.rangeCall(), tInt
	default:
		t := []AspType{tInt, tStr}[g.n(0, 1, "itert")]
		return g.listExpr(AspListOf(t), d), t
	}
}

// withVar runs f with a temporary read-only variable in scope (comprehension / lambda variables).
func (g *aspGen) withVar(v *avar, f func()) {
	v.ro = true
	g.vars = append(g.vars, v)
	f()
	for i, x := range g.vars {
		if x == v {
			g.vars = append(g.vars[:i], g.vars[i+1:]...)
			break
		}
	}
}

// elemAliased generates an expression that becomes an element of a new container; if it is a plain
// container variable that variable now has another reference.
func (g *aspGen) elemAliased(t AspType, d int) ex {
	e := g.expr(t, d)
	if t.container() {
		g.markAliased(e)
	}
	return e
}

func (g *aspGen) comprehension(t AspType, d int) ex {
	g.feat("list_comprehension")
	src, et := g.iterSource(d - 1)
	cv := &avar{name: g.name("c"), t: et, aliased: true, ln: -1, nonASCII: true}
	var body, cond, second string
	g.withVar(cv, func() {
		if g.chance(25, "twofor") {
			g.feat("comprehension_two_fors")
			src2, et2 := g.iterSource(d - 1)
			cv2 := &avar{name: g.name("c"), t: et2, aliased: true, ln: -1, nonASCII: true}
			g.withVar(cv2, func() {
				body = arg(g.elemAliased(*t.E, d-1))
				if g.chance(50, "compif") {
					cond = " if " + par(g.boolExpr(d-1), pOr)
					g.feat("comprehension_filter")
				}
			})
			second = " for " + cv2.name + " in " + par(src2, pOr)
			return
		}
		body = arg(g.elemAliased(*t.E, d-1))
		if g.chance(50, "compif") {
			cond = " if " + par(g.boolExpr(d-1), pOr)
			g.feat("comprehension_filter")
		}
	})
	e := atom("[" + body + " for " + cv.name + " in " + par(src, pOr) + second + cond + "]")
	e.fresh = true
	e.nonASCII = true
	e.fold = t.E.container() // a constant list literal in the body is evaluated once per item
	return e
}

func (g *aspGen) listExpr(t AspType, d int) ex {
	if d <= 0 {
		if v := g.varOf(t); v != nil && g.chance(50, "listvar") {
			return g.varEx(v)
		}
		return g.literal(t, 1)
	}
	if e, ok := g.common(t, d); ok {
		return e
	}
	et := *t.E
	if et.K == AspList && et.E.K == AspInt && g.chance(30, "pairs") {
		// enumerate / zip produce lists of pairs
		l := g.derange(g.listExpr(AspListOf(tInt), d-1))
		if g.chance(50, "enum") || l.p != pAtom || l.post != 0 {
			g.feat("enumerate")
			return call("enumerate", arg(l))
		}
		g.feat("zip")
		return call("zip", l.s, call([]string{"reversed", "sorted"}[g.n(0, 1, "zipw")], l.s).s)
	}
	switch k := g.n(0, 39, "listform"); {
	case k < 6:
		return g.literal(t, 2)
	case k < 8:
		// literal with computed elements
		n := g.n(1, 3, "nelem")
		els := make([]ex, n)
		for i := range els {
			els[i] = g.elemAliased(et, d-1)
		}
		e := listLit(els)
		e.nonASCII = true
		return e
	case k < 13:
		return g.comprehension(t, d)
	case k < 18:
		l, r := g.listExpr(t, d-1), g.listExpr(t, d-1)
		if r.rng { // list + range is an error in asp (allowed, but useless); range + list works
			l, r = r, l
		}
		if r.rng {
			r = g.derange(r)
		}
		g.feat("list_concat")
		e := g.bin("+", pAdd, l, r)
		if l.ln >= 0 && r.ln >= 0 {
			e.ln = l.ln + r.ln
		}
		e.nonASCII = l.nonASCII || r.nonASCII
		if et.container() {
			e.cpart, e.fold = l.cpart || r.cpart, l.fold || r.fold
		}
		return e
	case k < 20:
		l := g.derange(g.listExpr(t, d-1))
		g.feat("list_repeat")
		e := g.bin("*", pMul, l, atom(strconv.Itoa(g.n(0, 3, "rep"))))
		e.nonASCII = l.nonASCII
		if et.container() {
			e.cpart, e.fold = l.cpart, l.fold
		}
		return e
	case k < 23:
		l := g.derange(g.listExpr(t, d-1))
		g.feat("list_slice")
		e := index(l, g.sliceBounds(l.ln))
		e.fresh = true
		e.nonASCII = l.nonASCII
		return e
	case k < 27 && (et.K == AspInt || et.K == AspStr):
		l := g.derange(g.listExpr(t, d-1))
		g.feat("sorted")
		args := []string{arg(l)}
		if g.chance(40, "key") {
			g.feat("sorted_key")
			if et.K == AspInt {
				args = append(args, "key = lambda q: "+g.lambdaIntBody("q"))
			} else {
				nk := 2
				if l.nonASCII && g.o.ExclNonASCIISlice {
					nk = 1
				}
				args = append(args, "key = lambda q: "+[]string{"len(q)", "q.lower()", "q[:1]"}[g.n(0, nk, "skey")])
			}
		}
		if g.chance(35, "reverse") {
			g.feat("sorted_reverse")
			args = append(args, "reverse = "+g.boolLit().s)
		}
		e := call("sorted", args...)
		e.ln, e.nonASCII = l.ln, l.nonASCII
		return e
	case k < 30:
		l := g.derange(g.listExpr(t, d-1))
		g.feat("reversed")
		e := call("reversed", arg(l))
		e.ln, e.nonASCII = l.ln, l.nonASCII
		if et.container() {
			e.cpart, e.fold = l.cpart, l.fold
		}
		return e
	case k < 33 && (et.K == AspInt || et.K == AspStr):
		l := g.derange(g.listExpr(t, d-1))
		lv := &avar{name: g.name("q"), t: et, ln: -1, nonASCII: true}
		var body string
		isMap := g.chance(50, "map")
		g.withVar(lv, func() {
			if isMap {
				body = par(g.expr(et, d-1), pTernary)
			} else {
				body = par(g.boolExpr(d-1), pTernary)
			}
		})
		f := "filter"
		if isMap {
			f = "map"
		}
		g.feat(f)
		g.feat("lambda")
		e := call(f, "lambda "+lv.name+": "+body, arg(l))
		e.nonASCII = true
		return e
	case k < 35 && et.K == AspInt:
		return g.rangeCall()
	case k < 37 && et.K == AspStr:
		s := g.strExpr(d - 1)
		if g.chance(60, "split") {
			g.feat("str_split")
			e := method(s, "split", []string{`","`, `" "`, `"-"`, `"a"`, `"é"`, `"ab"`}[g.n(0, 5, "sep")])
			e.nonASCII = s.nonASCII
			return e
		}
		g.feat("str_partition")
		e := method(s, []string{"partition", "rpartition"}[g.n(0, 1, "part")], []string{`","`, `" "`, `"-"`, `"a"`, `"é"`}[g.n(0, 4, "sep")])
		e.nonASCII = s.nonASCII
		e.ln = 3
		return e
	case k < 38 && et.K == AspList && et.E.K == AspInt:
		// enumerate / zip produce lists of pairs
		l := g.derange(g.listExpr(AspListOf(tInt), d-1))
		if g.chance(50, "enum") || l.p != pAtom || l.post != 0 {
			g.feat("enumerate")
			return call("enumerate", arg(l))
		}
		g.feat("zip")
		return call("zip", l.s, call([]string{"reversed", "sorted"}[g.n(0, 1, "zipw")], l.s).s)
	case k < 39 && (et.K == AspInt || et.K == AspStr):
		if v := g.varOf(AspDictOf(et)); v != nil {
			g.feat("dict_values_sorted")
			e := call("sorted", method(g.varEx(v), "values").s)
			e.nonASCII = true
			return e
		}
		return g.literal(t, 1)
	default:
		return g.literal(t, 1)
	}
}

// ---- dicts -----------------------------------------------------------------------------------------

func (g *aspGen) dictExpr(t AspType, d int) ex {
	if d <= 0 {
		if v := g.varOf(t); v != nil && g.chance(50, "dictvar") {
			return g.varEx(v)
		}
		return g.literal(t, 1)
	}
	if e, ok := g.common(t, d); ok {
		return e
	}
	et := *t.E
	switch k := g.n(0, 19, "dictform"); {
	case k < 6:
		return g.literal(t, 2)
	case k < 9:
		n := g.n(1, 3, "nitem")
		start := g.n(0, len(dictKeys)-1, "key0")
		parts := make([]string, n)
		cp, fold := false, false
		for i := range parts {
			el := g.elemAliased(et, d-1)
			cp = cp || el.cpart
			fold = fold || el.fold
			parts[i] = quote(dictKeys[(start+i)%len(dictKeys)], false) + ": " + arg(el)
		}
		e := atom("{" + strings.Join(parts, ", ") + "}")
		e.fresh, e.nonASCII, e.cpart, e.fold = true, true, cp, fold
		return e
	case k < 13:
		g.feat("dict_comprehension")
		var src ex
		if g.chance(50, "fromlist") {
			src = g.derange(g.listExpr(AspListOf(tStr), d-1))
		} else {
			src = call("sorted", method(g.dictExpr(AspDictOf(tInt), d-1), "keys").s)
		}
		cv := &avar{name: g.name("c"), t: tStr, ln: -1, nonASCII: true}
		var key, val, cond string
		g.withVar(cv, func() {
			key = cv.name
			if g.chance(30, "keyexpr") {
				key = par(g.bin("+", pAdd, g.varEx(cv), g.strLit()), pTernary)
			}
			val = arg(g.elemAliased(et, d-1))
			if g.chance(30, "dcompif") {
				cond = " if " + par(g.boolExpr(d-1), pOr)
			}
		})
		e := atom("{" + key + ": " + val + " for " + cv.name + " in " + par(src, pOr) + cond + "}")
		e.fresh, e.nonASCII = true, true
		e.fold = et.container()
		return e
	case k < 16:
		g.feat("dict_union")
		l, r := g.dictExpr(t, d-1), g.dictExpr(t, d-1)
		e := g.bin("|", pBitOr, l, r)
		e.nonASCII = true
		return e
	case k < 17:
		g.feat("dict_copy")
		e := method(g.dictExpr(t, d-1), "copy")
		e.nonASCII = true
		return e
	default:
		return g.literal(t, 1)
	}
}
