package aspgen

// aspgen: typed generator of programs in the documented Python subset of Please's BUILD language
// (asp). Used by C16 (differential against CPython), C17/C18 (values and builtin applications) and,
// as a source of well-formed programs to mutate, by C19/C38.
//
// API:
//
//	GenAspProgram(t, opts) AspProgram   program text + metadata (operators, aliasing, ...)
//	GenAspLiteral(t, ty, depth) string  literal of a given type
//	AspT(...) / AspListOf / AspDictOf   types
//
// Everything is drawn from the rapid.T, so a program is a function of the bit stream and shrinks.
// The generator is *typed* so that nearly every program runs without error both in CPython and in
// asp; expressions are built as trees and printed with minimal parentheses (Python's precedence
// table), so operator precedence and associativity are really exercised.

import (
	"fmt"
	"sort"
	"strconv"
	"strings"

	"pgregory.net/rapid"
)

// AspKind is the kind of an AspType.
type AspKind int

// Kinds of values.
const (
	AspInt AspKind = iota
	AspStr
	AspBool
	AspList
	AspDict
)

// AspType is a (monomorphic) type of the generated language: Int, Str, Bool, List[E], Dict[str->E].
type AspType struct {
	K AspKind
	E *AspType
}

var (
	tInt  = AspType{K: AspInt}
	tStr  = AspType{K: AspStr}
	tBool = AspType{K: AspBool}
)

// AspListOf returns List[e].
func AspListOf(e AspType) AspType { return AspType{K: AspList, E: &e} }

// AspDictOf returns Dict[str -> e].
func AspDictOf(e AspType) AspType { return AspType{K: AspDict, E: &e} }

// AspScalar returns the scalar type of a kind.
func AspScalar(k AspKind) AspType { return AspType{K: k} }

func (a AspType) String() string {
	switch a.K {
	case AspInt:
		return "int"
	case AspStr:
		return "str"
	case AspBool:
		return "bool"
	case AspList:
		return "list[" + a.E.String() + "]"
	default:
		return "dict[" + a.E.String() + "]"
	}
}

func (a AspType) eq(b AspType) bool { return a.String() == b.String() }

func (a AspType) container() bool { return a.K == AspList || a.K == AspDict }

// AspOpts configures GenAspProgram. The Excl* switches make the generator avoid, by construction,
// one narrow class of programs each (the recorded known findings of C16); every time a switch
// actually suppressed a choice the class name is added to AspMeta.Excluded.
type AspOpts struct {
	MaxStmts int // top-level statements (default 8)

	ExclChainedCompare bool // a < b < c
	ExclNonASCIISlice  bool // slicing / find / rfind on strings that may hold non-ASCII characters
	ExclAugAssignAlias bool // l += [...] / l.append(..) / l.extend(..) on a list that has another live reference
	ExclFoldedConst    bool // index assignment into a list that came from a constant list literal evaluated repeatedly
	ExclRangeObject    bool // range() result used with == / != / truthiness
	ExclLateDefault    bool // non-constant default argument whose inputs change between def and call
	ExclAppend         bool // .append/.extend statements at all (only accepted in build_defs files)
}

// AspMeta describes a generated program (for labels and the non-triviality rule).
type AspMeta struct {
	Ops       int      // operators in the program
	Levels    int      // distinct precedence levels among them
	MaxExprOp int      // most operators in a single expression
	Aliasing  bool     // contains one of the aliasing patterns
	NegOp     bool     // has a negative operand
	NonASCII  bool     // has a non-ASCII string operand
	BigInt    bool     // has an operand around 2^31 or larger
	Features  []string // constructs used (sorted)
	Excluded  []string // known-finding classes that suppressed a choice (sorted, with repeats)
}

// AspProgram is a generated program.
type AspProgram struct {
	Text string
	Meta AspMeta
}

// Python precedence levels (higher binds tighter).
const (
	pLambda = iota
	pTernary
	pOr
	pAnd
	pNot
	pCmp
	pBitOr
	pAdd
	pMul
	pUnary
	pAtom
)

// ex is a generated expression: text plus what the generator needs to know to combine it.
type ex struct {
	s        string
	p        int  // precedence of the outermost construct
	post     int  // 0: identifier chain (may take [..] and .m()), 1: atom/slices (may take [..], then one .m()), 2: closed
	fresh    bool // value is a newly created object nobody else references
	nonASCII bool // string may contain non-ASCII characters
	rng      bool // raw result of range()
	constLit bool // constant literal in asp's sense (folded once per file in build_defs mode)
	ln       int  // known length (lists, strings); -1 unknown
	fold     bool // may be (part of) a constant list literal that asp folds in build_defs files
	cpart    bool // contains (or is) a constant list literal; matters where the expression is evaluated repeatedly
}

type avar struct {
	name     string
	t        AspType
	aliased  bool // the object may be referenced from somewhere else
	folded   bool // may be (an alias of) a repeatedly evaluated constant list literal
	nonASCII bool
	rng      bool
	ln       int
	ro       bool // must not be assigned (loop variables while their loop runs, parameters)
	depth    int  // block depth at which it was defined
	writes   int  // number of statements generated so far that write to it
	amarks   int  // number of times another reference to its object was really created
}

type afunc struct {
	name   string
	params []avar
	ndef   int // number of trailing params that have defaults
	ret    AspType
	fresh  bool // returns a fresh object
	folded bool // returns a constant list literal
}

type aspGen struct {
	t      *rapid.T
	o      AspOpts
	vars   []*avar
	funcs  []*afunc
	nname  int
	depth  int // block depth (0 = top level)
	inFunc bool
	fdepth int
	inLoop bool
	lines  []string
	meta   AspMeta
	levels map[int]bool
	feats  map[string]bool
	curOps int
	budget int // remaining expression nodes for the current statement
}

func (g *aspGen) n(lo, hi int, label string) int { return rapid.IntRange(lo, hi).Draw(g.t, label) }

func (g *aspGen) chance(pct int, label string) bool { return g.n(0, 99, label) < pct }

func (g *aspGen) feat(f string) { g.feats[f] = true }

func (g *aspGen) excluded(class string) { g.meta.Excluded = append(g.meta.Excluded, class) }

func (g *aspGen) name(prefix string) string {
	g.nname++
	return prefix + strconv.Itoa(g.nname)
}

func (g *aspGen) op(level int) {
	g.meta.Ops++
	g.curOps++
	if g.curOps > g.meta.MaxExprOp {
		g.meta.MaxExprOp = g.curOps
	}
	g.levels[level] = true
}

func (g *aspGen) emit(indent int, s string) {
	g.lines = append(g.lines, strings.Repeat("    ", indent)+s)
}

// ---- combining expressions -------------------------------------------------------------------------

func atom(s string) ex { return ex{s: s, p: pAtom, post: 1, ln: -1} }

func ident(s string) ex { return ex{s: s, p: pAtom, post: 0, ln: -1} }

func par(e ex, minP int) string {
	if e.p < minP {
		return "(" + e.s + ")"
	}
	return e.s
}

// bin prints a left-associative binary operator with minimal parentheses.
func (g *aspGen) bin(op string, p int, l, r ex) ex {
	g.op(p)
	return ex{s: par(l, p) + " " + op + " " + par(r, p+1), p: p, post: 2, ln: -1, fresh: true}
}

// cmp prints a comparison; both operands are parenthesised if they are comparisons themselves
// (a bare "a < b < c" would be a chained comparison in Python).
func (g *aspGen) cmp(op string, l, r ex) ex {
	g.op(pCmp)
	return ex{s: par(l, pCmp+1) + " " + op + " " + par(r, pCmp+1), p: pCmp, post: 2, ln: -1, fresh: true}
}

func (g *aspGen) neg(e ex) ex {
	g.op(pUnary)
	g.meta.NegOp = true
	sp := ""
	if strings.HasPrefix(e.s, "0o") { // asp's lexer reads "-0" as a signed literal and then chokes on "o17"
		sp = " "
	}
	r := ex{s: "-" + sp + par(e, pAtom), p: pUnary, post: 2, ln: -1, fresh: true}
	if _, err := strconv.Atoi(e.s); err == nil && sp == "" {
		r.constLit = true // the lexer reads "-12" as one signed literal
	}
	return r
}

func (g *aspGen) not(e ex) ex {
	g.op(pNot)
	return ex{s: "not " + par(e, pCmp), p: pNot, post: 2, ln: -1, fresh: true}
}

func (g *aspGen) ternary(a, c, b ex) ex {
	g.feat("inline_if")
	g.markAliased(a)
	g.markAliased(b)
	return ex{s: par(a, pOr) + " if " + par(c, pOr) + " else " + par(b, pTernary), p: pTernary, post: 2, ln: -1,
		fresh: a.fresh && b.fresh, nonASCII: a.nonASCII || b.nonASCII, rng: a.rng || b.rng, fold: a.fold || b.fold, cpart: a.cpart || b.cpart}
}

// base returns e in a form that can take a postfix [..]; the second result is the new post state.
func base(e ex) (string, int) {
	if e.p == pAtom && e.post <= 1 {
		return e.s, e.post
	}
	return "(" + e.s + ")", 1
}

func index(e ex, idx string) ex {
	b, _ := base(e)
	return ex{s: b + "[" + idx + "]", p: pAtom, post: 1, ln: -1, nonASCII: e.nonASCII, fold: e.fold, cpart: e.cpart}
}

// method appends .m(args) to e.
func method(e ex, m string, args ...string) ex {
	b, post := base(e)
	np := 2
	if post == 0 {
		np = 0
	}
	return ex{s: b + "." + m + "(" + strings.Join(args, ", ") + ")", p: pAtom, post: np, ln: -1, fresh: true}
}

func call(f string, args ...string) ex {
	return ex{s: f + "(" + strings.Join(args, ", ") + ")", p: pAtom, post: 0, ln: -1, fresh: true}
}

// arg prints e as a call argument / list element (anything but a bare lambda needs no parentheses).
func arg(e ex) string { return par(e, pTernary) }

// ---- literals ----------------------------------------------------------------------------------------

var asciiWords = []string{"a", "b", "ab", "ba", "abc", "x y", ",", "-", "A", "Ab", "0", "12", "", " ", "a,b", "a-b-c", "  pad  ", "Hello", "zz", "a.b"}
var nonASCIIWords = []string{"é", "ü", "héllo", "жук", "日本", "😀", "añb", "naïve é", "ab日"}
var bigInts = []int64{2147483647, 2147483648, -2147483648, 4294967296, 1000000007, 4294967295, -2147483649, 65536, 3037000499}

func quote(s string, single bool) string {
	var b strings.Builder
	q := byte('"')
	if single {
		q = '\''
	}
	b.WriteByte(q)
	for _, r := range s {
		switch {
		case r == '\\':
			b.WriteString(`\\`)
		case r == '\n':
			b.WriteString(`\n`)
		case r == '\t':
			b.WriteString(`\t`)
		case r == rune(q):
			b.WriteByte('\\')
			b.WriteRune(r)
		default:
			b.WriteRune(r)
		}
	}
	b.WriteByte(q)
	return b.String()
}

func (g *aspGen) strLit() ex {
	var w string
	na := false
	switch k := g.n(0, 19, "strkind"); {
	case k < 12:
		w = asciiWords[g.n(0, len(asciiWords)-1, "word")]
	case k < 16:
		w = nonASCIIWords[g.n(0, len(nonASCIIWords)-1, "naword")]
		na = true
	case k < 18:
		w = asciiWords[g.n(0, len(asciiWords)-1, "word")] + []string{"\n", "\\", "\"", "'", "\t", "%", "{x}"}[g.n(0, 6, "esc")] + asciiWords[g.n(0, len(asciiWords)-1, "word2")]
		g.feat("string_escape")
	default:
		w = asciiWords[g.n(0, len(asciiWords)-1, "word")] + nonASCIIWords[g.n(0, len(nonASCIIWords)-1, "naword")]
		na = true
	}
	if na {
		g.meta.NonASCII = true
	}
	e := atom(quote(w, g.chance(15, "single")))
	if len(w) >= 2 && g.chance(2, "adjacent") { // implicit concatenation of adjacent literals
		r := []rune(w)
		h := len(r) / 2
		e = atom(quote(string(r[:h]), false) + " " + quote(string(r[h:]), false))
		e.post = 2
		g.feat("adjacent_literals")
	}
	e.nonASCII = na
	e.constLit = true
	e.fresh = true
	e.ln = len([]rune(w))
	return e
}

func (g *aspGen) intLit() ex {
	var v int64
	switch k := g.n(0, 19, "intkind"); {
	case k < 12:
		v = int64(g.n(-4, 12, "small"))
	case k < 15:
		v = []int64{100, 255, 256, 1000, -100, 97, 64}[g.n(0, 6, "medium")]
	case k < 19:
		v = bigInts[g.n(0, len(bigInts)-1, "big")]
		g.meta.BigInt = true
	default:
		o := g.n(1, 511, "octal")
		g.feat("octal_literal")
		e := atom("0o" + strconv.FormatInt(int64(o), 8))
		e.constLit, e.fresh = true, true
		return e
	}
	if v < 0 {
		g.meta.NegOp = true
		e := ex{s: strconv.FormatInt(v, 10), p: pUnary, post: 2, ln: -1, fresh: true, constLit: true}
		if g.chance(10, "negspace") { // "- 5": the unary operator path instead of the lexer's signed literal
			e.s = "- " + strconv.FormatInt(-v, 10)
			e.constLit = false
		}
		return e
	}
	e := atom(strconv.FormatInt(v, 10))
	e.constLit, e.fresh = true, true
	return e
}

func (g *aspGen) boolLit() ex {
	e := ident([]string{"True", "False"}[g.n(0, 1, "bool")])
	e.constLit, e.fresh = true, true
	return e
}

var dictKeys = []string{"a", "b", "k", "key", "x y", "é", "z", "name", "0"}

// literal builds a literal of type ty (nested up to depth).
func (g *aspGen) literal(ty AspType, depth int) ex {
	switch ty.K {
	case AspInt:
		return g.intLit()
	case AspStr:
		return g.strLit()
	case AspBool:
		return g.boolLit()
	case AspList:
		n := g.n(0, 4, "listlen")
		if depth <= 0 && ty.E.container() {
			n = 0
		}
		els := make([]ex, n)
		for i := range els {
			els[i] = g.literal(*ty.E, depth-1)
		}
		return listLit(els)
	default:
		n := g.n(0, 3, "dictlen")
		if depth <= 0 && ty.E.container() {
			n = 0
		}
		start := g.n(0, len(dictKeys)-1, "key0")
		parts := make([]string, n)
		na, cp := false, false
		for i := range parts {
			k := dictKeys[(start+i)%len(dictKeys)]
			e := g.literal(*ty.E, depth-1)
			na = na || e.nonASCII
			cp = cp || e.cpart
			parts[i] = quote(k, false) + ": " + arg(e)
		}
		e := atom("{" + strings.Join(parts, ", ") + "}")
		e.fresh, e.ln, e.nonASCII, e.cpart = true, n, na, cp
		return e
	}
}

// listLit builds a list literal from its elements and works out whether asp treats it (or a part of
// it) as a constant: a list literal is constant iff all its elements are.
func listLit(els []ex) ex {
	parts := make([]string, len(els))
	cl, na, cp, fold := true, false, false, false
	for i, e := range els {
		parts[i] = arg(e)
		cl = cl && e.constLit
		na = na || e.nonASCII
		cp = cp || e.cpart
		fold = fold || e.fold
	}
	e := atom("[" + strings.Join(parts, ", ") + "]")
	e.constLit = cl
	e.cpart = cp || (cl && len(els) > 0)
	e.fresh, e.ln, e.nonASCII, e.fold = true, len(els), na, fold
	return e
}

func hasDict(t AspType) bool {
	if t.K == AspDict {
		return true
	}
	return t.E != nil && hasDict(*t.E)
}

// GenAspLiteral draws a literal of the given type (containers nested up to depth).
func GenAspLiteral(t *rapid.T, ty AspType, depth int) string {
	g := newAspGen(t, AspOpts{})
	return g.literal(ty, depth).s
}

// GenAspType draws one of the types the generator works with.
func GenAspType(t *rapid.T, containersOnly bool) AspType {
	g := newAspGen(t, AspOpts{})
	if containersOnly {
		return g.containerType()
	}
	return g.anyType()
}

func newAspGen(t *rapid.T, o AspOpts) *aspGen {
	if o.MaxStmts == 0 {
		o.MaxStmts = 8
	}
	return &aspGen{t: t, o: o, levels: map[int]bool{}, feats: map[string]bool{}}
}

var scalarTypes = []AspType{tInt, tStr, tBool}

func (g *aspGen) containerType() AspType {
	switch g.n(0, 9, "ctype") {
	case 0, 1, 2:
		return AspListOf(tInt)
	case 3, 4:
		return AspListOf(tStr)
	case 5:
		return AspListOf(AspListOf(tInt))
	case 6:
		return AspDictOf(tInt)
	case 7:
		return AspDictOf(tStr)
	case 8:
		return AspDictOf(AspListOf(tInt))
	default:
		return AspListOf(AspDictOf(tInt))
	}
}

func (g *aspGen) anyType() AspType {
	if g.chance(55, "scalar") {
		return scalarTypes[g.n(0, 2, "stype")]
	}
	return g.containerType()
}

func (g *aspGen) finish() AspProgram {
	g.meta.Levels = len(g.levels)
	for f := range g.feats {
		g.meta.Features = append(g.meta.Features, f)
	}
	sort.Strings(g.meta.Features)
	sort.Strings(g.meta.Excluded)
	return AspProgram{Text: strings.Join(g.lines, "\n") + "\n", Meta: g.meta}
}

var _ = fmt.Sprintf
