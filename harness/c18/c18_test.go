// C18: frozen (imported) values behave like ordinary values.
package c18

import (
	"bytes"
	"encoding/json"
	"fmt"
	"os"
	"path/filepath"
	"reflect"
	"strings"
	"sync"
	"testing"

	"pgregory.net/rapid"

	"verifharness/aspgen"
	"verifharness/lib"
	"verifharness/lib/aspenv"
)

func TestMain(m *testing.M) { lib.Main(m) }

var spec = lib.Spec{
	ID: "C18",
	Rule: "a container value V (lists/dicts of int/str, nested: list of lists, dict of lists, list of dicts; literal drawn by the C16 value generator) and 1-3 applications drawn from " +
		"== != (both sides) + (both sides) * in / not in len sorted(key,reverse) reversed enumerate any all zip min max map filter reduce join comprehensions (plain, filtered, dict) indexing slicing " +
		"unpacking for-loops truthiness and/or isinstance str() json() typed-parameter calls dict get/keys/values/items/copy/| in, applied to V or to an element of V. " +
		"Each program is evaluated with V defined locally and with V imported through subinclude() of a build_defs file (or taken from CONFIG, set by the subincluded file with CONFIG.setdefault). " +
		"Oracle (metamorphic): same error/no-error status and identical JSON of all results. Non-trivial = the local evaluation succeeds (so the frozen wrapper has to be accepted too); distinct = (value, applications, route)",
	Assumptions: []string{
		"applications never mutate V (index assignment into an imported value is documented to fail)",
		"only the error/no-error status is compared when both sides fail, not the message",
	},
}

// Case: V's literal, the applications (statements using V, defining R1..Rn) and the import route.
type Case struct {
	Type   string   // for labels only
	Value  string   // literal
	Apps   []string // statements
	Route  string   // "subinclude" | "config"
	Nested bool
}

type appT struct {
	name string
	tmpl string // V = the value, E = a literal of the element type, K = a key
	ok   func(t aspgen.AspType) bool
}

func isList(t aspgen.AspType) bool { return t.K == aspgen.AspList }
func isDict(t aspgen.AspType) bool { return t.K == aspgen.AspDict }
func listOf(k aspgen.AspKind) func(aspgen.AspType) bool {
	return func(t aspgen.AspType) bool { return t.K == aspgen.AspList && t.E.K == k }
}
func scalarList(t aspgen.AspType) bool {
	return t.K == aspgen.AspList && (t.E.K == aspgen.AspInt || t.E.K == aspgen.AspStr)
}

var apps = []appT{
	{"eq", "R = V == LIT", nil},
	{"eq_rev", "R = LIT == V", nil},
	{"ne", "R = V != LIT", nil},
	{"eq_other", "R = V == OTHER", nil},
	{"eq_self", "R = V == V", nil},
	{"len", "R = len(V)", nil},
	{"truth", "R = bool(V)", nil},
	{"not", "R = not V", nil},
	{"and_or", "R = (V or LIT) == V", nil},
	{"ternary", "R = 1 if V else 2", nil},
	{"str", "R = str(V)", nil},
	{"json", "R = json(V)", nil},
	{"alias_eq", "W = V\nR = W == LIT", nil},
	{"in_container", "R = [V, LIT][0] == LIT", nil},
	{"isinstance_list", "R = isinstance(V, list)", isList},
	{"isinstance_dict", "R = isinstance(V, dict)", isDict},
	{"typed_param", "def fn(p:PTYPE):\n    return len(p)\nR = fn(V)", nil},
	{"typed_param_kw", "def fn(a:int=1, p:PTYPE=None):\n    return p == LIT\nR = fn(p = V)", nil},
	// lists
	{"add", "R = V + LIT", isList},
	{"add_rev", "R = LIT + V", isList},
	{"add_self", "R = V + V", isList},
	{"augassign", "W = V\nW += LIT\nR = W", isList},
	{"mul", "R = V * 2", isList},
	{"mul_rev", "R = 2 * V", isList},
	{"in", "R = E in V", scalarList},
	{"not_in", "R = E not in V", scalarList},
	{"sorted", "R = sorted(V)", scalarList},
	{"sorted_key", "R = sorted(V, key = lambda q: len(str(q)), reverse = True)", scalarList},
	{"reversed", "R = reversed(V)", isList},
	{"enumerate", "R = enumerate(V)", isList},
	{"any", "R = any(V)", isList},
	{"all", "R = all(V)", isList},
	{"zip", "R = zip(V, V)", isList},
	{"zip_mixed", "R = zip(V, LIT)", isList},
	{"min", "R = min(V + [E])", scalarList},
	{"min_direct", "R = min(V)", scalarList},
	{"max_key", "R = max(V, key = lambda q: len(str(q)))", scalarList},
	{"map", "R = map(lambda q: [q], V)", isList},
	{"filter", "R = filter(lambda q: q, V)", isList},
	{"reduce", "R = reduce(lambda a, b: a + b, V, E)", scalarList},
	{"reduce_lists", "R = reduce(lambda a, b: a + b, V, [])", listOf(aspgen.AspList)},
	{"join", "R = \"-\".join(V)", listOf(aspgen.AspStr)},
	{"join_f", "sep = \",\"\nR = sep.join(V)", listOf(aspgen.AspStr)},
	{"comprehension", "R = [q for q in V]", isList},
	{"comprehension_if", "R = [[q] for q in V if q]", isList},
	{"comprehension_two", "R = [[a, b] for a in V for b in V]", isList},
	{"dict_comprehension", "R = {str(len(str(q))): q for q in V}", scalarList},
	{"index", "R = V[0] if len(V) > 0 else None", isList},
	{"index_neg", "R = V[-1] if len(V) > 0 else None", isList},
	{"slice", "R = V[1:]", isList},
	{"slice_full", "R = V[:]\nR2 = R == LIT", isList},
	{"slice_add", "R = V[:1] + V[1:]", isList},
	{"for", "R = []\nfor x in V:\n    R = R + [x]", isList},
	{"for_enumerate", "R = []\nfor i, x in enumerate(V):\n    R = R + [[i, x]]", isList},
	{"unpack", "R = len(V)\nif R == 2:\n    a, b = V", isList},
	{"lt", "R = V < LIT", scalarList},
	{"percent", "R = \"%s\" % V[0] if len(V) > 0 else \"\"", scalarList},
	{"percent_tuple", "R = \"%s-%s\" % V if len(V) == 2 else \"\"", scalarList},
	{"elem_eq", "R = V[0] == LIT[0] if len(V) > 0 else None", isList},
	{"elem_len", "R = len(V[0]) if len(V) > 0 else None", listOf(aspgen.AspList)},
	{"elem_add", "R = V[0] + [E2] if len(V) > 0 else None", listOf(aspgen.AspList)},
	{"elem_sorted", "R = sorted(V[0]) if len(V) > 0 else None", listOf(aspgen.AspList)},
	{"elem_in", "R = [x for x in V if E2 in x]", listOf(aspgen.AspList)},
	{"elem_isinstance", "R = [isinstance(x, list) for x in V]", listOf(aspgen.AspList)},
	{"elem_dict_get", "R = [x.get(K, 0) for x in V]", listOf(aspgen.AspDict)},
	{"elem_dict_isinstance", "R = [isinstance(x, dict) for x in V]", listOf(aspgen.AspDict)},
	{"elem_dict_eq", "R = V[0] == LIT[0] if len(V) > 0 else None", listOf(aspgen.AspDict)},
	{"elem_dict_union", "R = [x | {\"zz\": 1} for x in V]", listOf(aspgen.AspDict)},
	// dicts
	{"dict_in", "R = K in V", isDict},
	{"dict_index", "R = V[K] if K in V else None", isDict},
	{"dict_get", "R = V.get(K)", isDict},
	{"dict_get_default", "R = V.get(K, E)", isDict},
	{"dict_keys", "R = V.keys()", isDict},
	{"dict_values", "R = V.values()", isDict},
	{"dict_items", "R = V.items()", isDict},
	{"dict_sorted_keys", "R = sorted(V.keys())", isDict},
	{"dict_union", "R = V | LIT", isDict},
	{"dict_union_rev", "R = LIT | V", isDict},
	{"dict_union_self", "R = V | V", isDict},
	{"dict_copy", "R = V.copy()\nR2 = R == LIT", isDict},
	{"dict_comprehension", "R = {k: v for k, v in V.items()}", isDict},
	{"dict_for", "R = []\nfor k, v in V.items():\n    R = R + [k]", isDict},
	{"dict_value_len", "R = [len(v) for v in V.values()]", func(t aspgen.AspType) bool { return t.K == aspgen.AspDict && t.E.K == aspgen.AspList }},
	{"dict_value_add", "R = [v + [E2] for v in V.values()]", func(t aspgen.AspType) bool { return t.K == aspgen.AspDict && t.E.K == aspgen.AspList }},
	{"dict_value_sorted", "R = [sorted(v) for k, v in V.items()]", func(t aspgen.AspType) bool { return t.K == aspgen.AspDict && t.E.K == aspgen.AspList }},
	{"dict_value_eq", "R = [v == LIT.get(k) for k, v in V.items()]", isDict},
}

var types = []aspgen.AspType{
	aspgen.AspListOf(aspgen.AspScalar(aspgen.AspInt)),
	aspgen.AspListOf(aspgen.AspScalar(aspgen.AspStr)),
	aspgen.AspListOf(aspgen.AspListOf(aspgen.AspScalar(aspgen.AspInt))),
	aspgen.AspListOf(aspgen.AspDictOf(aspgen.AspScalar(aspgen.AspInt))),
	aspgen.AspDictOf(aspgen.AspScalar(aspgen.AspInt)),
	aspgen.AspDictOf(aspgen.AspScalar(aspgen.AspStr)),
	aspgen.AspDictOf(aspgen.AspListOf(aspgen.AspScalar(aspgen.AspInt))),
}

var keys = []string{`"a"`, `"b"`, `"k"`, `"key"`, `"x y"`, `"é"`, `"z"`, `"name"`, `"0"`, `"missing"`}

func gen(t *rapid.T) Case {
	ty := types[rapid.IntRange(0, len(types)-1).Draw(t, "type")]
	lit := aspgen.GenAspLiteral(t, ty, 2)
	other := aspgen.GenAspLiteral(t, ty, 2)
	elem := aspgen.GenAspLiteral(t, *ty.E, 1)
	elem2 := fmt.Sprint(rapid.IntRange(-2, 9).Draw(t, "e2"))
	key := keys[rapid.IntRange(0, len(keys)-1).Draw(t, "key")]
	var cand []appT
	for _, a := range apps {
		if a.ok == nil || a.ok(ty) {
			cand = append(cand, a)
		}
	}
	c := Case{Type: ty.String(), Value: lit, Nested: ty.E.K == aspgen.AspList || ty.E.K == aspgen.AspDict, Route: "subinclude"}
	if rapid.IntRange(0, 4).Draw(t, "route") == 0 {
		c.Route = "config"
	}
	n := rapid.IntRange(1, 3).Draw(t, "napps")
	ptype := "list"
	if ty.K == aspgen.AspDict {
		ptype = "dict"
	}
	for i := 0; i < n; i++ {
		a := cand[rapid.IntRange(0, len(cand)-1).Draw(t, "app")]
		s := a.tmpl
		suffix := fmt.Sprint(i + 1)
		r := strings.NewReplacer("R2", "Q"+suffix, "R", "R"+suffix, "W", "W"+suffix, "fn", "fn"+suffix, "LIT", lit, "OTHER", other, "E2", elem2, "E", elem, "K", key, "PTYPE", ptype)
		c.Apps = append(c.Apps, "# "+a.name+"\n"+r.Replace(s))
	}
	return c
}

var (
	envMu   sync.Mutex
	env     *aspenv.Env
	envUses int
)

func getEnv() (*aspenv.Env, error) {
	envMu.Lock()
	defer envMu.Unlock()
	if env == nil || envUses > 2000 {
		root := os.Getenv("VERIF_SCRATCH")
		if root == "" {
			root = filepath.Join(os.TempDir(), fmt.Sprintf("verif-c18-%d", os.Getpid()))
		}
		e, err := aspenv.New(filepath.Join(root, "asp"))
		if err != nil {
			return nil, err
		}
		env, envUses = e, 0
	}
	envUses++
	return env, nil
}

func decode(b []byte) (map[string]any, error) {
	d := json.NewDecoder(bytes.NewReader(b))
	d.UseNumber()
	var m map[string]any
	err := d.Decode(&m)
	return m, err
}

func evalBuild(e *aspenv.Env, text string) (map[string]any, map[string]string, error) {
	vs, _, err := e.EvalBuild(fmt.Sprintf("p%d", e.Seq()), text)
	if err != nil {
		return nil, nil, err
	}
	b, err := vs.Globals()
	if err != nil {
		return nil, nil, fmt.Errorf("globals: %w", err)
	}
	m, err := decode(b)
	return m, vs.Types(), err
}

func firstLine(s string) string {
	if i := strings.IndexByte(s, '\n'); i >= 0 {
		s = s[:i]
	}
	return s
}

func run(c Case, o *lib.Obs) error {
	e, err := getEnv()
	if err != nil {
		return &lib.Inconclusive{Msg: err.Error()}
	}
	body := strings.Join(c.Apps, "\n") + "\n"
	local := "V = " + c.Value + "\n" + body
	var defs, imported string
	if c.Route == "config" {
		defs = "CONFIG.setdefault(\"VERIF_V\", " + c.Value + ")\n"
	} else {
		defs = "V = " + c.Value + "\n"
	}
	label, path, err := e.AddDefs(defs)
	if err != nil {
		return &lib.Inconclusive{Msg: err.Error()}
	}
	defer e.Remove(path)
	imported = "subinclude(\"" + label + "\")\n"
	if c.Route == "config" {
		imported += "V = CONFIG.VERIF_V\n"
	}
	imported += body
	lg, _, lerr := evalBuild(e, local)
	ig, itypes, ierr := evalBuild(e, imported)
	o.Label("route_" + c.Route)
	o.LabelIf(c.Nested, "nested_value")
	o.LabelIf(lerr != nil, "local_error")
	for _, a := range c.Apps {
		o.Label("app:" + strings.TrimPrefix(firstLine(a), "# "))
	}
	if ierr == nil {
		o.LabelIf(strings.HasPrefix(itypes["V"], "frozen"), "imported_value_is_frozen")
	}
	o.NonTrivial(lerr == nil)
	o.Sample(map[string]any{"value": c.Value, "applications": c.Apps, "route": c.Route, "result": lg})
	prog := "--- local ---\n" + local + "--- imported (" + c.Route + ") ---\n# " + label + ": " + strings.ReplaceAll(defs, "\n", "") + "\n" + imported
	switch {
	case lerr == nil && ierr != nil:
		return lib.Failf("frozen-rejected", "works with a local value but fails with the imported one: %s\n%s", firstLine(ierr.Error()), prog)
	case lerr != nil && ierr == nil:
		return lib.Failf("frozen-accepted-only", "fails with a local value (%s) but works with the imported one\n%s", firstLine(lerr.Error()), prog)
	case lerr != nil:
		return nil
	}
	delete(lg, "CONFIG")
	delete(ig, "CONFIG")
	for k, lv := range lg {
		iv, ok := ig[k]
		if !ok {
			return lib.Failf("frozen-differs", "%s is defined locally but not with the imported value\n%s", k, prog)
		}
		if !reflect.DeepEqual(lv, iv) {
			lj, _ := json.Marshal(lv)
			ij, _ := json.Marshal(iv)
			return lib.Failf("frozen-differs", "%s: local %s, imported %s\n%s", k, lj, ij, prog)
		}
	}
	for k := range ig {
		if _, ok := lg[k]; !ok {
			return lib.Failf("frozen-differs", "%s is defined with the imported value but not locally\n%s", k, prog)
		}
	}
	return nil
}

func TestC18(t *testing.T) {
	lib.Check(t, spec, lib.Scale(3000, 300000), gen, run)
}
