// C36: --include / --exclude select exactly the documented targets when expanding :all and /... .
package c36

import (
	"sort"
	"strings"
	"testing"

	"github.com/thought-machine/please/src/core"
	"pgregory.net/rapid"

	"verifharness/lib"
)

func TestMain(m *testing.M) {
	lib.QuietPleaseLogs()
	lib.Main(m)
}

var spec = lib.Spec{
	ID: "C36",
	Rule: "2-8 targets in 1-4 packages (prefix-sharing siblings and sub-packages), each with 0-3 labels from {go, go_test, py, slow, manual, test, a, ab, abc, b} and possibly a test (implicit label test) or a hidden sub-target; " +
		"0-3 include and 0-3 exclude arguments, each a comma group of 1-3 labels or trailing-* wildcards (go*, a*, ab*, t*, te*, *), excludes also build patterns (//p:t, //p:all, //p/..., //...); 1-3 patterns to expand " +
		"(//p:all, //p/..., //...), with and without NeedTests. Oracle: reference of the documented rule: selected <=> (no includes or some include group has all its labels matched) and no exclude group has all its labels " +
		"matched and no exclude pattern selects the target; x* matches by prefix; a test carries label test. Compared with BuildTarget.ShouldInclude, BuildState.ShouldInclude and BuildState.ExpandLabels. " +
		"Non-trivial = some target is matched by both an include and an exclude argument, or a wildcard is involved; distinct = the case",
	Assumptions: []string{
		"targets named explicitly on the command line are not filtered by labels (documented: filters apply to :all and /...), so only pseudo-targets are expanded",
		"when several overlapping patterns are expanded in one call the result is compared as a set (duplicates are not asserted either way)",
		"exclude patterns are absolute (relative ones need a repo root on disk)",
	},
}

type tg struct {
	Pkg    string
	Name   string
	Labels []string `json:",omitempty"`
	Test   bool     `json:",omitempty"`
}

type filtCase struct {
	Targets   []tg
	Include   []string `json:",omitempty"`
	Exclude   []string `json:",omitempty"`
	Expand    []string
	NeedTests bool `json:",omitempty"`
}

var labelPool = []string{"go", "go_test", "py", "slow", "manual", "test", "a", "ab", "abc", "b"}
var wildPool = []string{"go*", "a*", "ab*", "t*", "te*", "*", "p*", "sl*", "abc*"}
var namePool = []string{"t", "u", "v", "_t#x", "lib", "all_t"}

func genGroup(t *rapid.T) string {
	n := rapid.IntRange(1, 3).Draw(t, "grouplen")
	if n == 3 && rapid.Bool().Draw(t, "shorter") {
		n = 1
	}
	parts := make([]string, n)
	for i := range parts {
		if rapid.IntRange(0, 3).Draw(t, "wild") == 0 {
			parts[i] = rapid.SampledFrom(wildPool).Draw(t, "wildcard")
		} else {
			parts[i] = rapid.SampledFrom(labelPool).Draw(t, "label")
		}
	}
	return strings.Join(parts, ",")
}

func gen(t *rapid.T) filtCase {
	base := lib.GenPkg(t, "base", 2)
	nPkgs := rapid.IntRange(1, 4).Draw(t, "npkgs")
	pkgs := []string{base}
	for i := 1; i < nPkgs; i++ {
		pkgs = append(pkgs, lib.GenRelatedPkg(t, "pkg", base))
	}
	var c filtCase
	nT := rapid.IntRange(2, 8).Draw(t, "ntargets")
	seen := map[string]bool{}
	for i := 0; i < nT; i++ {
		x := tg{Pkg: rapid.SampledFrom(pkgs).Draw(t, "tpkg"), Name: rapid.SampledFrom(namePool).Draw(t, "tname")}
		k := x.Pkg + ":" + x.Name
		if seen[k] {
			continue
		}
		seen[k] = true
		nl := rapid.IntRange(0, 3).Draw(t, "nlabels")
		for j := 0; j < nl; j++ {
			l := rapid.SampledFrom(labelPool).Draw(t, "tlabel")
			dup := false
			for _, e := range x.Labels {
				dup = dup || e == l
			}
			if !dup {
				x.Labels = append(x.Labels, l)
			}
		}
		x.Test = rapid.IntRange(0, 3).Draw(t, "istest") == 0
		c.Targets = append(c.Targets, x)
	}
	for i, n := 0, rapid.IntRange(0, 3).Draw(t, "ninclude"); i < n; i++ {
		c.Include = append(c.Include, genGroup(t))
	}
	for i, n := 0, rapid.IntRange(0, 3).Draw(t, "nexclude"); i < n; i++ {
		if rapid.IntRange(0, 3).Draw(t, "expat") == 0 {
			p := rapid.SampledFrom(pkgs).Draw(t, "expkg")
			if rapid.IntRange(0, 3).Draw(t, "exrel") == 0 {
				p = lib.GenRelatedPkg(t, "expkgrel", p)
			}
			switch rapid.IntRange(0, 3).Draw(t, "exkind") {
			case 0:
				c.Exclude = append(c.Exclude, lib.RefLabel{Pkg: p, Name: "..."}.String())
			case 1:
				c.Exclude = append(c.Exclude, lib.RefLabel{Pkg: p, Name: "all"}.String())
			default:
				c.Exclude = append(c.Exclude, lib.RefLabel{Pkg: p, Name: rapid.SampledFrom(namePool).Draw(t, "exname")}.String())
			}
		} else {
			c.Exclude = append(c.Exclude, genGroup(t))
		}
	}
	for i, n := 0, rapid.IntRange(1, 3).Draw(t, "nexpand"); i < n; i++ {
		p := rapid.SampledFrom(pkgs).Draw(t, "xpkg")
		switch rapid.IntRange(0, 5).Draw(t, "xkind") {
		case 0:
			c.Expand = append(c.Expand, "//...")
		case 1, 2:
			c.Expand = append(c.Expand, lib.RefLabel{Pkg: p, Name: "all"}.String())
		case 3:
			c.Expand = append(c.Expand, lib.RefLabel{Pkg: lib.GenRelatedPkg(t, "xrel", p), Name: "..."}.String())
		default:
			c.Expand = append(c.Expand, lib.RefLabel{Pkg: p, Name: "..."}.String())
		}
	}
	c.NeedTests = rapid.IntRange(0, 4).Draw(t, "needtests") == 0
	return c
}

// ---- reference -----------------------------------------------------------------------------------

func matchLabel(filter, l string) bool {
	if filter == l {
		return true
	}
	return strings.HasSuffix(filter, "*") && strings.HasPrefix(l, strings.TrimSuffix(filter, "*"))
}

func carries(x tg, filter string) bool {
	for _, l := range x.Labels {
		if matchLabel(filter, l) {
			return true
		}
	}
	return x.Test && matchLabel(filter, "test") // tests carry the implicit label "test"
}

func groupMatches(x tg, group string) bool {
	for _, f := range strings.Split(group, ",") {
		if !carries(x, f) {
			return false
		}
	}
	return true
}

func isPattern(s string) bool { return strings.HasPrefix(s, "//") }

func parsePattern(s string) (lib.RefLabel, bool) {
	if !strings.HasPrefix(s, "//") {
		return lib.RefLabel{}, false
	}
	body := s[2:]
	if body == "..." {
		return lib.RefLabel{Name: "..."}, true
	}
	if strings.HasSuffix(body, "/...") {
		return lib.RefLabel{Pkg: strings.TrimSuffix(body, "/..."), Name: "..."}, true
	}
	i := strings.IndexByte(body, ':')
	if i < 0 || body[i+1:] == "" {
		return lib.RefLabel{}, false
	}
	return lib.RefLabel{Pkg: body[:i], Name: body[i+1:]}, true
}

// refSelected: (byLabels, overall)
func refSelected(c filtCase, x tg) (bool, bool, bool, bool) {
	inc := len(c.Include) == 0
	incHit := false
	for _, g := range c.Include {
		if groupMatches(x, g) {
			inc, incHit = true, true
		}
	}
	excHit, patHit := false, false
	for _, e := range c.Exclude {
		if isPattern(e) {
			p, _ := parsePattern(e)
			if lib.RefSelects(p, lib.RefLabel{Pkg: x.Pkg, Name: x.Name}) {
				patHit = true
			}
		} else if groupMatches(x, e) {
			excHit = true
		}
	}
	byLabels := inc && !excHit
	return byLabels, byLabels && !patHit, incHit, excHit || patHit
}

// ---- run ------------------------------------------------------------------------------------------

var state *core.BuildState

func validPkg(p string) bool {
	return p == "" || (!strings.ContainsAny(p, `|$*?[]{}:()&\`) && p[0] != '/' && p[len(p)-1] != '/' && !strings.Contains(p, "//"))
}

func validName(n string) bool {
	return n != "" && !strings.ContainsAny(n, `|$*?[]{}:()&/\`) && n[0] != '.' && n != "all" && n != "..."
}

func validFilter(g string) bool {
	if g == "" || isPattern(g) || strings.HasPrefix(g, ":") || strings.HasPrefix(g, "@") {
		return false
	}
	for _, f := range strings.Split(g, ",") {
		if f == "" {
			return false
		}
	}
	return true
}

func run(c filtCase, o *lib.Obs) error {
	if len(c.Targets) == 0 || len(c.Expand) == 0 {
		return nil
	}
	seen := map[string]bool{}
	for _, x := range c.Targets {
		k := x.Pkg + ":" + x.Name
		if !validPkg(x.Pkg) || !validName(x.Name) || seen[k] {
			return nil
		}
		seen[k] = true
		for _, l := range x.Labels {
			if l == "" || strings.ContainsAny(l, ",*") {
				return nil
			}
		}
	}
	for _, g := range c.Include {
		if !validFilter(g) {
			return nil
		}
	}
	var exLabels []string
	for _, e := range c.Exclude {
		if isPattern(e) {
			if p, ok := parsePattern(e); !ok || !validPkg(p.Pkg) || (p.Name != "..." && p.Name != "all" && !validName(p.Name)) {
				return nil
			}
		} else if !validFilter(e) {
			return nil
		} else {
			exLabels = append(exLabels, e)
		}
	}
	var pats []lib.RefLabel
	for _, e := range c.Expand {
		p, ok := parsePattern(e)
		if !ok || !validPkg(p.Pkg) || (p.Name != "..." && p.Name != "all") {
			return nil
		}
		pats = append(pats, p)
	}

	if state == nil {
		state = core.NewBuildState(core.DefaultConfiguration())
	}
	graph := core.NewGraph()
	pkgs := map[string]*core.Package{}
	targets := make([]*core.BuildTarget, len(c.Targets))
	for i, x := range c.Targets {
		pkg := pkgs[x.Pkg]
		if pkg == nil {
			pkg = core.NewPackage(x.Pkg)
			pkgs[x.Pkg] = pkg
			graph.AddPackage(pkg)
		}
		t := core.NewBuildTarget(core.BuildLabel{PackageName: x.Pkg, Name: x.Name})
		if x.Test {
			t.Test = new(core.TestFields)
		}
		for _, l := range x.Labels {
			t.AddLabel(l)
		}
		pkg.AddTarget(t)
		graph.AddTarget(t)
		targets[i] = t
	}
	state.Graph = graph
	state.ExcludeTargets = nil
	state.NeedTests = c.NeedTests
	state.SetIncludeAndExclude(c.Include, c.Exclude)
	defer func() { state.ExcludeTargets = nil; state.Include = nil; state.Exclude = nil; state.NeedTests = false }()

	wild := false
	for _, g := range append(append([]string{}, c.Include...), exLabels...) {
		wild = wild || strings.Contains(g, "*")
	}
	both := false
	nSel := 0
	want := make([]bool, len(c.Targets))
	for i, x := range c.Targets {
		byLabels, sel, incHit, excHit := refSelected(c, x)
		want[i] = sel
		if sel {
			nSel++
		}
		both = both || (incHit && excHit)
		if got := targets[i].ShouldInclude(c.Include, exLabels); got != byLabels {
			return lib.Failf("target-should-include", "target //%s:%s labels %v test=%v, include %q exclude %q: BuildTarget.ShouldInclude = %v, reference %v", x.Pkg, x.Name, x.Labels, x.Test, c.Include, exLabels, got, byLabels)
		}
		if got := state.ShouldInclude(targets[i]); got != sel {
			return lib.Failf("state-should-include", "target //%s:%s labels %v test=%v, include %q exclude %q: BuildState.ShouldInclude = %v, reference %v", x.Pkg, x.Name, x.Labels, x.Test, c.Include, c.Exclude, got, sel)
		}
	}
	o.NonTrivial(both || wild)
	o.LabelIf(both, "include_and_exclude_hit_same_target")
	o.LabelIf(wild, "wildcard")
	o.LabelIf(len(exLabels) != len(c.Exclude), "exclude_pattern")
	o.LabelIf(c.NeedTests, "need_tests")
	o.LabelIf(nSel > 0 && nSel < len(c.Targets), "partial_selection")
	for _, g := range append(append([]string{}, c.Include...), exLabels...) {
		if strings.Contains(g, ",") {
			o.Label("comma_group")
			break
		}
	}

	expect := func(ps []lib.RefLabel) []string {
		set := map[string]bool{}
		for _, p := range ps {
			for i, x := range c.Targets {
				if want[i] && (!c.NeedTests || x.Test) && lib.RefSelects(p, lib.RefLabel{Pkg: x.Pkg, Name: x.Name}) {
					set[lib.RefLabel{Pkg: x.Pkg, Name: x.Name}.String()] = true
				}
			}
		}
		out := make([]string, 0, len(set))
		for k := range set {
			out = append(out, k)
		}
		sort.Strings(out)
		return out
	}
	got := func(ls []core.BuildLabel) []string {
		set := map[string]bool{}
		for _, l := range state.ExpandLabels(ls) {
			set[lib.RefLabel{Pkg: l.PackageName, Name: l.Name}.String()] = true
		}
		out := make([]string, 0, len(set))
		for k := range set {
			out = append(out, k)
		}
		sort.Strings(out)
		return out
	}
	var all []core.BuildLabel
	for i, p := range pats {
		l, err := core.TryParseBuildLabel(c.Expand[i], "", "")
		if err != nil {
			return lib.Failf("pattern-rejected", "pattern %q rejected: %v", c.Expand[i], err)
		}
		all = append(all, l)
		g, w := got([]core.BuildLabel{l}), expect([]lib.RefLabel{p})
		if strings.Join(g, " ") != strings.Join(w, " ") {
			return lib.Failf("expand", "expanding %s with include %q exclude %q needTests=%v gives %v, reference %v", c.Expand[i], c.Include, c.Exclude, c.NeedTests, g, w)
		}
	}
	g, w := got(all), expect(pats)
	if strings.Join(g, " ") != strings.Join(w, " ") {
		return lib.Failf("expand-multi", "expanding %v with include %q exclude %q needTests=%v gives %v, reference %v", c.Expand, c.Include, c.Exclude, c.NeedTests, g, w)
	}
	o.Sample(map[string]any{"case": c, "selected": w})
	return nil
}

func TestC36(t *testing.T) {
	lib.Check(t, spec, lib.Scale(20000, 2000000), gen, run)
}
