// C16: the BUILD language agrees with CPython on its documented subset.
package c16

import (
	"bufio"
	"bytes"
	"encoding/binary"
	"encoding/json"
	"fmt"
	"io"
	"os"
	"os/exec"
	"path/filepath"
	"reflect"
	"sort"
	"strings"
	"sync"
	"testing"

	"pgregory.net/rapid"

	"verifharness/aspgen"
	"verifharness/lib"
	"verifharness/lib/aspenv"
)

func TestMain(m *testing.M) { lib.Main(m) }

var spec = lib.Spec{
	ID: "C16",
	Rule: "typed random programs over the documented subset (int/str/bool/list/dict, + - * // % comparisons in/not in and/or/not unary minus printed with minimal parentheses from random trees, " +
		"inline if, slicing, negative indices, % and f-string and .format formatting, str methods, comprehensions with filters and two fors, def with defaults/keyword calls/annotations, lambdas, " +
		"for/if/elif/else/break/continue, += and index assignment, len sorted reversed range enumerate zip any all min max map filter reduce str int bool isinstance, dict get/keys/values/items/copy/|, " +
		"aliasing patterns); each program is evaluated by CPython (thin prelude: range/map/filter/zip/enumerate/reversed return lists, reduce) and by asp twice: as a BUILD file and as a subincluded build_defs file. " +
		"Oracle: if asp evaluates without error the JSON of all non-function globals equals CPython's. Programs on which CPython raises (or leaves the 64-bit range) are discarded. " +
		"Non-trivial = compared in at least one mode and (>= 3 operators on >= 2 precedence levels, or an aliasing pattern, or a negative or non-ASCII operand); distinct = program text",
	Assumptions: []string{
		"docs/lexicon.html: range/map/filter/zip/enumerate/reversed return lists; dict keys()/values()/items() order is only observed through sorted()",
		"integers are 64-bit (docs/language.html): programs whose arithmetic leaves that range in CPython are discarded",
		"str() / % / f-strings / format are only applied to int, str and bool values (the textual form of lists and dicts is not documented)",
		"programs on which asp raises are allowed by the property statement (counted under asp_error_*)",
	},
}

// Case is a program (the metadata is only used for labels; the verdict depends on Text alone).
type Case struct {
	Text string
	Meta aspgen.AspMeta
}

// known finding classes -> generator exclusions
var exclusions = []struct {
	class string
	set   func(*aspgen.AspOpts)
}{
	{"chained-comparison", func(o *aspgen.AspOpts) { o.ExclChainedCompare = true }},
	{"str-byte-offsets", func(o *aspgen.AspOpts) { o.ExclNonASCIISlice = true }},
	{"augassign-alias", func(o *aspgen.AspOpts) { o.ExclAugAssignAlias = true }},
	{"folded-constant", func(o *aspgen.AspOpts) { o.ExclFoldedConst = true }},
	{"range-object", func(o *aspgen.AspOpts) { o.ExclRangeObject = true }},
	{"late-default", func(o *aspgen.AspOpts) { o.ExclLateDefault = true }},
}

func opts() aspgen.AspOpts {
	var o aspgen.AspOpts
	for _, e := range exclusions {
		if lib.Known("C16", e.class) || strings.Contains(os.Getenv("VERIF_C16_EXCL"), e.class) || os.Getenv("VERIF_C16_EXCL") == "all" {
			e.set(&o)
		}
	}
	return o
}

func gen(t *rapid.T) Case {
	p := aspgen.GenAspProgram(t, opts())
	for _, c := range p.Meta.Excluded {
		lib.Rec(spec).Excluded(c)
	}
	return Case{Text: p.Text, Meta: p.Meta}
}

// ---- CPython worker ----------------------------------------------------------------------------------

type pyWorker struct {
	cmd *exec.Cmd
	in  io.WriteCloser
	out *bufio.Reader
}

type pyResult struct {
	OK      bool            `json:"ok"`
	Kind    string          `json:"kind"`
	Error   string          `json:"error"`
	Globals json.RawMessage `json:"globals"`
}

var (
	pyMu sync.Mutex
	py   *pyWorker
)

func pythonBinary() string {
	if p := os.Getenv("VERIF_PYTHON"); p != "" {
		return p
	}
	if _, err := os.Stat("/usr/bin/python3"); err == nil {
		return "/usr/bin/python3"
	}
	return "python3"
}

func startPy() (*pyWorker, error) {
	cmd := exec.Command(pythonBinary(), "-I", "-S", filepath.Join(lib.VerifDir(), "oracles", "pyref.py"))
	cmd.Stderr = os.Stderr
	in, err := cmd.StdinPipe()
	if err != nil {
		return nil, err
	}
	out, err := cmd.StdoutPipe()
	if err != nil {
		return nil, err
	}
	if err := cmd.Start(); err != nil {
		return nil, err
	}
	return &pyWorker{cmd: cmd, in: in, out: bufio.NewReaderSize(out, 1<<16)}, nil
}

func pyEval(text string) (*pyResult, error) {
	pyMu.Lock()
	defer pyMu.Unlock()
	if py == nil {
		w, err := startPy()
		if err != nil {
			return nil, err
		}
		py = w
	}
	var hdr [4]byte
	binary.BigEndian.PutUint32(hdr[:], uint32(len(text)))
	if _, err := py.in.Write(append(hdr[:], text...)); err != nil {
		py = nil
		return nil, err
	}
	if _, err := io.ReadFull(py.out, hdr[:]); err != nil {
		py = nil
		return nil, err
	}
	buf := make([]byte, binary.BigEndian.Uint32(hdr[:]))
	if _, err := io.ReadFull(py.out, buf); err != nil {
		py = nil
		return nil, err
	}
	var r pyResult
	if err := json.Unmarshal(buf, &r); err != nil {
		return nil, err
	}
	return &r, nil
}

// ---- asp side -----------------------------------------------------------------------------------------

var (
	envMu   sync.Mutex
	env     *aspenv.Env
	envUses int
)

func getEnv() (*aspenv.Env, error) {
	envMu.Lock()
	defer envMu.Unlock()
	if env == nil || envUses > 2000 {
		root := os.Getenv("VERIF_SCRATCH")
		if root == "" {
			root = filepath.Join(os.TempDir(), fmt.Sprintf("verif-c16-%d", os.Getpid()))
		}
		e, err := aspenv.New(filepath.Join(root, "asp"))
		if err != nil {
			return nil, err
		}
		env, envUses = e, 0
	}
	envUses++
	return env, nil
}

func decode(b []byte) (map[string]any, error) {
	d := json.NewDecoder(bytes.NewReader(b))
	d.UseNumber()
	var m map[string]any
	err := d.Decode(&m)
	return m, err
}

func short(v any) string {
	b, _ := json.Marshal(v)
	if len(b) > 300 {
		return string(b[:300]) + "…"
	}
	return string(b)
}

// diff returns a description of the first difference between the globals, "" if equal.
func diff(want, got map[string]any) string {
	keys := map[string]bool{}
	for k := range want {
		keys[k] = true
	}
	for k := range got {
		keys[k] = true
	}
	ks := make([]string, 0, len(keys))
	for k := range keys {
		ks = append(ks, k)
	}
	sort.Strings(ks)
	for _, k := range ks {
		w, okw := want[k]
		g, okg := got[k]
		switch {
		case !okw:
			return fmt.Sprintf("%s: defined by asp (%s) but not by CPython", k, short(g))
		case !okg:
			return fmt.Sprintf("%s: defined by CPython (%s) but not by asp", k, short(w))
		case !reflect.DeepEqual(w, g):
			return fmt.Sprintf("%s: CPython %s, asp %s", k, short(w), short(g))
		}
	}
	return ""
}

func run(c Case, o *lib.Obs) error {
	pr, err := pyEval(c.Text)
	if err != nil {
		return &lib.Inconclusive{Msg: "python worker: " + err.Error()}
	}
	for _, f := range c.Meta.Features {
		o.Label("f:" + f)
	}
	o.LabelIf(c.Meta.Aliasing, "aliasing_pattern")
	o.LabelIf(c.Meta.NegOp, "negative_operand")
	o.LabelIf(c.Meta.NonASCII, "non_ascii_operand")
	o.LabelIf(c.Meta.BigInt, "big_int_operand")
	o.LabelIf(c.Meta.Ops >= 3 && c.Meta.Levels >= 2, "mixed_precedence")
	if !pr.OK {
		o.Label("py_discard")
		o.Label("py_discard_" + pr.Kind)
		if pr.Kind == "syntax" {
			return &lib.Inconclusive{Msg: "generator produced a program CPython cannot parse: " + pr.Error + "\n" + c.Text}
		}
		o.Sample(map[string]any{"program": c.Text, "cpython": pr.Kind + ": " + pr.Error})
		return nil
	}
	want, err := decode(pr.Globals)
	if err != nil {
		return &lib.Inconclusive{Msg: "python result: " + err.Error()}
	}
	e, err := getEnv()
	if err != nil {
		return &lib.Inconclusive{Msg: "asp env: " + err.Error()}
	}
	compared := 0
	sample := map[string]any{"program": c.Text, "cpython": want}
	// (1) as a BUILD file
	vs, _, err := e.EvalBuild(fmt.Sprintf("p%d", e.Seq()), c.Text)
	if err != nil {
		o.Label("asp_error_build")
		sample["asp_build_error"] = firstLine(err.Error())
	} else {
		b, err := vs.Globals()
		if err != nil {
			return lib.Failf("unserialisable", "BUILD mode: globals cannot be serialised: %v\n%s", err, c.Text)
		}
		got, err := decode(b)
		if err != nil {
			return lib.Failf("unserialisable", "BUILD mode: %v", err)
		}
		if d := diff(want, got); d != "" {
			return lib.Failf("value-mismatch", "evaluated as a BUILD file: %s\n--- program ---\n%s", d, c.Text)
		}
		compared++
	}
	// (2) as a subincluded build_defs file
	_, path, err := e.AddDefs(c.Text)
	if err != nil {
		return &lib.Inconclusive{Msg: err.Error()}
	}
	ds, err := e.EvalDefs(path)
	e.Remove(path)
	if err != nil {
		o.Label("asp_error_defs")
		sample["asp_defs_error"] = firstLine(err.Error())
	} else {
		b, err := ds.Globals()
		if err != nil {
			return lib.Failf("unserialisable", "build_defs mode: globals cannot be serialised: %v\n%s", err, c.Text)
		}
		got, err := decode(b)
		if err != nil {
			return lib.Failf("unserialisable", "build_defs mode: %v", err)
		}
		if d := diff(want, got); d != "" {
			return lib.Failf("value-mismatch", "evaluated as a subincluded build_defs file: %s\n--- program ---\n%s", d, c.Text)
		}
		compared++
	}
	o.LabelIf(compared == 2, "compared_both_modes")
	o.LabelIf(compared > 0, "compared")
	o.NonTrivial(compared > 0 && ((c.Meta.Ops >= 3 && c.Meta.Levels >= 2) || c.Meta.Aliasing || c.Meta.NegOp || c.Meta.NonASCII))
	o.Key(c.Text)
	o.Sample(sample)
	return nil
}

func firstLine(s string) string {
	if i := strings.IndexByte(s, '\n'); i >= 0 {
		s = s[:i]
	}
	if len(s) > 200 {
		s = s[:200]
	}
	return s
}

func TestC16(t *testing.T) {
	lib.Check(t, spec, lib.Scale(4000, 500000), gen, run)
	if py != nil {
		py.in.Close()
		py.cmd.Wait()
	}
}
