package c16

import (
	"fmt"
	"os"
	"sort"
	"strconv"
	"strings"
	"testing"

	"pgregory.net/rapid"

	"verifharness/lib"
)

// TestSurvey is a development aid (VERIF_C16_SURVEY=N): runs N programs without stopping at
// violations and prints histograms of discards, asp errors and mismatches.
func TestSurvey(t *testing.T) {
	n, _ := strconv.Atoi(os.Getenv("VERIF_C16_SURVEY"))
	if n == 0 {
		t.Skip()
	}
	hist := map[string]int{}
	examples := map[string]string{}
	total := 0
	note := func(k, ex string) {
		hist[k]++
		if _, ok := examples[k]; !ok {
			examples[k] = ex
		}
	}
	seed, _ := strconv.Atoi(os.Getenv("SEED"))
	for i := 0; i < n; i++ {
		c := rapid.Custom(gen).Example(seed*1000000 + i)
		total++
		if os.Getenv("DUMP") != "" {
			fmt.Printf("#### %d\n%s", i, c.Text)
			continue
		}
		o := &lib.Obs{}
		err := run(c, o)
		if err != nil {
			msg := err.Error()
			key := "FAIL " + firstLine(msg)
			if len(key) > 60 {
				key = key[:60]
			}
			if os.Getenv("FULLKEY") != "" {
				key = "FAIL " + firstLine(msg)
			}
			note(key, msg)
			continue
		}
		pr, _ := pyEval(c.Text)
		if !pr.OK {
			note("pydiscard "+pr.Kind+" "+strings.SplitN(pr.Error, ":", 2)[0], pr.Error+"\n"+c.Text)
			continue
		}
		e, _ := getEnv()
		if _, _, err := e.EvalBuild(fmt.Sprintf("s%d", e.Seq()), c.Text); err != nil {
			m := firstLine(err.Error())
			if len(m) > 50 {
				m = m[:50]
			}
			note("asperr "+m, err.Error()+"\n"+c.Text)
		} else {
			note("ok", "")
		}
	}
	keys := make([]string, 0, len(hist))
	for k := range hist {
		keys = append(keys, k)
	}
	sort.Slice(keys, func(i, j int) bool { return hist[keys[i]] > hist[keys[j]] })
	for _, k := range keys {
		fmt.Printf("%6d %5.1f%%  %s\n", hist[k], 100*float64(hist[k])/float64(total), k)
	}
	if os.Getenv("EXAMPLES") != "" {
		for _, k := range keys {
			if k != "ok" && strings.Contains(k, os.Getenv("EXAMPLES")) {
				fmt.Printf("==== %s\n%s\n", k, examples[k])
			}
		}
	}
}

// TestEval (VERIF_C16_PROG=file): evaluates one program text in all three ways and prints the results.
func TestEval(t *testing.T) {
	f := os.Getenv("VERIF_C16_PROG")
	if f == "" {
		t.Skip()
	}
	b, _ := os.ReadFile(f)
	pr, err := pyEval(string(b))
	fmt.Printf("cpython: %+v %s %v\n", pr.OK, pr.Kind+" "+pr.Error+string(pr.Globals), err)
	e, _ := getEnv()
	vs, _, err := e.EvalBuild("q", string(b))
	if err != nil {
		fmt.Printf("build: ERROR %v\n", err)
	} else {
		g, _ := vs.Globals()
		fmt.Printf("build:   %s\n", g)
	}
	_, path, _ := e.AddDefs(string(b))
	ds, err := e.EvalDefs(path)
	if err != nil {
		fmt.Printf("defs: ERROR %v\n", err)
	} else {
		g, _ := ds.Globals()
		fmt.Printf("defs:    %s\n", g)
	}
}
