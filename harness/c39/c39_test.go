// C39: configuration layering follows the documented precedence.
package c39

import (
	"encoding/json"
	"fmt"
	iofs "io/fs"
	"os"
	"strconv"
	"strings"
	"testing"
	"time"

	"github.com/thought-machine/please/src/core"
	pfs "github.com/thought-machine/please/src/fs"
	"pgregory.net/rapid"

	"verifharness/lib"
)

const repoRoot = "/verif-c39-repo"

func TestMain(m *testing.M) {
	lib.QuietPleaseLogs()
	// the set of default config locations depends on these; pin them
	os.Unsetenv("XDG_CONFIG_DIRS")
	os.Unsetenv("XDG_CONFIG_HOME")
	os.Setenv("HOME", "/verif-c39-home")
	core.RepoRoot = repoRoot
	lib.Main(m)
}

var spec = lib.Spec{
	ID: "C39",
	Rule: "an in-memory file system holding any subset of /etc/please/plzconfig, ~/.config/please/plzconfig, <repo>/.plzconfig, .plzconfig_<arch>, .plzconfig.local and, for 0-2 profiles, each file's <file>.<profile> sibling; " +
		"each present file sets 1-5 options drawn from a per-case focus set of 2-4 options out of 8 single-valued ones (build.timeout, test.timeout, build.lang, build.nonce, display.systemstats, cache.dirclean, display.maxworkers, " +
		"please.numoldversions) and 6 repeated ones (parse.blacklistdirs, parse.experimentaldir, build.passenv without default; cover.fileextension, cover.excludeextension, parse.buildfilename with defaults), with repeated keys, " +
		"bare-key blank resets and empty values for repeated options, random key/section case; plus 0-2 -o overrides (comma lists for repeated options). Read through ReadDefaultConfigFiles (real default locations and order) and ApplyOverrides. " +
		"Oracle: reference fold over the documented order (profile right after its file): single-valued = last setter; repeated = accumulate, blank clears, override replaces; the no-file value iff no source mentions the option. " +
		"Non-trivial = some option is set by >= 3 sources, or a blank reset is followed by further values; distinct = the case",
	Assumptions: []string{
		"XDG_CONFIG_DIRS / XDG_CONFIG_HOME unset (the property lists five file locations)",
		"order of profile files follows the property text (each right after its own file, also for .plzconfig.local), which is what the code does; docs/config.html words this differently ('.plzconfig.local always has highest precedence')",
		"defaults are whatever an installation without any config file yields",
		"build.passenv never contains PATH (that feeds build.path)",
	},
}

// ---- options ---------------------------------------------------------------------------------------

const (
	kStr = iota
	kDur
	kBool
	kInt
	kList
)

type option struct {
	Sect, Key string
	Kind      int
	Vals      []string
	HasDef    bool // repeated option with a documented non-empty default
	Get       func(*core.Configuration) string
}

func secs(d any) string {
	switch v := d.(type) {
	case time.Duration:
		return fmt.Sprint(int64(v / time.Second))
	}
	return "?"
}

func list(l []string) string {
	if len(l) == 0 {
		return "[]"
	}
	b, _ := json.Marshal(l)
	return string(b)
}

var options = []option{
	{"build", "timeout", kDur, []string{"30s", "2m", "45", "1h"}, false, func(c *core.Configuration) string { return secs(time.Duration(c.Build.Timeout)) }},
	{"test", "timeout", kDur, []string{"30s", "2m", "45", "1h"}, false, func(c *core.Configuration) string { return secs(time.Duration(c.Test.Timeout)) }},
	{"build", "lang", kStr, []string{"C", "en_US.UTF-8", "fr_FR", "x y"}, false, func(c *core.Configuration) string { return c.Build.Lang }},
	{"build", "nonce", kStr, []string{"n1", "n2", "a=b", "1402"}, false, func(c *core.Configuration) string { return c.Build.Nonce }},
	{"display", "systemstats", kBool, []string{"true", "false", "yes", "no", "on", "off"}, false, func(c *core.Configuration) string { return fmt.Sprint(c.Display.SystemStats) }},
	{"cache", "dirclean", kBool, []string{"true", "false", "1", "0"}, false, func(c *core.Configuration) string { return fmt.Sprint(c.Cache.DirClean) }},
	{"display", "maxworkers", kInt, []string{"1", "7", "25", "40"}, false, func(c *core.Configuration) string { return fmt.Sprint(c.Display.MaxWorkers) }},
	{"please", "numoldversions", kInt, []string{"0", "3", "10", "99"}, false, func(c *core.Configuration) string { return fmt.Sprint(c.Please.NumOldVersions) }},
	{"parse", "blacklistdirs", kList, []string{"node_modules", "vendor", "a b", "x"}, false, func(c *core.Configuration) string { return list(c.Parse.BlacklistDirs) }},
	{"parse", "experimentaldir", kList, []string{"experimental", "exp2", "x"}, false, func(c *core.Configuration) string { return list(c.Parse.ExperimentalDir) }},
	{"build", "passenv", kList, []string{"FOO", "BAR", "HTTP_PROXY"}, false, func(c *core.Configuration) string { return list(c.Build.PassEnv) }},
	{"cover", "fileextension", kList, []string{".go", ".rs", ".kt"}, true, func(c *core.Configuration) string { return list(c.Cover.FileExtension) }},
	{"cover", "excludeextension", kList, []string{".pb.go", "_gen.rs", ".x"}, true, func(c *core.Configuration) string { return list(c.Cover.ExcludeExtension) }},
	{"parse", "buildfilename", kList, []string{"BUILD", "BUILD.plz", "BUCK", "build.please"}, true, func(c *core.Configuration) string { return list(c.Parse.BuildFileName) }},
}

var durs = map[string]string{"30s": "30", "2m": "120", "45": "45", "1h": "3600"}
var bools = map[string]string{"true": "true", "yes": "true", "on": "true", "1": "true", "false": "false", "no": "false", "off": "false", "0": "false"}

func canon(kind int, raw string) (string, bool) {
	switch kind {
	case kDur:
		v, ok := durs[raw]
		return v, ok
	case kBool:
		v, ok := bools[strings.ToLower(raw)]
		return v, ok
	case kInt:
		n, err := strconv.Atoi(raw)
		return strconv.Itoa(n), err == nil
	}
	return raw, true
}

// ---- case ------------------------------------------------------------------------------------------

const (
	lnValue = iota
	lnBlank // bare key, no '=': resets a repeated option
	lnEmpty // "key =": an empty value
)

type line struct {
	Opt   int
	Kind  int    `json:",omitempty"`
	Val   string `json:",omitempty"`
	Style int    `json:",omitempty"` // 0 lower, 1 UPPER, 2 Capitalised
}

type source struct {
	Layer   int // 0 machine, 1 user, 2 repo, 3 arch, 4 local
	Profile int // -1 = the base file, else index into Profiles
	Lines   []line
}

type override struct {
	Opt   int
	Vals  []string
	Style int `json:",omitempty"`
}

type cfgCase struct {
	Profiles  []string   `json:",omitempty"`
	Sources   []source   // in any order; applied in (Layer, Profile) order
	Overrides []override `json:",omitempty"`
}

var layerNames = []string{"machine", "user", "repo", "arch", "local"}

func layerPath(layer int) string {
	switch layer {
	case 0:
		return core.MachineConfigFileName
	case 1:
		return pfs.ExpandHomePath(core.UserConfigFileName)
	case 2:
		return repoRoot + "/" + core.ConfigFileName
	case 3:
		return repoRoot + "/" + core.ArchConfigFileName
	}
	return repoRoot + "/" + core.LocalConfigFileName
}

func style(s string, st int) string {
	switch st {
	case 1:
		return strings.ToUpper(s)
	case 2:
		return strings.ToUpper(s[:1]) + s[1:]
	}
	return s
}

func render(src source) string {
	var sb strings.Builder
	sb.WriteString("; generated\n")
	for _, l := range src.Lines {
		o := options[l.Opt]
		fmt.Fprintf(&sb, "[%s]\n", style(o.Sect, l.Style))
		switch l.Kind {
		case lnBlank:
			fmt.Fprintf(&sb, "%s\n", style(o.Key, l.Style))
		case lnEmpty:
			fmt.Fprintf(&sb, "%s =\n", style(o.Key, l.Style))
		default:
			fmt.Fprintf(&sb, "%s = %s\n", style(o.Key, l.Style), l.Val)
		}
	}
	return sb.String()
}

const knownClass = "slice-default-after-blank-clear"

func gen(t *rapid.T) cfgCase {
	var c cfgCase
	switch rapid.IntRange(0, 3).Draw(t, "nprofiles") {
	case 1, 2:
		c.Profiles = []string{"remote"}
	case 3:
		c.Profiles = []string{"remote", "ci"}
	}
	nFocus := rapid.IntRange(2, 4).Draw(t, "nfocus")
	focus := make([]int, nFocus)
	for i := range focus {
		focus[i] = rapid.IntRange(0, len(options)-1).Draw(t, "focus")
	}
	genLine := func() line {
		oi := rapid.SampledFrom(focus).Draw(t, "opt")
		o := options[oi]
		l := line{Opt: oi, Style: rapid.IntRange(0, 2).Draw(t, "style")}
		k := rapid.IntRange(0, 9).Draw(t, "linekind")
		switch {
		case o.Kind == kList && k < 3:
			l.Kind = lnBlank
		case (o.Kind == kList || o.Kind == kStr) && k == 3:
			l.Kind = lnEmpty
		default:
			l.Val = rapid.SampledFrom(o.Vals).Draw(t, "val")
		}
		return l
	}
	for layer := 0; layer < 5; layer++ {
		for p := -1; p < len(c.Profiles); p++ {
			if rapid.IntRange(0, 9).Draw(t, "present") < 4 { // shrinks towards "absent"
				continue
			}
			s := source{Layer: layer, Profile: p}
			n := rapid.IntRange(1, 5).Draw(t, "nlines")
			for i := 0; i < n; i++ {
				s.Lines = append(s.Lines, genLine())
			}
			c.Sources = append(c.Sources, s)
		}
	}
	for i, n := 0, rapid.IntRange(0, 3).Draw(t, "noverrides"); i < n && i < 2; i++ {
		oi := rapid.SampledFrom(focus).Draw(t, "ovopt")
		dup := false
		for _, e := range c.Overrides {
			dup = dup || e.Opt == oi
		}
		if dup {
			continue
		}
		o := options[oi]
		ov := override{Opt: oi, Style: rapid.IntRange(0, 2).Draw(t, "ovstyle")}
		nv := 1
		if o.Kind == kList {
			nv = rapid.IntRange(1, 3).Draw(t, "ovn")
		}
		for j := 0; j < nv; j++ {
			ov.Vals = append(ov.Vals, rapid.SampledFrom(o.Vals).Draw(t, "ovval"))
		}
		c.Overrides = append(c.Overrides, ov)
	}
	if lib.Known(spec.ID, knownClass) {
		// Recorded defect: a repeated option with a default that ends up cleared gets the default back.
		// Avoid by construction: give every such option one more value in the highest-priority file.
		ref := reference(c)
		for oi, o := range options {
			if o.HasDef && ref[oi].touched && !ref[oi].overridden && ref[oi].val == "[]" {
				lib.Rec(spec).Excluded(knownClass)
				if len(c.Sources) == 0 {
					continue
				}
				last := &c.Sources[len(c.Sources)-1]
				last.Lines = append(last.Lines, line{Opt: oi, Val: o.Vals[0]})
			}
		}
	}
	return c
}

// ---- reference -------------------------------------------------------------------------------------

type refVal struct {
	touched    bool // some source mentions the option
	overridden bool
	val        string
	setters    int  // number of distinct sources mentioning it
	blankThen  bool // a blank reset followed by further values
}

func ordered(c cfgCase) []source {
	var out []source
	for layer := 0; layer < 5; layer++ {
		for p := -1; p < len(c.Profiles); p++ {
			for _, s := range c.Sources {
				if s.Layer == layer && s.Profile == p {
					out = append(out, s)
				}
			}
		}
	}
	return out
}

func reference(c cfgCase) []refVal {
	res := make([]refVal, len(options))
	lists := make([][]string, len(options))
	sawBlank := make([]bool, len(options))
	for _, s := range ordered(c) {
		mentioned := map[int]bool{}
		for _, l := range s.Lines {
			o := options[l.Opt]
			r := &res[l.Opt]
			r.touched = true
			mentioned[l.Opt] = true
			if o.Kind == kList {
				switch l.Kind {
				case lnBlank:
					lists[l.Opt] = nil
					sawBlank[l.Opt] = true
				case lnEmpty:
					lists[l.Opt] = append(lists[l.Opt], "")
				default:
					lists[l.Opt] = append(lists[l.Opt], l.Val)
				}
				if l.Kind != lnBlank && sawBlank[l.Opt] {
					r.blankThen = true
				}
				r.val = list(lists[l.Opt])
			} else if l.Kind == lnEmpty {
				r.val = ""
			} else {
				r.val, _ = canon(o.Kind, l.Val)
			}
		}
		for oi := range mentioned {
			res[oi].setters++
		}
	}
	for _, ov := range c.Overrides {
		o := options[ov.Opt]
		r := &res[ov.Opt]
		r.touched, r.overridden = true, true
		r.setters++
		if o.Kind == kList {
			r.val = list(ov.Vals)
		} else {
			r.val, _ = canon(o.Kind, ov.Vals[0])
		}
	}
	return res
}

// ---- in-memory file system accepting the absolute names please uses ---------------------------------

type memFS map[string]string

type memFile struct {
	name string
	r    *strings.Reader
}

func (f *memFile) Stat() (iofs.FileInfo, error) { return nil, iofs.ErrInvalid }
func (f *memFile) Read(b []byte) (int, error)   { return f.r.Read(b) }
func (f *memFile) Close() error                 { return nil }

func (m memFS) Open(name string) (iofs.File, error) {
	s, ok := m[name]
	if !ok {
		return nil, &iofs.PathError{Op: "open", Path: name, Err: iofs.ErrNotExist}
	}
	return &memFile{name, strings.NewReader(s)}, nil
}

var baseline *core.Configuration

func valid(c cfgCase) bool {
	seenP := map[string]bool{}
	for _, p := range c.Profiles {
		if p == "" || strings.ContainsAny(p, "/ \n") || seenP[p] || p == "local" || strings.HasPrefix(p, "local.") {
			return false
		}
		seenP[p] = true
	}
	seen := map[[2]int]bool{}
	for _, s := range c.Sources {
		k := [2]int{s.Layer, s.Profile}
		if s.Layer < 0 || s.Layer > 4 || s.Profile < -1 || s.Profile >= len(c.Profiles) || seen[k] || len(s.Lines) == 0 {
			return false
		}
		seen[k] = true
		for _, l := range s.Lines {
			if l.Opt < 0 || l.Opt >= len(options) {
				return false
			}
			o := options[l.Opt]
			switch l.Kind {
			case lnBlank:
				if o.Kind != kList {
					return false
				}
			case lnEmpty:
				if o.Kind != kList && o.Kind != kStr {
					return false
				}
			case lnValue:
				if _, ok := canon(o.Kind, l.Val); !ok || strings.ContainsAny(l.Val, ";#\n\"\\") || l.Val != strings.TrimSpace(l.Val) || l.Val == "" || (o.Key == "passenv" && l.Val == "PATH") {
					return false
				}
			default:
				return false
			}
		}
	}
	seenO := map[int]bool{}
	for _, ov := range c.Overrides {
		if ov.Opt < 0 || ov.Opt >= len(options) || seenO[ov.Opt] || len(ov.Vals) == 0 {
			return false
		}
		seenO[ov.Opt] = true
		o := options[ov.Opt]
		if o.Kind != kList && len(ov.Vals) != 1 {
			return false
		}
		for _, v := range ov.Vals {
			if _, ok := canon(o.Kind, v); !ok || v == "" || strings.Contains(v, ",") || (o.Key == "passenv" && v == "PATH") {
				return false
			}
		}
	}
	return true
}

func run(c cfgCase, o *lib.Obs) error {
	if !valid(c) {
		return nil
	}
	if baseline == nil {
		b, err := core.ReadDefaultConfigFiles(memFS{}, nil)
		if err != nil {
			return &lib.Inconclusive{Msg: "cannot read the empty configuration: " + err.Error()}
		}
		baseline = b
	}
	files := memFS{}
	for _, s := range c.Sources {
		p := layerPath(s.Layer)
		if s.Profile >= 0 {
			p += "." + c.Profiles[s.Profile]
		}
		files[p] = render(s)
	}
	profiles := make([]core.ConfigProfile, len(c.Profiles))
	for i, p := range c.Profiles {
		profiles[i] = core.ConfigProfile(p)
	}
	ref := reference(c)
	nt, manyLayers, blankThen := false, false, false
	for _, r := range ref {
		manyLayers = manyLayers || r.setters >= 3
		blankThen = blankThen || r.blankThen
	}
	nt = manyLayers || blankThen
	o.NonTrivial(nt)
	o.LabelIf(manyLayers, "three_or_more_setters")
	o.LabelIf(blankThen, "blank_reset_then_values")
	o.LabelIf(len(c.Profiles) > 0, "profiles")
	o.LabelIf(len(c.Overrides) > 0, "overrides")
	for oi, r := range ref {
		if options[oi].HasDef && r.touched && !r.overridden && r.val == "[]" {
			o.Label("defaulted_list_cleared")
			break
		}
	}

	cfg, err := core.ReadDefaultConfigFiles(files, profiles)
	if err != nil {
		return lib.Failf("read-error", "valid config files rejected: %v\nfiles: %v", err, files)
	}
	ovs := map[string]string{}
	for _, ov := range c.Overrides {
		op := options[ov.Opt]
		ovs[style(op.Sect, ov.Style)+"."+style(op.Key, ov.Style)] = strings.Join(ov.Vals, ",")
	}
	if err := cfg.ApplyOverrides(ovs); err != nil {
		return lib.Failf("override-error", "valid overrides %v rejected: %v", ovs, err)
	}
	expected := map[string]string{}
	for oi, op := range options {
		want := ref[oi].val
		if !ref[oi].touched {
			want = op.Get(baseline)
		}
		name := op.Sect + "." + op.Key
		expected[name] = want
		if got := op.Get(cfg); got != want {
			class := "wrong-value"
			switch {
			case !ref[oi].touched:
				class = "untouched-option-changed"
			case op.HasDef && !ref[oi].overridden && want == "[]":
				class = knownClass
			case ref[oi].overridden:
				class = "override-not-applied"
			case op.Kind == kList:
				class = "wrong-list"
			}
			return lib.Failf(class, "%s = %s, reference %s (sources in order: %s; overrides %v)", name, got, want, describe(c, oi), ovs)
		}
	}
	o.Sample(map[string]any{"profiles": c.Profiles, "files": files, "overrides": ovs, "expected": expected})
	return nil
}

func describe(c cfgCase, oi int) string {
	var parts []string
	for _, s := range ordered(c) {
		var ls []string
		for _, l := range s.Lines {
			if l.Opt != oi {
				continue
			}
			switch l.Kind {
			case lnBlank:
				ls = append(ls, "<blank>")
			case lnEmpty:
				ls = append(ls, "<empty>")
			default:
				ls = append(ls, l.Val)
			}
		}
		if len(ls) > 0 {
			n := layerNames[s.Layer]
			if s.Profile >= 0 {
				n += "." + c.Profiles[s.Profile]
			}
			parts = append(parts, n+"="+strings.Join(ls, ","))
		}
	}
	return strings.Join(parts, " ; ")
}

func TestC39(t *testing.T) {
	lib.Check(t, spec, lib.Scale(20000, 1000000), gen, run)
}
