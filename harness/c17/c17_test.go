// C17: packages cannot observe or mutate each other's values.
package c17

import (
	"bytes"
	"encoding/json"
	"fmt"
	"os"
	"path/filepath"
	"reflect"
	"sort"
	"strings"
	"sync"
	"testing"

	"github.com/thought-machine/please/src/core"
	"github.com/thought-machine/please/src/parse/asp"
	"pgregory.net/rapid"

	"verifharness/lib"
	"verifharness/lib/aspenv"
)

func TestMain(m *testing.M) { lib.Main(m) }

var spec = lib.Spec{
	ID: "C17",
	Rule: "a build_defs file exporting XS (list of str), XN (list of lists of int), XD (dict of lists), XM (list holding a list and a dict) built by literals, by += in loops or by filtered comprehensions (spare capacity), " +
		"functions returning them, and optionally a CONFIG.setdefault value; two mutator BUILD files each made of 1-5 attempts drawn from: index / nested assignment through an alias, sorted, reversed, +, +=, *, slices, comprehensions, " +
		"map/zip/enumerate/min/reduce results, dict values, | union, setdefault, function results, CONFIG values (from the subinclude and from the base configuration); an observer BUILD file that reads the imports and defines a target from them. " +
		"Oracle (metamorphic): the observer's values and target are identical (a) alone with a fresh copy of the defs, (b) after a mutator, (c) evaluated before the mutators and re-dumped after them, (d) evaluated concurrently with a mutator; " +
		"the first mutator's own values are unchanged by the observer and the second mutator. Non-trivial = a mutator executed >= 1 attempt without error (exported values are always nested); distinct = the whole case",
	Assumptions: []string{
		"in-process: packages are interpreted through the real Parser/interpreter with the real subinclude() builtin; the subinclude target is registered as already built",
		"an attempt that fails aborts its BUILD file (the language has no exception handling), later attempts of that file do not run",
	},
}

// Case is data: file texts with @DEFS@ standing for the label of the subincluded target.
type Case struct {
	Defs     string
	Mut1     []string
	Mut2     []string
	Observer string
	Labels   []string // generator labels
}

// ---- generator ---------------------------------------------------------------------------------------

var words = []string{"a", "b", "lib", "zz", "go", "é", "x y", "py", "cc", "m"}

func strList(t *rapid.T, n int) []string {
	out := make([]string, n)
	for i := range out {
		out[i] = fmt.Sprintf("%q", words[rapid.IntRange(0, len(words)-1).Draw(t, "word")])
	}
	return out
}

func intList(t *rapid.T, n int) string {
	out := make([]string, n)
	for i := range out {
		out[i] = fmt.Sprint(rapid.IntRange(-3, 9).Draw(t, "int"))
	}
	return "[" + strings.Join(out, ", ") + "]"
}

func genDefs(t *rapid.T, c *Case) string {
	var b strings.Builder
	// XS: list of strings
	n := rapid.IntRange(2, 4).Draw(t, "nxs")
	switch rapid.IntRange(0, 2).Draw(t, "xsbuild") {
	case 0:
		b.WriteString("XS = [" + strings.Join(strList(t, n), ", ") + "]\n")
	case 1:
		c.Labels = append(c.Labels, "spare_capacity")
		b.WriteString("XS = []\nfor _w in [" + strings.Join(strList(t, n), ", ") + "]:\n    XS += [_w]\n")
	default:
		c.Labels = append(c.Labels, "spare_capacity")
		b.WriteString("XS = [_w for _w in [" + strings.Join(strList(t, n+2), ", ") + ", \"\"] if _w and _w != \"m\"] + [\"keep\", \"keep2\"]\nXS = [_w for _w in XS if _w]\n")
	}
	// XN: list of lists of ints
	m := rapid.IntRange(2, 3).Draw(t, "nxn")
	switch rapid.IntRange(0, 2).Draw(t, "xnbuild") {
	case 0:
		parts := make([]string, m)
		for i := range parts {
			parts[i] = intList(t, rapid.IntRange(2, 4).Draw(t, "inner"))
		}
		b.WriteString("XN = [" + strings.Join(parts, ", ") + "]\n")
	case 1:
		c.Labels = append(c.Labels, "spare_capacity")
		b.WriteString(fmt.Sprintf("XN = [[_i + 2, _i, _i + 1] for _i in range(%d) if _i != 1]\n", m+1))
	default:
		c.Labels = append(c.Labels, "spare_capacity")
		b.WriteString(fmt.Sprintf("XN = []\nfor _i in range(%d):\n    _row = []\n    for _j in range(3):\n        _row += [(_i * 7 + _j * 5) %% 4]\n    XN += [_row]\n", m))
	}
	// already ordered / single-element / empty lists: the shapes for which a "nothing to do" fast path of a
	// copying builtin (sorted, reversed, +, slicing, filter ...) could hand back the shared list itself
	b.WriteString("XSORTED = [\"alpha\", \"beta\", \"gamma\"]\nXONE = [\"solo\"]\nXNSORTED = [[1, 2, 3], [4, 5]]\n")
	b.WriteString("XD = {\"k\": " + intList(t, 3) + ", \"s\": " + intList(t, 2) + "}\n")
	b.WriteString("XM = [" + intList(t, 3) + ", {\"k\": " + intList(t, 2) + "}]\n")
	b.WriteString("def get_xn():\n    return XN\n")
	b.WriteString("def get_first():\n    return XN[0]\n")
	b.WriteString("def get_xd(key):\n    return XD[key]\n")
	// functions returning a literal / having a literal default: a constant list literal is folded into one
	// shared, unfrozen object by the build_defs optimiser (recorded finding), so when that is listed the
	// literals are made non-constant
	if lib.Known("C17", "shared-constant") {
		lib.Rec(spec).Excluded("shared-constant")
		b.WriteString("_one = 1\ndef mk():\n    return [[_one, 2], [3 * _one]]\ndef dflt(p=[_one, 2]):\n    return p\n")
	} else {
		b.WriteString("def mk():\n    return [[1, 2], [3]]\ndef dflt(p=[1, 2]):\n    return p\n")
	}
	if rapid.IntRange(0, 2).Draw(t, "config") > 0 {
		c.Labels = append(c.Labels, "config_value")
		b.WriteString("CONFIG.setdefault(\"VERIF_K\", [" + intList(t, 2) + ", " + intList(t, 3) + "])\n")
	} else {
		b.WriteString("CONFIG.setdefault(\"VERIF_K\", None)\n")
	}
	return b.String()
}

type attempt struct {
	name     string
	stmts    string
	harmless bool // expected to run without error on a correct implementation
}

var attempts = []attempt{
	{"sorted_nested", "a = sorted(XN[0])", true},
	{"sorted_strs", "a = sorted(XS)\nb = sorted(XS, reverse = True)", true},
	{"sorted_rows", "a = sorted(XN)", true},
	{"reversed_nested", "a = reversed(XN[0])\nb = reversed(XS)", true},
	{"reversed_rows", "a = reversed(XN)", true},
	{"add_twice", "a = XS + [\"zz\"]\nb = XS + [\"yy\", \"xx\"]", true},
	{"add_nested_twice", "a = XN[0] + [50]\nb = XN[0] + [60]", true},
	{"augassign_name", "XS += [\"more\"]\nXN += [[1]]", true},
	{"slice_then_assign", "a = XN[1:]\na[0] = [7]\nb = XS[:2]\nb[0] = \"q\"", true},
	{"slice_grow", "a = XS[:1]\nb = a + [\"g1\"]\nc = a + [\"g2\"]", true},
	{"repeat_then_assign", "a = XN * 2\na[0] = [1]", true},
	{"comprehension_then_assign", "a = [x for x in XN]\na[0] = []", true},
	{"union_then_assign", "a = XD | {\"n\": [1]}\na[\"k2\"] = [0]", true},
	{"reduce_concat", "a = reduce(lambda p, q: p + q, XN, [])\na[0] = 77", true},
	{"map_rows", "a = map(lambda q: q + [1], XN)", true},
	{"sorted_key", "a = sorted(XN, key = lambda q: q[0])\nb = max(XN, key = lambda q: len(q))", true},
	{"dict_values_sorted", "a = sorted(XD.values())\nb = [sorted(v) for v in XD.values()]\nc = [reversed(v) for k, v in XD.items()]", true},
	{"func_result_sorted", "a = sorted(get_first())\nb = reversed(get_xd(\"k\"))", true},
	{"config_sorted", "a = sorted(CONFIG.BUILD_FILE_NAMES)\nb = reversed(CONFIG.BUILD_FILE_NAMES)\nc = CONFIG.BUILD_FILE_NAMES + [\"x\"]", true},
	// derive a value with a copying builtin, then write into the result: must only ever touch the copy
	{"sorted_then_assign", "a = sorted(XS)\na[0] = \"hij\"\nb = sorted(XSORTED)\nb[0] = \"hij\"\nc = sorted(XONE)\nc[0] = \"hij\"", true},
	{"sorted_nested_then_assign", "a = sorted(XN[0])\na[0] = 31\nb = sorted(XNSORTED[0])\nb[0] = 32\nc = sorted(XNSORTED)\nc[0] = [33]", true},
	{"sorted_reverse_then_assign", "a = sorted(XSORTED, reverse = True)\na[0] = \"hij\"\nb = sorted(XONE, reverse = True)\nb[0] = \"hij\"", true},
	{"reversed_then_assign", "a = reversed(XS)\na[0] = \"hij\"\nb = reversed(XONE)\nb[0] = \"hij\"\nc = reversed(XNSORTED[1])\nc[0] = 34", true},
	{"add_empty_then_assign", "a = XSORTED + []\na[0] = \"hij\"\nb = [] + XONE\nb[0] = \"hij\"\nc = XNSORTED[0] + []\nc[0] = 35", true},
	{"full_slice_then_assign", "a = XSORTED[:]\na[0] = \"hij\"\nb = XONE[0:]\nb[0] = \"hij\"\nc = XNSORTED[0][:3]\nc[0] = 36", true},
	{"times_one_then_assign", "a = XSORTED * 1\na[0] = \"hij\"", true},
	{"filter_all_then_assign", "a = filter(lambda q: True, XSORTED)\na[0] = \"hij\"\nb = map(lambda q: q, XONE)\nb[0] = \"hij\"", true},
	{"comprehension_all_then_assign", "a = [q for q in XSORTED]\na[0] = \"hij\"\nb = [q for q in XNSORTED[0] if True]\nb[0] = 37", true},
	{"sorted_key_then_assign", "a = sorted(XSORTED, key = lambda q: q)\na[0] = \"hij\"", true},
	// attempts that a correct implementation rejects (or that only touch copies)
	{"index_assign", "XS[0] = \"zz\"", false},
	{"index_assign_nested_direct", "XN[0] = [0]", false},
	{"index_augassign", "XN[0] += [5]", false},
	{"alias_nested_assign", "a = XN[0]\na[0] = 99", false},
	{"alias_dict_value_assign", "a = XD[\"k\"]\na[0] = 7", false},
	{"dict_assign", "XD[\"new\"] = [1]", false},
	{"dict_setdefault", "a = XD.setdefault(\"z\", [])", false},
	{"mixed_dict_assign", "a = XM[1]\na[\"k\"] = [0]", false},
	{"mixed_inner_assign", "a = XM[1][\"k\"]\na[0] = 5", false},
	{"func_result_assign", "a = get_xn()\na[0] = [0]", false},
	{"func_first_assign", "b = get_first()\nb[0] = 42", false},
	{"func_dict_assign", "b = get_xd(\"s\")\nb[0] = 43", false},
	{"comprehension_inner_assign", "a = [x for x in XN]\nc = a[1]\nc[0] = 5", false},
	{"slice_inner_assign", "a = XN[:]\nc = a[0]\nc[1] = 6", false},
	{"map_inner_assign", "a = map(lambda q: q, XN)\nb = a[0]\nb[0] = 3", false},
	{"zip_inner_assign", "a = zip(XN, XN)[0][0]\na[0] = 1", false},
	{"enumerate_inner_assign", "a = enumerate(XN)[0][1]\na[0] = 2", false},
	{"min_inner_assign", "a = min(XN)\na[0] = 11", false},
	{"reduce_last_assign", "a = reduce(lambda p, q: q, XN, [])\na[0] = 12", false},
	{"ternary_alias_assign", "a = XN[0] if True else []\na[0] = 13", false},
	{"or_alias_assign", "a = XN[0] or []\na[0] = 14", false},
	{"loop_var_assign", "for row in XN:\n    row[0] = 15", false},
	{"dict_values_assign", "for v in XD.values():\n    v[0] = 16", false},
	{"dict_items_assign", "for k, v in XD.items():\n    v[0] = 17", false},
	{"union_inner_assign", "a = XD | {\"n\": [1]}\nb = a[\"k\"]\nb[0] = 5", false},
	{"dict_copy_inner_assign", "a = XD.copy()\nb = a[\"k\"]\nb[0] = 18", false},
	{"dict_get_assign", "a = XD.get(\"k\")\na[0] = 19", false},
	{"reversed_rows_inner_assign", "a = reversed(XN)\nb = a[0]\nb[0] = 20", false},
	{"add_rows_inner_assign", "a = XN + [[1]]\nb = a[0]\nb[0] = 21", false},
	{"config_assign", "k = CONFIG.VERIF_K\nk[0] = [9]", false},
	{"config_inner_assign", "k = CONFIG.VERIF_K[1]\nk[0] = 8", false},
	{"config_sorted_inner", "k = sorted(CONFIG.VERIF_K[0])\nk2 = reversed(CONFIG.VERIF_K[1])", true},
	{"base_config_assign", "k = CONFIG.BUILD_FILE_NAMES\nk[0] = \"zz\"", false},
	{"unpack_assign", "a, b = [XN[0], XN[1]]\na[0] = 22", false},
	{"literal_result_assign", "a = mk()\na[0] = [0]", true},
	{"literal_result_inner_assign", "a = mk()[0]\na[0] = 7", true},
	{"default_arg_assign", "a = dflt()\na[0] = 9", true},
	{"function_arg_assign", "def poke(p):\n    p[0] = 23\n    return p\na = poke(XN[0])", false},
}

func genMut(t *rapid.T, label string) []string {
	n := rapid.IntRange(1, 5).Draw(t, label+"n")
	var harmlessFirst, rest []attempt
	for i := 0; i < n; i++ {
		a := attempts[rapid.IntRange(0, len(attempts)-1).Draw(t, label)]
		if a.harmless {
			harmlessFirst = append(harmlessFirst, a)
		} else {
			rest = append(rest, a)
		}
	}
	if len(rest) > 1 && rapid.IntRange(0, 1).Draw(t, label+"keep1") == 0 {
		rest = rest[:1]
	}
	var out []string
	for i, a := range append(harmlessFirst, rest...) {
		// rename the scratch variables so that the attempts of one file do not collide
		r := strings.NewReplacer("a = ", fmt.Sprintf("a%d = ", i), "a[", fmt.Sprintf("a%d[", i), "b = ", fmt.Sprintf("b%d = ", i), "b[", fmt.Sprintf("b%d[", i),
			"c = ", fmt.Sprintf("c%d = ", i), "c[", fmt.Sprintf("c%d[", i), "k = ", fmt.Sprintf("k%d = ", i), "k[", fmt.Sprintf("k%d[", i), "k2 = ", fmt.Sprintf("kk%d = ", i), "k2[", fmt.Sprintf("kk%d[", i),
			"a, b = ", fmt.Sprintf("a%d, b%d = ", i, i), " = a[", fmt.Sprintf(" = a%d[", i), "= a + ", fmt.Sprintf("= a%d + ", i), "poke", fmt.Sprintf("poke%d", i))
		out = append(out, "# "+a.name+"\n"+r.Replace(a.stmts)+fmt.Sprintf("\nM%d = %d", i, i))
	}
	return out
}

func gen(t *rapid.T) Case {
	var c Case
	c.Defs = genDefs(t, &c)
	c.Mut1 = genMut(t, "mut1")
	c.Mut2 = genMut(t, "mut2")
	c.Observer = "subinclude(\"@DEFS@\")\n" +
		"O1 = [x for x in XS]\nO2 = get_xn()\nO3 = CONFIG.VERIF_K\nO4 = get_first()\nO5 = XD[\"k\"] + XM[0]\nO6 = CONFIG.BUILD_FILE_NAMES\nO7 = json(XM)\nO8 = [get_xd(k) for k in sorted(XD.keys())]\nO9 = mk()\nO10 = dflt()\nO11 = XSORTED\nO12 = XONE\nO13 = XNSORTED\n" +
		"build_rule(name = \"obs\", cmd = \" \".join([json(XN), json(XD), json(XM), json(O3)]), labels = XS + [str(len(XN[0]))] + O6)\n"
	sort.Strings(c.Labels)
	return c
}

// ---- execution ---------------------------------------------------------------------------------------

var (
	envMu   sync.Mutex
	env     *aspenv.Env
	envUses int
)

func getEnv() (*aspenv.Env, error) {
	envMu.Lock()
	defer envMu.Unlock()
	if env == nil || envUses > 500 {
		root := os.Getenv("VERIF_SCRATCH")
		if root == "" {
			root = filepath.Join(os.TempDir(), fmt.Sprintf("verif-c17-%d", os.Getpid()))
		}
		e, err := aspenv.New(filepath.Join(root, "asp"))
		if err != nil {
			return nil, err
		}
		env, envUses = e, 0
	}
	envUses++
	return env, nil
}

type dump struct {
	Globals map[string]any
	Targets []string
	Err     string
}

func decode(b []byte) (map[string]any, error) {
	d := json.NewDecoder(bytes.NewReader(b))
	d.UseNumber()
	var m map[string]any
	err := d.Decode(&m)
	return m, err
}

func dumpScope(vs *asp.VerifScope, pkg *core.Package, err error) dump {
	var d dump
	if err != nil {
		d.Err = firstLine(err.Error())
	}
	if vs != nil {
		if b, gerr := vs.Globals(); gerr == nil {
			d.Globals, _ = decode(b)
		} else {
			d.Err += " | globals: " + gerr.Error()
		}
	}
	if pkg != nil {
		for _, t := range pkg.AllTargets() {
			d.Targets = append(d.Targets, fmt.Sprintf("%s labels=%q cmd=%q", t.Label.Name, t.Labels, t.Command))
		}
		sort.Strings(d.Targets)
	}
	return d
}

func firstLine(s string) string {
	if i := strings.IndexByte(s, '\n'); i >= 0 {
		s = s[:i]
	}
	return s
}

func mutText(label string, attempts []string) string {
	return "subinclude(\"" + label + "\")\n" + strings.Join(attempts, "\n") + "\n"
}

func markers(d dump) int {
	n := 0
	for k := range d.Globals {
		if strings.HasPrefix(k, "M") {
			n++
		}
	}
	return n
}

func same(a, b dump) string {
	if a.Err != b.Err {
		return fmt.Sprintf("error status %q vs %q", a.Err, b.Err)
	}
	keys := map[string]bool{}
	for k := range a.Globals {
		keys[k] = true
	}
	for k := range b.Globals {
		keys[k] = true
	}
	ks := make([]string, 0, len(keys))
	for k := range keys {
		ks = append(ks, k)
	}
	sort.Strings(ks)
	for _, k := range ks {
		if !reflect.DeepEqual(a.Globals[k], b.Globals[k]) {
			aj, _ := json.Marshal(a.Globals[k])
			bj, _ := json.Marshal(b.Globals[k])
			return fmt.Sprintf("%s: %s vs %s", k, aj, bj)
		}
	}
	if !reflect.DeepEqual(a.Targets, b.Targets) {
		return fmt.Sprintf("targets %q vs %q", a.Targets, b.Targets)
	}
	return ""
}

func run(c Case, o *lib.Obs) error {
	e, err := getEnv()
	if err != nil {
		return &lib.Inconclusive{Msg: err.Error()}
	}
	for _, l := range c.Labels {
		o.Label(l)
	}
	var paths []string
	defer func() {
		for _, p := range paths {
			e.Remove(p)
		}
	}()
	newDefs := func() (string, error) {
		label, path, err := e.AddDefs(c.Defs)
		paths = append(paths, path)
		return label, err
	}
	eval := func(text string) (*asp.VerifScope, *core.Package, error) {
		return e.EvalBuild(fmt.Sprintf("p%d", e.Seq()), text)
	}
	obsText := func(label string) string { return strings.ReplaceAll(c.Observer, "@DEFS@", label) }
	show := func() string {
		return "--- build_defs ---\n" + c.Defs + "--- mutator 1 ---\n" + mutText("@DEFS@", c.Mut1) + "--- mutator 2 ---\n" + mutText("@DEFS@", c.Mut2) + "--- observer ---\n" + c.Observer
	}

	// (a) observer alone, fresh copy of the defs
	la, err := newDefs()
	if err != nil {
		return &lib.Inconclusive{Msg: err.Error()}
	}
	base := dumpScope(eval(obsText(la)))
	if base.Err != "" {
		return &lib.Inconclusive{Msg: "observer fails on its own: " + base.Err + "\n" + show()}
	}

	// (b) after a mutator
	lb, _ := newDefs()
	m1 := dumpScope(eval(mutText(lb, c.Mut1)))
	after := dumpScope(eval(obsText(lb)))
	ran := markers(m1)
	o.LabelIf(ran > 0, "mutator_ran_an_attempt")
	o.LabelIf(m1.Err != "", "mutator_rejected")
	o.LabelIf(m1.Err == "", "mutator_completed")
	for _, a := range append(append([]string{}, c.Mut1...), c.Mut2...) {
		o.Label("attempt:" + strings.TrimPrefix(firstLine(a), "# "))
	}
	o.NonTrivial(ran > 0)
	o.Sample(map[string]any{"defs": c.Defs, "mutator1": c.Mut1, "mutator2": c.Mut2, "mutator1_error": m1.Err, "observer_values": base.Globals, "observer_targets": base.Targets})
	if d := same(base, after); d != "" {
		return lib.Failf("observer-sees-mutation", "observer evaluated after mutator 1 differs from observer alone: %s\n(mutator 1: %q)\n%s", d, m1.Err, show())
	}

	// (c) observer first, then both mutators, then dump the observer's scope again; and the first
	// mutator's scope again after the observer and the second mutator
	lc, _ := newDefs()
	ovs, opkg, oerr := eval(obsText(lc))
	first := dumpScope(ovs, opkg, oerr)
	if d := same(base, first); d != "" {
		return lib.Failf("observer-not-deterministic", "observer differs between two fresh copies of the defs: %s\n%s", d, show())
	}
	mvs, mpkg, merr := eval(mutText(lc, c.Mut1))
	mfirst := dumpScope(mvs, mpkg, merr)
	eval(mutText(lc, c.Mut2))
	ovs2, opkg2, oerr2 := eval(obsText(lc))
	if d := same(base, dumpScope(ovs, opkg, oerr)); d != "" {
		return lib.Failf("observer-value-changed-later", "values held by the observer changed after the mutators ran: %s\n%s", d, show())
	}
	if d := same(base, dumpScope(ovs2, opkg2, oerr2)); d != "" {
		return lib.Failf("observer-sees-mutation", "observer evaluated after both mutators differs from observer alone: %s\n%s", d, show())
	}
	if d := same(mfirst, dumpScope(mvs, mpkg, merr)); d != "" {
		return lib.Failf("mutator-value-changed-later", "values held by mutator 1 changed after the observer and mutator 2 ran: %s\n%s", d, show())
	}

	// (d) concurrently
	ld, _ := newDefs()
	var wg sync.WaitGroup
	var conc dump
	wg.Add(3)
	go func() { defer wg.Done(); eval(mutText(ld, c.Mut1)) }()
	go func() { defer wg.Done(); conc = dumpScope(eval(obsText(ld))) }()
	go func() { defer wg.Done(); eval(mutText(ld, c.Mut2)) }()
	wg.Wait()
	if d := same(base, conc); d != "" {
		return lib.Failf("observer-sees-mutation-concurrent", "observer evaluated concurrently with the mutators differs from observer alone: %s\n%s", d, show())
	}
	return nil
}

func TestC17(t *testing.T) {
	lib.Check(t, spec, lib.Scale(600, 50000), gen, run)
}
