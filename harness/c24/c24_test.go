// C24: `plz query changes` never misses an affected target.
//
// A generated model of a repository (nested packages, targets consuming files as sources, named
// sources, data and named data - single files and directories -, dependencies through deps, srcs and
// data, require/provide) is installed into real BuildStates through the exported core API, the way
// the package's own tests do. Two entry points are checked:
//
//	query.Changes(state, files, level)                 -- "inexact" mode, changed files only
//	query.DiffGraphs(before, after, files, level)      -- before/after graphs plus changed files
//
// Oracle (soundness only, never "misses"): the reported set must contain every target of the file's
// closest package that lists a changed file (or a directory containing it), every target whose
// definition differs between before and after (or that is new), every target if the config hash
// differs, and - with level -1 - every transitive dependent of those.
package c24

import (
	"encoding/json"
	"fmt"
	"sort"
	"strings"
	"testing"

	"github.com/thought-machine/please/src/core"
	"github.com/thought-machine/please/src/query"
	"pgregory.net/rapid"

	"verifharness/lib"
)

func TestMain(m *testing.M) {
	lib.QuietPleaseLogs()
	lib.Main(m)
}

var spec = lib.Spec{
	ID: "C24",
	Rule: "generated repositories of 1-5 packages from a nested pool (root, a, a/b, a/bc, c: sub-packages and sibling packages sharing a name prefix) with 2-10 targets consuming files as srcs / named srcs / data / named data, as single files or as directories (also nested, also a directory with a sibling sharing its prefix), depending on each other through deps, srcs and data, with require/provide; " +
		"changed files drawn from consumed files, files below directory sources, files in BUILD-less sub-directories, files of sub-packages, prefix-colliding names, BUILD files and unowned files; " +
		"for DiffGraphs the after-repository is the before-repository after 1-4 drawn edits (command, test command, label, output, binary flag, add/remove src or data or dep, change provides, add target, remove target, config hash). Levels 0, 1, 2 and -1. About a fifth of the targets carry the label `manual` and two thirds of the cases run with --exclude manual (plz's default): excluded targets need not be reported, but their non-excluded consumers/dependents must be. " +
		"Oracle: reported ⊇ consumers ∪ changed-or-new definitions (∪ everything if the config differs) and, at level -1, ⊇ their transitive dependents (resolved dependencies, i.e. after require/provide) ∪ the targets whose dependencies resolve differently because a changed provider provides something else. " +
		"Non-trivial = a changed file is consumed through a directory entry, as data, or lives in a BUILD-less sub-directory of its package (Changes), or some after-target differs from its before-definition and has a dependent that does not itself differ (DiffGraphs), or a reported dependent is affected only through an excluded target; distinct = case JSON",
	Assumptions: []string{
		"states are built in-process through the exported core API (as src/query's own tests do), not by parsing BUILD files; the command-line path (scm diff, re-parse of the before revision) is not exercised",
		"only inputs a real parse can produce: a target lists files of its own package only (never below a sub-package), tools are never repository files (asp turns a relative tool path into a PATH lookup), no subincludes",
		"one-directional: reporting more than necessary is never a violation; with a level other than -1 only the directly affected set is required",
	},
}

// T is one target of the model. Dependencies are written as labels.
type T struct {
	Pkg       string
	Name      string
	Srcs      []string            `json:",omitempty"` // package-relative files or directories
	Named     map[string][]string `json:",omitempty"`
	Data      []string            `json:",omitempty"`
	NamedData map[string][]string `json:",omitempty"`
	Deps      []string            `json:",omitempty"`
	SrcDeps   []string            `json:",omitempty"`
	DataDeps  []string            `json:",omitempty"`
	Requires  []string            `json:",omitempty"`
	Provides  map[string]string   `json:",omitempty"`
	Cmd       string              `json:",omitempty"`
	TestCmd   string              `json:",omitempty"`
	Labels    []string            `json:",omitempty"`
	Outs      []string            `json:",omitempty"`
	Binary    bool                `json:",omitempty"`
}

func (t *T) Label() string { return "//" + t.Pkg + ":" + t.Name }

// Repo is a set of packages (possibly without targets) and targets in dependency order.
type Repo struct {
	Pkgs    []string
	Targets []T
	Config  string `json:",omitempty"`
}

// Case is one scenario. After == nil means query.Changes on Before.
type Case struct {
	Before Repo
	After  *Repo `json:",omitempty"`
	Files  []string
	// Exclude holds label filters given with --exclude (plz excludes `manual` by default); targets
	// carrying one are never reported themselves, but their dependents still are.
	Exclude []string `json:",omitempty"`
}

func (r *Repo) index() map[string]int {
	m := map[string]int{}
	for i := range r.Targets {
		m[r.Targets[i].Label()] = i
	}
	return m
}

func (r *Repo) validate() error {
	pk := map[string]bool{}
	for _, p := range r.Pkgs {
		pk[p] = true
	}
	seen := map[string]bool{}
	for i := range r.Targets {
		t := &r.Targets[i]
		if !pk[t.Pkg] || t.Name == "" || seen[t.Label()] {
			return fmt.Errorf("malformed case: target %d (%s)", i, t.Label())
		}
		for _, d := range t.allDeps() {
			if !seen[d] {
				return fmt.Errorf("malformed case: %s depends on %s, which is not an earlier target", t.Label(), d)
			}
		}
		for _, p := range t.Provides {
			if !seen[p] && p != t.Label() {
				return fmt.Errorf("malformed case: %s provides %s, which is not an earlier target", t.Label(), p)
			}
		}
		seen[t.Label()] = true
	}
	return nil
}

func (t *T) allDeps() []string {
	var out []string
	out = append(out, t.Deps...)
	out = append(out, t.SrcDeps...)
	out = append(out, t.DataDeps...)
	return out
}

func (t *T) fileEntries() (plain []string, data []string) {
	plain = append(plain, t.Srcs...)
	for _, k := range sortedKeys(t.Named) {
		plain = append(plain, t.Named[k]...)
	}
	data = append(data, t.Data...)
	for _, k := range sortedKeys(t.NamedData) {
		data = append(data, t.NamedData[k]...)
	}
	return
}

func sortedKeys[V any](m map[string]V) []string {
	ks := make([]string, 0, len(m))
	for k := range m {
		ks = append(ks, k)
	}
	sort.Strings(ks)
	return ks
}

// resolved returns the labels t really depends on after require/provide (data dependencies are
// never redirected).
func (r *Repo) resolved(t *T, idx map[string]int) []string {
	var out []string
	for _, d := range append(append([]string{}, t.Deps...), t.SrcDeps...) {
		dt := &r.Targets[idx[d]]
		found := false
		isData := false
		for _, x := range t.DataDeps {
			isData = isData || x == d
		}
		if !isData {
			for _, req := range t.Requires {
				if p, ok := dt.Provides[req]; ok {
					out = append(out, p)
					found = true
				}
			}
		}
		if !found {
			out = append(out, d)
		}
	}
	out = append(out, t.DataDeps...)
	return out
}

// owner returns the closest package of a file ("" is the root package); ok=false if none.
func (r *Repo) owner(file string) (string, bool) {
	best, ok := "", false
	for _, p := range r.Pkgs {
		if p == "" {
			if !ok {
				best, ok = "", true
			}
			continue
		}
		if strings.HasPrefix(file, p+"/") && (!ok || len(p) > len(best)) {
			best, ok = p, true
		}
	}
	return best, ok
}

func rel(pkg, file string) string {
	if pkg == "" {
		return file
	}
	return strings.TrimPrefix(file, pkg+"/")
}

type consumption struct {
	target       int
	viaDir, data bool
}

func (r *Repo) consumers(file string) []consumption {
	pkg, ok := r.owner(file)
	if !ok {
		return nil
	}
	f := rel(pkg, file)
	var out []consumption
	for i := range r.Targets {
		t := &r.Targets[i]
		if t.Pkg != pkg {
			continue
		}
		plain, data := t.fileEntries()
		hit, c := false, consumption{target: i}
		for _, e := range plain {
			if e == f {
				hit = true
			} else if strings.HasPrefix(f, e+"/") {
				hit, c.viaDir = true, true
			}
		}
		for _, e := range data {
			if e == f {
				hit, c.data = true, true
			} else if strings.HasPrefix(f, e+"/") {
				hit, c.viaDir, c.data = true, true, true
			}
		}
		if hit {
			out = append(out, c)
		}
	}
	return out
}

var states [2]*core.BuildState

func install(r *Repo, slot int, exclude []string) (*core.BuildState, error) {
	if states[slot] == nil {
		states[slot] = core.NewDefaultBuildState()
	}
	st := states[slot]
	st.Graph = core.NewGraph()
	st.Hashes.Config = []byte(r.Config)
	st.SetIncludeAndExclude(nil, exclude)
	pkgs := map[string]*core.Package{}
	for _, p := range r.Pkgs {
		pkgs[p] = core.NewPackage(p)
	}
	lbl := func(s string) core.BuildLabel {
		i := strings.LastIndex(s, ":")
		return core.BuildLabel{PackageName: s[2:i], Name: s[i+1:]}
	}
	var ts []*core.BuildTarget
	for i := range r.Targets {
		m := &r.Targets[i]
		t := core.NewBuildTarget(core.BuildLabel{PackageName: m.Pkg, Name: m.Name})
		t.Command = m.Cmd
		t.IsBinary = m.Binary
		if m.TestCmd != "" {
			t.Test = &core.TestFields{Command: m.TestCmd}
		}
		for _, l := range m.Labels {
			t.AddLabel(l)
		}
		for _, o := range m.Outs {
			t.AddOutput(o)
		}
		for _, r := range m.Requires {
			t.AddRequire(r)
		}
		for _, s := range m.Srcs {
			t.AddSource(core.FileLabel{File: s, Package: m.Pkg})
		}
		for _, k := range sortedKeys(m.Named) {
			for _, s := range m.Named[k] {
				t.AddNamedSource(k, core.FileLabel{File: s, Package: m.Pkg})
			}
		}
		for _, s := range m.Data {
			t.AddDatum(core.FileLabel{File: s, Package: m.Pkg})
		}
		for _, k := range sortedKeys(m.NamedData) {
			for _, s := range m.NamedData[k] {
				t.AddNamedDatum(k, core.FileLabel{File: s, Package: m.Pkg})
			}
		}
		for _, d := range m.Deps {
			t.AddDependency(lbl(d))
		}
		for _, d := range m.SrcDeps {
			t.AddSource(lbl(d))
		}
		for _, d := range m.DataDeps {
			t.AddDatum(lbl(d))
		}
		for _, k := range sortedKeys(m.Provides) {
			t.AddProvide(k, []core.BuildLabel{lbl(m.Provides[k])})
		}
		pkgs[m.Pkg].AddTarget(t)
		st.Graph.AddTarget(t)
		ts = append(ts, t)
	}
	for _, p := range r.Pkgs {
		st.Graph.AddPackage(pkgs[p])
	}
	for _, t := range ts {
		if err := t.ResolveDependencies(st.Graph); err != nil {
			return nil, err
		}
	}
	return st, nil
}

func run(c Case, o *lib.Obs) error {
	if err := c.Before.validate(); err != nil {
		return err
	}
	cur := &c.Before
	if c.After != nil {
		if err := c.After.validate(); err != nil {
			return err
		}
		cur = c.After
	}
	for _, f := range c.Files {
		if f == "" || strings.HasPrefix(f, "/") || strings.Contains(f, "..") {
			return fmt.Errorf("malformed case: file %q", f)
		}
	}
	for _, e := range c.Exclude {
		if e == "" || strings.ContainsAny(e, ",/:") {
			return fmt.Errorf("malformed case: exclude %q", e)
		}
	}
	idx := cur.index()
	n := len(cur.Targets)
	excluded := func(i int) bool {
		for _, l := range cur.Targets[i].Labels {
			if has(c.Exclude, l) {
				return true
			}
		}
		return false
	}

	// ---- reference ------------------------------------------------------------------------------
	direct := map[int]string{} // target -> why
	viaDir, viaData, buildless := false, false, false
	for _, f := range c.Files {
		for _, cs := range cur.consumers(f) {
			direct[cs.target] = "consumes " + f
			viaDir = viaDir || cs.viaDir
			viaData = viaData || cs.data
			if pkg, _ := cur.owner(f); strings.Contains(rel(pkg, f), "/") {
				buildless = true
			}
		}
	}
	defChanged := map[int]bool{}
	if c.After != nil {
		bidx := c.Before.index()
		for i := range cur.Targets {
			t := &cur.Targets[i]
			why := ""
			if j, ok := bidx[t.Label()]; !ok {
				why = "is new"
			} else if a, b := canonical(t), canonical(&c.Before.Targets[j]); a != b {
				why = "definition changed"
			} else if c.Before.Config != cur.Config {
				why = "config changed"
			}
			if why != "" {
				defChanged[i] = true
				if _, ok := direct[i]; !ok {
					direct[i] = why
				}
			}
		}
	}
	// dependents: u depends on v if v is a resolved dependency of u, i.e. what u is really built from.
	// (A dependency that require/provide redirects elsewhere does not make u a dependent of the
	// declared provider: narrow reading, u's inputs do not change with the provider's outputs.)
	rdeps := make([][]int, n)
	for u := range cur.Targets {
		t := &cur.Targets[u]
		seen := map[int]bool{}
		for _, d := range cur.resolved(t, idx) {
			if v := idx[d]; !seen[v] {
				seen[v] = true
				rdeps[v] = append(rdeps[v], u)
			}
		}
	}
	closure := map[int]string{}
	var stack []int
	for i, why := range direct {
		closure[i] = why
		stack = append(stack, i)
	}
	// ... but if a changed provider now provides something else, the targets whose dependencies
	// resolve differently are affected through that (changed) provider.
	redirected := false
	if c.After != nil {
		bidx := c.Before.index()
		for i := range cur.Targets {
			t := &cur.Targets[i]
			j, ok := bidx[t.Label()]
			if _, isDirect := direct[i]; !ok || isDirect {
				continue
			}
			a, b := cur.resolved(t, idx), c.Before.resolved(&c.Before.Targets[j], bidx)
			a, b = uniqSorted(a), uniqSorted(b)
			if strings.Join(a, " ") != strings.Join(b, " ") {
				closure[i] = "declares a dependency on a changed target that now provides something else (resolved dependencies were " + strings.Join(b, " ") + ", are " + strings.Join(a, " ") + ")"
				stack = append(stack, i)
				redirected = true
			}
		}
	}
	sort.Ints(stack)
	for len(stack) > 0 {
		v := stack[len(stack)-1]
		stack = stack[:len(stack)-1]
		for _, u := range rdeps[v] {
			if _, ok := closure[u]; !ok {
				closure[u] = "depends on " + cur.Targets[v].Label() + ", which " + closure[v]
				stack = append(stack, u)
			}
		}
	}
	unchangedDependent := len(defChanged) > 0 && len(closure) > len(direct)
	mode := "changes"
	if c.After != nil {
		mode = "diffgraphs"
	}
	o.Label(mode)
	o.LabelIf(len(direct) > 0, "something_affected")
	o.LabelIf(viaDir, "consumed_through_directory")
	o.LabelIf(viaData, "consumed_as_data")
	o.LabelIf(buildless, "file_in_buildless_subdirectory")
	o.LabelIf(len(closure) > len(direct), "has_unchanged_dependents")
	o.LabelIf(c.After != nil && c.Before.Config != cur.Config, "config_changed")
	o.LabelIf(redirected, "provider_change_redirects_a_dependent")
	throughExcluded := false
	for i := range closure {
		if _, isDirect := direct[i]; !isDirect && !excluded(i) {
			// would i still be reached if excluded seeds were dropped?
			reach := map[int]bool{}
			var st []int
			for j := range direct {
				if !excluded(j) {
					reach[j] = true
					st = append(st, j)
				}
			}
			for len(st) > 0 {
				v := st[len(st)-1]
				st = st[:len(st)-1]
				for _, u := range rdeps[v] {
					if !reach[u] {
						reach[u] = true
						st = append(st, u)
					}
				}
			}
			if !reach[i] {
				throughExcluded = true
			}
		}
	}
	o.LabelIf(len(c.Exclude) > 0, "exclude_filter")
	o.LabelIf(throughExcluded, "dependent_affected_only_through_excluded_target")
	if c.After == nil {
		o.NonTrivial(viaDir || viaData || buildless || throughExcluded)
	} else {
		o.NonTrivial((len(defChanged) > 0 && unchangedDependent) || throughExcluded)
	}

	// ---- the real thing -------------------------------------------------------------------------
	after, err := install(cur, 1, c.Exclude)
	if err != nil {
		return fmt.Errorf("harness: %v", err)
	}
	var before *core.BuildState
	if c.After != nil {
		if before, err = install(&c.Before, 0, c.Exclude); err != nil {
			return fmt.Errorf("harness: %v", err)
		}
	}
	for _, level := range []int{0, 1, 2, -1} {
		var got core.BuildLabels
		if c.After == nil {
			got = query.Changes(after, c.Files, level, false)
		} else {
			got = query.DiffGraphs(before, after, c.Files, level, false)
		}
		gotSet := map[string]bool{}
		for _, l := range got {
			gotSet[l.String()] = true
			if _, ok := idx[l.String()]; !ok {
				return lib.Failf("reported-unknown-target", "%s level %d reported %s, which is not a target of the (after) graph", mode, level, l)
			}
		}
		want := direct
		if level == -1 {
			want = closure
		}
		var missing []string
		for i, why := range want {
			if l := cur.Targets[i].Label(); !gotSet[l] && !excluded(i) {
				missing = append(missing, l+" ("+why+")")
			}
		}
		if len(missing) > 0 {
			sort.Strings(missing)
			class := "missed-consumer"
			for i := range want {
				if l := cur.Targets[i].Label(); !gotSet[l] && !excluded(i) {
					if _, isDirect := direct[i]; !isDirect {
						class = "missed-dependent"
					} else if defChanged[i] && !strings.HasPrefix(direct[i], "consumes") {
						class = "missed-changed-definition"
					}
				}
			}
			return lib.Failf(class, "%s files=%v level=%d: not reported: %s; reported %v", mode, c.Files, level, strings.Join(missing, "; "), got)
		}
	}
	return nil
}

func uniqSorted(s []string) []string {
	sort.Strings(s)
	var out []string
	for i, x := range s {
		if i == 0 || x != s[i-1] {
			out = append(out, x)
		}
	}
	return out
}

// canonical renders a target definition for comparison. The order of plain deps is not part of a
// definition (please sorts declared dependencies); the order of srcs and data is ($SRCS order).
func canonical(t *T) string {
	c := *t
	c.Deps = append([]string{}, t.Deps...)
	sort.Strings(c.Deps)
	if len(c.Deps) == 0 {
		c.Deps = nil
	}
	return mustJSON(&c)
}

func mustJSON(v any) string {
	b, err := json.Marshal(v)
	if err != nil {
		panic(err)
	}
	return string(b)
}

// ---- generator ---------------------------------------------------------------------------------

var pkgPool = []string{"", "a", "a/b", "a/bc", "c"}

// files that may exist in any package directory; none of them can fall below a sub-package of the pool
var filePool = []string{"f1.go", "f2.go", "b.txt", "d/x.txt", "d/y.txt", "d/e/z.txt", "d2/x.txt", "g/h/i.txt"}

// entries a target may list: files and directories (a directory covers everything below it)
var entryPool = []string{"f1.go", "f2.go", "b.txt", "d/x.txt", "d", "d/e", "d2", "g", "g/h", "d/e/z.txt"}

func genRepo(t *rapid.T) Repo {
	var r Repo
	for _, p := range pkgPool {
		if rapid.IntRange(0, 2).Draw(t, "hasPkg") > 0 {
			r.Pkgs = append(r.Pkgs, p)
		}
	}
	if len(r.Pkgs) == 0 {
		r.Pkgs = []string{"a"}
	}
	nT := rapid.IntRange(2, 10).Draw(t, "targets")
	for i := 0; i < nT; i++ {
		tg := T{Pkg: r.Pkgs[rapid.IntRange(0, len(r.Pkgs)-1).Draw(t, "pkg")], Name: fmt.Sprintf("t%d", i), Cmd: "cmd" + fmt.Sprint(rapid.IntRange(0, 2).Draw(t, "cmd"))}
		drawEntries := func(name string, max int) []string {
			var out []string
			for k := rapid.IntRange(0, max).Draw(t, name+"N"); k > 0; k-- {
				e := rapid.SampledFrom(entryPool).Draw(t, name)
				dup := false
				for _, x := range out {
					dup = dup || x == e
				}
				if !dup {
					out = append(out, e)
				}
			}
			return out
		}
		tg.Srcs = drawEntries("src", 2)
		if rapid.IntRange(0, 3).Draw(t, "named") == 0 {
			if e := drawEntries("nsrc", 2); len(e) > 0 {
				tg.Named = map[string][]string{"hdrs": e}
			}
		}
		if rapid.IntRange(0, 2).Draw(t, "hasData") == 0 {
			tg.Data = drawEntries("data", 2)
		}
		if rapid.IntRange(0, 5).Draw(t, "hasNamedData") == 0 {
			if e := drawEntries("ndata", 1); len(e) > 0 {
				tg.NamedData = map[string][]string{"fixtures": e}
			}
		}
		if rapid.IntRange(0, 4).Draw(t, "manual") == 0 {
			tg.Labels = append(tg.Labels, "manual")
		}
		if rapid.IntRange(0, 3).Draw(t, "isTest") == 0 {
			tg.TestCmd = "test0"
			tg.Binary = true
		}
		for k := rapid.IntRange(0, min(3, i)).Draw(t, "deps"); k > 0; k-- {
			d := r.Targets[rapid.IntRange(0, i-1).Draw(t, "dep")].Label()
			if has(tg.allDeps(), d) {
				continue
			}
			switch rapid.IntRange(0, 5).Draw(t, "depKind") {
			case 0:
				tg.SrcDeps = append(tg.SrcDeps, d)
			case 1:
				tg.DataDeps = append(tg.DataDeps, d)
			default:
				tg.Deps = append(tg.Deps, d)
			}
		}
		switch rapid.IntRange(0, 5).Draw(t, "reqprov") {
		case 0, 1:
			tg.Requires = []string{"go"}
		case 2:
			if i > 0 {
				tg.Provides = map[string]string{"go": r.Targets[rapid.IntRange(0, i-1).Draw(t, "prov")].Label()}
			}
		}
		r.Targets = append(r.Targets, tg)
	}
	return r
}

func has(s []string, x string) bool {
	for _, y := range s {
		if x == y {
			return true
		}
	}
	return false
}

func cloneRepo(r *Repo) *Repo {
	var out Repo
	if err := json.Unmarshal([]byte(mustJSON(r)), &out); err != nil {
		panic(err)
	}
	return &out
}

func remove(s []string, x string) []string {
	var out []string
	for _, y := range s {
		if y != x {
			out = append(out, y)
		}
	}
	return out
}

func genEdits(t *rapid.T, before *Repo) *Repo {
	r := cloneRepo(before)
	for k := rapid.IntRange(1, 4).Draw(t, "edits"); k > 0; k-- {
		i := rapid.IntRange(0, len(r.Targets)-1).Draw(t, "victim")
		tg := &r.Targets[i]
		switch rapid.IntRange(0, 12).Draw(t, "edit") {
		case 0:
			tg.Cmd += "x"
		case 1:
			if tg.TestCmd != "" {
				tg.TestCmd += "x"
			} else {
				tg.Labels = append(tg.Labels, "l"+fmt.Sprint(len(tg.Labels)))
			}
		case 2:
			tg.Labels = append(tg.Labels, "l"+fmt.Sprint(len(tg.Labels)))
		case 3:
			tg.Outs = append(tg.Outs, "o"+fmt.Sprint(len(tg.Outs)))
		case 4:
			tg.Binary = !tg.Binary
		case 5:
			if e := rapid.SampledFrom(entryPool).Draw(t, "newSrc"); !has(tg.Srcs, e) {
				tg.Srcs = append(tg.Srcs, e)
			}
		case 6:
			if len(tg.Srcs) > 0 {
				tg.Srcs = tg.Srcs[1:]
			} else if len(tg.Data) > 0 {
				tg.Data = tg.Data[1:]
			}
		case 7:
			if e := rapid.SampledFrom(entryPool).Draw(t, "newData"); !has(tg.Data, e) {
				tg.Data = append(tg.Data, e)
			}
		case 8: // add a dependency on an earlier target
			if i > 0 {
				if d := r.Targets[rapid.IntRange(0, i-1).Draw(t, "newDep")].Label(); !has(tg.allDeps(), d) {
					tg.Deps = append(tg.Deps, d)
				}
			}
		case 9: // drop a dependency
			if len(tg.Deps) > 0 {
				tg.Deps = tg.Deps[1:]
			}
		case 10: // change what the target provides
			if i > 0 {
				p := r.Targets[rapid.IntRange(0, i-1).Draw(t, "newProv")].Label()
				if tg.Provides["go"] == p {
					tg.Provides = nil
				} else {
					tg.Provides = map[string]string{"go": p}
				}
			}
		case 11: // new target at the end
			name, taken := "", r.index()
			for k := len(r.Targets); ; k++ {
				if _, ok := taken["//"+tg.Pkg+":"+fmt.Sprintf("n%d", k)]; !ok {
					name = fmt.Sprintf("n%d", k)
					break
				}
			}
			nt := T{Pkg: tg.Pkg, Name: name, Cmd: "new", Deps: []string{tg.Label()}}
			r.Targets = append(r.Targets, nt)
		case 12: // remove the target, and every reference to it
			l := tg.Label()
			r.Targets = append(r.Targets[:i:i], r.Targets[i+1:]...)
			for j := range r.Targets {
				x := &r.Targets[j]
				x.Deps, x.SrcDeps, x.DataDeps = remove(x.Deps, l), remove(x.SrcDeps, l), remove(x.DataDeps, l)
				for lang, p := range x.Provides {
					if p == l {
						delete(x.Provides, lang)
					}
				}
				if len(x.Provides) == 0 {
					x.Provides = nil
				}
			}
			if len(r.Targets) == 0 {
				return cloneRepo(before)
			}
		}
	}
	if rapid.IntRange(0, 9).Draw(t, "config") == 0 {
		r.Config = before.Config + "x"
	}
	return r
}

func genFiles(t *rapid.T, r *Repo) []string {
	var out []string
	for k := rapid.IntRange(1, 3).Draw(t, "files"); k > 0; k-- {
		pkg := rapid.SampledFrom(pkgPool).Draw(t, "filePkg") // also packages that do not exist
		var f string
		switch rapid.IntRange(0, 5).Draw(t, "fileKind") {
		case 0:
			f = "BUILD"
		case 1: // something new below a (possible) directory entry
			f = rapid.SampledFrom([]string{"d/new.txt", "d/e/deep/new.txt", "g/h/new.txt", "g/new.txt", "d2/new.txt", "dx/new.txt", "f1.go.orig"}).Draw(t, "newFile")
		default:
			f = rapid.SampledFrom(filePool).Draw(t, "file")
		}
		if pkg != "" {
			f = pkg + "/" + f
		}
		if !has(out, f) {
			out = append(out, f)
		}
	}
	return out
}

func gen(t *rapid.T) Case {
	c := Case{Before: genRepo(t)}
	cur := &c.Before
	if rapid.Bool().Draw(t, "diff") {
		c.After = genEdits(t, &c.Before)
		cur = c.After
		if rapid.IntRange(0, 2).Draw(t, "noFiles") == 0 {
			return c
		}
	}
	c.Files = genFiles(t, cur)
	return c
}

func genCase(t *rapid.T) Case {
	c := gen(t)
	if rapid.IntRange(0, 2).Draw(t, "exclude") > 0 { // plz excludes manual targets unless told otherwise
		c.Exclude = []string{"manual"}
	}
	return c
}

func TestC24(t *testing.T) {
	lib.Check(t, spec, lib.Scale(4000, 100000), genCase, run)
}
