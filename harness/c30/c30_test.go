// C30: timed-out actions are killed with every process of their group and reported shortly after the
// deadline; nothing an action started in its process group keeps running once it is reported finished.
//
// A case is a small batch of generated bash scripts run concurrently through
// process.Executor.ExecWithTimeoutShell. Every process of a script carries a unique marker in its
// environment, so survivors are found by scanning /proc/*/environ.
package c30

import (
	"bytes"
	"context"
	"errors"
	"fmt"
	"os"
	"os/exec"
	"path/filepath"
	"strconv"
	"strings"
	"sync"
	"sync/atomic"
	"syscall"
	"testing"
	"time"

	"github.com/thought-machine/please/src/process"
	"pgregory.net/rapid"

	"verifharness/lib"
)

var spec = lib.Spec{
	ID: "C30",
	Rule: "batches of 2-4 bash scripts run concurrently through Executor.ExecWithTimeoutShell, each assembled from: optional `trap '' TERM` in the parent; 0-3 background children (sleep 30 / TERM-ignoring / with a grandchild / busy loop; output pipes held or redirected); " +
		"a parent that exits at once (status 0 or 3), sleeps or spins far beyond the timeout, waits for its children, or exits within +-20 ms of the deadline; timeouts 50-500 ms (8 s where the script must finish in time). " +
		"Oracle: (a) a script that outlives its timeout returns context.DeadlineExceeded, never before the deadline and no later than timeout + 1.03 s (TERM->KILL escalation) + 3 s slack (re-run once and a machine-speed calibration before it counts; otherwise inconclusive); " +
		"(b) after the call returned no process carrying the script's marker is alive (polled; a survivor with SIGKILL pending is 'dying', not a survivor); (c) scripts that finish in time return success / their exit status and their output. " +
		"Non-trivial = script has a background child and (ignores TERM or the parent exits before the child); distinct = script text + timeout",
	Assumptions: []string{
		"processes that leave the action's process group (setsid) are not generated: the property is about the group",
		"when a background child keeps the output pipes open the call cannot return before the pipes close; returning DeadlineExceeded at the deadline is accepted there",
		"timing bounds carry >= 3 s slack and are only asserted after a repeat and a calibration of the machine; slow-machine outcomes are inconclusive, never violations",
	},
}

// ---- case -----------------------------------------------------------------------------------------

type Child struct {
	Kind string // sleep | ignoreterm | grand | busy
	Hold bool   `json:",omitempty"` // keeps the action's stdout/stderr open
}

type Script struct {
	TimeoutMs  int
	IgnoreTerm bool `json:",omitempty"` // parent: trap '' TERM (inherited by its children)
	Children   []Child
	Parent     string // quick | fail | long | busy | wait | deadline
	DeltaMs    int    `json:",omitempty"` // deadline: parent sleeps TimeoutMs+DeltaMs
}

type Case struct {
	Scripts []Script
}

func genScript(t *rapid.T) Script {
	s := Script{IgnoreTerm: rapid.IntRange(0, 2).Draw(t, "ignoreterm") == 0}
	s.Parent = rapid.SampledFrom([]string{"quick", "quick", "fail", "long", "long", "busy", "wait", "deadline"}).Draw(t, "parent")
	nc := rapid.IntRange(0, 3).Draw(t, "children")
	if s.Parent == "wait" && nc == 0 {
		nc = 1
	}
	for i := 0; i < nc; i++ {
		s.Children = append(s.Children, Child{
			Kind: rapid.SampledFrom([]string{"sleep", "sleep", "ignoreterm", "grand", "busy"}).Draw(t, "kind"),
			Hold: rapid.IntRange(0, 3).Draw(t, "hold") == 0,
		})
	}
	s.TimeoutMs = rapid.SampledFrom([]int{50, 80, 120, 200, 300, 500}).Draw(t, "timeout")
	if (s.Parent == "quick" || s.Parent == "fail") && !s.holdsPipes() {
		s.TimeoutMs = 8000 // must finish in time
	}
	if s.Parent == "deadline" {
		s.DeltaMs = rapid.IntRange(-20, 20).Draw(t, "delta")
	}
	return s
}

func gen(t *rapid.T) Case {
	n := rapid.IntRange(2, 4).Draw(t, "batch")
	c := Case{}
	for i := 0; i < n; i++ {
		c.Scripts = append(c.Scripts, genScript(t))
	}
	return c
}

func (s Script) holdsPipes() bool {
	for _, c := range s.Children {
		if c.Hold {
			return true
		}
	}
	return false
}

const spin = `e=$((SECONDS+30)); while [ $SECONDS -lt $e ]; do :; done`

func (s Script) text() string {
	var b strings.Builder
	if s.IgnoreTerm {
		b.WriteString("trap '' TERM\n")
	}
	for _, c := range s.Children {
		redir := " >/dev/null 2>&1"
		if c.Hold {
			redir = ""
		}
		switch c.Kind {
		case "sleep":
			fmt.Fprintf(&b, "sleep 30%s &\n", redir)
		case "ignoreterm":
			fmt.Fprintf(&b, "( trap '' TERM; exec sleep 30 )%s &\n", redir)
		case "grand":
			fmt.Fprintf(&b, "bash -c 'sleep 30 & sleep 30'%s &\n", redir)
		case "busy":
			fmt.Fprintf(&b, "( %s )%s &\n", spin, redir)
		}
	}
	switch s.Parent {
	case "quick":
		b.WriteString("echo done\n")
	case "fail":
		b.WriteString("echo oops\nexit 3\n")
	case "long":
		b.WriteString("sleep 30\necho late\n")
	case "busy":
		b.WriteString(spin + "\necho late\n")
	case "wait":
		b.WriteString("wait\necho late\n")
	case "deadline":
		ms := s.TimeoutMs + s.DeltaMs
		if ms < 0 {
			ms = 0
		}
		fmt.Fprintf(&b, "sleep %d.%03d\necho end\n", ms/1000, ms%1000)
	}
	return b.String()
}

// ---- plumbing ----------------------------------------------------------------------------------------

type target struct{}

func (target) String() string              { return "//verif:c30" }
func (target) ShouldShowProgress() bool    { return false }
func (target) SetProgress(float32)         {}
func (target) ProgressDescription() string { return "running" }
func (target) ShouldExitOnError() bool     { return true }

var (
	executor   *process.Executor
	markerSeq  atomic.Int64
	execOnce   sync.Once
	markPrefix = fmt.Sprintf("c30-%d-", os.Getpid())
)

func theExecutor() *process.Executor {
	execOnce.Do(func() { executor = process.New() })
	return executor
}

// marked returns the pids of live (non-zombie) processes whose environment carries the marker.
func marked(marker string) []int {
	needle := []byte("VERIF_MARK=" + marker + "\x00")
	prefix := len(marker) > 0 && strings.HasSuffix(marker, "-")
	if prefix {
		needle = []byte("VERIF_MARK=" + marker)
	}
	ents, _ := filepath.Glob("/proc/[0-9]*/environ")
	var pids []int
	for _, e := range ents {
		b, err := os.ReadFile(e)
		if err != nil || len(b) == 0 {
			continue
		}
		b = append(b, 0)
		if bytes.Contains(b, needle) {
			pid, _ := strconv.Atoi(strings.Split(e, "/")[2])
			if pid != os.Getpid() {
				pids = append(pids, pid)
			}
		}
	}
	return pids
}

// dying reports whether the process has SIGKILL pending (it is dying) or is already a zombie.
func dying(pid int) bool {
	b, err := os.ReadFile(fmt.Sprintf("/proc/%d/status", pid))
	if err != nil {
		return true // gone
	}
	for _, line := range strings.Split(string(b), "\n") {
		if strings.HasPrefix(line, "State:") && (strings.Contains(line, "Z") || strings.Contains(line, "X")) {
			return true
		}
		if strings.HasPrefix(line, "SigPnd:") || strings.HasPrefix(line, "ShdPnd:") {
			f := strings.Fields(line)
			if len(f) == 2 {
				if v, err := strconv.ParseUint(f[1], 16, 64); err == nil && v&(1<<(uint(syscall.SIGKILL)-1)) != 0 {
					return true
				}
			}
		}
	}
	return false
}

func describe(pid int) string {
	b, _ := os.ReadFile(fmt.Sprintf("/proc/%d/cmdline", pid))
	return fmt.Sprintf("%d[%s]", pid, strings.TrimSpace(strings.ReplaceAll(string(b), "\x00", " ")))
}

func killMarked(marker string) {
	for i := 0; i < 5; i++ {
		pids := marked(marker)
		if len(pids) == 0 {
			return
		}
		for _, p := range pids {
			syscall.Kill(p, syscall.SIGKILL)
		}
		time.Sleep(20 * time.Millisecond)
	}
}

// slowMachine measures how late a short sleep wakes up and how long spawning a trivial process takes.
func slowMachine() (bool, string) {
	t0 := time.Now()
	time.Sleep(20 * time.Millisecond)
	over := time.Since(t0) - 20*time.Millisecond
	t1 := time.Now()
	exec.Command("/bin/true").Run()
	spawn := time.Since(t1)
	if over > 300*time.Millisecond || spawn > 1500*time.Millisecond {
		return true, fmt.Sprintf("sleep overshoot %v, spawning /bin/true took %v", over, spawn)
	}
	return false, ""
}

type outcome struct {
	fail   error  // violation
	incon  string // environment prevented a verdict
	normal bool   // the call returned through the command's own exit
}

const killBound = 1030 * time.Millisecond // 30 ms after TERM + 1 s after KILL, as coded in killProcess
const slack = 3 * time.Second

// runScript executes one script and judges it. attempt>0 marks the confirmation run of a timing finding.
func runScript(s Script, attempt int) outcome {
	marker := markPrefix + strconv.FormatInt(markerSeq.Add(1), 10)
	defer killMarked(marker)
	timeout := time.Duration(s.TimeoutMs) * time.Millisecond
	env := []string{"VERIF_MARK=" + marker, "PATH=/usr/local/bin:/usr/bin:/bin"}
	t0 := time.Now()
	out, _, err := theExecutor().ExecWithTimeoutShell(target{}, "", env, timeout, false, false, process.NoSandbox, s.text())
	elapsed := time.Since(t0)
	deadline := errors.Is(err, context.DeadlineExceeded)
	var exitErr *exec.ExitError
	isExit := errors.As(err, &exitErr)
	res := outcome{normal: !deadline}

	timing := func(class, msg string) outcome {
		if slow, why := slowMachine(); slow {
			return outcome{incon: "machine too slow for a timing verdict: " + why}
		}
		if attempt == 0 {
			again := runScript(s, 1)
			if again.fail == nil {
				if again.incon != "" {
					return again
				}
				return outcome{incon: "timing bound exceeded once but not when repeated (" + msg + ")"}
			}
			return again
		}
		return outcome{fail: lib.Failf(class, "%s\nscript (timeout %v):\n%s", msg, timeout, s.text())}
	}

	switch s.Parent {
	case "long", "busy", "wait":
		// must be stopped by the timeout
		if !deadline {
			if elapsed < 25*time.Second {
				return outcome{fail: lib.Failf("timeout-not-reported", "the script runs for 30 s but the call returned %v after %v instead of context.DeadlineExceeded\nscript (timeout %v):\n%s", err, elapsed, timeout, s.text())}
			}
			return outcome{fail: lib.Failf("timeout-not-enforced", "timeout %v but the call only returned after %v (%v)\nscript:\n%s", timeout, elapsed, err, s.text())}
		}
		if elapsed < timeout {
			return outcome{fail: lib.Failf("early-timeout", "reported DeadlineExceeded after %v, before the timeout %v", elapsed, timeout)}
		}
		if elapsed > timeout+killBound+slack {
			return timing("late-return", fmt.Sprintf("timeout %v but the call returned after %v (bound %v)", timeout, elapsed, timeout+killBound+slack))
		}
	case "quick", "fail":
		if !s.holdsPipes() {
			if deadline {
				return timing("spurious-timeout", fmt.Sprintf("the script exits at once but the call reported DeadlineExceeded after %v", elapsed))
			}
			if s.Parent == "quick" && err != nil {
				return outcome{fail: lib.Failf("wrong-result", "script `echo done` with redirected background children returned %v\nscript:\n%s", err, s.text())}
			}
			if s.Parent == "fail" && (!isExit || exitErr.ExitCode() != 3) {
				return outcome{fail: lib.Failf("wrong-result", "script exits with status 3 but the call returned %v\nscript:\n%s", err, s.text())}
			}
		} else if deadline && elapsed < timeout {
			return outcome{fail: lib.Failf("early-timeout", "reported DeadlineExceeded after %v, before the timeout %v", elapsed, timeout)}
		} else if elapsed > timeout+killBound+slack {
			return timing("late-return", fmt.Sprintf("timeout %v but the call returned after %v", timeout, elapsed))
		}
		want := "done\n"
		if s.Parent == "fail" {
			want = "oops\n"
		}
		if !deadline && !bytes.Contains(out, []byte(want)) { // (a timed-out script may not have got as far as echo)
			return outcome{fail: lib.Failf("output-lost", "stdout %q lacks %q\nscript:\n%s", out, want, s.text())}
		}
	case "deadline":
		if deadline && elapsed < timeout {
			return outcome{fail: lib.Failf("early-timeout", "reported DeadlineExceeded after %v, before the timeout %v", elapsed, timeout)}
		}
		if elapsed > timeout+killBound+slack {
			return timing("late-return", fmt.Sprintf("timeout %v but the call returned after %v", timeout, elapsed))
		}
	}

	// (b) nothing of the action survives its being reported finished
	start := time.Now()
	wait := 10 * time.Millisecond
	for {
		pids := marked(marker)
		if len(pids) == 0 {
			break
		}
		since := time.Since(start)
		if since > time.Second {
			var alive []string
			for _, p := range pids {
				if !dying(p) {
					alive = append(alive, describe(p))
				}
			}
			if len(alive) > 0 {
				// make sure they are not just about to vanish: look once more
				time.Sleep(200 * time.Millisecond)
				still := 0
				for _, p := range marked(marker) {
					if !dying(p) {
						still++
					}
				}
				if still > 0 {
					class, how := "survivor-after-timeout", "was reported timed out"
					if res.normal {
						class, how = "survivor-after-normal-exit", fmt.Sprintf("was reported finished (%v)", err)
					}
					return outcome{normal: res.normal, fail: lib.Failf(class, "%d process(es) of the action are still running %v after it %s: %s\nscript (timeout %v):\n%s",
						len(alive), since.Round(time.Millisecond), how, strings.Join(alive, ", "), timeout, s.text())}
				}
			}
			if since > 15*time.Second {
				return outcome{incon: "processes with SIGKILL pending did not disappear within 15 s"}
			}
		}
		time.Sleep(wait)
		if wait < 200*time.Millisecond {
			wait *= 2
		}
	}
	return res
}

func (s Script) nontrivial() bool {
	if len(s.Children) == 0 {
		return false
	}
	ign := s.IgnoreTerm
	for _, c := range s.Children {
		ign = ign || c.Kind == "ignoreterm"
	}
	return ign || s.Parent == "quick" || s.Parent == "fail" || s.Parent == "deadline"
}

func run(c Case, o *lib.Obs) error {
	if len(c.Scripts) == 0 || len(c.Scripts) > 8 {
		return nil
	}
	for _, s := range c.Scripts {
		if s.TimeoutMs < 1 || s.TimeoutMs > 20000 {
			return nil
		}
	}
	results := make([]outcome, len(c.Scripts))
	var wg sync.WaitGroup
	for i, s := range c.Scripts {
		wg.Add(1)
		go func(i int, s Script) {
			defer wg.Done()
			results[i] = runScript(s, 0)
		}(i, s)
	}
	wg.Wait()
	nt := false
	seen := map[string]bool{}
	label := func(cond bool, l string) { // once per case: fractions are "cases with at least one such script"
		if cond && !seen[l] {
			seen[l] = true
			o.Label(l)
		}
	}
	for i, s := range c.Scripts {
		label(true, "parent_"+s.Parent)
		label(s.IgnoreTerm, "parent_ignores_term")
		label(len(s.Children) > 0, "background_child")
		label(s.holdsPipes(), "child_holds_pipes")
		for _, ch := range s.Children {
			label(true, "child_"+ch.Kind)
		}
		label(results[i].normal, "returned_by_exit")
		label(!results[i].normal, "returned_by_timeout")
		nt = nt || s.nontrivial()
	}
	o.NonTrivial(nt)
	lib.Rec(spec).AddExtra("scripts_run", int64(len(c.Scripts)))
	for _, r := range results {
		if r.fail != nil {
			return r.fail
		}
	}
	for _, r := range results {
		if r.incon != "" {
			return &lib.Inconclusive{Msg: r.incon}
		}
	}
	return nil
}

func TestMain(m *testing.M) {
	code := m.Run()
	killMarked(markPrefix)
	lib.Flush()
	os.Exit(code)
}

func TestC30(t *testing.T) {
	defer killMarked(markPrefix)
	lib.Check(t, spec, lib.Scale(40, 600), gen, run)
}
