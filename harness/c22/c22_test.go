// C22: `//dir/...` expands to exactly the packages under dir.
//
// Differential: plz.FindAllBuildFiles (what `//dir/...` uses to find packages), run from the
// repository root like plz does, against a reference walker that matches blacklist / experimental
// entries as whole path components.
package c22

import (
	"fmt"
	"os"
	"runtime"
	"sort"
	"strings"
	"testing"

	"github.com/thought-machine/please/src/core"
	"github.com/thought-machine/please/src/plz"
	logging "gopkg.in/op/go-logging.v1"
	"pgregory.net/rapid"

	"verifharness/lib"
)

func TestMain(m *testing.M) {
	logging.SetBackend(fatalTrap{})
	lib.Main(m)
}

// fatalTrap is the logging backend of the test process: FindAllBuildFiles reports a failed walk
// with log.Fatalf from its own goroutine, which would end the whole test process. The trap hands
// the message to the running case and ends only that goroutine (Fatalf's os.Exit is never reached).
type fatalTrap struct{}

var fatalCh = make(chan string, 16)

func (fatalTrap) Log(level logging.Level, depth int, rec *logging.Record) error {
	if level == logging.CRITICAL {
		fatalCh <- rec.Message()
		runtime.Goexit()
	}
	return nil
}

var spec = lib.Spec{
	ID: "C22",
	Rule: "repository trees (depth<=3) with BUILD / BUILD.plz files at several depths, plz-out, hidden directories, symlinks, and directory AND file names that share string prefixes with the configured entries (out/output/outer/out.txt, exp/experimental, a/b vs a/bc, node/node_modules); " +
		"0-2 blacklistdirs entries (bare names and root-relative paths) and 0-1 experimentaldir entries drawn from the same names; walk root = repo root or a sub-directory that is not itself excluded. " +
		"Oracle: reference walker: a directory is skipped iff it is called plz-out, is hidden, its base name equals a slash-free blacklist entry, or its root-relative path equals a blacklist / experimental entry; every non-directory called BUILD or BUILD.plz in a directory that is not skipped is expected; compared as sets of file paths. " +
		"Non-trivial = some directory or file name in the tree has a blacklist entry as a proper string prefix (and is not itself excluded by the reference); distinct = JSON of the case",
	Assumptions: []string{
		"blacklist entries name directories, either by base name (any depth) or by path from the repo root — both readings the code implements for exact names; entries have no trailing slash",
		"the walk root is never an experimental directory or a directory excluded by name (what //experimental/... should yield is not documented); roots strictly below a blacklist entry given in path form are generated and must yield nothing (the code has an explicit clause for it)",
	},
}

type walkCase struct {
	Tree         *lib.Node
	Root         string   `json:",omitempty"` // "" = repo root
	Blacklist    []string `json:",omitempty"`
	Experimental []string `json:",omitempty"`
}

func isBuildName(n string) bool { return n == "BUILD" || n == "BUILD.plz" }

func skipped(c walkCase, rel, base string) bool {
	if base == "plz-out" || strings.HasPrefix(base, ".") {
		return true
	}
	for _, b := range c.Blacklist {
		if (!strings.Contains(b, "/") && base == b) || rel == b || strings.HasPrefix(rel, b+"/") {
			// the last clause: an entry names a directory; everything beneath it is excluded too, also
			// when the expansion starts inside it (the walk then never meets the entry itself)
			return true
		}
	}
	for _, e := range c.Experimental {
		if rel == e {
			return true
		}
	}
	return false
}

func find(n *lib.Node, rel string) *lib.Node {
	if rel == "" {
		return n
	}
	for _, seg := range strings.Split(rel, "/") {
		var next *lib.Node
		for _, c := range n.Children {
			if c.Name == seg {
				next = c
			}
		}
		if next == nil {
			return nil
		}
		n = next
	}
	return n
}

func reference(c walkCase) []string {
	var out []string
	var rec func(d *lib.Node, rel string)
	rec = func(d *lib.Node, rel string) {
		for _, ch := range d.Children {
			p := ch.Name
			if rel != "" {
				p = rel + "/" + ch.Name
			}
			if ch.Dir {
				if !skipped(c, p, ch.Name) {
					rec(ch, p)
				}
				continue
			}
			if isBuildName(ch.Name) {
				out = append(out, p)
			}
		}
	}
	for _, b := range c.Blacklist {
		if strings.HasPrefix(c.Root, b+"/") {
			return nil // the walk starts inside a blacklisted directory
		}
	}
	rec(find(c.Tree, c.Root), c.Root)
	sort.Strings(out)
	return out
}

// prefixTrap reports whether some entry that the reference does not exclude has a blacklist entry as a proper prefix.
func prefixTrap(c walkCase) (trap bool, fileTrap bool) {
	var rec func(d *lib.Node, rel string)
	rec = func(d *lib.Node, rel string) {
		for _, ch := range d.Children {
			p := ch.Name
			if rel != "" {
				p = rel + "/" + ch.Name
			}
			if ch.Dir && skipped(c, p, ch.Name) {
				continue
			}
			for _, b := range c.Blacklist {
				if (strings.HasPrefix(p, b) && p != b) || (strings.HasPrefix(ch.Name, b) && ch.Name != b) {
					trap = true
					if !ch.Dir {
						fileTrap = true
					}
				}
				if !ch.Dir && (ch.Name == b || p == b) {
					trap, fileTrap = true, true
				}
			}
			if ch.Dir {
				rec(ch, p)
			}
		}
	}
	rec(find(c.Tree, c.Root), c.Root)
	return
}

func run(c walkCase, o *lib.Obs) error {
	if c.Tree == nil || find(c.Tree, c.Root) == nil {
		return nil
	}
	scratch, cleanup := lib.Scratch("c22-")
	defer cleanup()
	if err := lib.Materialize(c.Tree, scratch); err != nil {
		return &lib.Inconclusive{Msg: "materialise: " + err.Error()}
	}
	if err := os.Chdir(scratch); err != nil {
		return &lib.Inconclusive{Msg: err.Error()}
	}
	defer os.Chdir("/")
	want := reference(c)
	trap, fileTrap := prefixTrap(c)
	o.LabelIf(c.Root == "", "from_repo_root")
	o.LabelIf(len(c.Blacklist) > 0, "has_blacklist")
	o.LabelIf(len(c.Experimental) > 0, "has_experimental")
	o.LabelIf(len(want) > 0, "finds_packages")
	o.LabelIf(trap, "prefix_trap")
	o.LabelIf(fileTrap, "file_named_like_blacklist_entry")
	o.NonTrivial(trap)

	config := core.DefaultConfiguration()
	config.Parse.BuildFileName = []string{"BUILD", "BUILD.plz"}
	config.Parse.BlacklistDirs = c.Blacklist
	config.Parse.ExperimentalDir = c.Experimental
	var got []string
	desc := fmt.Sprintf("FindAllBuildFiles(root=%q, blacklist=%q, experimental=%q)", c.Root, c.Blacklist, c.Experimental)
	for ch := plz.FindAllBuildFiles(config, c.Root, ""); ch != nil; {
		select {
		case f, ok := <-ch:
			if !ok {
				ch = nil
			} else {
				got = append(got, f)
			}
		case msg := <-fatalCh:
			return lib.Failf("fatal", "%s ended plz with a fatal error: %s", desc, msg)
		}
	}
	sort.Strings(got)
	gs, ws := map[string]bool{}, map[string]bool{}
	for _, g := range got {
		gs[g] = true
	}
	for _, w := range want {
		ws[w] = true
	}
	var extra, missing []string
	for _, g := range got {
		if !ws[g] {
			extra = append(extra, g)
		}
	}
	for _, w := range want {
		if !gs[w] {
			missing = append(missing, w)
		}
	}
	if len(missing) > 0 {
		return lib.Failf("package-hidden", "%s did not find %q (found %q)", desc, missing, got)
	}
	if len(extra) > 0 {
		return lib.Failf("package-not-excluded", "%s returned %q which should be excluded (reference %q)", desc, extra, want)
	}
	return nil
}

// ---- generator ---------------------------------------------------------------------------------

var dirNames = []string{"out", "output", "outer", "exp", "experimental", "a", "b", "bc", "ab", "node", "node_modules", "third_party", ".git", ".hid", "x y", "src"}
var fileNames = []string{"out.txt", "output", "out", "exp.go", "a.go", "node.js", "bc", "b", "README", "z.txt", "aBUILD", "BUILD.bazel", ".plzconfig"}
var entries = []string{"out", "exp", "a", "b", "node", "node_modules", "third_party", "a/b", "src/out", "experimental", "a/out", "x y"}

func genDir(t *rapid.T, name string, depth int, isRoot bool) *lib.Node {
	d := &lib.Node{Name: name, Dir: true}
	used := map[string]bool{}
	add := func(n *lib.Node) {
		if !used[n.Name] {
			used[n.Name] = true
			d.Children = append(d.Children, n)
		}
	}
	switch rapid.IntRange(0, 4).Draw(t, "build") {
	case 0, 1:
		add(&lib.Node{Name: "BUILD", Content: "# build"})
	case 2:
		add(&lib.Node{Name: "BUILD.plz", Content: "# build"})
	}
	nf := rapid.IntRange(0, 3).Draw(t, "nfiles")
	for i := 0; i < nf; i++ {
		nm := rapid.SampledFrom(fileNames).Draw(t, "fname")
		if rapid.IntRange(0, 9).Draw(t, "aslink") == 0 {
			add(&lib.Node{Name: nm, Link: true, Target: rapid.SampledFrom([]string{"a", "out", "nonexistent", "."}).Draw(t, "target")})
		} else {
			add(&lib.Node{Name: nm, Content: "x"})
		}
	}
	if depth > 0 {
		nd := rapid.IntRange(0, 4).Draw(t, "ndirs")
		for i := 0; i < nd; i++ {
			nm := rapid.SampledFrom(dirNames).Draw(t, "dname")
			if !used[nm] {
				add(genDir(t, nm, depth-1, false))
			}
		}
	}
	if isRoot && rapid.IntRange(0, 2).Draw(t, "plzout") == 0 {
		add(&lib.Node{Name: "plz-out", Dir: true, Children: []*lib.Node{{Name: "gen", Dir: true, Children: []*lib.Node{{Name: "BUILD", Content: "generated"}}}}})
	}
	sort.Slice(d.Children, func(i, j int) bool { return d.Children[i].Name < d.Children[j].Name })
	return d
}

func gen(t *rapid.T) walkCase {
	c := walkCase{Tree: genDir(t, "repo", rapid.IntRange(1, 3).Draw(t, "depth"), true)}
	nb := rapid.IntRange(0, 2).Draw(t, "nblacklist")
	for i := 0; i < nb; i++ {
		c.Blacklist = append(c.Blacklist, rapid.SampledFrom(entries).Draw(t, "blacklist"))
	}
	if rapid.IntRange(0, 2).Draw(t, "nexperimental") == 0 {
		c.Experimental = append(c.Experimental, rapid.SampledFrom([]string{"exp", "experimental", "a/exp", "src"}).Draw(t, "experimental"))
	}
	if rapid.IntRange(0, 2).Draw(t, "subroot") == 0 {
		// a walk root that is not itself excluded
		var dirs []string
		var rec func(d *lib.Node, rel string)
		rec = func(d *lib.Node, rel string) {
			for _, ch := range d.Children {
				if !ch.Dir {
					continue
				}
				p := ch.Name
				if rel != "" {
					p = rel + "/" + ch.Name
				}
				if skipped(c, p, ch.Name) {
					continue
				}
				dirs = append(dirs, p)
				rec(ch, p)
			}
		}
		rec(c.Tree, "")
		// also: a walk root strictly below a blacklisted directory given in path form (expected: nothing)
		var below []string
		var rec2 func(d *lib.Node, rel string)
		rec2 = func(d *lib.Node, rel string) {
			for _, ch := range d.Children {
				if !ch.Dir || ch.Name == "plz-out" || strings.HasPrefix(ch.Name, ".") {
					continue
				}
				p := ch.Name
				if rel != "" {
					p = rel + "/" + ch.Name
				}
				for _, b := range c.Blacklist {
					if strings.HasPrefix(p, b+"/") {
						below = append(below, p)
					}
				}
				rec2(ch, p)
			}
		}
		rec2(c.Tree, "")
		if len(below) > 0 && rapid.Bool().Draw(t, "root_below_blacklisted") {
			c.Root = rapid.SampledFrom(below).Draw(t, "root")
		} else if len(dirs) > 0 {
			c.Root = rapid.SampledFrom(dirs).Draw(t, "root")
		}
	}
	return c
}

func TestC22(t *testing.T) {
	defer os.Chdir("/")
	lib.Check(t, spec, lib.Scale(6000, 200000), gen, run)
}
