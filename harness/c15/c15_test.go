// C15: the concurrent awaitable map (src/cmap) is linearizable and never loses a wake-up.
//
// A case is a small concurrent program (2-4 goroutines x 3-8 operations over <= 3 keys). It is executed
// many times on real goroutines (start barrier, drawn Gosched/spin delays between operations and inside
// the callbacks); every execution records a call/return history stamped by a global atomic counter,
// which porcupine checks against a sequential model. Wake-up invariants are read from the same trace.
package c15

import (
	"fmt"
	"os"
	"runtime"
	"sort"
	"strings"
	"sync"
	"sync/atomic"
	"testing"
	"time"

	"github.com/anishathalye/porcupine"
	"github.com/thought-machine/please/src/cmap"
	"pgregory.net/rapid"

	"verifharness/lib"
)

func TestMain(m *testing.M) { lib.Main(m) }

var spec = lib.Spec{
	ID: "C15",
	Rule: "concurrent programs of 2-4 goroutines x 3-8 operations over <= 3 keys, shard count 1 or 4, from {Add, AddOrGet, Set, Get, GetOrWait (+ waiter goroutine that does Get after the wake-up), Contains, Values} on cmap.Map, " +
		"or {GetOrSet with a function that may fail} on cmap.ErrMap (with a counting Limiter); drawn Gosched/spin delays before operations and inside callbacks; each program executed 10x (quick) on real goroutines released by a barrier. " +
		"Oracle: porcupine linearizability check of the recorded call/return history (global atomic counter) against a sequential per-key model absent|touched|pending|value; " +
		"wake-up invariants (channel closed iff an insert on its key happened, observed wake-up implies value present, GetOrSet function runs at most once per key, a blocked GetOrSet returns once the computing call returned). " +
		"Non-trivial = some execution had >= 2 overlapping operations on one key and >= 1 waiter (a GetOrWait that received a channel / a GetOrSet that released the limiter); distinct = program text",
	Assumptions: []string{
		"interleavings are sampled by the Go scheduler and the kernel (no call-site hooks in cmap), not enumerated",
		"Contains is only constrained when a value is present (true) or the key was never touched (false); its result while only a waiter is registered is undocumented",
		"the `first` result of GetOrWait is not constrained after a bare Get on an absent key (Get registers a placeholder; undocumented)",
		"Values is checked per key (each shard is read atomically; no cross-shard snapshot is promised)",
		"ErrMap is driven through GetOrSet only, as the property states (ErrMap.Get on an untouched key registers a placeholder nobody completes)",
	},
}

// ---- case ---------------------------------------------------------------------------------------

type Op struct {
	Kind string // Add AddOrGet Set Get GetOrWait Contains Values | GetOrSet
	Key  int
	Val  int  `json:",omitempty"` // value written (unique per operation, never 0)
	Err  bool `json:",omitempty"` // GetOrSet: the function fails
	Wait bool `json:",omitempty"` // GetOrWait: a waiter goroutine blocks on the channel and Gets after the wake-up
	Pre  int  `json:",omitempty"` // delay before the call: 0 none, 1 Gosched, n>1 spin
	In   int  `json:",omitempty"` // delay inside the callback
}

type Case struct {
	ErrMap bool `json:",omitempty"`
	Shards int
	Keys   int
	Procs  [][]Op
	Runs   int
}

var delays = []int{0, 0, 0, 0, 1, 1, 2, 3, 5, 10, 40}

func gen(t *rapid.T) Case {
	c := Case{Runs: 10}
	c.ErrMap = rapid.IntRange(0, 3).Draw(t, "errmap") == 0
	c.Shards = rapid.SampledFrom([]int{1, 4}).Draw(t, "shards")
	c.Keys = rapid.IntRange(1, 3).Draw(t, "keys")
	ng := rapid.IntRange(2, 4).Draw(t, "goroutines")
	kinds := []string{"Add", "AddOrGet", "Set", "Get", "GetOrWait", "GetOrWait", "Contains", "Values"}
	for g := 0; g < ng; g++ {
		n := rapid.IntRange(3, 8).Draw(t, "ops")
		if c.ErrMap {
			n = rapid.IntRange(1, 4).Draw(t, "eops")
		}
		var p []Op
		for i := 0; i < n; i++ {
			op := Op{Key: rapid.IntRange(0, c.Keys-1).Draw(t, "key"), Val: 1 + g*16 + i, Pre: rapid.SampledFrom(delays).Draw(t, "pre")}
			if c.ErrMap {
				op.Kind = "GetOrSet"
				op.Err = rapid.IntRange(0, 3).Draw(t, "fail") == 0
				op.In = rapid.SampledFrom(delays).Draw(t, "in")
			} else {
				op.Kind = rapid.SampledFrom(kinds).Draw(t, "kind")
				switch op.Kind {
				case "AddOrGet":
					op.In = rapid.SampledFrom(delays).Draw(t, "in")
				case "GetOrWait":
					op.Wait = rapid.IntRange(0, 3).Draw(t, "wait") != 0
				case "Values":
					op.Key = 0
				}
				if op.Kind == "Get" || op.Kind == "GetOrWait" || op.Kind == "Contains" || op.Kind == "Values" {
					op.Val = 0
				}
			}
			p = append(p, op)
		}
		c.Procs = append(c.Procs, p)
	}
	return c
}

// ---- execution ----------------------------------------------------------------------------------

var sink atomic.Int64

func delay(n int) {
	switch {
	case n <= 0:
	case n == 1:
		runtime.Gosched()
	default:
		for i := 0; i < (n-1)*40; i++ {
			sink.Add(1)
		}
	}
}

// in/out are the porcupine inputs/outputs; they are comparable values.
type in struct {
	kind string
	key  int
	val  int
	err  bool
}

type out struct {
	val     int
	ok      bool // Add: inserted; AddOrGet: inserted; GetOrWait: first; Contains: result; Values: present; GetOrSet: function ran
	hasWait bool
	err     bool
}

type rec struct {
	client    int
	in        in
	out       out
	call, ret int64
}

type errLimiter struct{ acq, rel atomic.Int64 }

func (l *errLimiter) Acquire() { l.acq.Add(1) }
func (l *errLimiter) Release() { l.rel.Add(1) }

var errBoom = fmt.Errorf("boom")

type runResult struct {
	hist        []rec
	waiters     int   // channels handed out / limiter releases
	fail        error // violation found outside porcupine
	inconcl     string
	overlapping bool
}

const (
	stNotStarted = iota
	stInCall
	stReturned
)

func execute(c Case) runResult {
	if c.ErrMap {
		return executeErrMap(c)
	}
	return executeMap(c)
}

// barrier releases the goroutines of one execution together: they park on a channel (no CPU is burnt
// while the machine is busy), and once woken spin briefly until all of them are running.
func barrier(ready *sync.WaitGroup, start chan struct{}, arrived *atomic.Int32, n int) {
	ready.Done()
	<-start
	arrived.Add(1)
	for i := 0; i < 100000 && int(arrived.Load()) < n; i++ {
	}
}

func hasher(k int) uint64 { return uint64(k) }

type waitCh struct {
	key int
	ch  <-chan struct{}
}

func executeMap(c Case) runResult {
	var res runResult
	m := cmap.New[int, int](uint64(c.Shards), hasher)
	var clock atomic.Int64
	var wg, wwg sync.WaitGroup
	start := make(chan struct{})
	var arrived atomic.Int32
	done := make(chan struct{})
	hists := make([][]rec, len(c.Procs))
	chans := make([][]waitCh, len(c.Procs))
	var wmu sync.Mutex
	var whist []rec
	var extra []string
	nextClient := atomic.Int64{}
	nextClient.Store(int64(len(c.Procs)))
	valKey := map[int]int{}
	for _, p := range c.Procs {
		for _, op := range p {
			if op.Val != 0 {
				valKey[op.Val] = op.Key
			}
		}
	}
	var ready sync.WaitGroup
	for g := range c.Procs {
		wg.Add(1)
		ready.Add(1)
		go func(g int) {
			defer wg.Done()
			barrier(&ready, start, &arrived, len(c.Procs))
			var h []rec
			for _, op := range c.Procs[g] {
				delay(op.Pre)
				r := rec{client: g, in: in{kind: op.Kind, key: op.Key, val: op.Val}}
				switch op.Kind {
				case "Add":
					r.call = clock.Add(1)
					r.out.ok = m.Add(op.Key, op.Val)
					r.ret = clock.Add(1)
				case "AddOrGet":
					calls := 0
					r.call = clock.Add(1)
					v, ins := m.AddOrGet(op.Key, func() int { calls++; delay(op.In); return op.Val })
					r.ret = clock.Add(1)
					r.out.val, r.out.ok = v, ins
					if (calls == 1) != ins || calls > 1 {
						wmu.Lock()
						extra = append(extra, fmt.Sprintf("AddOrGet(k%d) inserted=%v but the constructor ran %d time(s)", op.Key, ins, calls))
						wmu.Unlock()
					}
				case "Set":
					r.call = clock.Add(1)
					m.Set(op.Key, op.Val)
					r.ret = clock.Add(1)
				case "Get":
					r.call = clock.Add(1)
					r.out.val = m.Get(op.Key)
					r.ret = clock.Add(1)
				case "Contains":
					r.call = clock.Add(1)
					r.out.ok = m.Contains(op.Key)
					r.ret = clock.Add(1)
				case "GetOrWait":
					r.call = clock.Add(1)
					v, ch, first := m.GetOrWait(op.Key)
					r.ret = clock.Add(1)
					r.out.val, r.out.hasWait, r.out.ok = v, ch != nil, first
					if ch != nil {
						chans[g] = append(chans[g], waitCh{op.Key, ch})
						if op.Wait {
							wwg.Add(1)
							client := int(nextClient.Add(1) - 1)
							go func(key int) {
								defer wwg.Done()
								select {
								case <-ch:
								case <-done:
									select {
									case <-ch:
									default:
										return
									}
								}
								w := rec{client: client, in: in{kind: "Woken", key: key}}
								w.call = clock.Add(1)
								w.ret = clock.Add(1)
								gr := rec{client: client, in: in{kind: "Get", key: key}}
								gr.call = clock.Add(1)
								gr.out.val = m.Get(key)
								gr.ret = clock.Add(1)
								wmu.Lock()
								whist = append(whist, w, gr)
								wmu.Unlock()
							}(op.Key)
						}
					}
				case "Values":
					r.call = clock.Add(1)
					vs := m.Values()
					r.ret = clock.Add(1)
					seen := map[int]int{}
					for _, v := range vs {
						k, known := valKey[v]
						if !known {
							wmu.Lock()
							extra = append(extra, fmt.Sprintf("Values() returned %d which no operation ever wrote", v))
							wmu.Unlock()
							continue
						}
						if prev, dup := seen[k]; dup {
							wmu.Lock()
							extra = append(extra, fmt.Sprintf("Values() returned two values (%d and %d) for key k%d", prev, v, k))
							wmu.Unlock()
						}
						seen[k] = v
					}
					for k := 0; k < c.Keys; k++ {
						o := r
						o.in = in{kind: "ValuesObs", key: k}
						o.out = out{}
						if v, ok := seen[k]; ok {
							o.out = out{val: v, ok: true}
						}
						h = append(h, o)
					}
					continue
				}
				h = append(h, r)
			}
			hists[g] = h
		}(g)
	}
	ready.Wait()
	close(start)
	wg.Wait()
	// Wake-up invariants, decided without any timing: every operation has returned, so a channel is
	// closed by now iff an insert on its key happened.
	inserted := map[int]bool{}
	for _, h := range hists {
		for _, r := range h {
			switch r.in.kind {
			case "Set":
				inserted[r.in.key] = true
			case "Add", "AddOrGet":
				if r.out.ok {
					inserted[r.in.key] = true
				}
			}
		}
	}
	for g := range chans {
		for _, w := range chans[g] {
			res.waiters++
			closed := false
			select {
			case <-w.ch:
				closed = true
			default:
			}
			if inserted[w.key] && !closed {
				extra = append(extra, fmt.Sprintf("lost wake-up: a channel handed out by GetOrWait(k%d) to goroutine %d is still open after an insert of k%d returned", w.key, g, w.key))
			}
			if !inserted[w.key] && closed {
				extra = append(extra, fmt.Sprintf("spurious wake-up: the channel of GetOrWait(k%d) is closed although k%d was never added", w.key, w.key))
			}
		}
	}
	close(done)
	wwg.Wait()
	for _, h := range hists {
		res.hist = append(res.hist, h...)
	}
	res.hist = append(res.hist, whist...)
	if len(extra) > 0 {
		sort.Strings(extra)
		cls := "wakeup"
		if !strings.Contains(extra[0], "wake-up") {
			cls = "callback"
			if strings.Contains(extra[0], "Values") {
				cls = "values"
			}
		}
		res.fail = lib.Failf(cls, "%s\nhistory:\n%s", strings.Join(extra, "; "), dump(res.hist))
	}
	return res
}

func executeErrMap(c Case) runResult {
	var res runResult
	lim := &errLimiter{}
	m := cmap.NewErrMap[int, int](uint64(c.Shards), hasher, lim)
	var clock atomic.Int64
	var wg, ready sync.WaitGroup
	start := make(chan struct{})
	var arrived atomic.Int32
	hists := make([][]rec, len(c.Procs))
	type opState struct {
		st  atomic.Int32
		ran atomic.Bool
	}
	states := make([][]opState, len(c.Procs))
	for g := range c.Procs {
		states[g] = make([]opState, len(c.Procs[g]))
	}
	var hmu sync.Mutex
	for g := range c.Procs {
		wg.Add(1)
		ready.Add(1)
		go func(g int) {
			defer wg.Done()
			barrier(&ready, start, &arrived, len(c.Procs))
			for i, op := range c.Procs[g] {
				delay(op.Pre)
				r := rec{client: g, in: in{kind: "GetOrSet", key: op.Key, val: op.Val, err: op.Err}}
				calls := 0
				states[g][i].st.Store(stInCall)
				r.call = clock.Add(1)
				v, err := m.GetOrSet(op.Key, func() (int, error) {
					calls++
					states[g][i].ran.Store(true)
					delay(op.In)
					if op.Err {
						return op.Val, errBoom
					}
					return op.Val, nil
				})
				r.ret = clock.Add(1)
				states[g][i].st.Store(stReturned)
				r.out = out{val: v, err: err != nil, ok: calls > 0}
				if calls > 1 {
					r.out.val = -calls // impossible value: makes the model reject it
				}
				hmu.Lock()
				hists[g] = append(hists[g], r)
				hmu.Unlock()
			}
		}(g)
	}
	ready.Wait()
	close(start)
	finished := make(chan struct{})
	go func() { wg.Wait(); close(finished) }()
	// GetOrSet blocks while another caller computes. A lost wake-up shows as a call that never returns;
	// the criterion is logical (the computing call on that key has returned, or no call computes at all,
	// and the blocked call is still blocked a long time later), the clock only bounds the waiting.
	hang := ""
	select {
	case <-finished:
	case <-time.After(8 * time.Second):
		select {
		case <-finished:
		case <-time.After(4 * time.Second):
			hang = describeHang(c, func(g, i int) (int32, bool) { return states[g][i].st.Load(), states[g][i].ran.Load() })
		}
	}
	hmu.Lock()
	for _, h := range hists {
		res.hist = append(res.hist, h...)
	}
	hmu.Unlock()
	res.waiters = int(lim.rel.Load())
	if hang != "" {
		if strings.HasPrefix(hang, "inconclusive") {
			res.inconcl = hang
		} else {
			res.fail = lib.Failf("lost-wakeup-getorset", "%s\nhistory of returned calls:\n%s", hang, dump(res.hist))
		}
		return res
	}
	if a, r := lim.acq.Load(), lim.rel.Load(); a != r {
		res.fail = lib.Failf("limiter", "limiter released %d times but re-acquired %d times", r, a)
	}
	return res
}

// describeHang classifies a set of GetOrSet calls that did not finish in 12 s.
func describeHang(c Case, st func(g, i int) (int32, bool)) string {
	type ks struct{ blocked, running, ranReturned, notStarted int }
	per := map[int]*ks{}
	for g, p := range c.Procs {
		seenBlocked := false
		for i, op := range p {
			k := per[op.Key]
			if k == nil {
				k = &ks{}
				per[op.Key] = k
			}
			s, ran := st(g, i)
			switch {
			case s == stReturned && ran:
				k.ranReturned++
			case s == stInCall && ran:
				k.running++
			case s == stInCall:
				k.blocked++
				seenBlocked = true
			case s == stNotStarted && !seenBlocked:
				k.notStarted++
			}
		}
	}
	keys := []int{}
	for k := range per {
		keys = append(keys, k)
	}
	sort.Ints(keys)
	for _, key := range keys {
		k := per[key]
		if k.blocked > 0 && k.running == 0 && k.ranReturned > 0 {
			return fmt.Sprintf("%d GetOrSet(k%d) call(s) still blocked 12 s after the call that computed the value returned", k.blocked, key)
		}
	}
	for _, key := range keys {
		k := per[key]
		if k.blocked > 0 && k.running == 0 && k.ranReturned == 0 {
			// nobody computes: every caller that reached the key is waiting for someone else
			all := true
			for _, k2 := range per {
				if k2.running > 0 {
					all = false
				}
			}
			if all {
				return fmt.Sprintf("%d GetOrSet(k%d) call(s) blocked for 12 s although no call is computing the value", k.blocked, key)
			}
		}
	}
	return "inconclusive: program did not finish in 12 s but no call is provably stuck (slow machine?)"
}

// ---- sequential model ---------------------------------------------------------------------------

const (
	kAbsent  = iota // never touched
	kTouched        // a bare Get registered a placeholder; no GetOrWait yet
	kPending        // a GetOrWait handed out a channel
	kValue
)

type state struct {
	kind int
	val  int
	err  bool
}

func step(si, ii, oi interface{}) (bool, interface{}) {
	s, i, o := si.(state), ii.(in), oi.(out)
	switch i.kind {
	case "Add":
		if s.kind == kValue {
			return !o.ok, s
		}
		return o.ok, state{kind: kValue, val: i.val}
	case "AddOrGet":
		if s.kind == kValue {
			return !o.ok && o.val == s.val, s
		}
		return o.ok && o.val == i.val, state{kind: kValue, val: i.val}
	case "Set":
		return true, state{kind: kValue, val: i.val}
	case "Get":
		if s.kind == kValue {
			return o.val == s.val, s
		}
		if s.kind == kAbsent {
			s.kind = kTouched
		}
		return o.val == 0, s
	case "GetOrWait":
		switch s.kind {
		case kValue:
			return o.val == s.val && !o.hasWait && !o.ok, s
		case kAbsent:
			return o.val == 0 && o.hasWait && o.ok, state{kind: kPending}
		case kTouched:
			return o.val == 0 && o.hasWait, state{kind: kPending}
		default:
			return o.val == 0 && o.hasWait && !o.ok, s
		}
	case "Contains":
		switch s.kind {
		case kValue:
			return o.ok, s
		case kAbsent:
			return !o.ok, s
		}
		return true, s
	case "ValuesObs":
		if s.kind == kValue {
			return o.ok && o.val == s.val, s
		}
		return !o.ok, s
	case "Woken":
		return s.kind == kValue, s
	case "GetOrSet":
		if s.kind == kValue {
			return !o.ok && o.val == s.val && o.err == s.err, s
		}
		return o.ok && o.val == i.val && o.err == i.err, state{kind: kValue, val: i.val, err: i.err}
	}
	return false, s
}

var model = porcupine.Model{
	Partition: func(h []porcupine.Operation) [][]porcupine.Operation {
		byKey := map[int][]porcupine.Operation{}
		keys := []int{}
		for _, op := range h {
			k := op.Input.(in).key
			if _, ok := byKey[k]; !ok {
				keys = append(keys, k)
			}
			byKey[k] = append(byKey[k], op)
		}
		sort.Ints(keys)
		outp := make([][]porcupine.Operation, 0, len(keys))
		for _, k := range keys {
			outp = append(outp, byKey[k])
		}
		return outp
	},
	Init:  func() interface{} { return state{} },
	Step:  step,
	Equal: func(a, b interface{}) bool { return a.(state) == b.(state) },
}

func (r rec) String() string {
	i, o := r.in, r.out
	var s string
	switch i.kind {
	case "Add":
		s = fmt.Sprintf("Add(k%d,%d) -> %v", i.key, i.val, o.ok)
	case "AddOrGet":
		s = fmt.Sprintf("AddOrGet(k%d,%d) -> %d inserted=%v", i.key, i.val, o.val, o.ok)
	case "Set":
		s = fmt.Sprintf("Set(k%d,%d)", i.key, i.val)
	case "Get":
		s = fmt.Sprintf("Get(k%d) -> %d", i.key, o.val)
	case "GetOrWait":
		s = fmt.Sprintf("GetOrWait(k%d) -> %d wait=%v first=%v", i.key, o.val, o.hasWait, o.ok)
	case "Contains":
		s = fmt.Sprintf("Contains(k%d) -> %v", i.key, o.ok)
	case "ValuesObs":
		s = fmt.Sprintf("Values()[k%d] -> present=%v %d", i.key, o.ok, o.val)
	case "Woken":
		s = fmt.Sprintf("waiter on k%d observed its channel closed", i.key)
	case "GetOrSet":
		s = fmt.Sprintf("GetOrSet(k%d, f=%d err=%v) -> %d err=%v ranF=%v", i.key, i.val, i.err, o.val, o.err, o.ok)
	}
	return fmt.Sprintf("[%3d,%3d] g%d %s", r.call, r.ret, r.client, s)
}

func dump(h []rec) string {
	hs := append([]rec{}, h...)
	sort.Slice(hs, func(i, j int) bool { return hs[i].call < hs[j].call })
	var b strings.Builder
	for _, r := range hs {
		b.WriteString("  " + r.String() + "\n")
	}
	return b.String()
}

// overlap reports whether two operations on the same key overlapped in time.
func overlap(h []rec) bool {
	for i := range h {
		for j := i + 1; j < len(h); j++ {
			a, b := h[i], h[j]
			if a.client != b.client && a.in.key == b.in.key && a.call < b.ret && b.call < a.ret {
				return true
			}
		}
	}
	return false
}

var (
	orderMu sync.Mutex
	orders  = map[uint64]struct{}{}
)

func noteOrder(h []rec) {
	hs := append([]rec{}, h...)
	sort.Slice(hs, func(i, j int) bool { return hs[i].call < hs[j].call })
	var b strings.Builder
	for _, r := range hs {
		fmt.Fprintf(&b, "%d:%s:%d:%v;", r.client, r.in.kind, r.in.key, r.out)
	}
	hh := uint64(14695981039346656037)
	for _, ch := range []byte(b.String()) {
		hh = (hh ^ uint64(ch)) * 1099511628211
	}
	orderMu.Lock()
	orders[hh] = struct{}{}
	orderMu.Unlock()
}

func run(c Case, o *lib.Obs) error {
	if c.Shards != 1 && c.Shards != 4 || c.Keys < 1 || len(c.Procs) == 0 {
		return nil
	}
	runs := c.Runs
	if runs <= 0 {
		runs = 10
	}
	if os.Getenv("VERIF_REPLAY") != "" {
		runs *= 200 // a replay has to find the schedule again
	}
	o.LabelIf(c.ErrMap, "errmap")
	o.LabelIf(!c.ErrMap, "map")
	o.LabelIf(c.Shards == 1, "one_shard")
	nontrivial, sawWaiter, sawOverlap := false, false, false
	// A busy machine rarely runs the goroutines of one execution in parallel: keep executing (up to 4x)
	// until some execution had overlapping operations on a key. This only adds executions.
	for n := 0; n < runs || (!sawOverlap && n < 4*runs); n++ {
		res := execute(c)
		if res.inconcl != "" {
			return &lib.Inconclusive{Msg: res.inconcl}
		}
		if res.fail != nil {
			return res.fail
		}
		ops := make([]porcupine.Operation, len(res.hist))
		for i, r := range res.hist {
			ops[i] = porcupine.Operation{ClientId: r.client, Input: r.in, Output: r.out, Call: r.call, Return: r.ret}
		}
		if !porcupine.CheckOperations(model, ops) {
			return lib.Failf("not-linearizable", "history has no sequential explanation (shards=%d):\n%s", c.Shards, dump(res.hist))
		}
		ov := overlap(res.hist)
		sawOverlap = sawOverlap || ov
		sawWaiter = sawWaiter || res.waiters > 0
		nontrivial = nontrivial || (ov && res.waiters > 0)
		noteOrder(res.hist)
	}
	o.LabelIf(sawOverlap, "overlap_on_key")
	o.LabelIf(sawWaiter, "waiter")
	o.NonTrivial(nontrivial)
	return nil
}

func TestC15(t *testing.T) {
	lib.Check(t, spec, lib.Scale(3000, 40000), gen, run)
	orderMu.Lock()
	lib.Rec(spec).Extra("distinct_observed_histories", int64(len(orders)))
	orderMu.Unlock()
}
