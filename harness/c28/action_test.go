package c28

// (c) buildAction on an offline Client: the order in which dependencies are declared and in which a
// dependency's outputs were recorded must not reach the input root, the command or the action digest.

import (
	"fmt"
	"os"
	"path/filepath"
	"strings"

	pb "github.com/bazelbuild/remote-apis/build/bazel/remote/execution/v2"
	"google.golang.org/protobuf/proto"
	"pgregory.net/rapid"

	"github.com/thought-machine/please/src/core"
	"github.com/thought-machine/please/src/remote"

	"verifharness/lib"
)

type SrcFile struct {
	Name    string
	Content string
	Exec    bool `json:",omitempty"`
}

type DepOut struct {
	Kind    string // file | dir (pre-digested) | link
	Name    string // path relative to the dependency's package, may be nested
	Content string `json:",omitempty"`
	Exec    bool   `json:",omitempty"`
	Target  string `json:",omitempty"`
	Twice   bool   `json:",omitempty"` // recorded twice (identical)
}

type Dep struct {
	Pkg  string
	Name string
	Outs []DepOut
}

type Variant struct {
	DepOrder []int // order in which the dependencies are declared
	Reverse  bool  // outputs of every dependency recorded in reverse
	Rotate   int   // ... and rotated by this much
}

type actionCase struct {
	Srcs     []SrcFile
	Deps     []Dep
	Env      [][2]string `json:",omitempty"`
	Cmd      string
	Variants []Variant
}

var (
	sharedState *core.BuildState
	caseCounter int
	repoDir     string
	repoCleanup func()
	prevWD      string
)

func setupActionRepo() error {
	if repoDir != "" {
		return nil
	}
	d, cleanup := lib.Scratch("c28-")
	wd, _ := os.Getwd()
	if err := os.Chdir(d); err != nil {
		cleanup()
		return err
	}
	repoDir, repoCleanup, prevWD = d, cleanup, wd
	core.RepoRoot = d
	lib.QuietPleaseLogs()
	return nil
}

func cleanupActionRepo() {
	if repoDir != "" {
		os.Chdir(prevWD)
		repoCleanup()
		repoDir = ""
	}
}

func genAction(t *rapid.T) anyCase {
	c := actionCase{Cmd: rapid.SampledFrom([]string{"cat $SRCS > $OUT", "echo hi > $OUT", "true"}).Draw(t, "cmd")}
	srcNames := rapid.Permutation([]string{"a.txt", "b.txt", "ab.txt", "sub/a.txt", "sub/c.txt", "a"}).Draw(t, "srcnames")
	for _, n := range srcNames[:rapid.IntRange(0, 4).Draw(t, "nsrcs")] {
		c.Srcs = append(c.Srcs, SrcFile{Name: n, Content: rapid.SampledFrom(lib.CollidingContents).Draw(t, "content"), Exec: rapid.IntRange(0, 3).Draw(t, "x") == 0})
	}
	nd := rapid.IntRange(1, 4).Draw(t, "ndeps")
	for i := 0; i < nd; i++ {
		d := Dep{Pkg: rapid.SampledFrom([]string{"d", "d/e", "lib", "pkg"}).Draw(t, "pkg"), Name: fmt.Sprintf("dep%d", i)}
		bases := rapid.Permutation([]string{"a", "b", "ab", "a.b", "c"}).Draw(t, "bases")
		for _, b := range bases[:rapid.IntRange(1, 4).Draw(t, "nouts")] {
			name := fmt.Sprintf("o%d_%s", i, b)
			if rapid.IntRange(0, 2).Draw(t, "nested") == 0 {
				name = rapid.SampledFrom([]string{"gen", "gen/x", "out"}).Draw(t, "dir") + "/" + name
			}
			o := DepOut{Name: name, Twice: rapid.IntRange(0, 5).Draw(t, "twice") == 0}
			switch rapid.IntRange(0, 5).Draw(t, "okind") {
			case 0:
				o.Kind = "dir"
			case 1:
				o.Kind, o.Target = "link", rapid.SampledFrom([]string{"a", "../x", "o0_a"}).Draw(t, "target")
			default:
				o.Kind, o.Content, o.Exec = "file", rapid.SampledFrom(lib.CollidingContents).Draw(t, "ocontent"), rapid.IntRange(0, 3).Draw(t, "ox") == 0
			}
			d.Outs = append(d.Outs, o)
		}
		c.Deps = append(c.Deps, d)
	}
	for _, k := range rapid.Permutation([]string{"A", "B", "AB", "Z"}).Draw(t, "envnames")[:rapid.IntRange(0, 3).Draw(t, "nenv")] {
		c.Env = append(c.Env, [2]string{k, rapid.SampledFrom([]string{"", "x", "a b"}).Draw(t, "envval")})
	}
	for i, k := 0, rapid.IntRange(2, 4).Draw(t, "variants"); i < k; i++ {
		c.Variants = append(c.Variants, Variant{DepOrder: rapid.Permutation(seq(nd)).Draw(t, "deporder"),
			Reverse: rapid.Bool().Draw(t, "reverse"), Rotate: rapid.IntRange(0, 3).Draw(t, "rotate")})
	}
	return anyCase{Action: &c}
}

func depOutputs(d Dep, v Variant) *pb.Directory {
	dir := &pb.Directory{}
	outs := append([]DepOut{}, d.Outs...)
	if v.Reverse {
		for i, j := 0, len(outs)-1; i < j; i, j = i+1, j-1 {
			outs[i], outs[j] = outs[j], outs[i]
		}
	}
	if n := len(outs); n > 0 {
		r := v.Rotate % n
		outs = append(outs[r:], outs[:r]...)
	}
	for _, o := range outs {
		times := 1
		if o.Twice {
			times = 2
		}
		for k := 0; k < times; k++ {
			switch o.Kind {
			case "file":
				dir.Files = append(dir.Files, &pb.FileNode{Name: o.Name, Digest: fileDigest(o.Content), IsExecutable: o.Exec})
			case "dir":
				dir.Directories = append(dir.Directories, &pb.DirectoryNode{Name: o.Name, Digest: opaqueDigest(d.Pkg + "/" + o.Name)})
			case "link":
				dir.Symlinks = append(dir.Symlinks, &pb.SymlinkNode{Name: o.Name, Target: o.Target})
			}
		}
	}
	return dir
}

func runAction(c actionCase, o *lib.Obs) error {
	if repoDir == "" || len(c.Variants) < 2 || len(c.Deps) == 0 {
		return nil
	}
	// void cases (shrinking): duplicate source names, a source that is a directory prefix of another
	seen := map[string]bool{}
	for _, s := range c.Srcs {
		if seen[s.Name] || s.Name == "" || strings.HasPrefix(s.Name, "/") || strings.Contains(s.Name, "..") {
			return nil
		}
		seen[s.Name] = true
	}
	outSeen := map[string]bool{}
	for _, d := range c.Deps {
		for _, out := range d.Outs {
			k := d.Pkg + "/" + out.Name
			if outSeen[k] || out.Name == "" {
				return nil
			}
			outSeen[k] = true
		}
	}
	// One BuildState per process (constructing one is expensive); a fresh graph per variant. The path
	// hasher memoises by path, so every case gets its own package directory.
	caseCounter++
	pkgName := fmt.Sprintf("pkg%d", caseCounter)
	pkgDir := filepath.Join(repoDir, pkgName)
	os.RemoveAll(pkgDir)
	defer os.RemoveAll(pkgDir)
	if sharedState == nil {
		config := core.DefaultConfiguration()
		config.Build.Path = []string{"/usr/local/bin", "/usr/bin", "/bin"}
		config.Build.HashFunction = "sha256"
		config.Remote.Platform = []string{"OSFamily=linux"}
		config.Remote.Shell = "/bin/bash"
		sharedState = core.NewBuildState(config)
	}
	state := sharedState
	for _, s := range c.Srcs {
		p := filepath.Join(pkgDir, s.Name)
		if err := os.MkdirAll(filepath.Dir(p), 0o755); err != nil {
			return &lib.Inconclusive{Msg: err.Error()}
		}
		mode := os.FileMode(0o644)
		if s.Exec {
			mode = 0o755
		}
		if err := os.WriteFile(p, []byte(s.Content), mode); err != nil {
			return &lib.Inconclusive{Msg: err.Error()}
		}
	}
	multi := false
	perPkg := map[string]int{}
	nested, twice := false, false
	for _, d := range c.Deps {
		for _, out := range d.Outs {
			perPkg[d.Pkg]++
			nested = nested || strings.Contains(out.Name, "/")
			twice = twice || out.Twice
		}
	}
	for _, n := range perPkg {
		multi = multi || n >= 2
	}
	o.LabelIf(nested, "implicit_nested_dir")
	o.LabelIf(twice, "duplicate_declaration")
	o.NonTrivial(multi && (nested || twice))

	type result struct {
		root   *pb.Directory
		cmd    *pb.Command
		action *pb.Digest
	}
	var first *result
	for vi, v := range c.Variants {
		if len(v.DepOrder) != len(c.Deps) {
			return nil
		}
		state.Graph = core.NewGraph()
		cl := remote.VerifOfflineClient(state, "/home/u")
		target := core.NewBuildTarget(core.BuildLabel{PackageName: pkgName, Name: "t"})
		target.Command = c.Cmd
		target.AddOutput("out.txt")
		target.BuildTimeout = 60e9
		for _, s := range c.Srcs {
			target.AddSource(core.FileLabel{File: s.Name, Package: pkgName})
		}
		if len(c.Env) > 0 {
			target.Env = map[string]string{}
			for _, kv := range c.Env {
				target.Env[kv[0]] = kv[1]
			}
		}
		deps := make([]*core.BuildTarget, len(c.Deps))
		for i, d := range c.Deps {
			dpkg := d.Pkg
			if dpkg == "pkg" {
				dpkg = pkgName // a dependency in the target's own package
			}
			dt := core.NewBuildTarget(core.BuildLabel{PackageName: dpkg, Name: d.Name})
			for _, out := range d.Outs {
				dt.AddOutput(out.Name)
			}
			dt.SetState(core.Built)
			deps[i] = dt
		}
		for _, i := range v.DepOrder {
			if i < 0 || i >= len(deps) {
				return nil
			}
			state.Graph.AddTarget(deps[i])
			target.AddDependency(deps[i].Label)
			cl.VerifSetOutputs(deps[i].Label, depOutputs(c.Deps[i], v))
		}
		state.Graph.AddTarget(target)
		if err := target.ResolveDependencies(state.Graph); err != nil {
			return &lib.Inconclusive{Msg: "cannot resolve dependencies: " + err.Error()}
		}
		root, err := cl.VerifInputRoot(target, false)
		if err != nil {
			return lib.Failf("action-error", "variant %d: computing the input root failed: %v", vi, err)
		}
		if err := canonical(".", root); err != nil {
			return annotate(err, fmt.Sprintf("variant %d", vi))
		}
		cmd, action, err := cl.VerifBuildAction(target, false, false)
		if err != nil {
			return lib.Failf("action-error", "variant %d: buildAction failed: %v", vi, err)
		}
		for i, e := range cmd.EnvironmentVariables {
			if i > 0 && cmd.EnvironmentVariables[i-1].Name >= e.Name {
				return lib.Failf("env-not-sorted", "variant %d: command environment not strictly sorted: %q then %q", vi, cmd.EnvironmentVariables[i-1].Name, e.Name)
			}
		}
		r := &result{root, cmd, action}
		if first == nil {
			first = r
			continue
		}
		if !proto.Equal(first.root, r.root) {
			return lib.Failf("input-root-order-dependent", "variants 0 and %d declare the same inputs in a different order but the input roots differ:\n%v\n%v", vi, first.root, r.root)
		}
		if !proto.Equal(first.cmd, r.cmd) {
			return lib.Failf("command-order-dependent", "variants 0 and %d: commands differ:\n%v\n%v", vi, first.cmd, r.cmd)
		}
		if !proto.Equal(first.action, r.action) {
			return lib.Failf("action-digest-order-dependent", "variants 0 and %d: action digests differ: %v vs %v", vi, first.action, r.action)
		}
	}
	return nil
}
