// C28: remote input-root / action digests are canonical: independent of declaration and discovery order,
// every Directory message sorted by name with no duplicates.
package c28

import (
	"fmt"
	"os"
	"path"
	"path/filepath"
	"sort"
	"strings"
	"testing"

	"github.com/bazelbuild/remote-apis-sdks/go/pkg/digest"
	pb "github.com/bazelbuild/remote-apis/build/bazel/remote/execution/v2"
	"google.golang.org/protobuf/proto"
	"pgregory.net/rapid"

	"github.com/thought-machine/please/src/core"
	"github.com/thought-machine/please/src/remote"

	"verifharness/lib"
)

func TestMain(m *testing.M) { lib.Main(m) }

var spec = lib.Spec{
	ID: "C28",
	Rule: "(a) dirBuilder: consistent input layouts derived from generated trees (files with digests/exec bits at nested paths, symlinks, pre-digested opaque directory nodes, empty and explicitly declared directories incl. trailing-slash names, " +
		"exact duplicate declarations, a file and a symlink sorting adjacently) added the way uploadInputDir adds them, in every permutation (<= 5 items: all n!, exhaustive; above: <= 24 drawn permutations); " +
		"oracle: every produced Directory strictly sorted per list, no name in two lists, child digests equal the child messages, root digest equal to an independently computed canonical Merkle tree and identical across permutations; Node()/Tree() agree. " +
		"(b) buildEnv: generated environments (colliding names, PATH with home-directory parts, sandbox/binary flags) inserted in several orders: strictly sorted by name, identical across orders, values preserved. " +
		"(c) buildAction on an offline Client: a target with source files on disk and dependencies whose recorded outputs (files at nested paths, pre-digested directories, symlinks) are listed in permuted order and whose dependency order is permuted: input root, command and action digest identical. " +
		"Non-trivial = some directory has >= 2 entries and the case has a duplicate declaration or an implicitly created nested directory; distinct = case text",
	Assumptions: []string{
		"layouts are consistent: one kind per path, nothing declared below a pre-digested directory, duplicate declarations are identical (conflicting declarations of one path have no defined layout)",
		"source order is not permuted in (c): $SRCS is part of the command and legitimately follows declaration order",
		"the offline Client is built in a verif-tagged hook from the fields buildAction reads; nothing is uploaded",
	},
}

// ---- (a) dirBuilder --------------------------------------------------------------------------------

type Item struct {
	Kind    string // file | link | dirnode (pre-digested) | dir (explicit Dir call)
	Path    string
	Content string `json:",omitempty"`
	Exec    bool   `json:",omitempty"`
	Target  string `json:",omitempty"`
	Slash   bool   `json:",omitempty"` // dir: name it with a trailing slash
}

type dirCase struct {
	Items []Item
	Perms [][]int `json:",omitempty"` // empty: all permutations
}

type envCase struct {
	Vars    [][2]string
	Orders  [][]int
	Sandbox bool `json:",omitempty"`
	Binary  bool `json:",omitempty"`
	Home    string
}

type anyCase struct {
	Dir    *dirCase    `json:",omitempty"`
	Env    *envCase    `json:",omitempty"`
	Action *actionCase `json:",omitempty"`
}

func fileDigest(content string) *pb.Digest { return digest.NewFromBlob([]byte(content)).ToProto() }

func msgDigest(m proto.Message) *pb.Digest {
	b, _ := proto.Marshal(m)
	return digest.NewFromBlob(b).ToProto()
}

// opaqueDigest is the digest carried by a pre-digested directory node (any stable value will do).
func opaqueDigest(p string) *pb.Digest { return fileDigest("opaque directory " + p) }

func genItems(t *rapid.T, small bool) []Item {
	opts := lib.TreeGenOpts{MaxDepth: 3, MaxFanout: 4, Symlinks: true, EmptyDirs: true, ExecBits: true,
		Names: []string{"a", "b", "ab", "a.b", "c", "bc", "a-b", "B", "a0", "a_"}}
	if small {
		opts.MaxDepth, opts.MaxFanout = 2, 2
	}
	root := lib.GenDir(t, "", opts)
	var items []Item
	var walk func(n *lib.Node, p string)
	walk = func(n *lib.Node, p string) {
		for _, c := range n.Children {
			cp := path.Join(p, c.Name)
			switch {
			case c.Dir:
				if rapid.IntRange(0, 3).Draw(t, "opaque") == 0 {
					items = append(items, Item{Kind: "dirnode", Path: cp})
					continue
				}
				if len(c.Children) == 0 || rapid.IntRange(0, 3).Draw(t, "explicit") == 0 {
					items = append(items, Item{Kind: "dir", Path: cp, Slash: rapid.Bool().Draw(t, "slash")})
				}
				walk(c, cp)
			case c.Link:
				items = append(items, Item{Kind: "link", Path: cp, Target: c.Target})
			default:
				items = append(items, Item{Kind: "file", Path: cp, Content: c.Content, Exec: c.Exec})
			}
		}
	}
	walk(root, "")
	if small && len(items) > 4 {
		items = items[:4]
	}
	if len(items) > 0 {
		for i, n := 0, rapid.IntRange(0, 2).Draw(t, "dups"); i < n && (!small || len(items) < 5); i++ {
			items = append(items, items[rapid.IntRange(0, len(items)-1).Draw(t, "dup")])
		}
	}
	if !small && rapid.IntRange(0, 3).Draw(t, "rootdir") == 0 {
		items = append(items, Item{Kind: "dir", Path: rapid.SampledFrom([]string{".", "", "/"}).Draw(t, "rootname")})
	}
	return items
}

func genDir(t *rapid.T) anyCase {
	small := rapid.Bool().Draw(t, "small")
	c := dirCase{Items: genItems(t, small)}
	if len(c.Items) > 5 {
		n := rapid.IntRange(2, 24).Draw(t, "nperms")
		for i := 0; i < n; i++ {
			c.Perms = append(c.Perms, rapid.Permutation(seq(len(c.Items))).Draw(t, "perm"))
		}
	}
	return anyCase{Dir: &c}
}

func seq(n int) []int {
	s := make([]int, n)
	for i := range s {
		s[i] = i
	}
	return s
}

func permutations(n int) [][]int {
	var out [][]int
	var rec func(cur []int, used []bool)
	rec = func(cur []int, used []bool) {
		if len(cur) == n {
			out = append(out, append([]int{}, cur...))
			return
		}
		for i := 0; i < n; i++ {
			if !used[i] {
				used[i] = true
				rec(append(cur, i), used)
				used[i] = false
			}
		}
	}
	rec(nil, make([]bool, n))
	return out
}

// refDir is the harness's own model of a directory.
type refDir struct {
	files map[string]*pb.FileNode
	links map[string]*pb.SymlinkNode
	dirs  map[string]*pb.Digest // nil digest: a directory built here; otherwise pre-digested
}

func cleanDir(p string) string {
	p = strings.TrimSuffix(p, "/")
	if p == "" || p == "." || p == "/" {
		return "."
	}
	return p
}

// reference computes the canonical Directory of every path from the item set.
func reference(items []Item) (map[string]*pb.Directory, error) {
	dirs := map[string]*refDir{}
	var ensure func(p string) *refDir
	ensure = func(p string) *refDir {
		p = cleanDir(p)
		if d, ok := dirs[p]; ok {
			return d
		}
		d := &refDir{files: map[string]*pb.FileNode{}, links: map[string]*pb.SymlinkNode{}, dirs: map[string]*pb.Digest{}}
		dirs[p] = d
		if p != "." {
			parent := ensure(path.Dir(p))
			if _, ok := parent.dirs[path.Base(p)]; !ok {
				parent.dirs[path.Base(p)] = nil
			}
		}
		return d
	}
	ensure(".")
	for _, it := range items {
		switch it.Kind {
		case "dir":
			ensure(it.Path)
		case "file":
			ensure(path.Dir(it.Path)).files[path.Base(it.Path)] = &pb.FileNode{Name: path.Base(it.Path), Digest: fileDigest(it.Content), IsExecutable: it.Exec}
		case "link":
			ensure(path.Dir(it.Path)).links[path.Base(it.Path)] = &pb.SymlinkNode{Name: path.Base(it.Path), Target: it.Target}
		case "dirnode":
			ensure(path.Dir(it.Path)).dirs[path.Base(it.Path)] = opaqueDigest(it.Path)
		default:
			return nil, fmt.Errorf("bad item kind %q", it.Kind)
		}
	}
	// consistency of the layout (shrunk or hand-written cases may violate it: then the case is void)
	for p, d := range dirs {
		names := map[string]int{}
		for n := range d.files {
			names[n]++
		}
		for n := range d.links {
			names[n]++
		}
		for n, dg := range d.dirs {
			names[n]++
			if dg != nil {
				if _, built := dirs[path.Join(p, n)]; built {
					return nil, fmt.Errorf("something declared below pre-digested %s", path.Join(p, n))
				}
			}
		}
		for n, k := range names {
			if k > 1 {
				return nil, fmt.Errorf("%s/%s declared as two kinds", p, n)
			}
		}
	}
	out := map[string]*pb.Directory{}
	var build func(p string) *pb.Directory
	build = func(p string) *pb.Directory {
		d := dirs[p]
		msg := &pb.Directory{}
		for _, n := range sortedKeys(d.files) {
			msg.Files = append(msg.Files, d.files[n])
		}
		for _, n := range sortedKeys(d.links) {
			msg.Symlinks = append(msg.Symlinks, d.links[n])
		}
		for _, n := range sortedKeys(d.dirs) {
			dg := d.dirs[n]
			if dg == nil {
				dg = msgDigest(build(path.Join(p, n)))
			}
			msg.Directories = append(msg.Directories, &pb.DirectoryNode{Name: n, Digest: dg})
		}
		out[p] = msg
		return msg
	}
	build(".")
	return out, nil
}

func sortedKeys[V any](m map[string]V) []string {
	ks := make([]string, 0, len(m))
	for k := range m {
		ks = append(ks, k)
	}
	sort.Strings(ks)
	return ks
}

// addItem adds one declaration the way uploadInputDir / uploadInput do.
func addItem(b interface {
	Dir(string) *pb.Directory
}, it Item) {
	switch it.Kind {
	case "dir":
		p := it.Path
		if it.Slash && p != "" && p != "." && p != "/" {
			p += "/"
		}
		b.Dir(p)
	case "file":
		d := b.Dir(filepath.Dir(it.Path))
		d.Files = append(d.Files, &pb.FileNode{Name: filepath.Base(it.Path), Digest: fileDigest(it.Content), IsExecutable: it.Exec})
	case "link":
		d := b.Dir(filepath.Dir(it.Path))
		d.Symlinks = append(d.Symlinks, &pb.SymlinkNode{Name: filepath.Base(it.Path), Target: it.Target})
	case "dirnode":
		d := b.Dir(filepath.Dir(it.Path))
		d.Directories = append(d.Directories, &pb.DirectoryNode{Name: filepath.Base(it.Path), Digest: opaqueDigest(it.Path)})
	}
}

// canonical checks one Directory message against the REAPI canonical form.
func canonical(p string, d *pb.Directory) error {
	seen := map[string]string{}
	check := func(kind string, names []string) error {
		for i, n := range names {
			if i > 0 && names[i-1] >= n {
				return lib.Failf("not-sorted", "directory %q: %s are not strictly sorted: %q", p, kind, names)
			}
			if prev, dup := seen[n]; dup {
				return lib.Failf("name-in-two-lists", "directory %q: %q appears in %s and in %s", p, n, prev, kind)
			}
			seen[n] = kind
		}
		return nil
	}
	var fs, ds, ls []string
	for _, f := range d.Files {
		fs = append(fs, f.Name)
	}
	for _, x := range d.Directories {
		ds = append(ds, x.Name)
	}
	for _, l := range d.Symlinks {
		ls = append(ls, l.Name)
	}
	if err := check("files", fs); err != nil {
		return err
	}
	if err := check("directories", ds); err != nil {
		return err
	}
	return check("symlinks", ls)
}

// annotate adds context to a Failure without losing its class.
func annotate(err error, ctx string) error {
	if f, ok := err.(*lib.Failure); ok {
		return &lib.Failure{Class: f.Class, Msg: f.Msg + " (" + ctx + ")"}
	}
	return err
}

func runDir(c dirCase, o *lib.Obs) error {
	if len(c.Items) == 0 || len(c.Items) > 40 {
		return nil
	}
	ref, err := reference(c.Items)
	if err != nil {
		return nil // inconsistent layout: void case
	}
	perms := c.Perms
	exhaustive := false
	if len(perms) == 0 {
		if len(c.Items) > 6 {
			return nil
		}
		perms = permutations(len(c.Items))
		exhaustive = true
	}
	// labels
	seenItem := map[string]bool{}
	dup, implicit, opaque, multi := false, false, false, false
	explicit := map[string]bool{}
	for _, it := range c.Items {
		k := fmt.Sprintf("%v", it)
		if seenItem[k] {
			dup = true
		}
		seenItem[k] = true
		if it.Kind == "dir" {
			explicit[cleanDir(it.Path)] = true
		}
		opaque = opaque || it.Kind == "dirnode"
	}
	adjacent := false
	for p, d := range ref {
		if p != "." && !explicit[p] {
			implicit = true
		}
		if len(d.Files)+len(d.Directories)+len(d.Symlinks) >= 2 {
			multi = true
		}
		adjacent = adjacent || (len(d.Files) > 0 && len(d.Symlinks) > 0)
	}
	o.LabelIf(dup, "duplicate_declaration")
	o.LabelIf(implicit, "implicit_nested_dir")
	o.LabelIf(opaque, "predigested_dir")
	o.LabelIf(adjacent, "file_and_symlink_in_one_dir")
	o.LabelIf(exhaustive, "all_permutations")
	o.NonTrivial(multi && (dup || implicit))
	wantRoot := msgDigest(ref["."])
	for _, perm := range perms {
		b := remote.VerifNewDirBuilder()
		for _, i := range perm {
			if i < 0 || i >= len(c.Items) {
				return nil
			}
			addItem(b, c.Items[i])
		}
		root := b.Build(nil)
		// every directory the reference knows must exist, be canonical and carry matching child digests
		for _, p := range sortedKeys(ref) {
			got := b.Dir(p)
			if err := canonical(p, got); err != nil {
				return annotate(err, fmt.Sprintf("order %v", perm))
			}
			for _, dn := range got.Directories {
				if child, ok := ref[path.Join(p, dn.Name)]; ok {
					_ = child
					cm := b.Dir(path.Join(p, dn.Name))
					if dn.Digest == nil || !proto.Equal(dn.Digest, msgDigest(cm)) {
						return lib.Failf("child-digest", "order %v: directory %q lists child %q with digest %v but the child message hashes to %v", perm, p, dn.Name, dn.Digest, msgDigest(cm))
					}
				}
			}
			if !proto.Equal(got, ref[p]) {
				return lib.Failf("directory-differs", "order %v: directory %q = %v, canonical form of the declared layout is %v", perm, p, got, ref[p])
			}
		}
		if got := msgDigest(root); !proto.Equal(got, wantRoot) {
			return lib.Failf("root-digest", "order %v: root digest %v, expected %v", perm, got, wantRoot)
		}
		// Node() finds what was declared
		for _, it := range c.Items {
			dn, fn := b.Node(it.Path)
			switch it.Kind {
			case "file":
				if fn == nil || !proto.Equal(fn.Digest, fileDigest(it.Content)) {
					return lib.Failf("node-lookup", "order %v: Node(%q) = %v, %v; want the declared file", perm, it.Path, dn, fn)
				}
			case "dirnode":
				if dn == nil || !proto.Equal(dn.Digest, opaqueDigest(it.Path)) {
					return lib.Failf("node-lookup", "order %v: Node(%q) = %v, %v; want the declared directory node", perm, it.Path, dn, fn)
				}
			}
		}
		if !opaque {
			tree := b.Tree(".")
			have := map[string]bool{}
			for _, ch := range tree.Children {
				have[msgDigest(ch).Hash] = true
			}
			for p, d := range ref {
				if p != "." && !have[msgDigest(d).Hash] {
					return lib.Failf("tree-children", "order %v: Tree(\".\") lacks the directory %q", perm, p)
				}
			}
			if !proto.Equal(tree.Root, ref["."]) {
				return lib.Failf("tree-root", "order %v: Tree(\".\").Root differs from the root directory", perm)
			}
		}
	}
	return nil
}

// ---- (b) buildEnv ----------------------------------------------------------------------------------

func genEnv(t *rapid.T) anyCase {
	names := []string{"A", "B", "AB", "A_B", "a", "PATH", "SRCS", "SRCS_X", "OUT", "TMP_DIR", "_BINARY", "SANDBOX", "Z", "a=b"}
	home := rapid.SampledFrom([]string{"/home/u", "/root", "/h"}).Draw(t, "home")
	n := rapid.IntRange(1, 8).Draw(t, "n")
	picked := rapid.Permutation(names).Draw(t, "names")[:n]
	c := envCase{Home: home, Sandbox: rapid.Bool().Draw(t, "sandbox"), Binary: rapid.Bool().Draw(t, "binary")}
	for _, nm := range picked {
		v := rapid.SampledFrom([]string{"", "x", "a b", "$HOME", "1"}).Draw(t, "val")
		if nm == "PATH" {
			parts := rapid.SliceOfN(rapid.SampledFrom([]string{"/usr/bin", "/bin", home + "/bin", home, "/usr/local/bin", "/opt/please", home + "x/bin"}), 1, 5).Draw(t, "path")
			v = strings.Join(parts, ":")
		}
		c.Vars = append(c.Vars, [2]string{nm, v})
	}
	for i, k := 0, rapid.IntRange(2, 5).Draw(t, "orders"); i < k; i++ {
		c.Orders = append(c.Orders, rapid.Permutation(seq(n)).Draw(t, "order"))
	}
	return anyCase{Env: &c}
}

func runEnv(c envCase, o *lib.Obs) error {
	if len(c.Vars) == 0 || len(c.Orders) == 0 {
		return nil
	}
	config := core.DefaultConfiguration()
	config.Please.Location = "/opt/please"
	state := core.NewBuildState(config)
	cl := remote.VerifOfflineClient(state, c.Home)
	var target *core.BuildTarget
	if c.Binary {
		target = core.NewBuildTarget(core.BuildLabel{PackageName: "p", Name: "t"})
		target.IsBinary = true
	}
	o.Label("env")
	o.NonTrivial(len(c.Vars) >= 2)
	var first []string
	for _, ord := range c.Orders {
		env := core.BuildEnv{}
		for _, i := range ord {
			if i < 0 || i >= len(c.Vars) {
				return nil
			}
			env[c.Vars[i][0]] = c.Vars[i][1]
		}
		vars := cl.VerifBuildEnv(target, env, c.Sandbox)
		var got []string
		for i, v := range vars {
			if i > 0 && vars[i-1].Name >= v.Name {
				return lib.Failf("env-not-sorted", "order %v: environment not strictly sorted by name: %q then %q", ord, vars[i-1].Name, v.Name)
			}
			got = append(got, v.Name+"="+v.Value)
		}
		want := map[string]string{}
		for _, kv := range c.Vars {
			want[kv[0]] = kv[1]
		}
		if c.Sandbox {
			want["SANDBOX"] = "true"
		}
		if c.Binary {
			want["_BINARY"] = "true"
		}
		if len(vars) != len(want) {
			return lib.Failf("env-lost", "order %v: %d variables in, %d out: %q", ord, len(want), len(vars), got)
		}
		for _, v := range vars {
			w, ok := want[v.Name]
			if !ok {
				return lib.Failf("env-extra", "order %v: unexpected variable %q", ord, v.Name)
			}
			if v.Name == "PATH" {
				for _, part := range strings.Split(v.Value, ":") {
					if part != "" && strings.HasPrefix(part, c.Home) {
						return lib.Failf("env-path-home", "PATH still contains %q below the user's home %q", part, c.Home)
					}
				}
			} else if v.Value != w {
				return lib.Failf("env-value", "variable %q = %q, want %q", v.Name, v.Value, w)
			}
		}
		if first == nil {
			first = got
		} else if strings.Join(first, "\x00") != strings.Join(got, "\x00") {
			return lib.Failf("env-order-dependent", "insertion order %v gives %q, order %v gave %q", ord, got, c.Orders[0], first)
		}
	}
	return nil
}

// ---- dispatch ----------------------------------------------------------------------------------------

func runAny(c anyCase, o *lib.Obs) error {
	switch {
	case c.Dir != nil:
		o.Label("dirbuilder")
		return runDir(*c.Dir, o)
	case c.Env != nil:
		return runEnv(*c.Env, o)
	case c.Action != nil:
		o.Label("action")
		return runAction(*c.Action, o)
	}
	return nil
}

func genAny(t *rapid.T) anyCase {
	switch k := rapid.IntRange(0, 9).Draw(t, "sub"); {
	case k == 0:
		return genEnv(t)
	case k <= 2:
		return genAction(t)
	}
	return genDir(t)
}

func TestC28(t *testing.T) {
	if os.Getenv("VERIF_REPLAY") == "" {
		if err := setupActionRepo(); err != nil {
			t.Fatalf("cannot set up the scratch repository: %v", err)
		}
		defer cleanupActionRepo()
	} else if err := setupActionRepo(); err == nil {
		defer cleanupActionRepo()
	}
	lib.Check(t, spec, lib.Scale(5000, 300000), genAny, runAny)
}
