// C07: target hashes are deterministic across runs, thread counts and package order.
package c07

import (
	"fmt"
	"os"
	"path/filepath"
	"regexp"
	"sort"
	"strings"
	"testing"

	"pgregory.net/rapid"

	"verifharness/lib"
)

// provideCandidates lists what a target may name in its provides. While the finding
// C05-chained-provides-not-built is listed (a provided target that itself provides something for the same
// requirer is used as build input but never scheduled, so the build fails), provided targets are never
// providers themselves; the exclusions are counted.
func provideCandidates(earlier, providers []string) []string {
	if !lib.Known("C05", "chained-provides-not-built") {
		return earlier
	}
	isProvider := map[string]bool{}
	for _, p := range providers {
		isProvider[p] = true
	}
	var out []string
	for _, e := range earlier {
		if !isProvider[e] {
			out = append(out, e)
		}
	}
	if len(out) != len(earlier) {
		lib.Rec(spec).Excluded("chained-provides-not-built")
	}
	return out
}

func TestMain(m *testing.M) { lib.Main(m) }

var spec = lib.Spec{
	ID: "C07",
	Rule: "generated repositories of 3-4 packages (incl. a nested one) with 2-3 binary tool targets, 3-6 genrules using every map-typed attribute (named srcs, named outs, env, entry_points, provides, named tools) plus labels/requires with 0-4 entries each written in a drawn order, " +
		"filegroups with provides, consumers with requires (dependencies resolved through provides) and a gentest with named data and named test_tools; commands are deterministic and depend on $SRCS/$OUTS order. " +
		"Each case runs 8 drawn invocations of `plz hash` / `plz hash --detailed` with -n 1 or 16, `//...` or the explicit label list in a drawn permutation (from the second one on plz-out is warm; one drawn invocation first wipes plz-out so that everything is rebuilt). " +
		"Oracle (metamorphic): every invocation reports every target; the hash of each target is the same in all invocations; the --detailed block of each target (config, pre/post-build rule hash, source hash, per-source and per-tool hashes, in the printed order) is the same in all detailed invocations. " +
		"Non-trivial = some target has >= 2 entries in >= 2 map-typed attributes; distinct = JSON of the case",
	Assumptions: []string{
		"generated commands are deterministic given the order of $SRCS and $OUTS, which plz defines; a rebuild after wiping plz-out must therefore reproduce every hash",
		"`plz hash` builds the targets it is asked about; the first invocation of a case does the building",
	},
}

// KV is an ordered dict entry; V holds one or more values.
type KV struct {
	K string
	V []string
}

// Target is one generated target.
type Target struct {
	Pkg, Name   string
	Kind        string   // tool | genrule | filegroup | gentest
	Srcs        []string `json:",omitempty"` // plain list (files or labels)
	NamedSrcs   []KV     `json:",omitempty"`
	Outs        []string `json:",omitempty"`
	NamedOuts   []KV     `json:",omitempty"`
	Env         []KV     `json:",omitempty"`
	Labels      []string `json:",omitempty"`
	EntryPoints []KV     `json:",omitempty"`
	Provides    []KV     `json:",omitempty"`
	Tools       []string `json:",omitempty"`
	NamedTools  []KV     `json:",omitempty"`
	Requires    []string `json:",omitempty"`
	NamedData   []KV     `json:",omitempty"`
	TestTools   []KV     `json:",omitempty"`
}

func (t Target) Label() string { return "//" + t.Pkg + ":" + t.Name }

// Inv is one invocation of plz hash.
type Inv struct {
	Detailed bool  `json:",omitempty"`
	N        int   // -n
	All      bool  `json:",omitempty"` // //... instead of the explicit list
	Perm     []int `json:",omitempty"` // order of the explicit list (indices into the sorted label list)
	Wipe     bool  `json:",omitempty"` // remove plz-out first
}

// Case is a repository plus the invocations.
type Case struct {
	Pkgs    []string
	Targets []Target
	Invs    []Inv
}

var pkgPool = []string{"p", "q", "p/r", "s"}
var fileNames = []string{"a.txt", "b.txt", "c.txt"}

func pick(t *rapid.T, pool []string, min, max int, what string) []string {
	if max > len(pool) {
		max = len(pool)
	}
	if min > max {
		min = max
	}
	n := rapid.IntRange(min, max).Draw(t, what+"_n")
	return append([]string{}, rapid.Permutation(pool).Draw(t, what)[:n]...)
}

func gen(t *rapid.T) Case {
	c := Case{Pkgs: append([]string{}, pkgPool[:rapid.IntRange(3, 4).Draw(t, "npkgs")]...)}
	var tools, earlier []string // labels
	nt := rapid.IntRange(2, 3).Draw(t, "ntools")
	for i := 0; i < nt; i++ {
		tg := Target{Pkg: rapid.SampledFrom(c.Pkgs).Draw(t, "pkg"), Name: fmt.Sprintf("tool%d", i), Kind: "tool", Outs: []string{fmt.Sprintf("tool%d.sh", i)}}
		c.Targets = append(c.Targets, tg)
		tools = append(tools, tg.Label())
		earlier = append(earlier, tg.Label())
	}
	var providers []string
	ng := rapid.IntRange(3, 6).Draw(t, "ngen")
	for i := 0; i < ng; i++ {
		tg := Target{Pkg: rapid.SampledFrom(c.Pkgs).Draw(t, "pkg"), Name: fmt.Sprintf("g%d", i), Kind: "genrule"}
		// sources: files of the package and earlier targets
		cands := append(append([]string{}, fileNames...), earlier...)
		if rapid.IntRange(0, 2).Draw(t, "named_srcs") > 0 {
			groups := pick(t, []string{"one", "two", "three"}, 1, 3, "srcgroups")
			rest := rapid.Permutation(cands).Draw(t, "srcperm")
			if len(rest) > 5 {
				rest = rest[:5]
			}
			for gi, g := range groups {
				var vs []string
				for k := gi; k < len(rest); k += len(groups) {
					vs = append(vs, rest[k])
				}
				if len(vs) > 0 {
					tg.NamedSrcs = append(tg.NamedSrcs, KV{g, vs})
				}
			}
		} else {
			tg.Srcs = pick(t, cands, 1, 4, "srcs")
		}
		// outputs
		outNames := []string{tg.Name + ".a", tg.Name + ".b", tg.Name + ".c", tg.Name + ".d"}
		if rapid.IntRange(0, 2).Draw(t, "named_outs") > 0 {
			groups := pick(t, []string{"oa", "ob", "oc"}, 1, 3, "outgroups")
			for gi, g := range groups {
				vs := []string{outNames[gi]}
				if gi == 0 && rapid.Bool().Draw(t, "two_in_group") {
					vs = append(vs, outNames[3])
				}
				tg.NamedOuts = append(tg.NamedOuts, KV{g, vs})
			}
		} else {
			tg.Outs = outNames[:rapid.IntRange(1, 3).Draw(t, "nouts")]
		}
		var allOuts []string
		allOuts = append(allOuts, tg.Outs...)
		for _, kv := range tg.NamedOuts {
			allOuts = append(allOuts, kv.V...)
		}
		for _, k := range pick(t, []string{"E1", "E2", "E3", "E4", "E_5"}, 0, 4, "envkeys") {
			tg.Env = append(tg.Env, KV{k, []string{rapid.SampledFrom([]string{"v1", "v2", "$PKG", "a=b", ""}).Draw(t, "envval")}})
		}
		tg.Labels = pick(t, []string{"l1", "l2", "l3", "l4", "l_5"}, 0, 4, "labels")
		for i, k := range pick(t, []string{"ea", "eb", "ec"}, 0, len(allOuts), "epkeys") {
			tg.EntryPoints = append(tg.EntryPoints, KV{k, []string{allOuts[i]}})
		}
		for _, k := range pick(t, []string{"lang1", "lang2", "lang3"}, 0, 3, "provkeys") {
			if cands := provideCandidates(earlier, providers); len(cands) > 0 {
				tg.Provides = append(tg.Provides, KV{k, []string{rapid.SampledFrom(cands).Draw(t, "provtarget")}})
			}
		}
		if len(tg.Provides) > 0 {
			providers = append(providers, tg.Label())
		}
		if rapid.IntRange(0, 2).Draw(t, "named_tools") > 0 {
			for _, k := range pick(t, []string{"ta", "tb", "tc"}, 1, 3, "toolkeys") {
				tg.NamedTools = append(tg.NamedTools, KV{k, pick(t, tools, 1, 2, "toolvals")})
			}
		} else {
			tg.Tools = pick(t, tools, 0, 2, "tools")
		}
		if rapid.IntRange(0, 2).Draw(t, "requires") == 0 {
			tg.Requires = pick(t, []string{"lang1", "lang2", "lang3"}, 1, 2, "reqs")
		}
		c.Targets = append(c.Targets, tg)
		earlier = append(earlier, tg.Label())
	}
	// a filegroup with provides
	fg := Target{Pkg: rapid.SampledFrom(c.Pkgs).Draw(t, "pkg"), Name: "fg", Kind: "filegroup", Srcs: pick(t, fileNames, 1, 2, "fgsrcs")}
	for _, k := range pick(t, []string{"lang1", "lang2", "lang3"}, 1, 3, "provkeys") {
		if cands := provideCandidates(earlier, providers); len(cands) > 0 {
			fg.Provides = append(fg.Provides, KV{k, []string{rapid.SampledFrom(cands).Draw(t, "provtarget")}})
		}
	}
	c.Targets = append(c.Targets, fg)
	providers = append(providers, fg.Label())
	// consumers that resolve their dependencies through provides
	nc := rapid.IntRange(1, 2).Draw(t, "nconsumers")
	for i := 0; i < nc; i++ {
		tg := Target{Pkg: rapid.SampledFrom(c.Pkgs).Draw(t, "pkg"), Name: fmt.Sprintf("c%d", i), Kind: "genrule", Outs: []string{fmt.Sprintf("c%d.out", i)}}
		tg.Srcs = pick(t, providers, 1, 3, "consumersrcs")
		tg.Requires = pick(t, []string{"lang1", "lang2", "lang3"}, 1, 3, "reqs")
		c.Targets = append(c.Targets, tg)
	}
	// a test with named data and named test tools
	ts := Target{Pkg: rapid.SampledFrom(c.Pkgs).Draw(t, "pkg"), Name: "t", Kind: "gentest"}
	dataCands := append(append([]string{}, fileNames...), earlier...)
	for _, k := range pick(t, []string{"d1", "d2", "d3"}, 1, 3, "datakeys") {
		ts.NamedData = append(ts.NamedData, KV{k, pick(t, dataCands, 1, 2, "datavals")})
	}
	for _, k := range pick(t, []string{"tt1", "tt2"}, 0, 2, "ttkeys") {
		ts.TestTools = append(ts.TestTools, KV{k, pick(t, tools, 1, 2, "ttvals")})
	}
	ts.Labels = pick(t, []string{"l1", "l2", "l3"}, 0, 3, "labels")
	c.Targets = append(c.Targets, ts)

	n := len(c.Targets)
	wipeAt := rapid.IntRange(2, 7).Draw(t, "wipe_at")
	for i := 0; i < 8; i++ {
		inv := Inv{Detailed: rapid.Bool().Draw(t, "detailed"), N: rapid.SampledFrom([]int{1, 16}).Draw(t, "n"), All: rapid.IntRange(0, 2).Draw(t, "all") == 0, Wipe: i == wipeAt}
		if !inv.All {
			idx := make([]int, n)
			for k := range idx {
				idx[k] = k
			}
			inv.Perm = rapid.Permutation(idx).Draw(t, "perm")
		}
		c.Invs = append(c.Invs, inv)
	}
	// make sure both output forms occur at least twice
	c.Invs[0].Detailed, c.Invs[1].Detailed, c.Invs[2].Detailed, c.Invs[3].Detailed = false, true, true, false
	return c
}

// ---- rendering ---------------------------------------------------------------------------------

func pyList(ss []string) string {
	q := make([]string, len(ss))
	for i, s := range ss {
		q[i] = lib.PyQuote(s)
	}
	return "[" + strings.Join(q, ", ") + "]"
}

func pyDictLists(kvs []KV) string {
	var es []string
	for _, kv := range kvs {
		es = append(es, lib.PyQuote(kv.K)+": "+pyList(kv.V))
	}
	return "{" + strings.Join(es, ", ") + "}"
}

func pyDictStr(kvs []KV) string {
	var es []string
	for _, kv := range kvs {
		es = append(es, lib.PyQuote(kv.K)+": "+lib.PyQuote(kv.V[0]))
	}
	return "{" + strings.Join(es, ", ") + "}"
}

func (tg Target) render() string {
	switch tg.Kind {
	case "tool":
		return fmt.Sprintf("genrule(name=%s, outs=%s, cmd=%s, binary=True, visibility=[\"PUBLIC\"])\n", lib.PyQuote(tg.Name), pyList(tg.Outs),
			lib.PyQuote(`printf '#!/bin/sh\necho `+tg.Name+`\n' > "$OUT"`))
	case "filegroup":
		return fmt.Sprintf("filegroup(name=%s, srcs=%s, provides=%s, visibility=[\"PUBLIC\"])\n", lib.PyQuote(tg.Name), pyList(tg.Srcs), pyDictStr(tg.Provides))
	case "gentest":
		s := fmt.Sprintf("gentest(name=%s, test_cmd=\"true\", no_test_output=True, data=%s", lib.PyQuote(tg.Name), pyDictLists(tg.NamedData))
		if len(tg.TestTools) > 0 {
			s += ", test_tools=" + pyDictLists(tg.TestTools)
		}
		if len(tg.Labels) > 0 {
			s += ", labels=" + pyList(tg.Labels)
		}
		return s + ")\n"
	}
	s := "genrule(name=" + lib.PyQuote(tg.Name)
	if len(tg.NamedSrcs) > 0 {
		s += ", srcs=" + pyDictLists(tg.NamedSrcs)
	} else {
		s += ", srcs=" + pyList(tg.Srcs)
	}
	if len(tg.NamedOuts) > 0 {
		s += ", outs=" + pyDictLists(tg.NamedOuts)
	} else {
		s += ", outs=" + pyList(tg.Outs)
	}
	// every output lists the sources in the order plz presents them, and its own name
	s += ", cmd=" + lib.PyQuote(`for o in $OUTS; do { printf '%s\n' "$o" $SRCS; for f in $SRCS; do if [ -f "$f" ]; then cat "$f"; fi; done; } > "$o"; done`)
	if len(tg.Env) > 0 {
		s += ", env=" + pyDictStr(tg.Env)
	}
	if len(tg.Labels) > 0 {
		s += ", labels=" + pyList(tg.Labels)
	}
	if len(tg.EntryPoints) > 0 {
		s += ", entry_points=" + pyDictStr(tg.EntryPoints)
	}
	if len(tg.Provides) > 0 {
		s += ", provides=" + pyDictStr(tg.Provides)
	}
	if len(tg.NamedTools) > 0 {
		s += ", tools=" + pyDictLists(tg.NamedTools)
	} else if len(tg.Tools) > 0 {
		s += ", tools=" + pyList(tg.Tools)
	}
	if len(tg.Requires) > 0 {
		s += ", requires=" + pyList(tg.Requires)
	}
	return s + ", visibility=[\"PUBLIC\"])\n"
}

func (c Case) files() map[string]string {
	m := map[string]string{".plzconfig": lib.BaseConfig + lib.NoCacheConfig}
	for _, p := range c.Pkgs {
		m[p+"/BUILD"] = ""
		for _, f := range fileNames {
			m[p+"/"+f] = p + "/" + f + "\n"
		}
	}
	for _, tg := range c.Targets {
		m[tg.Pkg+"/BUILD"] += tg.render()
	}
	return m
}

// ---- output parsing ----------------------------------------------------------------------------

var plainRe = regexp.MustCompile(`^\s+(//\S+): ([0-9a-f]{40,64})$`)
var blockRe = regexp.MustCompile(`^(//\S+):$`)

func parseHashes(out string) (plain map[string]string, blocks map[string]string) {
	plain, blocks = map[string]string{}, map[string]string{}
	cur := ""
	for _, l := range strings.Split(out, "\n") {
		if g := plainRe.FindStringSubmatch(l); g != nil {
			plain[g[1]] = g[2]
			cur = ""
			continue
		}
		if g := blockRe.FindStringSubmatch(l); g != nil {
			cur = g[1]
			blocks[cur] = ""
			continue
		}
		if cur != "" && (strings.HasPrefix(l, " ") || strings.HasPrefix(l, "\t")) {
			blocks[cur] += l + "\n"
		} else {
			cur = ""
		}
	}
	return
}

func mapEntries(tg Target) int {
	n := 0
	for _, m := range [][]KV{tg.NamedSrcs, tg.NamedOuts, tg.Env, tg.EntryPoints, tg.Provides, tg.NamedTools, tg.NamedData, tg.TestTools} {
		if len(m) >= 2 {
			n++
		}
	}
	return n
}

func run(c Case, o *lib.Obs) error {
	e := lib.NewE2E("c07-")
	defer e.Close()
	for rel, content := range c.files() {
		p := filepath.Join(e.W, rel)
		os.MkdirAll(filepath.Dir(p), 0o755)
		if err := os.WriteFile(p, []byte(content), 0o644); err != nil {
			return &lib.Inconclusive{Msg: err.Error()}
		}
	}
	var labels []string
	for _, tg := range c.Targets {
		labels = append(labels, tg.Label())
	}
	sort.Strings(labels)
	var refPlain, refBlocks map[string]string
	var refPlainInv, refBlockInv string
	for i, inv := range c.Invs {
		if inv.Wipe {
			os.RemoveAll(filepath.Join(e.W, "plz-out"))
		}
		args := []string{"hash", "-n", fmt.Sprint(inv.N)}
		if inv.Detailed {
			args = append(args, "--detailed")
		}
		if inv.All {
			args = append(args, "//...")
		} else {
			for _, k := range inv.Perm {
				if k < len(labels) {
					args = append(args, labels[k])
				}
			}
		}
		res := e.PlzW().Run(lib.BuildTimeout, args...)
		desc := fmt.Sprintf("invocation %d (detailed=%v -n %d all=%v wipe=%v)", i, inv.Detailed, inv.N, inv.All, inv.Wipe)
		if res.TimedOut {
			return &lib.Inconclusive{Msg: "plz timed out at " + desc}
		}
		if res.Exit != 0 {
			if i == 0 {
				return &lib.Inconclusive{Msg: "the generated repository does not build: " + res.Brief()}
			}
			return lib.Failf("hash-failed-later", "%s failed although invocation 0 succeeded on the same tree\n%s", desc, res.Brief())
		}
		plain, blocks := parseHashes(res.Stdout + "\n" + res.Stderr)
		for _, l := range labels {
			if _, ok := plain[l]; !ok {
				return lib.Failf("target-not-reported", "%s: no hash reported for %s\n%s", desc, l, res.Brief())
			}
			if _, ok := blocks[l]; inv.Detailed && !ok {
				return lib.Failf("target-not-reported", "%s: no --detailed block for %s\n%s", desc, l, res.Brief())
			}
		}
		if refPlain == nil {
			refPlain, refPlainInv = plain, desc
		} else {
			for _, l := range labels {
				if plain[l] != refPlain[l] {
					return lib.Failf("hash-differs", "hash of %s differs: %s in %s, %s in %s", l, refPlain[l], refPlainInv, plain[l], desc)
				}
			}
		}
		if inv.Detailed {
			if refBlocks == nil {
				refBlocks, refBlockInv = blocks, desc
			} else {
				for _, l := range labels {
					if blocks[l] != refBlocks[l] {
						return lib.Failf("detailed-hash-differs", "--detailed output of %s differs\n--- %s\n%s--- %s\n%s", l, refBlockInv, refBlocks[l], desc, blocks[l])
					}
				}
			}
		}
	}
	rich := false
	maxMaps := 0
	for _, tg := range c.Targets {
		if n := mapEntries(tg); n > maxMaps {
			maxMaps = n
		}
	}
	rich = maxMaps >= 2
	o.NonTrivial(rich)
	o.LabelIf(maxMaps >= 3, "target_with_3_multi_entry_maps")
	for _, tg := range c.Targets {
		if len(tg.Provides) >= 2 {
			o.Label("provides_2plus")
			break
		}
	}
	for _, tg := range c.Targets {
		if len(tg.Env) >= 2 {
			o.Label("env_2plus")
			break
		}
	}
	for _, tg := range c.Targets {
		if len(tg.EntryPoints) >= 2 {
			o.Label("entry_points_2plus")
			break
		}
	}
	for _, tg := range c.Targets {
		if len(tg.NamedSrcs) >= 2 {
			o.Label("named_srcs_2plus")
			break
		}
	}
	var desc []string
	for _, tg := range c.Targets {
		desc = append(desc, strings.TrimSpace(tg.render()))
	}
	if len(desc) > 6 {
		desc = desc[2:6]
	}
	o.Sample(map[string]any{"packages": c.Pkgs, "ntargets": len(c.Targets), "some_targets": desc, "invocations": c.Invs})
	return nil
}

func TestC07(t *testing.T) {
	lib.Check(t, spec, lib.Scale(12, 150), gen, run)
}
