package lib

import "strings"

// Reference model of build labels and target patterns, written from the documentation
// (docs/basics.html "build labels", docs/config.html, docs/build_rules "visibility") and
// independent of please's own code. Used by C20, C33 and C36.

// RefLabel is a label or pattern: //Pkg:Name; Name "..." = the package and everything below,
// Name "all" = every target of exactly that package.
type RefLabel struct {
	Pkg  string
	Name string
}

func (l RefLabel) String() string {
	if l.Name == "..." {
		if l.Pkg == "" {
			return "//..."
		}
		return "//" + l.Pkg + "/..."
	}
	return "//" + l.Pkg + ":" + l.Name
}

func segments(pkg string) []string {
	if pkg == "" {
		return nil
	}
	return strings.Split(pkg, "/")
}

// RefUnder reports whether package q is package p or lies below it, comparing whole path segments.
func RefUnder(p, q string) bool {
	ps, qs := segments(p), segments(q)
	if len(ps) > len(qs) {
		return false
	}
	for i := range ps {
		if ps[i] != qs[i] {
			return false
		}
	}
	return true
}

// StringPrefixOnly reports the confusable situation: p is a proper string prefix of q but q is not p or below it.
func StringPrefixOnly(p, q string) bool {
	return p != "" && p != q && strings.HasPrefix(q, p) && !RefUnder(p, q)
}

// RefSelects is the documented meaning of a pattern: does pat select the target l?
func RefSelects(pat, l RefLabel) bool {
	switch pat.Name {
	case "...":
		return RefUnder(pat.Pkg, l.Pkg)
	case "all":
		return pat.Pkg == l.Pkg
	}
	return pat.Pkg == l.Pkg && pat.Name == l.Name
}

// RefParent maps a hidden sub-target (_name#tag, any number of leading underscores) to the
// target that owns it; every other label is its own parent.
func RefParent(l RefLabel) RefLabel {
	if !strings.HasPrefix(l.Name, "_") {
		return l
	}
	i := strings.IndexByte(l.Name, '#')
	if i < 0 {
		return l
	}
	n := l.Name[:i]
	for len(n) > 0 && n[0] == '_' {
		n = n[1:]
	}
	return RefLabel{l.Pkg, n}
}
