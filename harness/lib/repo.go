package lib

import (
	"fmt"
	"os"
	"path/filepath"
	"sort"
	"strings"
)

// This file holds G-repo: a *model* of a plz repository whose every build command is a pure,
// deterministic shell snippet that the harness can also evaluate in Go. The model therefore knows the
// expected bytes of every output in every state (second oracle next to the clean build).

// RSrc is a source of a target: a file of the package or a label "//pkg:name".
type RSrc struct {
	File  string `json:",omitempty"`
	Label string `json:",omitempty"`
}

// RTarget is a modelled build target.
type RTarget struct {
	Pkg     string
	Name    string
	Kind    string   // genrule | filegroup | text_file
	Cmd     string   `json:",omitempty"` // cat | strip | count | multi | dirk | dirn   (genrule)
	Srcs    []RSrc   `json:",omitempty"`
	Glob    string   `json:",omitempty"` // additionally srcs += glob([Glob]) (files of the package, non-recursive pattern like "*.txt")
	Outs    []string `json:",omitempty"`
	Content string   `json:",omitempty"` // text_file
	Salt    string   `json:",omitempty"` // appended to the command as a no-op: changes the definition, not the outputs
	SleepMs int      `json:",omitempty"`
	Fail    bool     `json:",omitempty"` // command exits 3 (after logging S)
	ExecOut bool     `json:",omitempty"` // command additionally makes its (single, regular-file) output executable
	// Tools are labels of targets the rule declares as tools (built before it, hashed as inputs, but not in $SRCS).
	Tools []string `json:",omitempty"`
	// OptOut: the command additionally writes "<name>.opt" (bytes derived from the inputs), declared as
	// optional_outs - an output that is collected if present but not required.
	OptOut bool `json:",omitempty"`
	// SubOut puts the outputs of a genrule into a sub-directory ("o/<name>.out") of the package's output dir.
	SubOut bool `json:",omitempty"`
	// Visibility is the target's visibility list (nil = ["PUBLIC"]); TestOnly marks it test_only.
	Visibility []string `json:",omitempty"`
	TestOnly   bool     `json:",omitempty"`
	Extra      string   `json:",omitempty"` // extra raw keyword arguments, rendered verbatim (", key=value")
	// Requires / Provides model plz's require/provide mechanism: when a target that requires key k
	// depends on a target that provides {k: L}, the dependency is replaced by L.
	Requires []string          `json:",omitempty"`
	Provides map[string]string `json:",omitempty"`
}

// Label returns //pkg:name.
func (t *RTarget) Label() string { return "//" + t.Pkg + ":" + t.Name }

// RFile is a source file.
type RFile struct {
	Pkg     string
	Path    string // relative to the package
	Content string
}

// Repo is one state of a modelled repository.
type Repo struct {
	Pkgs    []string
	Files   []RFile
	Targets []*RTarget // topologically ordered: a target only refers to earlier ones
	Config  string     `json:",omitempty"` // extra .plzconfig text
	// BrokenPkgs lists packages whose BUILD file gets a syntax error appended (fault injection, C05).
	BrokenPkgs []string `json:",omitempty"`
	// Subinclude makes every package subinclude //defs:defs and define its genrules through the
	// wrapper function declared there (targets are then only discovered after the subinclude is built).
	Subinclude bool `json:",omitempty"`
	// BrokenDefs (only with Subinclude): "syntax" = the subincluded file does not parse,
	// "build" = the target producing it fails to build. Either way no package can be parsed.
	BrokenDefs string `json:",omitempty"`
	// DefsChain (only with Subinclude): the subincluded file is not a source file but the output of
	// the modelled genrule //defs:defs (Cmd "defs"), which may itself depend on other (slow) targets;
	// packages "defs" and "slow" do not subinclude anything themselves.
	DefsChain bool `json:",omitempty"`
}

// Clone deep-copies the repository model.
func (r *Repo) Clone() *Repo {
	c := &Repo{Pkgs: append([]string{}, r.Pkgs...), Files: append([]RFile{}, r.Files...), Config: r.Config,
		BrokenPkgs: append([]string{}, r.BrokenPkgs...), Subinclude: r.Subinclude, BrokenDefs: r.BrokenDefs, DefsChain: r.DefsChain}
	for _, t := range r.Targets {
		tt := *t
		tt.Srcs = append([]RSrc{}, t.Srcs...)
		tt.Outs = append([]string{}, t.Outs...)
		tt.Requires = append([]string{}, t.Requires...)
		tt.Visibility = append([]string(nil), t.Visibility...)
		tt.Tools = append([]string(nil), t.Tools...)
		if t.Provides != nil {
			tt.Provides = map[string]string{}
			for k, v := range t.Provides {
				tt.Provides[k] = v
			}
		}
		c.Targets = append(c.Targets, &tt)
	}
	return c
}

// Target finds a target by label.
func (r *Repo) Target(label string) *RTarget {
	for _, t := range r.Targets {
		if t.Label() == label {
			return t
		}
	}
	return nil
}

// Labels lists all labels in model order.
func (r *Repo) Labels() []string {
	var l []string
	for _, t := range r.Targets {
		l = append(l, t.Label())
	}
	return l
}

// FilesOf returns the files of a package sorted by path.
func (r *Repo) FilesOf(pkg string) []RFile {
	var fs []RFile
	for _, f := range r.Files {
		if f.Pkg == pkg {
			fs = append(fs, f)
		}
	}
	sort.Slice(fs, func(i, j int) bool { return fs[i].Path < fs[j].Path })
	return fs
}

func (r *Repo) file(pkg, path string) (RFile, bool) {
	for _, f := range r.Files {
		if f.Pkg == pkg && f.Path == path {
			return f, true
		}
	}
	return RFile{}, false
}

func globMatch(pat, name string) bool {
	ok, _ := filepath.Match(pat, name)
	return ok && !strings.Contains(name, "/") && !strings.HasPrefix(name, ".")
}

// EffectiveFileSrcs returns the package files a target consumes (explicit + glob), sorted, unique.
func (r *Repo) EffectiveFileSrcs(t *RTarget) []string {
	set := map[string]bool{}
	for _, s := range t.Srcs {
		if s.File != "" {
			set[s.File] = true
		}
	}
	if t.Glob != "" {
		for _, f := range r.FilesOf(t.Pkg) {
			if globMatch(t.Glob, f.Path) {
				set[f.Path] = true
			}
		}
	}
	var out []string
	for k := range set {
		out = append(out, k)
	}
	sort.Strings(out)
	return out
}

// Deps returns the labels a target refers to (sorted, unique).
func (t *RTarget) Deps() []string {
	set := map[string]bool{}
	for _, s := range t.Srcs {
		if s.Label != "" {
			set[s.Label] = true
		}
	}
	for _, l := range t.Tools {
		set[l] = true
	}
	var out []string
	for k := range set {
		out = append(out, k)
	}
	sort.Strings(out)
	return out
}

// SrcDeps returns the labels among the sources (what ends up in $SRCS), after require/provide resolution.
func (r *Repo) SrcDeps(t *RTarget) []string {
	tool := map[string]bool{}
	for _, l := range t.Tools {
		tool[l] = true
	}
	isSrc := map[string]bool{}
	for _, s := range t.Srcs {
		if s.Label != "" {
			isSrc[s.Label] = true
		}
	}
	if len(t.Tools) == 0 {
		return r.ResolvedDeps(t)
	}
	// with tools: resolve only the source labels (tools are never redirected by provides)
	c := *t
	c.Tools = nil
	return r.ResolvedDeps(&c)
}

// ResolvedDeps returns the labels a target really depends on once require/provide has been applied
// (sorted, unique). Without Requires/Provides this equals t.Deps().
func (r *Repo) ResolvedDeps(t *RTarget) []string {
	if len(t.Requires) == 0 {
		return t.Deps()
	}
	set := map[string]bool{}
	for _, d := range t.Deps() {
		replaced := false
		if dt := r.Target(d); dt != nil {
			for _, k := range t.Requires {
				if l, ok := dt.Provides[k]; ok {
					set[l] = true
					replaced = true
				}
			}
		}
		if !replaced {
			set[d] = true
		}
	}
	var out []string
	for k := range set {
		out = append(out, k)
	}
	sort.Strings(out)
	return out
}

// TransitiveDeps returns the dependency closure of the given labels (including themselves).
func (r *Repo) TransitiveDeps(labels []string) map[string]bool {
	seen := map[string]bool{}
	var visit func(l string)
	visit = func(l string) {
		if seen[l] {
			return
		}
		seen[l] = true
		if t := r.Target(l); t != nil {
			for _, d := range r.ResolvedDeps(t) {
				visit(d)
			}
		}
	}
	for _, l := range labels {
		visit(l)
	}
	return seen
}

// OutEnt is one declared output of a target: path relative to its package, and its expected tree.
type OutEnt struct {
	Rel  string
	Node *Node
	// Optional outputs are collected into plz-out but are not handed to dependents as sources.
	Optional bool
}

type input struct {
	Path string
	Node *Node
}

// Digest is the Go twin of the shell function D: a canonical listing of the inputs.
func digest(ins []input) string {
	sort.SliceStable(ins, func(i, j int) bool { return ins[i].Path < ins[j].Path })
	var b strings.Builder
	last := "\x00"
	for _, in := range ins {
		if in.Path == last {
			continue
		}
		last = in.Path
		for i, e := range Flatten(in.Node, in.Path) {
			switch {
			case e.Kind == 'l' && i > 0:
				fmt.Fprintf(&b, "L %s>%s\n", e.Path, e.Target)
			case e.Kind == 'd':
				fmt.Fprintf(&b, "D %s\n", e.Path)
			default:
				fmt.Fprintf(&b, "F %s\n%s\n", e.Path, e.Content) // content starts on its own line so that `strip` sees comment lines
			}
		}
	}
	return b.String()
}

func sanitizeTail(d string, n int) string {
	bs := []byte(d)
	for i, c := range bs {
		if !(c >= 'a' && c <= 'z' || c >= '0' && c <= '9') {
			bs[i] = '_'
		}
	}
	if len(bs) > n {
		bs = bs[len(bs)-n:]
	}
	return string(bs)
}

func stripComments(d string) string {
	var b strings.Builder
	for _, l := range strings.SplitAfter(d, "\n") {
		if l == "" || strings.HasPrefix(l, "#") {
			continue
		}
		b.WriteString(l)
	}
	return b.String()
}

// Eval computes the expected outputs of every target. ok=false for a target means it (or a
// dependency) has Fail set, i.e. cannot be built.
func (r *Repo) Eval() (outs map[string][]OutEnt, ok map[string]bool) {
	outs = map[string][]OutEnt{}
	ok = r.Buildable()
	for _, t := range r.Targets {
		if !ok[t.Label()] {
			continue
		}
		switch t.Kind {
		case "text_file":
			outs[t.Label()] = []OutEnt{{Rel: t.Outs[0], Node: &Node{Name: t.Outs[0], Content: t.Content}}}
		case "filegroup":
			var es []OutEnt
			seen := map[string]bool{}
			for _, f := range r.EffectiveFileSrcs(t) {
				if rf, found := r.file(t.Pkg, f); found && !seen[f] {
					seen[f] = true
					es = append(es, OutEnt{Rel: f, Node: &Node{Name: filepath.Base(f), Content: rf.Content}})
				}
			}
			for _, d := range r.ResolvedDeps(t) {
				for _, o := range outs[d] {
					if !seen[o.Rel] && !o.Optional {
						seen[o.Rel] = true
						es = append(es, o)
					}
				}
			}
			outs[t.Label()] = es
		default:
			var ins []input
			for _, f := range r.EffectiveFileSrcs(t) {
				if rf, found := r.file(t.Pkg, f); found {
					ins = append(ins, input{t.Pkg + "/" + f, &Node{Name: filepath.Base(f), Content: rf.Content}})
				}
			}
			for _, d := range r.SrcDeps(t) { // tools are not in $SRCS
				dt := r.Target(d)
				for _, o := range outs[d] {
					if !o.Optional {
						ins = append(ins, input{dt.Pkg + "/" + o.Rel, o.Node})
					}
				}
			}
			d := digest(ins)
			var es []OutEnt
			switch t.Cmd {
			case "defs":
				es = []OutEnt{{Rel: t.Outs[0], Node: &Node{Name: t.Outs[0], Content: DefsText}}}
			case "strip":
				es = []OutEnt{{Rel: t.Outs[0], Node: &Node{Name: t.Outs[0], Content: stripComments(d)}}}
			case "count":
				es = []OutEnt{{Rel: t.Outs[0], Node: &Node{Name: t.Outs[0], Content: fmt.Sprintf("%d\n", len(d))}}}
			case "multi":
				for _, o := range t.Outs {
					es = append(es, OutEnt{Rel: o, Node: &Node{Name: o, Content: o + "\n" + d}})
				}
			case "dirk":
				es = []OutEnt{{Rel: t.Outs[0], Node: &Node{Name: t.Outs[0], Dir: true, Children: []*Node{{Name: "k" + sanitizeTail(d, 8), Content: "x"}}}}}
			case "dirn":
				es = []OutEnt{{Rel: t.Outs[0], Node: &Node{Name: t.Outs[0], Dir: true, Children: []*Node{
					{Name: "all", Content: d},
					{Name: "sub", Dir: true, Children: []*Node{{Name: "k", Content: sanitizeTail(d, 8)}, {Name: "lnk", Link: true, Target: "../all"}}},
				}}}}
			default: // cat
				es = []OutEnt{{Rel: t.Outs[0], Node: &Node{Name: t.Outs[0], Content: d}}}
			}
			if t.ExecOut && len(es) == 1 && !es[0].Node.Dir {
				es[0].Node.Exec = true
			}
			if t.ExecOut && t.Cmd == "dirn" {
				es[0].Node.Children[0].Exec = true
			}
			if t.OptOut {
				es = append(es, OutEnt{Rel: t.Name + ".opt", Node: &Node{Name: t.Name + ".opt", Content: "opt " + sanitizeTail(d, 8)}, Optional: true})
			}
			outs[t.Label()] = es
		}
	}
	return outs, ok
}

// Buildable computes, per target, whether it can be built: its command does not fail, its package
// parses, every label it refers to exists and is buildable, and it is not on (or behind) a cycle.
func (r *Repo) Buildable() map[string]bool {
	broken := map[string]bool{}
	for _, p := range r.BrokenPkgs {
		broken[p] = true
	}
	for _, t := range r.Targets {
		for _, d := range r.ResolvedDeps(t) {
			if d == t.Label() {
				// plz rejects a self-dependency while parsing ("Attempted to add X as a dependency of
				// itself"), which fails the whole package like a syntax error does
				broken[t.Pkg] = true
			}
		}
	}
	state := map[string]int{} // 0 unvisited, 1 visiting, 2 good, 3 bad
	var visit func(l string) bool
	visit = func(l string) bool {
		switch state[l] {
		case 1:
			return false // cycle
		case 2:
			return true
		case 3:
			return false
		}
		t := r.Target(l)
		if t == nil {
			state[l] = 3
			return false
		}
		state[l] = 1
		good := !t.Fail && !broken[t.Pkg]
		for _, d := range r.ResolvedDeps(t) {
			if !visit(d) {
				good = false
			}
		}
		if good {
			state[l] = 2
		} else {
			state[l] = 3
		}
		return good
	}
	ok := map[string]bool{}
	for _, t := range r.Targets {
		ok[t.Label()] = visit(t.Label())
	}
	if r.Subinclude && r.BrokenDefs != "" {
		for l := range ok {
			ok[l] = false
		}
		return ok
	}
	if r.Subinclude && r.DefsChain && !ok["//defs:defs"] {
		// the subincluded file cannot be produced: no package that subincludes it can be parsed
		for _, t := range r.Targets {
			if !r.plainPkg(t.Pkg) {
				ok[t.Label()] = false
			}
		}
	}
	// a node first reached while its cycle partner was "visiting" may have been marked good too early
	// only if it is not itself on the cycle – re-run until stable to be safe
	for changed := true; changed; {
		changed = false
		for _, t := range r.Targets {
			if !ok[t.Label()] {
				continue
			}
			for _, d := range r.ResolvedDeps(t) {
				if !ok[d] {
					ok[t.Label()] = false
					changed = true
				}
			}
		}
	}
	return ok
}

// ---- rendering -------------------------------------------------------------------------------

const shLib = `L(){ printf '%s %s\n' "$1" '@LABEL@' >> "${TMP_DIR%%/plz-out/tmp/*}/actions.log"; }; ` +
	`D(){ for f in $(printf '%s\n' $SRCS | LC_ALL=C sort -u); do find -H "$f" | LC_ALL=C sort | while IFS= read -r g; do ` +
	`if [ -L "$g" ] && [ "$g" != "$f" ]; then printf 'L %s>%s\n' "$g" "$(readlink "$g")"; elif [ -d "$g" ]; then printf 'D %s\n' "$g"; ` +
	`else printf 'F %s\n' "$g"; cat "$g"; printf '\n'; fi; done; done; }; ` +
	`K(){ D | LC_ALL=C tr -c 'a-z0-9' '_' | tail -c 8; }; `

// DefsText is the build_defs file every package subincludes when Repo.Subinclude is set.
const DefsText = "def vgenrule(name:str, srcs:list, outs:list, cmd:str, visibility:list, requires:list=None, provides:dict=None, test_only:bool=False, tools:list=None, optional_outs:list=None):\n    return genrule(name=name, srcs=srcs, outs=outs, cmd=cmd, visibility=visibility, requires=requires, provides=provides, test_only=test_only, tools=tools, optional_outs=optional_outs)\n"

// plainPkg reports whether a package defines its rules directly (no subinclude): the packages that
// produce the subincluded file itself.
func (r *Repo) plainPkg(pkg string) bool {
	return !r.Subinclude || (r.DefsChain && (pkg == "defs" || pkg == "slow"))
}

// ShellCmd renders the command of a genrule.
func (t *RTarget) ShellCmd() string {
	var body string
	switch t.Cmd {
	case "defs":
		body = `D > /dev/null; printf '%s' '` + DefsText + `' > "$OUT"`
	case "strip":
		body = `D | { grep -v '^#' || true; } > "$OUT"`
	case "count":
		body = `printf '%s\n' $(D | wc -c) > "$OUT"`
	case "multi":
		body = `for o in $OUTS; do { printf '%s\n' "$o"; D; } > "$o"; done`
	case "dirk":
		body = `mkdir "$OUT" && printf x > "$OUT/k$(K)"`
	case "dirn":
		body = `mkdir -p "$OUT/sub" && D > "$OUT/all" && printf '%s' "$(K)" > "$OUT/sub/k" && ln -s ../all "$OUT/sub/lnk"`
	default:
		body = `D > "$OUT"`
	}
	c := strings.ReplaceAll(shLib, "@LABEL@", t.Label()) + "L S; "
	if t.SleepMs > 0 {
		c += fmt.Sprintf("sleep %d.%03d; ", t.SleepMs/1000, t.SleepMs%1000)
	}
	if t.Fail {
		c += "exit 3; "
	}
	if t.SubOut {
		c += `for o in $OUTS; do mkdir -p "$(dirname "$o")"; done; `
	}
	if t.OptOut {
		body += ` && { printf 'opt '; K; } > ` + t.Name + `.opt`
	}
	if t.ExecOut && t.Cmd != "multi" && t.Cmd != "dirk" && t.Cmd != "dirn" && t.Cmd != "defs" {
		body += ` && chmod +x "$OUT"`
	}
	if t.ExecOut && t.Cmd == "dirn" {
		body += ` && chmod +x "$OUT/all"` // executable bit of a file *inside* a directory output
	}
	c += body + "; L E"
	if t.Salt != "" {
		c += " # " + t.Salt
	}
	return c
}

// PyQuote renders a string as a double-quoted BUILD-language literal.
func PyQuote(s string) string {
	r := strings.NewReplacer(`\`, `\\`, `"`, `\"`, "\n", `\n`, "\t", `\t`)
	return `"` + r.Replace(s) + `"`
}

func pyList(ss []string) string {
	q := make([]string, len(ss))
	for i, s := range ss {
		q[i] = PyQuote(s)
	}
	return "[" + strings.Join(q, ", ") + "]"
}

// RenderTarget renders the BUILD statement of a target.
func (r *Repo) RenderTarget(t *RTarget) string {
	var srcs []string
	for _, s := range t.Srcs {
		if s.File != "" {
			srcs = append(srcs, s.File)
		} else {
			srcs = append(srcs, s.Label)
		}
	}
	srcExpr := pyList(srcs)
	if t.Glob != "" {
		srcExpr = "glob([" + PyQuote(t.Glob) + "], allow_empty=True) + " + srcExpr
	}
	vis := "[\"PUBLIC\"]"
	if t.Visibility != nil {
		vis = pyList(t.Visibility)
	}
	to := ""
	if t.TestOnly {
		to = ", test_only=True"
	}
	switch t.Kind {
	case "text_file":
		return fmt.Sprintf("text_file(name=%s, content=%s, out=%s, visibility=%s%s%s)\n", PyQuote(t.Name), PyQuote(t.Content), PyQuote(t.Outs[0]), vis, to, t.Extra)
	case "filegroup":
		return fmt.Sprintf("filegroup(name=%s, srcs=%s, visibility=%s%s%s)\n", PyQuote(t.Name), srcExpr, vis, to, t.Extra)
	}
	extra := t.Extra
	if len(t.Tools) > 0 {
		extra += ", tools=" + pyList(t.Tools)
	}
	if t.OptOut {
		extra += ", optional_outs=" + pyList([]string{t.Name + ".opt"})
	}
	if t.TestOnly {
		extra += ", test_only=True"
	}
	if len(t.Requires) > 0 {
		extra += ", requires=" + pyList(t.Requires)
	}
	if len(t.Provides) > 0 {
		var ks []string
		for k := range t.Provides {
			ks = append(ks, k)
		}
		sort.Strings(ks)
		var kv []string
		for _, k := range ks {
			kv = append(kv, PyQuote(k)+": "+PyQuote(t.Provides[k]))
		}
		extra += ", provides={" + strings.Join(kv, ", ") + "}"
	}
	fn := "genrule"
	if !r.plainPkg(t.Pkg) {
		fn = "vgenrule"
	}
	return fmt.Sprintf(fn+"(name=%s, srcs=%s, outs=%s, cmd=%s, visibility=%s%s)\n", PyQuote(t.Name), srcExpr, pyList(t.Outs), PyQuote(t.ShellCmd()), vis, extra)
}

// RenderBuild renders the BUILD file of a package.
func (r *Repo) RenderBuild(pkg string) string {
	var b strings.Builder
	if !r.plainPkg(pkg) {
		b.WriteString("subinclude(\"//defs:defs\")\n")
	}
	for _, t := range r.Targets {
		if t.Pkg == pkg {
			b.WriteString(r.RenderTarget(t))
		}
	}
	for _, p := range r.BrokenPkgs {
		if p == pkg {
			b.WriteString("this is ( not valid\n")
		}
	}
	return b.String()
}

// Files lists every file of the source tree: path (relative to the root) -> content.
func (r *Repo) TreeFiles() map[string]string {
	m := map[string]string{".plzconfig": BaseConfig + r.Config}
	for _, p := range r.Pkgs {
		m[filepath.Join(p, "BUILD")] = r.RenderBuild(p)
	}
	for _, f := range r.Files {
		m[filepath.Join(f.Pkg, f.Path)] = f.Content
	}
	if r.Subinclude && !r.DefsChain {
		defs := "def vgenrule(name:str, srcs:list, outs:list, cmd:str, visibility:list, requires:list=None, provides:dict=None, test_only:bool=False, tools:list=None, optional_outs:list=None):\n    return genrule(name=name, srcs=srcs, outs=outs, cmd=cmd, visibility=visibility, requires=requires, provides=provides, test_only=test_only, tools=tools, optional_outs=optional_outs)\n"
		switch r.BrokenDefs {
		case "syntax":
			m["defs/BUILD"] = "filegroup(name=\"defs\", srcs=[\"defs.build_defs\"], visibility=[\"PUBLIC\"])\n"
			m["defs/defs.build_defs"] = defs + "this is ( not valid\n"
		case "build":
			m["defs/BUILD"] = "genrule(name=\"defs\", srcs=[\"defs.in\"], outs=[\"defs.build_defs\"], cmd=\"exit 3\", visibility=[\"PUBLIC\"])\n"
			m["defs/defs.in"] = defs
		default:
			m["defs/BUILD"] = "filegroup(name=\"defs\", srcs=[\"defs.build_defs\"], visibility=[\"PUBLIC\"])\n"
			m["defs/defs.build_defs"] = defs
		}
	}
	return m
}

// Sync makes the source tree under root equal to the model: writes files whose bytes differ,
// removes files that are not in the model. plz-out, the action log and anything in `keep` are left alone.
// Files listed in touch are rewritten even if identical (mtime changes, bytes do not).
func (r *Repo) Sync(root string, touch map[string]bool) error {
	want := r.TreeFiles()
	if err := os.MkdirAll(root, 0o755); err != nil {
		return err
	}
	var have []string
	filepath.Walk(root, func(p string, fi os.FileInfo, err error) error {
		if err != nil {
			return nil
		}
		rel, _ := filepath.Rel(root, p)
		top := strings.Split(rel, "/")[0]
		if top == "plz-out" || top == ".plz-cache" {
			return filepath.SkipDir
		}
		if !fi.IsDir() && rel != ActionLogName {
			have = append(have, rel)
		}
		return nil
	})
	for _, h := range have {
		if _, ok := want[h]; !ok {
			os.Remove(filepath.Join(root, h))
		}
	}
	// remove empty directories left behind (a package that lost its last file)
	for i := 0; i < 4; i++ {
		filepath.Walk(root, func(p string, fi os.FileInfo, err error) error {
			if err != nil || !fi.IsDir() || p == root {
				return nil
			}
			rel, _ := filepath.Rel(root, p)
			top := strings.Split(rel, "/")[0]
			if top == "plz-out" || top == ".plz-cache" {
				return filepath.SkipDir
			}
			if es, _ := os.ReadDir(p); len(es) == 0 {
				os.Remove(p)
			}
			return nil
		})
	}
	for rel, content := range want {
		p := filepath.Join(root, rel)
		if b, err := os.ReadFile(p); err == nil && string(b) == content && !touch[rel] {
			continue
		}
		if err := os.MkdirAll(filepath.Dir(p), 0o755); err != nil {
			return err
		}
		if err := os.WriteFile(p, []byte(content), 0o644); err != nil {
			return err
		}
	}
	return nil
}

// OutPath is where plz puts an output of a target.
func OutPath(root string, t *RTarget, rel string) string {
	return filepath.Join(root, "plz-out", "gen", t.Pkg, rel)
}

// SnapshotOutputs reads the declared outputs of the given targets from plz-out.
// Missing outputs are reported as an entry with Kind '-'.
func (r *Repo) SnapshotOutputs(root string, labels []string, outs map[string][]OutEnt) []Entry {
	var all []Entry
	for _, l := range labels {
		t := r.Target(l)
		if t == nil {
			continue
		}
		for _, o := range outs[l] {
			p := OutPath(root, t, o.Rel)
			prefix := l + "|" + o.Rel
			es, err := Snapshot(p)
			if err != nil {
				all = append(all, Entry{Path: prefix, Kind: '-'})
				continue
			}
			for _, e := range es {
				e.Path = strings.TrimSuffix(prefix+"/"+e.Path, "/")
				all = append(all, e)
			}
		}
	}
	sort.Slice(all, func(i, j int) bool { return all[i].Path < all[j].Path })
	return all
}

// ExpectedOutputs flattens the model's expected outputs in the same shape as SnapshotOutputs.
func (r *Repo) ExpectedOutputs(labels []string, outs map[string][]OutEnt) []Entry {
	var all []Entry
	for _, l := range labels {
		for _, o := range outs[l] {
			prefix := l + "|" + o.Rel
			for _, e := range Flatten(o.Node, "") {
				e.Path = strings.TrimSuffix(prefix+"/"+e.Path, "/")
				all = append(all, e)
			}
		}
	}
	sort.Slice(all, func(i, j int) bool { return all[i].Path < all[j].Path })
	return all
}
