package lib

import (
	"fmt"
	"os"
	"path/filepath"
	"sort"
	"strings"

	"pgregory.net/rapid"
)

// Node is one entry of a modelled file tree. Exactly one of the kinds applies:
// Dir (Children may be empty), Link (symlink with Target), otherwise a regular file with Content.
type Node struct {
	Name     string
	Dir      bool    `json:",omitempty"`
	Link     bool    `json:",omitempty"`
	Target   string  `json:",omitempty"`
	Content  string  `json:",omitempty"`
	Exec     bool    `json:",omitempty"`
	Children []*Node `json:",omitempty"`
}

// Kind returns 'd', 'l' or 'f'.
func (n *Node) Kind() byte {
	switch {
	case n.Dir:
		return 'd'
	case n.Link:
		return 'l'
	}
	return 'f'
}

// Clone deep-copies a node.
func (n *Node) Clone() *Node {
	c := *n
	c.Children = nil
	for _, ch := range n.Children {
		c.Children = append(c.Children, ch.Clone())
	}
	return &c
}

// Entry is a flattened tree entry.
type Entry struct {
	Path    string
	Kind    byte
	Content string
	Target  string
	Exec    bool
}

func (e Entry) String() string {
	switch e.Kind {
	case 'd':
		return fmt.Sprintf("%s/ (dir)", e.Path)
	case 'l':
		return fmt.Sprintf("%s -> %s", e.Path, e.Target)
	}
	x := ""
	if e.Exec {
		x = " +x"
	}
	return fmt.Sprintf("%s = %q%s", e.Path, e.Content, x)
}

// Flatten lists all entries below (and including, if withRoot) the node, sorted by path.
// The root's own name is replaced by rootName ("" = do not prefix).
func Flatten(n *Node, rootName string) []Entry {
	var out []Entry
	var rec func(n *Node, p string)
	rec = func(n *Node, p string) {
		e := Entry{Path: p, Kind: n.Kind(), Content: n.Content, Target: n.Target, Exec: n.Exec}
		if n.Dir {
			e.Content, e.Exec = "", false
		}
		if n.Link {
			e.Content, e.Exec = "", false
		}
		out = append(out, e)
		for _, c := range n.Children {
			cp := c.Name
			if p != "" {
				cp = p + "/" + c.Name
			}
			rec(c, cp)
		}
	}
	rec(n, rootName)
	sort.Slice(out, func(i, j int) bool { return out[i].Path < out[j].Path })
	return out
}

// Materialize writes the node at path (path is the full destination, the node's Name is ignored).
func Materialize(n *Node, path string) error {
	switch {
	case n.Dir:
		if err := os.MkdirAll(path, 0o755); err != nil {
			return err
		}
		for _, c := range n.Children {
			if err := Materialize(c, filepath.Join(path, c.Name)); err != nil {
				return err
			}
		}
		return nil
	case n.Link:
		return os.Symlink(n.Target, path)
	default:
		mode := os.FileMode(0o644)
		if n.Exec {
			mode = 0o755
		}
		if err := os.MkdirAll(filepath.Dir(path), 0o755); err != nil {
			return err
		}
		return os.WriteFile(path, []byte(n.Content), mode)
	}
}

// Snapshot reads an on-disk tree into entries (relative to root, root itself is entry "").
// Only names, kinds, bytes, link targets and the executable bit are recorded.
func Snapshot(root string) ([]Entry, error) {
	var out []Entry
	var rec func(abs, rel string) error
	rec = func(abs, rel string) error {
		fi, err := os.Lstat(abs)
		if err != nil {
			return err
		}
		switch {
		case fi.Mode()&os.ModeSymlink != 0:
			t, err := os.Readlink(abs)
			if err != nil {
				return err
			}
			out = append(out, Entry{Path: rel, Kind: 'l', Target: t})
		case fi.IsDir():
			out = append(out, Entry{Path: rel, Kind: 'd'})
			es, err := os.ReadDir(abs)
			if err != nil {
				return err
			}
			for _, e := range es {
				r := e.Name()
				if rel != "" {
					r = rel + "/" + e.Name()
				}
				if err := rec(filepath.Join(abs, e.Name()), r); err != nil {
					return err
				}
			}
		default:
			b, err := os.ReadFile(abs)
			if err != nil {
				return err
			}
			out = append(out, Entry{Path: rel, Kind: 'f', Content: string(b), Exec: fi.Mode()&0o111 != 0})
		}
		return nil
	}
	if err := rec(root, ""); err != nil {
		return nil, err
	}
	sort.Slice(out, func(i, j int) bool { return out[i].Path < out[j].Path })
	return out, nil
}

// DiffOpts selects what TreeDiff compares beyond names and kinds.
type DiffOpts struct {
	IgnoreExec bool
}

// DiffEntries returns human-readable differences between two entry lists ("" = none).
func DiffEntries(a, b []Entry, opts DiffOpts) string {
	am := map[string]Entry{}
	for _, e := range a {
		am[e.Path] = e
	}
	bm := map[string]Entry{}
	for _, e := range b {
		bm[e.Path] = e
	}
	var d []string
	for _, e := range a {
		o, ok := bm[e.Path]
		if !ok {
			d = append(d, "only in first: "+e.String())
			continue
		}
		if opts.IgnoreExec {
			e.Exec, o.Exec = false, false
		}
		if e != o {
			d = append(d, "differs: "+e.String()+"  vs  "+o.String())
		}
	}
	for _, e := range b {
		if _, ok := am[e.Path]; !ok {
			d = append(d, "only in second: "+e.String())
		}
	}
	if len(d) > 12 {
		d = append(d[:12], fmt.Sprintf("... and %d more", len(d)-12))
	}
	return strings.Join(d, "\n")
}

// ---- generator ---------------------------------------------------------------------------------

// TreeGenOpts parameterises GenTree.
type TreeGenOpts struct {
	MaxDepth   int      // directory nesting below the root (default 3)
	MaxFanout  int      // entries per directory (default 4)
	Names      []string // name alphabet
	Contents   []string // content alphabet
	Symlinks   bool     // generate relative symlinks
	EmptyDirs  bool     // allow empty directories
	ExecBits   bool     // draw executable bits
	LinkTarget []string // extra link targets (in addition to sibling names and ../x)
}

// CollidingNames is the name alphabet meant to provoke separator/prefix confusions.
var CollidingNames = []string{"a", "b", "ab", "a.b", "c", "bc", ".h", "x y", "#x#", "é", "a-b", "B"}

// CollidingContents is the content alphabet meant to provoke concatenation confusions.
var CollidingContents = []string{"", "a", "b", "ab", "c", "bc", "abc", "a\n", "\x00", "hello world\n"}

// GenDir draws a directory node named name.
func GenDir(t *rapid.T, name string, o TreeGenOpts) *Node {
	if o.MaxDepth == 0 {
		o.MaxDepth = 3
	}
	if o.MaxFanout == 0 {
		o.MaxFanout = 4
	}
	if o.Names == nil {
		o.Names = CollidingNames
	}
	if o.Contents == nil {
		o.Contents = CollidingContents
	}
	return genDir(t, name, o, o.MaxDepth)
}

func genDir(t *rapid.T, name string, o TreeGenOpts, depth int) *Node {
	n := &Node{Name: name, Dir: true}
	min := 0
	if !o.EmptyDirs {
		min = 1
	}
	k := rapid.IntRange(min, o.MaxFanout).Draw(t, "fanout")
	names := rapid.Permutation(o.Names).Draw(t, "names")
	if k > len(names) {
		k = len(names)
	}
	names = names[:k]
	sort.Strings(names)
	for _, nm := range names {
		kind := rapid.IntRange(0, 9).Draw(t, "kind")
		switch {
		case kind <= 2 && depth > 0:
			n.Children = append(n.Children, genDir(t, nm, o, depth-1))
		case kind == 3 && o.Symlinks:
			tg := append([]string{}, o.Names...)
			tg = append(tg, "../a", "../b", "nonexistent", ".")
			tg = append(tg, o.LinkTarget...)
			n.Children = append(n.Children, &Node{Name: nm, Link: true, Target: rapid.SampledFrom(tg).Draw(t, "target")})
		default:
			f := &Node{Name: nm, Content: rapid.SampledFrom(o.Contents).Draw(t, "content")}
			if o.ExecBits {
				f.Exec = rapid.IntRange(0, 3).Draw(t, "exec") == 0
			}
			n.Children = append(n.Children, f)
		}
	}
	return n
}

// GenFile draws a regular file node.
func GenFile(t *rapid.T, name string, o TreeGenOpts) *Node {
	if o.Contents == nil {
		o.Contents = CollidingContents
	}
	f := &Node{Name: name, Content: rapid.SampledFrom(o.Contents).Draw(t, "content")}
	if o.ExecBits {
		f.Exec = rapid.Bool().Draw(t, "exec")
	}
	return f
}

// CountNodes counts entries by kind.
func CountNodes(n *Node) (files, dirs, links, emptyDirs, depth int) {
	var rec func(n *Node, d int)
	rec = func(n *Node, d int) {
		if d > depth {
			depth = d
		}
		switch {
		case n.Dir:
			dirs++
			if len(n.Children) == 0 {
				emptyDirs++
			}
			for _, c := range n.Children {
				rec(c, d+1)
			}
		case n.Link:
			links++
		default:
			files++
		}
	}
	rec(n, 0)
	return
}

// Scratch returns a fresh scratch directory for one case and a cleanup function.
func Scratch(prefix string) (string, func()) {
	base := os.Getenv("VERIF_SCRATCH")
	if base == "" {
		base = "/dev/shm"
		if _, err := os.Stat(base); err != nil {
			base = "/var/tmp"
		}
	}
	os.MkdirAll(base, 0o755)
	d, err := os.MkdirTemp(base, prefix)
	if err != nil {
		panic(err)
	}
	return d, func() {
		// make everything removable first (tests may create read-only dirs)
		filepath.Walk(d, func(p string, fi os.FileInfo, err error) error {
			if err == nil && fi.IsDir() {
				os.Chmod(p, 0o755)
			}
			return nil
		})
		os.RemoveAll(d)
	}
}
