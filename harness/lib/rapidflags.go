package lib

import (
	"flag"
	"fmt"
	"os"
	"strconv"
)

// setRapidFlags pins rapid's behaviour: explicit number of checks, seed derived by the driver
// (never 0, which rapid treats as "random"), no fail files under testdata/ (so that a run is a
// function of code + VERIF_SEED only), bounded shrinking time.
func setRapidFlags(checks int) {
	must := func(name, val string) {
		if err := flag.Set(name, val); err != nil {
			fmt.Fprintf(os.Stderr, "cannot set -%s: %v\n", name, err)
		}
	}
	must("rapid.checks", strconv.Itoa(checks))
	must("rapid.seed", strconv.FormatUint(Seed(), 10))
	must("rapid.nofailfile", "true")
	st := os.Getenv("VERIF_SHRINKTIME")
	if st == "" {
		st = "30s"
	}
	must("rapid.shrinktime", st)
}
