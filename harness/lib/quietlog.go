package lib

import (
	"io"

	logging "gopkg.in/op/go-logging.v1"
)

// QuietPleaseLogs discards everything please writes through its global go-logging logger
// (in-process checks call code that logs an error per rejected case).
func QuietPleaseLogs() {
	logging.SetBackend(logging.NewLogBackend(io.Discard, "", 0))
}
