package lib

import (
	"bytes"
	"context"
	"encoding/json"
	"fmt"
	"os"
	"os/exec"
	"path/filepath"
	"sort"
	"strings"
	"syscall"
	"time"
)

// Plz runs the plz binary built from /repo in a fully isolated environment: `env -i` semantics,
// HOME inside the case directory (plz's default shared directory cache lives in ~/.cache/please),
// no machine/user config picked up.
type Plz struct {
	Bin  string   // plz binary (default $VERIF_PLZ)
	Root string   // repository root (cwd of the invocation)
	Home string   // HOME for the invocation (default <Root>/../home)
	Env  []string // extra KEY=VALUE entries
}

// TraceEvent is one event of plz's --trace_file output.
type TraceEvent struct {
	Name string `json:"name"`
	Cat  string `json:"cat"`
	Ph   string `json:"ph"`
	Tid  string `json:"tid"`
	Ts   int64  `json:"ts"`
	Args struct {
		Description string `json:"description"`
	} `json:"args"`
}

// PlzResult is the outcome of one invocation.
type PlzResult struct {
	Args     []string
	Exit     int
	Stdout   string
	Stderr   string
	Trace    []TraceEvent
	Wall     time.Duration
	TimedOut bool
}

// PlzBin returns the plz binary path.
func PlzBin() string {
	if b := os.Getenv("VERIF_PLZ"); b != "" {
		return b
	}
	return filepath.Join(VerifDir(), ".build", "plz")
}

// BaseConfig is the .plzconfig every generated repository starts from.
const BaseConfig = "[please]\nselfupdate = false\n[display]\nupdatetitle = false\n"

// NoCacheConfig disables the directory cache (blank value).
const NoCacheConfig = "[cache]\ndir =\n"

// Cmd prepares (but does not start) an invocation; used by tests that need to signal the process.
func (p *Plz) Cmd(ctx context.Context, args ...string) *exec.Cmd {
	bin := p.Bin
	if bin == "" {
		bin = PlzBin()
	}
	home := p.Home
	if home == "" {
		home = filepath.Join(filepath.Dir(p.Root), "home")
	}
	os.MkdirAll(home, 0o755)
	cmd := exec.CommandContext(ctx, bin, args...)
	cmd.Dir = p.Root
	cmd.Env = append([]string{
		"PATH=/usr/local/bin:/usr/bin:/bin",
		"HOME=" + home,
		"XDG_CONFIG_HOME=" + filepath.Join(home, ".config"),
		"XDG_CACHE_HOME=" + filepath.Join(home, ".cache"),
		"LANG=C.UTF-8",
	}, p.Env...)
	cmd.SysProcAttr = &syscall.SysProcAttr{Setpgid: true}
	cmd.Cancel = func() error { return syscall.Kill(-cmd.Process.Pid, syscall.SIGKILL) }
	cmd.WaitDelay = 5 * time.Second
	return cmd
}

// Run runs `plz <args>` with plain output; a trace file is requested for build/test commands.
func (p *Plz) Run(timeout time.Duration, args ...string) PlzResult {
	full := []string{"-p", "--nocolour", "-v", "warning"}
	var tracef string
	if len(args) > 0 && (args[0] == "build" || args[0] == "test" || args[0] == "cover") {
		f, err := os.CreateTemp(filepath.Dir(p.Root), "trace-*.json")
		if err == nil {
			tracef = f.Name()
			f.Close()
			full = append(full, "--trace_file", tracef)
		}
	}
	// plz defaults to (cores + 2) worker threads per invocation; many checks run many invocations side by
	// side, so unless the caller chose a thread count itself, a moderate one is used (VERIF_PLZ_THREADS).
	hasN := false
	for _, a := range args {
		if a == "-n" || a == "--num_threads" || strings.HasPrefix(a, "--num_threads=") {
			hasN = true
		}
	}
	if len(args) > 0 && (args[0] == "build" || args[0] == "test" || args[0] == "cover") && !hasN {
		n := os.Getenv("VERIF_PLZ_THREADS")
		if n == "" {
			n = "6"
		}
		// NB the long form: for `plz test` -n means --num_runs
		args = append([]string{args[0], "--num_threads", n}, args[1:]...)
	}
	full = append(full, args...)
	ctx, cancel := context.WithTimeout(context.Background(), timeout)
	defer cancel()
	cmd := p.Cmd(ctx, full...)
	var so, se bytes.Buffer
	cmd.Stdout, cmd.Stderr = &so, &se
	start := time.Now()
	err := cmd.Run()
	res := PlzResult{Args: args, Stdout: so.String(), Stderr: se.String(), Wall: time.Since(start)}
	if ctx.Err() == context.DeadlineExceeded {
		res.TimedOut = true
	}
	if err != nil {
		if ee, ok := err.(*exec.ExitError); ok {
			res.Exit = ee.ExitCode()
		} else {
			res.Exit = -1
			res.Stderr += "\n[harness] " + err.Error()
		}
	}
	if tracef != "" {
		if b, err := os.ReadFile(tracef); err == nil {
			res.Trace = parseTrace(b)
		}
		os.Remove(tracef)
	}
	return res
}

func parseTrace(b []byte) []TraceEvent {
	var ev []TraceEvent
	if json.Unmarshal(b, &ev) == nil {
		return ev
	}
	// a killed plz leaves the array unterminated: parse line by line
	for _, line := range strings.Split(string(b), "\n") {
		line = strings.TrimSuffix(strings.TrimSpace(line), ",")
		if !strings.HasPrefix(line, "{") {
			continue
		}
		var e TraceEvent
		if json.Unmarshal([]byte(line), &e) == nil {
			ev = append(ev, e)
		}
	}
	return ev
}

// Terminal returns, per target label, the descriptions of its terminal ("E") events of a category.
func (r PlzResult) Terminal(cat string) map[string][]string {
	out := map[string][]string{}
	for _, e := range r.Trace {
		if e.Cat == cat && e.Ph == "E" {
			out[e.Name] = append(out[e.Name], e.Args.Description)
		}
	}
	return out
}

// Brief renders the result for failure messages.
func (r PlzResult) Brief() string {
	tail := func(s string, n int) string {
		if len(s) > n {
			return "…" + s[len(s)-n:]
		}
		return s
	}
	return fmt.Sprintf("plz %s -> exit %d (%.2fs)\nstdout: %s\nstderr: %s", strings.Join(r.Args, " "), r.Exit, r.Wall.Seconds(), tail(r.Stdout, 600), tail(r.Stderr, 1500))
}

// ---- action log --------------------------------------------------------------------------------

// ActionEvent is one line of the action log written by generated commands.
type ActionEvent struct {
	Kind  string // "S" start, "E" end
	Label string
}

// ActionLogName is the log file name (at the repository root).
const ActionLogName = "actions.log"

// ReadActions parses <root>/actions.log.
func ReadActions(root string) []ActionEvent {
	b, err := os.ReadFile(filepath.Join(root, ActionLogName))
	if err != nil {
		return nil
	}
	var out []ActionEvent
	for _, l := range strings.Split(string(b), "\n") {
		f := strings.Fields(l)
		if len(f) >= 2 {
			out = append(out, ActionEvent{f[0], f[1]})
		}
	}
	return out
}

// ResetActions truncates the action log.
func ResetActions(root string) { os.Remove(filepath.Join(root, ActionLogName)) }

// Started returns the sorted list of labels with an S event (with multiplicity).
func Started(ev []ActionEvent) []string {
	var s []string
	for _, e := range ev {
		if e.Kind == "S" {
			s = append(s, e.Label)
		}
	}
	sort.Strings(s)
	return s
}

// CopyTree copies a source tree (regular files, dirs, symlinks; modes) from src to dst, skipping
// the top-level names in skip.
func CopyTree(src, dst string, skip ...string) error {
	sk := map[string]bool{}
	for _, s := range skip {
		sk[s] = true
	}
	return filepath.Walk(src, func(p string, fi os.FileInfo, err error) error {
		if err != nil {
			return err
		}
		rel, _ := filepath.Rel(src, p)
		if rel != "." && sk[strings.Split(rel, string(filepath.Separator))[0]] {
			if fi.IsDir() {
				return filepath.SkipDir
			}
			return nil
		}
		d := filepath.Join(dst, rel)
		switch {
		case fi.Mode()&os.ModeSymlink != 0:
			t, err := os.Readlink(p)
			if err != nil {
				return err
			}
			return os.Symlink(t, d)
		case fi.IsDir():
			return os.MkdirAll(d, 0o755)
		default:
			b, err := os.ReadFile(p)
			if err != nil {
				return err
			}
			return os.WriteFile(d, b, fi.Mode().Perm())
		}
	})
}

// RemovePlzOut deletes <root>/plz-out.
func RemovePlzOut(root string) { os.RemoveAll(filepath.Join(root, "plz-out")) }
