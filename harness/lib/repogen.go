package lib

import (
	"fmt"
	"sort"

	"pgregory.net/rapid"
)

// RepoGenOpts parameterises GenRepo.
type RepoGenOpts struct {
	MinTargets, MaxTargets int
	MaxPkgs                int
	Kinds                  []string // genrule commands to draw from (default all)
	MaxSleepMs             int      // draw SleepMs in [0, MaxSleepMs]
	NoGlob                 bool
	Cutoff                 bool // add a file -> strip -> cat chain and favour comment-only edits of that file
	SubOuts                bool // sometimes place a genrule's outputs in a sub-directory of the package ("o/<name>.out")
	Tools                  bool // sometimes declare earlier genrules as tools (built first, hashed, not in $SRCS)
	OptOuts                bool // sometimes give a genrule an optional output
}

var repoPkgs = []string{"p", "q", "p/r"}
var repoFileNames = []string{"a.txt", "b.txt", "c.txt", "d/e.txt", "ab.txt"}

// RepoContents is the content alphabet of generated source files: line based, with comment lines
// (the `strip` command drops them, so editing one leaves dependents' inputs unchanged) and shared
// prefixes/suffixes.
var RepoContents = []string{"", "x\n", "y\n", "x\ny\n", "#c1\nx\n", "#c2\nx\n", "abc", "ab\nc\n", "#only\n", "xy\n", "a b  c\n"}

var allCmds = []string{"cat", "cat", "strip", "count", "multi", "dirk", "dirn"}

// GenRepo draws an initial repository model.
func GenRepo(t *rapid.T, o RepoGenOpts) *Repo {
	if o.MaxTargets == 0 {
		o.MinTargets, o.MaxTargets = 3, 8
	}
	if o.MaxPkgs == 0 {
		o.MaxPkgs = 3
	}
	if o.Kinds == nil {
		o.Kinds = allCmds
	}
	r := &Repo{}
	np := rapid.IntRange(1, o.MaxPkgs).Draw(t, "npkgs")
	r.Pkgs = append(r.Pkgs, repoPkgs[:np]...)
	for _, p := range r.Pkgs {
		nf := rapid.IntRange(1, 4).Draw(t, "nfiles")
		names := rapid.Permutation(repoFileNames).Draw(t, "fnames")[:nf]
		sort.Strings(names)
		for _, n := range names {
			r.Files = append(r.Files, RFile{p, n, rapid.SampledFrom(RepoContents).Draw(t, "content")})
		}
	}
	nt := rapid.IntRange(o.MinTargets, o.MaxTargets).Draw(t, "ntargets")
	for i := 0; i < nt; i++ {
		addTarget(t, r, o, fmt.Sprintf("t%d", i))
	}
	if o.Cutoff {
		p := r.Pkgs[0]
		r.Files = append(r.Files, RFile{p, "cc.txt", "#c1\nx\n"})
		s := &RTarget{Pkg: p, Name: "cs", Kind: "genrule", Cmd: "strip", Srcs: []RSrc{{File: "cc.txt"}}}
		setOuts(s)
		d := &RTarget{Pkg: rapid.SampledFrom(r.Pkgs).Draw(t, "cdpkg"), Name: "cd", Kind: "genrule", Cmd: rapid.SampledFrom([]string{"cat", "dirn", "multi"}).Draw(t, "cdcmd"), Srcs: []RSrc{{Label: s.Label()}}}
		setOuts(d)
		r.Targets = append(r.Targets, s, d)
		if o.Tools {
			// a user of the strip target through tools=[...]: a tool rebuilt to identical bytes must not re-run it
			u := &RTarget{Pkg: p, Name: "cu", Kind: "genrule", Cmd: "cat", Srcs: []RSrc{{File: "cc.txt"}}, Tools: []string{s.Label()}}
			u.Srcs = []RSrc{{File: r.FilesOf(p)[0].Path}}
			setOuts(u)
			r.Targets = append(r.Targets, u)
		}
	}
	return r
}

func nextName(r *Repo) string {
	for i := 0; ; i++ {
		n := fmt.Sprintf("t%d", i)
		found := false
		for _, t := range r.Targets {
			if t.Name == n {
				found = true
			}
		}
		if !found {
			return n
		}
	}
}

func setOuts(tg *RTarget) {
	defer func() {
		if tg.SubOut && tg.Kind == "genrule" {
			for i, o := range tg.Outs {
				tg.Outs[i] = "o/" + o
			}
		}
	}()
	switch {
	case tg.Kind == "text_file":
		tg.Outs = []string{tg.Name + ".txt"}
	case tg.Kind == "filegroup":
		tg.Outs = nil
	case tg.Cmd == "multi":
		tg.Outs = []string{tg.Name + ".a", tg.Name + ".b"}
	case tg.Cmd == "dirk" || tg.Cmd == "dirn":
		tg.Outs = []string{tg.Name + "_d"}
	default:
		tg.Outs = []string{tg.Name + ".out"}
	}
}

func drawRepoSrcs(t *rapid.T, r *Repo, pkg string, upto int, min int) []RSrc {
	var cands []RSrc
	for _, f := range r.FilesOf(pkg) {
		cands = append(cands, RSrc{File: f.Path})
	}
	for _, tg := range r.Targets[:upto] {
		cands = append(cands, RSrc{Label: tg.Label()})
		cands = append(cands, RSrc{Label: tg.Label()}) // favour edges between targets
	}
	if len(cands) == 0 {
		return nil
	}
	n := rapid.IntRange(min, 3).Draw(t, "nsrcs")
	var out []RSrc
	seen := map[RSrc]bool{}
	for i := 0; i < n; i++ {
		s := rapid.SampledFrom(cands).Draw(t, "src")
		if !seen[s] {
			seen[s] = true
			out = append(out, s)
		}
	}
	return out
}

func addTarget(t *rapid.T, r *Repo, o RepoGenOpts, name string) *RTarget {
	pkg := rapid.SampledFrom(r.Pkgs).Draw(t, "pkg")
	tg := &RTarget{Pkg: pkg, Name: name}
	k := rapid.IntRange(0, 9).Draw(t, "kind")
	switch {
	case k == 0:
		tg.Kind = "text_file"
		tg.Content = rapid.SampledFrom(RepoContents).Draw(t, "content")
	case k <= 2:
		tg.Kind = "filegroup"
		tg.Srcs = drawRepoSrcs(t, r, pkg, len(r.Targets), 1)
		fixFilegroup(r, tg)
	default:
		tg.Kind = "genrule"
		tg.Cmd = rapid.SampledFrom(o.Kinds).Draw(t, "cmd")
		tg.Srcs = drawRepoSrcs(t, r, pkg, len(r.Targets), 1)
		if !o.NoGlob && rapid.IntRange(0, 5).Draw(t, "glob") == 0 {
			tg.Glob = rapid.SampledFrom([]string{"*.txt", "a*.txt", "[bc].txt"}).Draw(t, "globpat")
		}
		if o.MaxSleepMs > 0 {
			tg.SleepMs = rapid.IntRange(0, o.MaxSleepMs).Draw(t, "sleep")
		}
		if o.OptOuts && rapid.IntRange(0, 2).Draw(t, "optout") == 0 {
			tg.OptOut = true
		}
		if o.SubOuts && rapid.Bool().Draw(t, "subout") {
			tg.SubOut = true
		}
		if o.Tools && rapid.IntRange(0, 2).Draw(t, "tools") == 0 {
			var gens []string
			for _, e := range r.Targets {
				if e.Kind == "genrule" && e.Cmd != "dirk" && e.Cmd != "dirn" && e.Cmd != "multi" {
					gens = append(gens, e.Label())
				}
			}
			if len(gens) > 0 {
				tg.Tools = []string{rapid.SampledFrom(gens).Draw(t, "tool")}
			}
		}
	}
	if len(tg.Srcs) == 0 && tg.Kind != "text_file" {
		// nothing to consume (cannot happen: every package has a file) – degrade to a text_file
		tg.Kind, tg.Cmd, tg.Content = "text_file", "", "z\n"
	}
	setOuts(tg)
	r.Targets = append(r.Targets, tg)
	return tg
}

// origin names where the bytes of output rel of target t ultimately come from.
func (r *Repo) origin(t *RTarget, rel string, outs map[string][]OutEnt, depth int) string {
	if t.Kind != "filegroup" || depth > 20 {
		return "out:" + t.Label() + "|" + rel
	}
	for _, f := range r.EffectiveFileSrcs(t) {
		if f == rel {
			return "file:" + t.Pkg + "/" + f
		}
	}
	for _, d := range t.Deps() {
		if dt := r.Target(d); dt != nil {
			for _, o := range outs[d] {
				if o.Rel == rel {
					return r.origin(dt, rel, outs, depth+1)
				}
			}
		}
	}
	return "out:" + t.Label() + "|" + rel
}

// fixFilegroup removes sources of a filegroup whose output names would collide: two entries of the
// filegroup mapping to the same path, or an entry mapping to a path under the filegroup's package
// that another target of that package also outputs with bytes of a different origin (plz does not
// reject that; whichever is built last wins, so such a repository has no well-defined outputs and
// the properties are not about it).
func fixFilegroup(r *Repo, tg *RTarget) {
	outs, _ := r.Eval()
	taken := map[string]string{} // rel -> origin, for the other targets of the package
	for _, o := range r.Targets {
		if o == tg || o.Pkg != tg.Pkg {
			continue
		}
		for _, e := range outs[o.Label()] {
			taken[e.Rel] = r.origin(o, e.Rel, outs, 0)
		}
	}
	seen := map[string]bool{}
	var keep []RSrc
	for _, s := range tg.Srcs {
		type cand struct{ rel, origin string }
		var cs []cand
		if s.File != "" {
			cs = []cand{{s.File, "file:" + tg.Pkg + "/" + s.File}}
		} else if dt := r.Target(s.Label); dt != nil {
			for _, o := range outs[s.Label] {
				cs = append(cs, cand{o.Rel, r.origin(dt, o.Rel, outs, 0)})
			}
		}
		clash := false
		for _, c := range cs {
			if seen[c.rel] {
				clash = true
			}
			if og, ok := taken[c.rel]; ok && og != c.origin {
				clash = true
			}
		}
		if clash {
			continue
		}
		for _, c := range cs {
			seen[c.rel] = true
		}
		keep = append(keep, s)
	}
	tg.Srcs = keep
}

// Dependents returns labels of targets that directly refer to label.
func (r *Repo) Dependents(label string) []string {
	var out []string
	for _, t := range r.Targets {
		for _, d := range r.ResolvedDeps(t) {
			if d == label {
				out = append(out, t.Label())
			}
		}
	}
	return out
}

// GenEdit draws one edit of the model and returns the new state plus a short description.
// The result is always a valid repository (no dangling labels, no missing files).
func GenEdit(t *rapid.T, old *Repo, o RepoGenOpts) (*Repo, string) {
	if o.Kinds == nil {
		o.Kinds = allCmds
	}
	r := old.Clone()
	for attempt := 0; attempt < 8; attempt++ {
		op := rapid.SampledFrom([]string{
			"edit-file", "edit-file", "edit-file", "edit-comment", "edit-same", "add-file", "remove-file", "rename-file",
			"change-cmd", "salt", "rename-out", "rename-out", "rename-out", "add-src", "remove-src", "add-target", "remove-target", "text-content", "swap-content", "toggle-exec",
		}).Draw(t, "op")
		if o.Cutoff && rapid.IntRange(0, 3).Draw(t, "cutoff") == 0 {
			for i := range r.Files {
				if r.Files[i].Path == "cc.txt" {
					if r.Files[i].Content == "#c1\nx\n" {
						r.Files[i].Content = "#c2\nx\n"
					} else {
						r.Files[i].Content = "#c1\nx\n"
					}
					return r, "edit-comment-chain " + r.Files[i].Pkg + "/cc.txt"
				}
			}
		}
		switch op {
		case "edit-file", "edit-same", "edit-comment":
			if len(r.Files) == 0 {
				continue
			}
			i := rapid.IntRange(0, len(r.Files)-1).Draw(t, "file")
			if op == "edit-same" {
				return r, fmt.Sprintf("touch %s/%s (same bytes)", r.Files[i].Pkg, r.Files[i].Path)
			}
			nc := rapid.SampledFrom(RepoContents).Draw(t, "content")
			if op == "edit-comment" {
				// flip between two contents that differ only in a comment line
				if r.Files[i].Content == "#c1\nx\n" {
					nc = "#c2\nx\n"
				} else {
					nc = "#c1\nx\n"
				}
			}
			r.Files[i].Content = nc
			return r, fmt.Sprintf("%s %s/%s", op, r.Files[i].Pkg, r.Files[i].Path)
		case "swap-content":
			// exchange the contents of two files of one package: concatenation-insensitive hashes miss this
			p := rapid.SampledFrom(r.Pkgs).Draw(t, "pkg")
			var idx []int
			for i, f := range r.Files {
				if f.Pkg == p {
					idx = append(idx, i)
				}
			}
			if len(idx) < 2 {
				continue
			}
			a, b := idx[0], idx[len(idx)-1]
			r.Files[a].Content, r.Files[b].Content = r.Files[b].Content, r.Files[a].Content
			return r, fmt.Sprintf("swap contents of %s/%s and %s", p, r.Files[a].Path, r.Files[b].Path)
		case "add-file":
			p := rapid.SampledFrom(r.Pkgs).Draw(t, "pkg")
			n := rapid.SampledFrom(append(append([]string{}, repoFileNames...), "z.txt", "bc.txt")).Draw(t, "fname")
			if _, found := r.file(p, n); found {
				continue
			}
			r.Files = append(r.Files, RFile{p, n, rapid.SampledFrom(RepoContents).Draw(t, "content")})
			// sometimes make an existing target consume it explicitly (globs pick it up on their own)
			if rapid.Bool().Draw(t, "consume") {
				for _, tg := range r.Targets {
					if tg.Pkg == p && tg.Kind == "genrule" {
						tg.Srcs = append(tg.Srcs, RSrc{File: n})
						break
					}
				}
			}
			return r, fmt.Sprintf("add-file %s/%s", p, n)
		case "remove-file", "rename-file":
			if len(r.Files) == 0 {
				continue
			}
			i := rapid.IntRange(0, len(r.Files)-1).Draw(t, "file")
			f := r.Files[i]
			if len(r.FilesOf(f.Pkg)) < 2 {
				continue
			}
			newName := ""
			if op == "rename-file" {
				newName = rapid.SampledFrom([]string{"a.txt", "b.txt", "c.txt", "ab.txt", "z.txt", "bc.txt"}).Draw(t, "newname")
				if _, found := r.file(f.Pkg, newName); found {
					continue
				}
			}
			bad := false
			for _, tg := range r.Targets {
				if tg.Pkg != f.Pkg {
					continue
				}
				var ns []RSrc
				for _, s := range tg.Srcs {
					if s.File == f.Path {
						if newName == "" {
							continue
						}
						s.File = newName
					}
					ns = append(ns, s)
				}
				if len(ns) == 0 && tg.Kind != "text_file" && tg.Glob == "" {
					bad = true
				}
				tg.Srcs = ns
			}
			if bad {
				r = old.Clone()
				continue
			}
			if newName == "" {
				r.Files = append(r.Files[:i], r.Files[i+1:]...)
			} else {
				r.Files[i].Path = newName
			}
			for _, tg := range r.Targets {
				if tg.Kind == "filegroup" {
					fixFilegroup(r, tg)
				}
			}
			return r, fmt.Sprintf("%s %s/%s %s", op, f.Pkg, f.Path, newName)
		case "change-cmd":
			tg := pickTarget(t, r, "genrule")
			if tg == nil {
				continue
			}
			tg.Cmd = rapid.SampledFrom(o.Kinds).Draw(t, "cmd")
			setOuts(tg)
			fixAllFilegroups(r)
			return r, fmt.Sprintf("change-cmd %s -> %s", tg.Label(), tg.Cmd)
		case "toggle-exec":
			tg := pickTarget(t, r, "genrule")
			if tg == nil || tg.Cmd == "multi" || tg.Cmd == "dirk" {
				continue
			}
			tg.ExecOut = !tg.ExecOut
			return r, fmt.Sprintf("toggle-exec %s -> %v", tg.Label(), tg.ExecOut)
		case "salt":
			tg := pickTarget(t, r, "genrule")
			if tg == nil {
				continue
			}
			tg.Salt = rapid.SampledFrom([]string{"", "s1", "s2"}).Draw(t, "salt")
			return r, fmt.Sprintf("salt %s %q", tg.Label(), tg.Salt)
		case "rename-out":
			// prefer a target that something depends on: the dependents' inputs change name, not bytes
			var withDeps []*RTarget
			for _, c := range r.Targets {
				if c.Kind == "genrule" && len(c.Outs) == 1 && len(r.Dependents(c.Label())) > 0 {
					withDeps = append(withDeps, c)
				}
			}
			var tg *RTarget
			if len(withDeps) > 0 && rapid.IntRange(0, 2).Draw(t, "with_dependents") > 0 {
				tg = withDeps[rapid.IntRange(0, len(withDeps)-1).Draw(t, "pick")]
			} else {
				tg = pickTarget(t, r, "genrule")
			}
			if tg == nil || len(tg.Outs) != 1 {
				continue
			}
			sfx := rapid.SampledFrom([]string{".out", ".o2", "_d", "_e"}).Draw(t, "sfx")
			tg.Outs = []string{tg.Name + sfx}
			fixAllFilegroups(r)
			return r, fmt.Sprintf("rename-out %s -> %s", tg.Label(), tg.Outs[0])
		case "add-src":
			i := rapid.IntRange(0, len(r.Targets)-1).Draw(t, "target")
			tg := r.Targets[i]
			if tg.Kind == "text_file" {
				continue
			}
			extra := drawRepoSrcs(t, r, tg.Pkg, i, 1)
			for _, s := range extra {
				dup := false
				for _, e := range tg.Srcs {
					if e == s {
						dup = true
					}
				}
				if !dup {
					tg.Srcs = append(tg.Srcs, s)
				}
			}
			fixAllFilegroups(r)
			return r, fmt.Sprintf("add-src %s", tg.Label())
		case "remove-src":
			i := rapid.IntRange(0, len(r.Targets)-1).Draw(t, "target")
			tg := r.Targets[i]
			if len(tg.Srcs) < 2 {
				continue
			}
			j := rapid.IntRange(0, len(tg.Srcs)-1).Draw(t, "src")
			tg.Srcs = append(tg.Srcs[:j:j], tg.Srcs[j+1:]...)
			return r, fmt.Sprintf("remove-src %s #%d", tg.Label(), j)
		case "add-target":
			tg := addTarget(t, r, o, nextName(r))
			return r, "add-target " + tg.Label()
		case "remove-target":
			if len(r.Targets) < 3 {
				continue
			}
			i := rapid.IntRange(0, len(r.Targets)-1).Draw(t, "target")
			l := r.Targets[i].Label()
			if len(r.Dependents(l)) > 0 {
				continue
			}
			r.Targets = append(r.Targets[:i:i], r.Targets[i+1:]...)
			return r, "remove-target " + l
		case "text-content":
			tg := pickTarget(t, r, "text_file")
			if tg == nil {
				continue
			}
			tg.Content = rapid.SampledFrom(RepoContents).Draw(t, "content")
			return r, "text-content " + tg.Label()
		}
	}
	return r, "no-op"
}

func fixAllFilegroups(r *Repo) {
	for _, tg := range r.Targets {
		if tg.Kind == "filegroup" {
			fixFilegroup(r, tg)
			if len(tg.Srcs) == 0 {
				// keep it valid: give it a file of its package
				if fs := r.FilesOf(tg.Pkg); len(fs) > 0 {
					tg.Srcs = []RSrc{{File: fs[0].Path}}
				}
			}
		}
	}
}

func pickTarget(t *rapid.T, r *Repo, kind string) *RTarget {
	var c []*RTarget
	for _, tg := range r.Targets {
		if tg.Kind == kind {
			c = append(c, tg)
		}
	}
	if len(c) == 0 {
		return nil
	}
	return c[rapid.IntRange(0, len(c)-1).Draw(t, "pick")]
}

// GenRequest draws the targets to request: everything ("//..."), or a non-empty subset.
func GenRequest(t *rapid.T, r *Repo) []string {
	if rapid.IntRange(0, 2).Draw(t, "all") == 0 {
		return r.Labels()
	}
	ls := r.Labels()
	n := rapid.IntRange(1, len(ls)).Draw(t, "nreq")
	p := rapid.Permutation(ls).Draw(t, "req")[:n]
	sort.Strings(p)
	return p
}
