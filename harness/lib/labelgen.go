package lib

import (
	"strings"

	"pgregory.net/rapid"
)

// Generators of package names that are built to collide as *strings* while differing as *paths*
// (p / pfoo / p-x / p_ / p.q / pq): shared by C20, C33, C36.

// PkgSegs are the path segments package names are built from.
var PkgSegs = []string{"p", "pfoo", "p-x", "q", "pq", "p_", "p.q", "exp"}

// SiblingSuffixes turn a package into a sibling sharing it as a string prefix.
var SiblingSuffixes = []string{"foo", "-x", "q", "_", ".q", "p"}

// JoinPkg joins a package and a segment.
func JoinPkg(p, s string) string {
	if p == "" {
		return s
	}
	if s == "" {
		return p
	}
	return p + "/" + s
}

// GenPkg draws a package of 0..maxDepth segments ("" is the root package).
func GenPkg(t *rapid.T, label string, maxDepth int) string {
	d := rapid.IntRange(0, maxDepth).Draw(t, label+"_depth")
	parts := make([]string, d)
	for i := range parts {
		parts[i] = rapid.SampledFrom(PkgSegs).Draw(t, label+"_seg")
	}
	return strings.Join(parts, "/")
}

// GenRelatedPkg draws a package in a chosen relation to p: equal, child, prefix-sharing sibling,
// child of such a sibling, parent, truncation, or unrelated.
func GenRelatedPkg(t *rapid.T, label, p string) string {
	seg := func(n string) string { return rapid.SampledFrom(PkgSegs).Draw(t, label+"_"+n) }
	suf := func() string { return rapid.SampledFrom(SiblingSuffixes).Draw(t, label+"_suffix") }
	switch k := rapid.IntRange(0, 19).Draw(t, label+"_rel"); {
	case k < 3:
		return p
	case k < 7:
		return JoinPkg(p, seg("child"))
	case k < 12:
		if p == "" {
			return seg("top")
		}
		return p + suf()
	case k < 14:
		if p == "" {
			return JoinPkg(seg("top"), seg("child"))
		}
		return JoinPkg(p+suf(), seg("child"))
	case k < 15:
		if i := strings.LastIndexByte(p, '/'); i >= 0 {
			return p[:i]
		}
		return ""
	case k < 16:
		if len(p) > 1 && p[len(p)-2] != '/' {
			return p[:len(p)-1]
		}
		return p
	}
	return GenPkg(t, label+"_other", 3)
}
