package lib

import (
	"bytes"
	"context"
	"os"
	"os/exec"
	"path/filepath"
	"strconv"
	"strings"
	"syscall"
	"time"
)

// HangVerdict tells how a bounded run ended.
type HangVerdict int

const (
	Finished HangVerdict = iota // the process exited within the budget
	Hung                        // budget exceeded AND the process group was idle (no CPU, no children): a hang
	Slow                        // budget exceeded but the process was still busy: inconclusive
)

// groupCPU sums utime+stime (clock ticks) over all processes whose process group is pgid and
// counts the processes other than pgid itself.
func groupCPU(pgid int) (ticks int64, others int) {
	ents, _ := os.ReadDir("/proc")
	for _, e := range ents {
		pid, err := strconv.Atoi(e.Name())
		if err != nil {
			continue
		}
		b, err := os.ReadFile(filepath.Join("/proc", e.Name(), "stat"))
		if err != nil {
			continue
		}
		s := string(b)
		i := strings.LastIndex(s, ")")
		if i < 0 {
			continue
		}
		f := strings.Fields(s[i+1:])
		if len(f) < 13 {
			continue
		}
		pg, _ := strconv.Atoi(f[2])
		if pg != pgid {
			continue
		}
		ut, _ := strconv.ParseInt(f[11], 10, 64)
		stt, _ := strconv.ParseInt(f[12], 10, 64)
		ticks += ut + stt
		if pid != pgid {
			others++
		}
	}
	return
}

// RunBounded runs plz with a budget far above the expected duration. If the budget is exceeded the
// process group is observed for 5 s: idle (<1% CPU) and childless means Hung (SIGQUIT is sent and the
// goroutine dump is returned in Stderr); otherwise Slow. The process group is always killed afterwards.
func (p *Plz) RunBounded(budget time.Duration, args ...string) (PlzResult, HangVerdict) {
	full := append([]string{"-p", "--nocolour", "-v", "warning"}, args...)
	cmd := p.Cmd(context.Background(), full...)
	var so, se bytes.Buffer
	cmd.Stdout, cmd.Stderr = &so, &se
	start := time.Now()
	if err := cmd.Start(); err != nil {
		return PlzResult{Args: args, Exit: -1, Stderr: err.Error()}, Finished
	}
	done := make(chan error, 1)
	go func() { done <- cmd.Wait() }()
	finish := func(err error) PlzResult {
		res := PlzResult{Args: args, Stdout: so.String(), Stderr: se.String(), Wall: time.Since(start)}
		if err != nil {
			if ee, ok := err.(*exec.ExitError); ok {
				res.Exit = ee.ExitCode()
			} else {
				res.Exit = -1
			}
		}
		return res
	}
	select {
	case err := <-done:
		return finish(err), Finished
	case <-time.After(budget):
	}
	pgid := cmd.Process.Pid
	c0, _ := groupCPU(pgid)
	select {
	case err := <-done:
		return finish(err), Finished
	case <-time.After(5 * time.Second):
	}
	c1, others := groupCPU(pgid)
	verdict := Slow
	if c1-c0 < 5 && others == 0 {
		verdict = Hung
		syscall.Kill(pgid, syscall.SIGQUIT)
		select {
		case <-done:
		case <-time.After(5 * time.Second):
		}
	}
	syscall.Kill(-pgid, syscall.SIGKILL)
	select {
	case <-done:
	case <-time.After(5 * time.Second):
	}
	res := finish(nil)
	res.TimedOut = true
	res.Exit = -1
	return res, verdict
}
