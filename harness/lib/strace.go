package lib

// strace runner: run a command under `strace -f` with an optional fault-injection spec, get back the
// parsed trace (per thread, per syscall name), the tracee's exit status and the last trace line.
//
// Facts this relies on (probe-checked with strace 6.1):
//   - `-e inject=<name>:signal=KILL:when=k` kills the tracee *before* its k-th <name> syscall executes;
//     `error=E…` makes the k-th call fail without executing it;
//   - the `when=` counter is kept per thread and per syscall NAME (a set expression gets one counter per
//     member), so a helper whose file syscalls all come from one locked OS thread has deterministic counters;
//   - `-P <path>` restricts tracing *and* the injection counter to syscalls that touch that path.
//
// Typical use:
//
//	base, _ := lib.Strace(lib.StraceOpts{Trace: lib.MutatingSyscalls}, helper, args...)   // count
//	for name, n := range base.Count(base.MainTID) { for k := 1; k <= n; k++ {
//	    r, _ := lib.Strace(lib.StraceOpts{Trace: lib.MutatingSyscalls,
//	        Inject: &lib.Inject{Syscall: name, When: k, Signal: "KILL"}}, helper, args...)
//	    … r.Killed, r.LastCall …
//	}}

import (
	"bufio"
	"bytes"
	"fmt"
	"os"
	"os/exec"
	"strconv"
	"strings"
	"sync"
)

// MutatingSyscalls is the set of file-system mutating syscalls used as crash points (x86-64 / arm64 names;
// names unknown to the local strace are dropped by StraceFilter).
var MutatingSyscalls = []string{
	"mkdir", "mkdirat", "open", "openat", "creat", "rename", "renameat", "renameat2", "link", "linkat",
	"symlink", "symlinkat", "unlink", "unlinkat", "rmdir", "chmod", "fchmod", "fchmodat", "write", "pwrite64",
	"writev", "copy_file_range", "sendfile", "ftruncate", "truncate", "utimensat", "setxattr", "lsetxattr", "fsetxattr",
}

// Inject describes one fault: the When-th call (per thread) of Syscall is killed (Signal, e.g. "KILL")
// or fails (Error, e.g. "EIO").
type Inject struct {
	Syscall string
	When    int
	Signal  string `json:",omitempty"`
	Error   string `json:",omitempty"`
}

func (i Inject) String() string {
	s := "inject=" + i.Syscall
	if i.Error != "" {
		s += ":error=" + i.Error
	}
	if i.Signal != "" {
		s += ":signal=" + i.Signal
	}
	return s + ":when=" + strconv.Itoa(i.When)
}

// StraceOpts parameterises one traced run.
type StraceOpts struct {
	Trace    []string // syscall names to trace (default MutatingSyscalls); the injected syscall is added
	Inject   *Inject  // optional fault
	Path     string   // optional -P scoping
	NoFollow bool     // do not pass -f: only the initial thread is traced (cheaper; enough for single-threaded helpers)
	Dir      string   // working directory of the tracee
	Env      []string // environment of the tracee (nil = inherit)
	Stdin    []byte
}

// Syscall is one syscall *entry* seen in the trace.
type Syscall struct {
	TID      int
	Name     string
	Line     string // raw line (without the tid)
	Ret      string // text after " = " ("" if the call never returned, "?" when killed inside)
	Injected bool   // strace marked the call as tampered with
}

// OK reports whether the call returned without error.
func (s Syscall) OK() bool { return s.Ret != "" && !strings.HasPrefix(s.Ret, "-1") && s.Ret != "?" }

// StraceResult is the outcome of a traced run.
type StraceResult struct {
	MainTID  int       // thread id of the traced command's initial thread
	Calls    []Syscall // all syscall entries in trace order
	ExitCode int       // exit status of the initial process (-1 if it was killed by a signal)
	Killed   string    // signal name that killed the initial process ("" if it exited)
	LastCall string    // last syscall line of the initial thread (identity of a crash point)
	Fired    bool      // an injection was actually applied
	Stdout   []byte
	Stderr   []byte
}

// Count returns the number of entries per syscall name made by thread tid (0 = all threads).
func (r *StraceResult) Count(tid int) map[string]int {
	m := map[string]int{}
	for _, c := range r.Calls {
		if tid == 0 || c.TID == tid {
			m[c.Name]++
		}
	}
	return m
}

// Of returns the entries of one syscall name made by thread tid (0 = all), in order.
func (r *StraceResult) Of(tid int, name string) []Syscall {
	var out []Syscall
	for _, c := range r.Calls {
		if (tid == 0 || c.TID == tid) && c.Name == name {
			out = append(out, c)
		}
	}
	return out
}

var (
	straceOnce  sync.Once
	straceErr   error
	straceKnown map[string]bool
)

// StraceAvailable reports whether strace can trace and inject here (ptrace may be forbidden).
func StraceAvailable() error {
	straceOnce.Do(func() {
		p, err := exec.LookPath("strace")
		if err != nil {
			straceErr = fmt.Errorf("strace not installed: %w", err)
			return
		}
		out, err := exec.Command(p, "-f", "-o", "/dev/null", "-e", "trace=none", "/bin/true").CombinedOutput()
		if err != nil {
			straceErr = fmt.Errorf("strace cannot trace here: %v: %s", err, out)
			return
		}
		straceKnown = map[string]bool{}
		// one probe for the whole default set; only if that is rejected, probe name by name
		if exec.Command(p, "-o", "/dev/null", "-e", "trace="+strings.Join(MutatingSyscalls, ","), "/bin/true").Run() == nil {
			for _, n := range MutatingSyscalls {
				straceKnown[n] = true
			}
			return
		}
		for _, n := range MutatingSyscalls {
			straceKnown[n] = exec.Command(p, "-o", "/dev/null", "-e", "trace="+n, "/bin/true").Run() == nil
		}
	})
	return straceErr
}

// StraceFilter drops syscall names the local strace does not know (they would be a usage error).
func StraceFilter(names []string) []string {
	if StraceAvailable() != nil {
		return names
	}
	straceMu.Lock()
	defer straceMu.Unlock()
	var out []string
	for _, n := range names {
		known, probed := straceKnown[n]
		if !probed {
			known = exec.Command("strace", "-o", "/dev/null", "-e", "trace="+n, "/bin/true").Run() == nil
			straceKnown[n] = known
		}
		if known {
			out = append(out, n)
		}
	}
	return out
}

var straceMu sync.Mutex // guards straceKnown after initialisation

// Strace runs argv under strace. The returned error is about running strace itself (not the tracee).
func Strace(o StraceOpts, argv ...string) (*StraceResult, error) {
	if err := StraceAvailable(); err != nil {
		return nil, err
	}
	tr := o.Trace
	if tr == nil {
		tr = MutatingSyscalls
	}
	if o.Inject != nil {
		has := false
		for _, n := range tr {
			has = has || n == o.Inject.Syscall
		}
		if !has {
			tr = append(append([]string{}, tr...), o.Inject.Syscall)
		}
	}
	tr = StraceFilter(tr)
	f, err := os.CreateTemp(scratchBase(), "strace-*.txt")
	if err != nil {
		return nil, err
	}
	f.Close()
	defer os.Remove(f.Name())
	args := []string{"-q", "-s", "200", "-o", f.Name(), "-e", "trace=" + strings.Join(tr, ",")}
	if !o.NoFollow {
		args = append([]string{"-f"}, args...)
	}
	if o.Inject != nil {
		args = append(args, "-e", o.Inject.String())
	}
	if o.Path != "" {
		args = append(args, "-P", o.Path)
	}
	args = append(args, "--")
	args = append(args, argv...)
	cmd := exec.Command("strace", args...)
	cmd.Dir = o.Dir
	if o.Env != nil {
		cmd.Env = o.Env
	}
	if o.Stdin != nil {
		cmd.Stdin = bytes.NewReader(o.Stdin)
	}
	var so, se bytes.Buffer
	cmd.Stdout, cmd.Stderr = &so, &se
	runErr := cmd.Run()
	b, err := os.ReadFile(f.Name())
	if err != nil {
		return nil, err
	}
	res := parseStrace(b)
	res.Stdout, res.Stderr = so.Bytes(), se.Bytes()
	if res.MainTID == 0 {
		return res, fmt.Errorf("strace produced no trace (run error %v): %s", runErr, se.String())
	}
	return res, nil
}

func scratchBase() string {
	if d := os.Getenv("VERIF_SCRATCH"); d != "" {
		if os.MkdirAll(d, 0o755) == nil {
			return d
		}
	}
	if _, err := os.Stat("/dev/shm"); err == nil {
		return "/dev/shm"
	}
	return os.TempDir()
}

// parseStrace parses `strace -f -o` output: "<tid> name(args) = ret", "<tid> name(args <unfinished ...>",
// "<tid> <... name resumed>…) = ret", "<tid> +++ exited with N +++", "<tid> +++ killed by SIGX +++".
func parseStrace(b []byte) *StraceResult {
	res := &StraceResult{ExitCode: -1}
	pending := map[int]int{} // tid -> index into Calls of its unfinished call
	sc := bufio.NewScanner(bytes.NewReader(b))
	sc.Buffer(make([]byte, 1<<20), 1<<24)
	exitSeen := false
	for sc.Scan() {
		line := sc.Text()
		// with -f every line starts with the thread id; without it there is no prefix (tid 1 is used)
		tid, rest := 1, line
		if sp := strings.IndexByte(line, ' '); sp > 0 {
			if n, err := strconv.Atoi(line[:sp]); err == nil {
				tid, rest = n, strings.TrimLeft(line[sp:], " ")
			}
		}
		if rest == "" {
			continue
		}
		if res.MainTID == 0 {
			res.MainTID = tid
		}
		switch {
		case strings.HasPrefix(rest, "+++ exited with "):
			if tid == res.MainTID && !exitSeen {
				n, _ := strconv.Atoi(strings.Fields(rest)[3])
				res.ExitCode, exitSeen = n, true
			}
		case strings.HasPrefix(rest, "+++ killed by "):
			if tid == res.MainTID && !exitSeen {
				res.Killed, exitSeen = strings.Fields(rest)[3], true
			}
		case strings.HasPrefix(rest, "--- "): // signal delivery
		case strings.HasPrefix(rest, "<... "):
			// "<... name resumed>...) = ret"
			if idx, ok := pending[tid]; ok {
				delete(pending, tid)
				if i := strings.LastIndex(rest, " = "); i >= 0 {
					res.Calls[idx].Ret = strings.TrimSpace(rest[i+3:])
				}
				if strings.Contains(rest, "(INJECTED)") {
					res.Calls[idx].Injected, res.Fired = true, true
				}
			}
		default:
			p := strings.IndexByte(rest, '(')
			if p <= 0 {
				continue
			}
			c := Syscall{TID: tid, Name: rest[:p], Line: rest}
			if strings.HasSuffix(rest, "<unfinished ...>") {
				pending[tid] = len(res.Calls)
			} else if i := strings.LastIndex(rest, " = "); i >= 0 {
				c.Ret = strings.TrimSpace(rest[i+3:])
			}
			if strings.Contains(rest, "(INJECTED)") {
				c.Injected, res.Fired = true, true
			}
			res.Calls = append(res.Calls, c)
			if tid == res.MainTID {
				res.LastCall = rest
			}
		}
	}
	if res.Killed != "" && !res.Fired {
		// a signal injection shows as a call that never returns ("= ?")
		for _, c := range res.Calls {
			if c.Ret == "?" || c.Ret == "" {
				res.Fired = true
			}
		}
	}
	return res
}
