//go:build verif

// Package aspenv sets up an in-process asp interpreter (the BUILD language of Please) with the
// embedded builtin rules loaded, for the property checks that evaluate generated programs
// (C16, C17, C18; reusable by C19/C38). It relies on the verif-tagged hooks in
// /repo/src/parse/asp/verif_hooks.go.
package aspenv

import (
	"fmt"
	"os"
	"path/filepath"
	"sort"

	"github.com/thought-machine/please/rules"
	"github.com/thought-machine/please/src/cli"
	"github.com/thought-machine/please/src/core"
	"github.com/thought-machine/please/src/parse/asp"
)

// Env is one interpreter instance plus the scratch directory its subincluded files live in.
// asp resolves the outputs of subinclude targets relative to the working directory, so New
// changes the process's working directory to root.
type Env struct {
	State  *core.BuildState
	Parser *asp.Parser
	Root   string
	seq    int
}

// New creates an interpreter with all embedded builtin rule files loaded, rooted at root.
func New(root string) (*Env, error) {
	if err := os.MkdirAll(filepath.Join(root, "plz-out", "gen", "defs"), 0o755); err != nil {
		return nil, err
	}
	if err := os.Chdir(root); err != nil {
		return nil, err
	}
	cli.InitLogging(1) // errors only: the interpreter logs a stack trace at debug level for every failed program
	config := core.DefaultConfiguration()
	// what reading a .plzconfig would leave there by default; gives CONFIG.BUILD_FILE_NAMES two items
	config.Parse.BuildFileName = []string{"BUILD", "BUILD.plz"}
	state := core.NewBuildState(config)
	p := asp.NewParser(state)
	names, err := rules.AllAssets()
	if err != nil {
		return nil, err
	}
	sort.Strings(names)
	for _, n := range names {
		src, err := rules.ReadAsset(n)
		if err != nil {
			return nil, err
		}
		if err := p.LoadBuiltins(n, src); err != nil {
			return nil, fmt.Errorf("loading %s: %w", n, err)
		}
	}
	return &Env{State: state, Parser: p, Root: root}, nil
}

// Seq returns a fresh number (used to make package and file names unique within the Env).
func (e *Env) Seq() int {
	e.seq++
	return e.seq
}

// EvalBuild interprets src as the BUILD file of a fresh package called pkgName.
func (e *Env) EvalBuild(pkgName, src string) (*asp.VerifScope, *core.Package, error) {
	pkg := core.NewPackage(pkgName)
	pkg.Filename = filepath.Join(pkgName, "BUILD")
	vs, err := e.Parser.VerifInterpret(pkg, []byte(src), core.ParseModeNormal)
	return vs, pkg, err
}

// AddDefs writes src as the single output of a new, already built, publicly visible target
// //defs:<name> (file plz-out/gen/defs/<name>.build_defs), so that BUILD files evaluated in this Env
// can subinclude() it through the real builtin. It returns the label text and the file path.
func (e *Env) AddDefs(src string) (label, path string, err error) {
	name := fmt.Sprintf("d%d", e.Seq())
	file := name + ".build_defs"
	path = filepath.Join("plz-out", "gen", "defs", file)
	if err := os.WriteFile(filepath.Join(e.Root, path), []byte(src), 0o644); err != nil {
		return "", "", err
	}
	l := core.BuildLabel{PackageName: "defs", Name: name}
	t := core.NewBuildTarget(l)
	t.AddOutput(file)
	t.Visibility = core.WholeGraph
	t.SetState(core.Built)
	e.State.Graph.AddTarget(t)
	return l.String(), path, nil
}

// EvalDefs evaluates the file at path (as returned by AddDefs) through interpreter.Subinclude and
// returns its frozen globals.
func (e *Env) EvalDefs(path string) (*asp.VerifScope, error) {
	pkg := core.NewPackage(fmt.Sprintf("u%d", e.Seq()))
	return e.Parser.VerifSubinclude(pkg, path, core.BuildLabel{PackageName: "defs", Name: filepath.Base(path)})
}

// Remove deletes a defs file written by AddDefs (the interpreter has cached its contents by then).
func (e *Env) Remove(path string) {
	os.Remove(filepath.Join(e.Root, path))
}
