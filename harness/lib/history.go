package lib

import (
	"fmt"
	"os"
	"path/filepath"
	"time"

	"pgregory.net/rapid"
)

// History is a repository model followed through a sequence of edits; after every state a
// `plz build` of Requests[i] is issued.
type History struct {
	States   []*Repo
	Descs    []string   // Descs[i] describes the edit leading to States[i] ("initial" for 0)
	Requests [][]string // labels requested after reaching States[i]
}

// GenHistory draws an initial repository and 1..maxEdits edits.
func GenHistory(t *rapid.T, o RepoGenOpts, minEdits, maxEdits int) History {
	r := GenRepo(t, o)
	h := History{States: []*Repo{r}, Descs: []string{"initial"}, Requests: [][]string{GenRequest(t, r)}}
	n := rapid.IntRange(minEdits, maxEdits).Draw(t, "nedits")
	for i := 0; i < n; i++ {
		nr, d := GenEdit(t, h.States[len(h.States)-1], o)
		h.States = append(h.States, nr)
		h.Descs = append(h.Descs, d)
		// mostly keep requesting the same thing (filtered to what still exists); sometimes re-draw
		var req []string
		if rapid.IntRange(0, 3).Draw(t, "redraw") == 0 {
			req = GenRequest(t, nr)
		} else {
			for _, l := range h.Requests[len(h.Requests)-1] {
				if nr.Target(l) != nil {
					req = append(req, l)
				}
			}
			if len(req) == 0 {
				req = GenRequest(t, nr)
			}
		}
		h.Requests = append(h.Requests, req)
	}
	return h
}

// Summary renders a compact description for evidence samples.
func (h History) Summary() map[string]any {
	var targets []string
	for _, t := range h.States[0].Targets {
		s := t.Label() + " " + t.Kind
		if t.Cmd != "" {
			s += "/" + t.Cmd
		}
		s += " <- "
		for _, src := range t.Srcs {
			s += src.File + src.Label + " "
		}
		if t.Glob != "" {
			s += "glob(" + t.Glob + ")"
		}
		targets = append(targets, s)
	}
	return map[string]any{"initial_targets": targets, "edits": h.Descs[1:], "requests": h.Requests}
}

// E2E is the scratch environment of one end-to-end case.
type E2E struct {
	Dir     string // scratch directory of the case
	W       string // working copy (incremental builds)
	cleanup func()
	nClean  int
}

// NewE2E creates the scratch environment.
func NewE2E(prefix string) *E2E {
	d, cl := Scratch(prefix)
	e := &E2E{Dir: d, W: filepath.Join(d, "w"), cleanup: cl}
	os.MkdirAll(e.W, 0o755)
	return e
}

// Close removes the scratch environment (kept if VERIF_KEEP_SCRATCH is set).
func (e *E2E) Close() {
	if os.Getenv("VERIF_KEEP_SCRATCH") != "" {
		fmt.Fprintln(os.Stderr, "scratch kept:", e.Dir)
		return
	}
	e.cleanup()
}

// PlzW returns the runner for the working copy.
func (e *E2E) PlzW() *Plz { return &Plz{Root: e.W, Home: filepath.Join(e.Dir, "home")} }

// CleanBuild materialises the state in a fresh directory (empty plz-out, its own HOME, no cache) and
// builds the request there. The directory is returned for inspection and must be removed by the caller
// via RemoveClean.
func (e *E2E) CleanBuild(state *Repo, req []string, extraArgs ...string) (string, PlzResult, error) {
	e.nClean++
	f := filepath.Join(e.Dir, fmt.Sprintf("clean%d", e.nClean), "w")
	st := state.Clone()
	st.Config = NoCacheConfig // the reference never uses a cache
	if err := st.Sync(f, nil); err != nil {
		return f, PlzResult{}, err
	}
	p := &Plz{Root: f, Home: filepath.Join(filepath.Dir(f), "home")}
	args := append([]string{"build"}, extraArgs...)
	res := p.Run(BuildTimeout, append(args, req...)...)
	return f, res, nil
}

// RemoveClean deletes a clean-build directory.
func (e *E2E) RemoveClean(f string) { os.RemoveAll(filepath.Dir(f)) }

// BuildTimeout bounds one plz invocation; hitting it is "inconclusive" unless the check is about hangs.
const BuildTimeout = 120 * time.Second
