package lib

// G-graph (DESIGN §3): a small model of a build graph made of *rules*. A rule is a visible target
// `x` plus hidden sub-targets `_x#a`, `_x#b` it owns. The model is a DAG by construction (a target only
// depends on targets with a smaller index) and is installed into a real core.BuildGraph through the
// exported constructors. Used by C23 (queries) and C25 (gc).

import (
	"fmt"
	"sort"
	"strings"

	"github.com/thought-machine/please/src/core"
	"pgregory.net/rapid"
)

// GTarget is one target of the model.
type GTarget struct {
	Pkg      string
	Name     string
	Deps     []int          `json:",omitempty"` // declared dependencies (indices of earlier targets)
	Requires []string       `json:",omitempty"`
	Provides map[string]int `json:",omitempty"` // language -> index of the target provided instead of this one
	Binary   bool           `json:",omitempty"`
	Test     bool           `json:",omitempty"`
	TestOnly bool           `json:",omitempty"`
	Labels   []string       `json:",omitempty"`
	Srcs     []string       `json:",omitempty"` // file names, local to the package
}

// GGraph is the model graph. Targets are in dependency order (dependencies first).
type GGraph struct {
	Targets []GTarget
	// Subincludes[pkg] = indices of targets registered as subincludes of that package.
	Subincludes map[string][]int `json:",omitempty"`
}

// Label returns the build label of target i.
func (g *GGraph) Label(i int) core.BuildLabel {
	return core.BuildLabel{PackageName: g.Targets[i].Pkg, Name: g.Targets[i].Name}
}

// IsHidden reports whether target i is a hidden sub-target (`_x#tag`).
func (g *GGraph) IsHidden(i int) bool {
	n := g.Targets[i].Name
	return strings.HasPrefix(n, "_") && strings.Contains(n, "#")
}

// RuleName is the name of the visible rule that owns target i (its own name if visible).
func (g *GGraph) RuleName(i int) string {
	n := g.Targets[i].Name
	if !g.IsHidden(i) {
		return n
	}
	return strings.TrimLeft(n[:strings.Index(n, "#")], "_")
}

// RuleKey identifies the rule owning target i across packages.
func (g *GGraph) RuleKey(i int) string { return g.Targets[i].Pkg + ":" + g.RuleName(i) }

// SameRule reports whether two targets belong to the same rule.
func (g *GGraph) SameRule(i, j int) bool { return g.RuleKey(i) == g.RuleKey(j) }

// ParentIdx returns the index of the visible target owning i (i itself if visible, -1 if the owner is
// not in the graph).
func (g *GGraph) ParentIdx(i int) int {
	if !g.IsHidden(i) {
		return i
	}
	k := g.RuleKey(i)
	for j := range g.Targets {
		if !g.IsHidden(j) && g.RuleKey(j) == k {
			return j
		}
	}
	return -1
}

// Resolved returns the resolved dependencies of target u: each declared dependency d is replaced by
// what d provides for the languages u requires (in the order of u's requirements), if anything.
// This is the documented require/provide rule, written independently of core.
func (g *GGraph) Resolved(u int) []int {
	var out []int
	seen := map[int]bool{}
	for _, d := range g.Targets[u].Deps {
		var prov []int
		found := false
		for _, r := range g.Targets[u].Requires {
			if p, ok := g.Targets[d].Provides[r]; ok {
				prov = append(prov, p)
				found = true
			}
		}
		if !found {
			prov = []int{d}
		}
		for _, p := range prov {
			if !seen[p] {
				seen[p] = true
				out = append(out, p)
			}
		}
	}
	sort.Ints(out)
	return out
}

// Adjacency returns Resolved for every node.
func (g *GGraph) Adjacency() [][]int {
	adj := make([][]int, len(g.Targets))
	for i := range adj {
		adj[i] = g.Resolved(i)
	}
	return adj
}

// Validate checks the structural invariants the generator promises (used when decoding replays).
func (g *GGraph) Validate() error {
	seen := map[string]bool{}
	for i, t := range g.Targets {
		k := t.Pkg + ":" + t.Name
		if seen[k] || t.Name == "" {
			return fmt.Errorf("target %d: duplicate or empty name %q", i, k)
		}
		seen[k] = true
		for _, d := range t.Deps {
			if d < 0 || d >= i {
				return fmt.Errorf("target %d depends on %d: not an earlier target", i, d)
			}
		}
		for _, p := range t.Provides {
			if p < 0 || p >= len(g.Targets) || p == i {
				return fmt.Errorf("target %d provides %d: out of range", i, p)
			}
		}
		if g.IsHidden(i) && g.ParentIdx(i) < 0 {
			return fmt.Errorf("target %d (%s) has no visible owner", i, k)
		}
	}
	return nil
}

// Install builds the model into state.Graph (which must be empty): packages, targets, declared
// dependencies, require/provide, flags, labels, sources, subincludes; then resolves dependencies.
func (g *GGraph) Install(state *core.BuildState) ([]*core.BuildTarget, error) {
	pkgs := map[string]*core.Package{}
	var pkgNames []string
	ts := make([]*core.BuildTarget, len(g.Targets))
	for i, m := range g.Targets {
		t := core.NewBuildTarget(g.Label(i))
		t.IsBinary = m.Binary
		t.TestOnly = m.TestOnly
		if m.Test {
			t.Test = &core.TestFields{}
		}
		for _, l := range m.Labels {
			t.AddLabel(l)
		}
		for _, r := range m.Requires {
			t.AddRequire(r)
		}
		for _, s := range m.Srcs {
			t.AddSource(core.FileLabel{File: s, Package: m.Pkg})
		}
		for _, d := range m.Deps {
			t.AddDependency(g.Label(d))
		}
		ts[i] = t
		if pkgs[m.Pkg] == nil {
			pkgs[m.Pkg] = core.NewPackage(m.Pkg)
			pkgNames = append(pkgNames, m.Pkg)
		}
	}
	for i, m := range g.Targets {
		langs := make([]string, 0, len(m.Provides))
		for l := range m.Provides {
			langs = append(langs, l)
		}
		sort.Strings(langs)
		for _, l := range langs {
			ts[i].AddProvide(l, []core.BuildLabel{g.Label(m.Provides[l])})
		}
	}
	for i, t := range ts {
		pkgs[g.Targets[i].Pkg].AddTarget(t)
		state.Graph.AddTarget(t)
	}
	sort.Strings(pkgNames)
	for _, n := range pkgNames {
		for _, idx := range g.Subincludes[n] {
			pkgs[n].RegisterSubinclude(g.Label(idx))
		}
		state.Graph.AddPackage(pkgs[n])
	}
	for _, t := range ts {
		if err := t.ResolveDependencies(state.Graph); err != nil {
			return nil, err
		}
	}
	return ts, nil
}

// CheckInstalled compares the resolved dependencies of the installed targets with the model's own
// require/provide resolution; a difference means the harness (not the code under test) is wrong.
func (g *GGraph) CheckInstalled(ts []*core.BuildTarget) error {
	idx := map[core.BuildLabel]int{}
	for i := range g.Targets {
		idx[g.Label(i)] = i
	}
	for i, t := range ts {
		var got []int
		dup := map[int]bool{}
		for _, d := range t.Dependencies() { // core lists a target twice when two declarations resolve to it
			if j := idx[d.Label]; !dup[j] {
				dup[j] = true
				got = append(got, j)
			}
		}
		sort.Ints(got)
		if want := g.Resolved(i); fmt.Sprint(got) != fmt.Sprint(want) {
			return fmt.Errorf("%s: core resolved dependencies %v, model %v", t.Label, got, want)
		}
	}
	return nil
}

// GGraphOpts tunes the generator.
type GGraphOpts struct {
	MaxRules    int  // visible rules (default 8)
	Kinds       bool // draw binary / test / test_only flags, labels and sources (C25)
	NoProvides  bool
	Subincludes bool
}

var ggNames = []string{"a", "b", "c", "d", "e", "f", "g", "h", "i", "j", "k", "l", "m", "n"}
var ggPkgs = []string{"p", "p/s", "q", "r"}
var ggTags = []string{"a", "b", "a_b"}
var ggLangs = []string{"go", "py"}

// GenGGraph draws a model graph: 2..MaxRules rules over at most 4 packages; each rule owns 0-3 hidden
// sub-targets; dependencies go to earlier rules (their visible target, or directly one of their hidden
// sub-targets), with extra "shortcut" edges so that nodes are reachable by paths of different lengths.
// Names are drawn independently of the dependency order, so label order (= iteration order inside
// please) is unrelated to topological order.
func GenGGraph(t *rapid.T, o GGraphOpts) GGraph {
	if o.MaxRules == 0 {
		o.MaxRules = 8
	}
	nRules := rapid.IntRange(2, o.MaxRules).Draw(t, "rules")
	names := rapid.Permutation(ggNames).Draw(t, "names")
	nPkgs := rapid.IntRange(1, len(ggPkgs)).Draw(t, "pkgs")
	g := GGraph{}
	var visible []int   // indices of visible targets so far
	var hiddenIdx []int // indices of hidden targets so far
	srcPool := []string{"s1.txt", "s2.txt", "s3.txt", "dir/s4.txt"}
	pickEarlier := func(exceptRuleFrom int) (int, bool) {
		// a dependency on an earlier rule: mostly its visible target, sometimes a hidden one directly
		if len(visible) == 0 {
			return 0, false
		}
		if len(hiddenIdx) > 0 && rapid.IntRange(0, 4).Draw(t, "depOnHidden") == 0 {
			h := hiddenIdx[rapid.IntRange(0, len(hiddenIdx)-1).Draw(t, "hid")]
			if h < exceptRuleFrom {
				return h, true
			}
		}
		return visible[rapid.IntRange(0, len(visible)-1).Draw(t, "vis")], true
	}
	for r := 0; r < nRules; r++ {
		pkg := ggPkgs[rapid.IntRange(0, nPkgs-1).Draw(t, "pkg")]
		name := names[r]
		first := len(g.Targets)
		nHidden := rapid.SampledFrom([]int{0, 0, 1, 1, 2, 3}).Draw(t, "hidden")
		addDeps := func(tg *GTarget, maxExt int) {
			k := rapid.IntRange(0, maxExt).Draw(t, "extDeps")
			for e := 0; e < k; e++ {
				if d, ok := pickEarlier(first); ok {
					tg.Deps = ggAppendUnique(tg.Deps, d)
				}
			}
		}
		var children []int
		for h := 0; h < nHidden; h++ {
			tg := GTarget{Pkg: pkg, Name: "_" + name + "#" + ggTags[h]}
			for _, c := range children { // sub-targets of one rule often chain
				if rapid.IntRange(0, 1).Draw(t, "chain") == 0 {
					tg.Deps = ggAppendUnique(tg.Deps, c)
				}
			}
			addDeps(&tg, 2)
			if !o.NoProvides && rapid.IntRange(0, 3).Draw(t, "hreq") == 0 {
				tg.Requires = []string{ggLangs[rapid.IntRange(0, 1).Draw(t, "lang")]}
			}
			if o.Kinds {
				ggDrawSrcs(t, &tg, srcPool)
			}
			children = append(children, len(g.Targets))
			g.Targets = append(g.Targets, tg)
		}
		tg := GTarget{Pkg: pkg, Name: name}
		for _, c := range children {
			if rapid.IntRange(0, 4).Draw(t, "own") > 0 {
				tg.Deps = ggAppendUnique(tg.Deps, c)
			}
		}
		addDeps(&tg, 3)
		if !o.NoProvides {
			switch rapid.IntRange(0, 5).Draw(t, "reqprov") {
			case 0:
				tg.Requires = []string{ggLangs[rapid.IntRange(0, 1).Draw(t, "lang")]}
			case 1:
				tg.Requires = []string{"go", "py"}
			}
			if len(children) > 0 && rapid.IntRange(0, 2).Draw(t, "prov") == 0 {
				tg.Provides = map[string]int{ggLangs[rapid.IntRange(0, 1).Draw(t, "plang")]: children[rapid.IntRange(0, len(children)-1).Draw(t, "pchild")]}
			} else if len(visible) > 0 && rapid.IntRange(0, 7).Draw(t, "provOther") == 0 {
				// provides another (earlier) rule's visible target
				tg.Provides = map[string]int{ggLangs[rapid.IntRange(0, 1).Draw(t, "plang")]: visible[rapid.IntRange(0, len(visible)-1).Draw(t, "pvis")]}
			}
		}
		if o.Kinds {
			switch rapid.IntRange(0, 9).Draw(t, "kind") {
			case 0, 1:
				tg.Binary = true
			case 2, 3, 4:
				tg.Binary, tg.Test = true, true
			case 5:
				tg.TestOnly = true
			}
			if rapid.IntRange(0, 5).Draw(t, "label") == 0 {
				tg.Labels = append(tg.Labels, rapid.SampledFrom([]string{"keep", "manual", "lib"}).Draw(t, "lbl"))
			}
			ggDrawSrcs(t, &tg, srcPool)
			// hidden children of a test rule are commonly test_only as well
			if tg.Test || tg.TestOnly {
				for _, c := range children {
					if rapid.IntRange(0, 1).Draw(t, "childTestOnly") == 0 {
						g.Targets[c].TestOnly = true
					}
				}
			}
		}
		visible = append(visible, len(g.Targets))
		hiddenIdx = append(hiddenIdx, children...)
		g.Targets = append(g.Targets, tg)
	}
	// shortcut edges u -> w for existing u -> v -> w (declared edges), so that w has two depths from u
	nShort := rapid.IntRange(0, 3).Draw(t, "shortcuts")
	for s := 0; s < nShort; s++ {
		u := rapid.IntRange(0, len(g.Targets)-1).Draw(t, "u")
		if len(g.Targets[u].Deps) == 0 {
			continue
		}
		v := g.Targets[u].Deps[rapid.IntRange(0, len(g.Targets[u].Deps)-1).Draw(t, "v")]
		if len(g.Targets[v].Deps) == 0 {
			continue
		}
		w := g.Targets[v].Deps[rapid.IntRange(0, len(g.Targets[v].Deps)-1).Draw(t, "w")]
		// never make a hidden target depend on its own visible parent, nor a rule on another rule's
		// internals it did not already reach
		g.Targets[u].Deps = ggAppendUnique(g.Targets[u].Deps, w)
	}
	if o.Subincludes && rapid.IntRange(0, 2).Draw(t, "subinc") == 0 {
		pkg := g.Targets[rapid.IntRange(0, len(g.Targets)-1).Draw(t, "subincPkg")].Pkg
		g.Subincludes = map[string][]int{pkg: {visible[rapid.IntRange(0, len(visible)-1).Draw(t, "subincT")]}}
	}
	return g
}

func ggDrawSrcs(t *rapid.T, tg *GTarget, pool []string) {
	k := rapid.IntRange(0, 2).Draw(t, "nsrcs")
	for i := 0; i < k; i++ {
		s := pool[rapid.IntRange(0, len(pool)-1).Draw(t, "src")]
		dup := false
		for _, x := range tg.Srcs {
			dup = dup || x == s
		}
		if !dup {
			tg.Srcs = append(tg.Srcs, s)
		}
	}
}

func ggAppendUnique(s []int, v int) []int {
	for _, x := range s {
		if x == v {
			return s
		}
	}
	return append(s, v)
}
