// Package lib is the shared machinery of the /verif property checks: case recording,
// evidence statistics, replay files, known findings and the rapid glue.
//
// Every property is written as a generator gen(*rapid.T) C and a pure function run(C, *Obs) error
// over a plain serialisable case type C. Check wires the two together:
//
//   - normal mode: rapid drives gen+run; a failing execution (re)writes the replay file, so the file
//     left after shrinking holds the minimal case;
//   - replay mode (VERIF_REPLAY=<file>): the case is decoded from the file and run directly, with no
//     random generation at all;
//   - known findings (/verif/known_findings.json): each listed replay is executed first.
//
// The process writes a stats file (VERIF_STATS) which the driver (/verif/check) merges into the
// evidence file and turns into the exit status.
package lib

import (
	"crypto/sha1"
	"encoding/hex"
	"encoding/json"
	"fmt"
	"os"
	"path/filepath"
	"sort"
	"strconv"
	"strings"
	"sync"
	"testing"
	"time"

	"pgregory.net/rapid"
)

// Failure is a property violation found by a check. Class names the kind of violation (stable,
// used to match known findings); Msg is for humans.
type Failure struct {
	Class string
	Msg   string
}

func (f *Failure) Error() string { return f.Class + ": " + f.Msg }

// Failf builds a Failure.
func Failf(class, format string, args ...any) error {
	return &Failure{Class: class, Msg: fmt.Sprintf(format, args...)}
}

// Inconclusive is returned by run functions when the environment (not the code under test) prevented
// a verdict — slow machine, resource exhaustion. It is never a violation; the driver exits 2 if
// too many cases are inconclusive.
type Inconclusive struct{ Msg string }

func (i *Inconclusive) Error() string { return "inconclusive: " + i.Msg }

// Obs is handed to run functions so that they can describe the case for the evidence file.
type Obs struct {
	labels     []string
	nontrivial bool
	sample     any
	key        string
}

// Label tags the case with a class name (counted into coverage.labels).
func (o *Obs) Label(l string) {
	if o != nil {
		o.labels = append(o.labels, l)
	}
}

// LabelIf tags the case when cond holds.
func (o *Obs) LabelIf(cond bool, l string) {
	if cond {
		o.Label(l)
	}
}

// NonTrivial marks the case as non-trivial by the property's stated rule.
func (o *Obs) NonTrivial(b bool) {
	if o != nil && b {
		o.nontrivial = true
	}
}

// Sample overrides what is written to the evidence samples for this case (default: the case).
func (o *Obs) Sample(v any) {
	if o != nil {
		o.sample = v
	}
}

// Key overrides the identity used for distinctness (default: hash of the case's JSON).
func (o *Obs) Key(k string) {
	if o != nil {
		o.key = k
	}
}

// Spec describes a property check.
type Spec struct {
	ID   string // property id, e.g. "C06"
	Rule string // generator + non-triviality rule, in words (goes to evidence)
	// Assumptions recorded in the evidence file.
	Assumptions []string
	// Exhaustive sub-spaces enumerated (filled by Enumerate callers through Recorder.Subspace).
}

type knownEntry struct {
	Property string `json:"property"`
	ID       string `json:"id"`
	Kind     string `json:"kind"` // "known" | "fixed"
	Class    string `json:"class"`
	Replay   string `json:"replay"`
	What     string `json:"what"`
	Commit   string `json:"commit,omitempty"`
}

type violation struct {
	Class  string `json:"class"`
	Msg    string `json:"msg"`
	Replay string `json:"replay"`
}

type subspace struct {
	What       string `json:"what"`
	Size       int64  `json:"size"`
	Exhaustive bool   `json:"exhaustive"`
}

// Recorder accumulates per-process statistics.
type Recorder struct {
	mu           sync.Mutex
	spec         Spec
	start        time.Time
	evals        int64
	nontriv      int64
	distinct     map[uint64]struct{}
	labels       map[string]int64
	samples      []any
	trivSamples  []any
	violations   []violation
	knownHits    []string
	inconclusive int64
	incMsgs      []string
	excluded     map[string]int64
	subspaces    []subspace
	extra        map[string]any
	maxSamples   int
}

var (
	recMu sync.Mutex
	recs  = map[string]*Recorder{}
)

// Rec returns the process-wide recorder of a property.
func Rec(spec Spec) *Recorder {
	recMu.Lock()
	defer recMu.Unlock()
	if r, ok := recs[spec.ID]; ok {
		if spec.Rule != "" {
			r.spec = spec
		}
		return r
	}
	r := &Recorder{spec: spec, start: time.Now(), distinct: map[uint64]struct{}{}, labels: map[string]int64{},
		excluded: map[string]int64{}, extra: map[string]any{}, maxSamples: 6}
	recs[spec.ID] = r
	return r
}

func hash64(s string) uint64 {
	h := sha1.Sum([]byte(s))
	var v uint64
	for i := 0; i < 8; i++ {
		v = v<<8 | uint64(h[i])
	}
	return v
}

// CaseKey hashes a case's JSON form.
func CaseKey(c any) string {
	b, err := json.Marshal(c)
	if err != nil {
		return fmt.Sprintf("%#v", c)
	}
	return string(b)
}

func (r *Recorder) record(c any, o *Obs) {
	r.mu.Lock()
	defer r.mu.Unlock()
	r.evals++
	for _, l := range o.labels {
		r.labels[l]++
	}
	s := o.sample
	if s == nil {
		s = c
	}
	if o.nontrivial {
		r.nontriv++
		k := o.key
		if k == "" {
			k = CaseKey(c)
		}
		h := hash64(k)
		if _, ok := r.distinct[h]; !ok {
			r.distinct[h] = struct{}{}
			// keep samples spread over the run: first 2, then reservoir-ish by power of two
			n := len(r.distinct)
			if len(r.samples) < r.maxSamples && isSampleIndex(n) {
				r.samples = append(r.samples, s)
			}
		}
	} else if len(r.trivSamples) < 1 {
		r.trivSamples = append(r.trivSamples, s)
	}
}

// isSampleIndex spreads the samples over the run: the 1st, 2nd, 5th, 20th, 100th, 1000th, ... distinct case.
func isSampleIndex(n int) bool {
	switch n {
	case 1, 2, 5, 20, 100, 1000, 10000, 100000:
		return true
	}
	return false
}

// Excluded counts a case/class that the generator avoided because of a listed known finding.
func (r *Recorder) Excluded(class string) {
	r.mu.Lock()
	r.excluded[class]++
	r.mu.Unlock()
}

// Subspace records an exhaustively enumerated sub-space.
func (r *Recorder) Subspace(what string, size int64, exhaustive bool) {
	r.mu.Lock()
	r.subspaces = append(r.subspaces, subspace{what, size, exhaustive})
	r.mu.Unlock()
}

// Extra records an additional coverage key.
func (r *Recorder) Extra(k string, v any) {
	r.mu.Lock()
	r.extra[k] = v
	r.mu.Unlock()
}

// AddExtra adds to a numeric coverage key.
func (r *Recorder) AddExtra(k string, d int64) {
	r.mu.Lock()
	cur, _ := r.extra[k].(int64)
	r.extra[k] = cur + d
	r.mu.Unlock()
}

// ---- environment -----------------------------------------------------------------------------

// VerifDir is /verif (overridable for tests of the machinery itself).
func VerifDir() string {
	if d := os.Getenv("VERIF_DIR"); d != "" {
		return d
	}
	return "/verif"
}

// Tier is "quick" or "thorough".
func Tier() string {
	if t := os.Getenv("VERIF_TIER"); t == "thorough" {
		return "thorough"
	}
	return "quick"
}

// Thorough reports whether the thorough tier is running.
func Thorough() bool { return Tier() == "thorough" }

// Shard returns (index, count) of this process among the parallel workers of one check.
func Shard() (int, int) {
	i, _ := strconv.Atoi(os.Getenv("VERIF_SHARD"))
	n, _ := strconv.Atoi(os.Getenv("VERIF_SHARDS"))
	if n <= 0 {
		n = 1
	}
	return i, n
}

// Scale picks a count by tier and divides it among shards (at least 1).
func Scale(quick, thorough int) int {
	n := quick
	if Thorough() {
		n = thorough
	}
	if v := os.Getenv("VERIF_CASES"); v != "" { // explicit override, used while developing
		if k, err := strconv.Atoi(v); err == nil {
			n = k
		}
	}
	_, shards := Shard()
	n = (n + shards - 1) / shards
	if n < 1 {
		n = 1
	}
	return n
}

// Seed is the per-process seed derived by the driver (never 0).
func Seed() uint64 {
	s, _ := strconv.ParseUint(os.Getenv("VERIF_PROC_SEED"), 10, 64)
	if s == 0 {
		s = 1
	}
	return s
}

var (
	knownOnce sync.Once
	knownAll  []knownEntry
)

func loadKnown() []knownEntry {
	knownOnce.Do(func() {
		b, err := os.ReadFile(filepath.Join(VerifDir(), "known_findings.json"))
		if err != nil {
			return
		}
		var f struct {
			Findings []knownEntry `json:"findings"`
		}
		if err := json.Unmarshal(b, &f); err != nil {
			fmt.Fprintf(os.Stderr, "known_findings.json unreadable: %v\n", err)
			return
		}
		knownAll = f.Findings
	})
	return knownAll
}

// Known reports whether a finding of this class is listed as known (unrepaired) for the property.
// Generators use it to avoid the class by construction (and must call Recorder.Excluded).
func Known(prop, class string) bool {
	if os.Getenv("VERIF_IGNORE_KNOWN") != "" {
		return false
	}
	for _, k := range loadKnown() {
		if k.Property == prop && k.Kind == "known" && k.Class == class {
			return true
		}
	}
	return false
}

// ---- replay files ----------------------------------------------------------------------------

type replayFile struct {
	Property string          `json:"property"`
	Class    string          `json:"class"`
	Message  string          `json:"message"`
	Case     json.RawMessage `json:"case"`
}

func replayDir(id string) string {
	if d := os.Getenv("VERIF_REPLAY_DIR"); d != "" {
		return filepath.Join(d, id)
	}
	return filepath.Join(VerifDir(), "replays", id)
}

func writeReplay(id string, c any, f *Failure) string {
	dir := replayDir(id)
	os.MkdirAll(dir, 0o755)
	cj, err := json.Marshal(c)
	if err != nil {
		cj, _ = json.Marshal(fmt.Sprintf("%#v", c))
	}
	shard, _ := Shard()
	name := fmt.Sprintf("fail-%s-seed%s-s%d.json", Tier(), os.Getenv("VERIF_SEED_EFFECTIVE"), shard)
	p := filepath.Join(dir, name)
	b, _ := json.MarshalIndent(replayFile{Property: id, Class: f.Class, Message: f.Msg, Case: cj}, "", " ")
	os.WriteFile(p, b, 0o644)
	return p
}

func asFailure(err error) *Failure {
	if f, ok := err.(*Failure); ok {
		return f
	}
	return &Failure{Class: "error", Msg: err.Error()}
}

// safeRun runs fn converting a panic of the code under test into a Failure (class "panic") —
// unless the panic is rapid's own control flow, which is re-raised.
func safeRun[C any](run func(C, *Obs) error, c C, o *Obs) (err error) {
	defer func() {
		if r := recover(); r != nil {
			s := fmt.Sprint(r)
			if strings.Contains(fmt.Sprintf("%T", r), "rapid") {
				panic(r)
			}
			err = &Failure{Class: "panic", Msg: s}
		}
	}()
	return run(c, o)
}

// Check is the entry point of a rapid-driven property.
func Check[C any](t *testing.T, spec Spec, checks int, gen func(*rapid.T) C, run func(C, *Obs) error) {
	rec := Rec(spec)
	if ReplayMode(t, spec, run) {
		return
	}
	RunKnown(t, spec, run)
	if checks <= 0 {
		return
	}
	var lastReplay string
	var lastFail *Failure
	prop := func(rt *rapid.T) {
		c := gen(rt)
		o := &Obs{}
		err := safeRun(run, c, o)
		if err == nil {
			rec.record(c, o)
			return
		}
		if inc, ok := err.(*Inconclusive); ok {
			rec.mu.Lock()
			rec.inconclusive++
			if len(rec.incMsgs) < 5 {
				rec.incMsgs = append(rec.incMsgs, inc.Msg)
			}
			rec.mu.Unlock()
			return
		}
		f := asFailure(err)
		lastFail = f
		lastReplay = writeReplay(spec.ID, c, f)
		rt.Fatalf("%s", f.Error())
	}
	ok := runRapid(t, checks, prop)
	if !ok {
		if lastFail == nil {
			lastFail = &Failure{Class: "rapid", Msg: "rapid reported a failure outside the property (generator problem or flaky case)"}
		}
		rec.mu.Lock()
		rec.violations = append(rec.violations, violation{lastFail.Class, lastFail.Msg, lastReplay})
		rec.mu.Unlock()
		t.Errorf("VIOLATION property=%s replay=%s\n%s", spec.ID, lastReplay, lastFail.Error())
	}
}

// runRapid runs rapid.Check with an explicit number of checks inside a sub-test so that a failure
// does not abort the outer test (which still has to flush statistics).
func runRapid(t *testing.T, checks int, prop func(*rapid.T)) bool {
	setRapidFlags(checks)
	return t.Run("rapid", func(st *testing.T) { rapid.Check(st, prop) })
}

// ReplayMode runs the case stored in $VERIF_REPLAY, if set. Returns true if it did.
func ReplayMode[C any](t *testing.T, spec Spec, run func(C, *Obs) error) bool {
	p := os.Getenv("VERIF_REPLAY")
	if p == "" {
		return false
	}
	rec := Rec(spec)
	if b, rerr := os.ReadFile(p); rerr == nil {
		var rf replayFile
		if json.Unmarshal(b, &rf) == nil && len(rf.Case) > 0 && !replayBelongs[C](rf) {
			t.Logf("replay %s is a case of another sub-check of %s (different case type): skipped here", p, spec.ID)
			return true
		}
	}
	f, err := runReplayFile(spec, p, run)
	if err != nil {
		t.Fatalf("cannot replay %s: %v", p, err)
	}
	if f != nil {
		rec.mu.Lock()
		rec.violations = append(rec.violations, violation{f.Class, f.Msg, p})
		rec.mu.Unlock()
		t.Errorf("VIOLATION property=%s replay=%s\n%s", spec.ID, p, f.Error())
	} else {
		t.Logf("replay %s: property held", p)
	}
	return true
}

func runReplayFile[C any](spec Spec, path string, run func(C, *Obs) error) (*Failure, error) {
	b, err := os.ReadFile(path)
	if err != nil {
		return nil, err
	}
	var rf replayFile
	if err := json.Unmarshal(b, &rf); err != nil {
		return nil, err
	}
	var c C
	if err := json.Unmarshal(rf.Case, &c); err != nil {
		return nil, fmt.Errorf("case does not decode: %w", err)
	}
	o := &Obs{}
	err = safeRun(run, c, o)
	Rec(spec).record(c, o)
	if err == nil {
		return nil, nil
	}
	if _, ok := err.(*Inconclusive); ok {
		return nil, nil
	}
	return asFailure(err), nil
}

// RunKnown executes the replay of every known / fixed finding listed for the property.
func RunKnown[C any](t *testing.T, spec Spec, run func(C, *Obs) error) {
	if sh, _ := Shard(); sh != 0 {
		return
	}
	rec := Rec(spec)
	for _, k := range loadKnown() {
		if k.Property != spec.ID || k.Replay == "" {
			continue
		}
		p := k.Replay
		if !filepath.IsAbs(p) {
			p = filepath.Join(VerifDir(), p)
		}
		var rf replayFile
		if b, err := os.ReadFile(p); err == nil {
			json.Unmarshal(b, &rf)
		}
		if rf.Property != "" && !replayBelongs[C](rf) {
			continue // replay of another sub-check (different case type) of the same property
		}
		f, err := runReplayFile(spec, p, run)
		if err != nil {
			t.Logf("known finding %s: replay unusable: %v", k.ID, err)
			continue
		}
		switch {
		case k.Kind == "known" && f != nil:
			line := fmt.Sprintf("KNOWN-FINDING: property=%s %s [%s]", spec.ID, k.What, k.ID)
			fmt.Println(line)
			rec.mu.Lock()
			rec.knownHits = append(rec.knownHits, line)
			rec.mu.Unlock()
		case k.Kind == "known" && f == nil:
			t.Logf("known finding %s no longer reproduces", k.ID)
		case k.Kind == "fixed" && f != nil:
			rec.mu.Lock()
			rec.violations = append(rec.violations, violation{f.Class, "regression of fixed finding " + k.ID + ": " + f.Msg, p})
			rec.mu.Unlock()
			t.Errorf("VIOLATION property=%s replay=%s\nregression of %s: %s", spec.ID, p, k.ID, f.Error())
		}
	}
}

// replayBelongs reports whether a replay file's case decodes *strictly* into C (all fields known),
// which is how sub-checks of one property that use different case types tell their replays apart.
func replayBelongs[C any](rf replayFile) bool {
	var c C
	dec := json.NewDecoder(strings.NewReader(string(rf.Case)))
	dec.DisallowUnknownFields()
	return dec.Decode(&c) == nil
}

// Each runs run over an explicitly enumerated case (exhaustive sub-spaces). It returns false on
// a violation (after recording it) so that the caller can stop enumerating.
func Each[C any](t *testing.T, spec Spec, c C, run func(C, *Obs) error) bool {
	rec := Rec(spec)
	o := &Obs{}
	err := safeRun(run, c, o)
	if err == nil {
		rec.record(c, o)
		return true
	}
	if _, ok := err.(*Inconclusive); ok {
		rec.mu.Lock()
		rec.inconclusive++
		rec.mu.Unlock()
		return true
	}
	f := asFailure(err)
	p := writeReplay(spec.ID, c, f)
	rec.mu.Lock()
	rec.violations = append(rec.violations, violation{f.Class, f.Msg, p})
	rec.mu.Unlock()
	t.Errorf("VIOLATION property=%s replay=%s\n%s", spec.ID, p, f.Error())
	return false
}

// ---- stats output ----------------------------------------------------------------------------

type statsFile struct {
	Property     string           `json:"property"`
	Tier         string           `json:"tier"`
	Shard        int              `json:"shard"`
	Rule         string           `json:"rule"`
	Assumptions  []string         `json:"assumptions"`
	Evaluations  int64            `json:"evaluations"`
	NonTrivial   int64            `json:"nontrivial"`
	Distinct     []string         `json:"distinct,omitempty"`
	DistinctN    int              `json:"distinct_n"`
	Labels       map[string]int64 `json:"labels"`
	Samples      []any            `json:"samples"`
	Violations   []violation      `json:"violations"`
	KnownHits    []string         `json:"known_hits"`
	Inconclusive int64            `json:"inconclusive"`
	IncMsgs      []string         `json:"inconclusive_msgs,omitempty"`
	Excluded     map[string]int64 `json:"excluded"`
	Subspaces    []subspace       `json:"subspaces"`
	Extra        map[string]any   `json:"extra"`
	WallS        float64          `json:"wall_s"`
}

// Flush writes the statistics of all recorders; call it from TestMain after m.Run().
func Flush() {
	dir := os.Getenv("VERIF_STATS_DIR")
	if dir == "" {
		return
	}
	os.MkdirAll(dir, 0o755)
	shard, _ := Shard()
	recMu.Lock()
	defer recMu.Unlock()
	for id, r := range recs {
		r.mu.Lock()
		sf := statsFile{Property: id, Tier: Tier(), Shard: shard, Rule: r.spec.Rule, Assumptions: r.spec.Assumptions,
			Evaluations: r.evals, NonTrivial: r.nontriv, DistinctN: len(r.distinct), Labels: r.labels,
			Samples: r.samples, Violations: r.violations, KnownHits: r.knownHits, Inconclusive: r.inconclusive,
			IncMsgs: r.incMsgs, Excluded: r.excluded, Subspaces: r.subspaces, Extra: r.extra,
			WallS: time.Since(r.start).Seconds()}
		if len(sf.Samples) == 0 {
			sf.Samples = r.trivSamples
		}
		if len(r.distinct) <= 300000 {
			ks := make([]string, 0, len(r.distinct))
			for h := range r.distinct {
				ks = append(ks, strconv.FormatUint(h, 36))
			}
			sort.Strings(ks)
			sf.Distinct = ks
		}
		r.mu.Unlock()
		b, err := json.Marshal(sf)
		if err != nil {
			// samples may contain something unserialisable; drop them rather than lose the stats
			sf.Samples = []any{fmt.Sprintf("%v", sf.Samples)}
			b, _ = json.Marshal(sf)
		}
		os.WriteFile(filepath.Join(dir, fmt.Sprintf("%s-%d.json", id, shard)), b, 0o644)
	}
}

// Main is the TestMain body shared by all check packages.
func Main(m *testing.M) {
	code := m.Run()
	Flush()
	os.Exit(code)
}

// HexID returns a short hex digest, handy for file names.
func HexID(s string) string {
	h := sha1.Sum([]byte(s))
	return hex.EncodeToString(h[:6])
}
