// C10: build actions see a hermetic, fully hashed environment.
package c10

import (
	"fmt"
	"os"
	"path/filepath"
	"sort"
	"strings"
	"sync"
	"testing"

	"pgregory.net/rapid"

	"verifharness/lib"
)

func TestMain(m *testing.M) { lib.Main(m) }

var spec = lib.Spec{
	ID: "C10",
	Rule: "generated repositories of 1-4 genrules (1-2 packages, optional chain edge) whose command dumps `env | sort` into its output and logs S/E events; each target draws pass_env (absent / [] / 1-3 names), env={...} (literal values and $VAR references) " +
		"and the configuration draws [build] passenv / passunsafeenv and [buildenv] entries; names come from a pool with shared prefixes (VA, VA_X, VAB, VB) and names plz defines itself (LANG, HOME, TMPDIR, OUT, PYTHONPATH). " +
		"The same tree is built 3-4 times in one working copy W under caller environments that differ by 1-3 set/changed/unset variables per step (listed, unlisted, unsafe-listed, noise such as LANG TMPDIR HOME PYTHONPATH PATH TERM CI BASH_ENV PKG SRCS), " +
		"and from scratch in a second copy F under every environment. Oracle: (i) a target none of whose hashed variables (own pass_env, config passenv) changed, and with no such target below it, logs no S event and keeps its bytes; " +
		"(ii) a target with a changed hashed variable re-runs and its dump equals the from-scratch dump under the new environment (paths normalised); (iii) from-scratch dumps under two environments that agree on all variables listed for the target are identical; " +
		"(iv) every dumped variable name is plz-defined, shell-defined, listed or declared in env/buildenv, an unlisted caller value never appears, a listed non-overridden variable shows the caller's value. " +
		"Non-trivial = some step changes a hashed pass_env/passenv variable of a target, or changes an unlisted variable sharing a name prefix with a listed one; distinct = JSON of the case",
	Assumptions: []string{
		"target-level pass_unsafe_env is not settable from BUILD files (build_rule rejects it); unsafe passing is exercised through [build] passunsafeenv",
		"os.Getenv semantics: for a target's pass_env an unset variable and an empty one are the same (both hash and value); for config passenv they differ (LookupEnv)",
		"variables plz sets after pass_env (HOME TMPDIR TMP_DIR OUT OUTS SRCS ...) and env={} keys override passed values; for those only rebuild decisions, not visibility, are asserted",
		"PLZ_* caller variables are configuration, not noise, and are not generated",
	},
}

// KV is one variable binding.
type KV struct{ K, V string }

// Target is one env-dumping genrule.
type Target struct {
	Pkg, Name  string
	HasPassEnv bool     `json:",omitempty"`
	PassEnv    []string `json:",omitempty"`
	Env        []KV     `json:",omitempty"`
	Src        string   `json:",omitempty"` // label of an earlier target used as a source
}

func (t Target) Label() string { return "//" + t.Pkg + ":" + t.Name }

// Case is a repository plus a sequence of caller environments (only the set variables are listed).
type Case struct {
	Targets       []Target
	CfgPassEnv    []string `json:",omitempty"`
	CfgPassUnsafe []string `json:",omitempty"`
	BuildEnv      []KV     `json:",omitempty"`
	Envs          [][]KV
}

// names that may be listed in pass_env / passenv / passunsafeenv
var listable = []string{"VA", "VA_X", "VAB", "VB", "VA", "VB", "LANG", "PYTHONPATH", "HOME", "TMPDIR", "OUT"}

// names the caller may set
var callerNames = []string{"VA", "VA_X", "VAB", "VB", "VA_Y", "VX", "LANG", "PYTHONPATH", "HOME", "TMPDIR", "OUT", "PKG", "SRCS", "TERM", "CI", "BASH_ENV", "LC_ALL", "PATH", "EK"}

// variables whose caller value must stay usable by plz itself: drawn from fixed alternatives
// (@D@ is replaced by the case directory at run time).
var special = map[string][]string{
	"HOME":   {"@D@/home", "@D@/home2"},
	"TMPDIR": {"@D@/tmpa", "@D@/tmpb"},
	"PATH":   {"/usr/local/bin:/usr/bin:/bin", "/usr/local/bin:/usr/bin:/bin:/nonexistent/cvbin"},
	"LANG":   {"C.UTF-8", "cv_LANG.UTF-8", "C"},
	"LC_ALL": {"C", "C.UTF-8"},
	"TERM":   {"dumb", "xterm-256color"},
	"CI":     {"true", "false"},
}

// cannot be unset through lib.Plz (it always sets them)
var alwaysSet = map[string]bool{"HOME": true, "PATH": true, "LANG": true}

var plainValues = []string{"cv1", "cv2", "cv3", "", "cv 4", "cv=5", "cv1x"}

func drawValue(t *rapid.T, name string) string {
	if alts, ok := special[name]; ok {
		return rapid.SampledFrom(alts).Draw(t, "val")
	}
	return rapid.SampledFrom(plainValues).Draw(t, "val")
}

func subset(t *rapid.T, pool []string, max int, what string) []string {
	n := rapid.IntRange(0, max).Draw(t, what+"_n")
	seen := map[string]bool{}
	var out []string
	for i := 0; i < n; i++ {
		s := rapid.SampledFrom(pool).Draw(t, what)
		if !seen[s] {
			seen[s] = true
			out = append(out, s)
		}
	}
	return out
}

func envList(m map[string]string) []KV {
	var out []KV
	for k, v := range m {
		out = append(out, KV{k, v})
	}
	sort.Slice(out, func(i, j int) bool { return out[i].K < out[j].K })
	return out
}

func gen(t *rapid.T) Case {
	var c Case
	nt := rapid.IntRange(1, 4).Draw(t, "ntargets")
	pkgs := []string{"p", "q"}
	for i := 0; i < nt; i++ {
		tg := Target{Pkg: rapid.SampledFrom(pkgs).Draw(t, "pkg"), Name: fmt.Sprintf("e%d", i)}
		switch rapid.IntRange(0, 5).Draw(t, "passenv_kind") {
		case 0: // no pass_env argument
		case 1:
			tg.HasPassEnv = true // pass_env = []
		default:
			tg.HasPassEnv = true
			tg.PassEnv = subset(t, listable, 2, "pass_env")
			first := rapid.SampledFrom(listable).Draw(t, "pass_env_first")
			if !contains(tg.PassEnv, first) {
				tg.PassEnv = append([]string{first}, tg.PassEnv...)
			}
		}
		ne := rapid.IntRange(0, 2).Draw(t, "nenv")
		seen := map[string]bool{}
		for j := 0; j < ne; j++ {
			k := rapid.SampledFrom([]string{"EK", "EK2", "VB", "VA_Y"}).Draw(t, "envkey")
			if seen[k] {
				continue
			}
			seen[k] = true
			v := rapid.SampledFrom([]string{"ev1", "ev 2", "$PKG/x", "$VA", "${VA_X}y", "$VX", ""}).Draw(t, "envval")
			tg.Env = append(tg.Env, KV{k, v})
		}
		if i > 0 && rapid.IntRange(0, 2).Draw(t, "chain") == 0 {
			tg.Src = c.Targets[rapid.IntRange(0, i-1).Draw(t, "srcidx")].Label()
		}
		c.Targets = append(c.Targets, tg)
	}
	if rapid.IntRange(0, 2).Draw(t, "cfg_passenv") == 0 {
		c.CfgPassEnv = subset(t, []string{"VA", "VAB", "VB", "LANG", "PYTHONPATH", "PATH", "PATH"}, 2, "cfgpass")
	}
	if rapid.IntRange(0, 1).Draw(t, "cfg_unsafe") == 0 {
		c.CfgPassUnsafe = subset(t, []string{"VA_X", "VB", "VX", "PYTHONPATH", "TMPDIR"}, 2, "cfgunsafe")
	}
	if rapid.IntRange(0, 2).Draw(t, "buildenv") == 0 {
		c.BuildEnv = []KV{{"be-one", rapid.SampledFrom([]string{"b1", "b 2"}).Draw(t, "beval")}}
	}
	// the names that matter for this case get a higher weight when drawing changes
	var hot []string
	for _, tg := range c.Targets {
		hot = append(hot, tg.PassEnv...)
	}
	hot = append(hot, c.CfgPassEnv...)
	hot = append(hot, c.CfgPassUnsafe...)
	names := append(append([]string{}, callerNames...), hot...)
	names = append(names, hot...)

	cur := map[string]string{}
	for _, n := range callerNames {
		if alwaysSet[n] {
			cur[n] = special[n][0]
		} else if rapid.IntRange(0, 2).Draw(t, "initially_set") == 0 {
			cur[n] = drawValue(t, n)
		}
	}
	c.Envs = append(c.Envs, envList(cur))
	var hashed []string
	for _, tg := range c.Targets {
		hashed = append(hashed, tg.PassEnv...)
	}
	hashed = append(hashed, c.CfgPassEnv...)
	var prefixed []string // unlisted names sharing a prefix with a listed one
	for _, n := range callerNames {
		if contains(hot, n) {
			continue
		}
		for _, h := range hot {
			if sharesPrefix(n, h) {
				prefixed = append(prefixed, n)
				break
			}
		}
	}
	// change sets n to a value that differs from the current one (also in os.Getenv terms)
	change := func(next map[string]string, n string) {
		alts := plainValues
		if a, ok := special[n]; ok {
			alts = a
		}
		start := rapid.IntRange(0, len(alts)-1).Draw(t, "valstart")
		for k := 0; k < len(alts); k++ {
			v := alts[(start+k)%len(alts)]
			if v != next[n] {
				next[n] = v
				return
			}
		}
	}
	steps := rapid.IntRange(2, 3).Draw(t, "nsteps")
	for s := 0; s < steps; s++ {
		next := map[string]string{}
		for k, v := range cur {
			next[k] = v
		}
		kind := rapid.SampledFrom([]string{"hashed", "hashed", "prefixed", "unsafe", "noise", "noise"}).Draw(t, "stepkind")
		switch {
		case kind == "hashed" && len(hashed) > 0:
			change(next, rapid.SampledFrom(hashed).Draw(t, "hashedname"))
		case kind == "prefixed" && len(prefixed) > 0:
			change(next, rapid.SampledFrom(prefixed).Draw(t, "prefixedname"))
		case kind == "unsafe" && len(c.CfgPassUnsafe) > 0:
			change(next, rapid.SampledFrom(c.CfgPassUnsafe).Draw(t, "unsafename"))
		}
		nch := rapid.IntRange(0, 2).Draw(t, "nchanges")
		if kind == "noise" {
			nch++
		}
		for j := 0; j < nch; j++ {
			pool := names
			if kind != "hashed" && kind != "noise" {
				pool = callerNames
			}
			n := rapid.SampledFrom(pool).Draw(t, "chname")
			if kind != "hashed" && contains(hashed, n) {
				continue // keep non-hashed steps free of hashed changes so that they assert "no rebuild"
			}
			if _, set := next[n]; set && !alwaysSet[n] && rapid.IntRange(0, 3).Draw(t, "unset") == 0 {
				delete(next, n)
			} else {
				next[n] = drawValue(t, n)
			}
		}
		c.Envs = append(c.Envs, envList(next))
		cur = next
	}
	return c
}

// ---- rendering ---------------------------------------------------------------------------------

func pyList(ss []string) string {
	q := make([]string, len(ss))
	for i, s := range ss {
		q[i] = lib.PyQuote(s)
	}
	return "[" + strings.Join(q, ", ") + "]"
}

func (c Case) files() map[string]string {
	cfg := lib.BaseConfig + lib.NoCacheConfig
	if len(c.CfgPassEnv)+len(c.CfgPassUnsafe) > 0 {
		cfg += "[build]\n"
		for _, n := range c.CfgPassEnv {
			cfg += "passenv = " + n + "\n"
		}
		for _, n := range c.CfgPassUnsafe {
			cfg += "passunsafeenv = " + n + "\n"
		}
	}
	if len(c.BuildEnv) > 0 {
		cfg += "[buildenv]\n"
		for _, kv := range c.BuildEnv {
			cfg += kv.K + " = " + kv.V + "\n"
		}
	}
	m := map[string]string{".plzconfig": cfg}
	for _, t := range c.Targets {
		cmd := fmt.Sprintf(`L(){ printf '%%s %%s\n' "$1" '%s' >> "${TMP_DIR%%%%/plz-out/tmp/*}/actions.log"; }; L S; env | LC_ALL=C sort > "$OUT"; L E`, t.Label())
		s := fmt.Sprintf("genrule(name=%s, outs=[%s], cmd=%s, visibility=[\"PUBLIC\"]", lib.PyQuote(t.Name), lib.PyQuote(t.Name+".env"), lib.PyQuote(cmd))
		if t.Src != "" {
			s += ", srcs=[" + lib.PyQuote(t.Src) + "]"
		}
		if t.HasPassEnv {
			s += ", pass_env=" + pyList(t.PassEnv)
		}
		if len(t.Env) > 0 {
			var kvs []string
			for _, kv := range t.Env {
				kvs = append(kvs, lib.PyQuote(kv.K)+": "+lib.PyQuote(kv.V))
			}
			s += ", env={" + strings.Join(kvs, ", ") + "}"
		}
		m[t.Pkg+"/BUILD"] += s + ")\n"
	}
	return m
}

func materialize(root string, files map[string]string) error {
	for rel, content := range files {
		p := filepath.Join(root, rel)
		if err := os.MkdirAll(filepath.Dir(p), 0o755); err != nil {
			return err
		}
		if err := os.WriteFile(p, []byte(content), 0o644); err != nil {
			return err
		}
	}
	return nil
}

// ---- model -------------------------------------------------------------------------------------

// names set by plz (documented in docs/build_rules.html "Build environment", plus the fixed extras the
// code sets for every rule) or by the shell itself; none of them may carry a caller value.
var plzDefined = map[string]bool{
	"ARCH": true, "OS": true, "PATH": true, "TMP_DIR": true, "HOME": true, "NAME": true, "SRCS": true, "OUTS": true,
	"PKG": true, "PKG_DIR": true, "OUT": true, "SRC": true, "TOOLS": true, "TOOL": true, "SECRETS": true,
	"XARCH": true, "XOS": true, "TMPDIR": true, "LANG": true, "PLZ_ENV": true, "PYTHONHASHSEED": true, "RULE_HASH": true,
	"BUILD_CONFIG": true, "CONFIG": true,
	"PWD": true, "SHLVL": true, "_": true, "OLDPWD": true,
}

// names plz assigns after the passed-through variables, so that a pass_env of the same name is hashed
// but not visible.
var overridden = map[string]bool{"HOME": true, "TMPDIR": true, "TMP_DIR": true, "OUT": true, "OUTS": true, "SRCS": true, "SRC": true, "TOOLS": true, "RULE_HASH": true, "PYTHONHASHSEED": true}

func contains(ss []string, s string) bool {
	for _, x := range ss {
		if x == s {
			return true
		}
	}
	return false
}

// hashedKey renders the values of every variable that is documented to enter the target's hash.
func (c Case) hashedKey(t Target, env map[string]string) string {
	var b strings.Builder
	for _, n := range t.PassEnv {
		fmt.Fprintf(&b, "t:%s=%q;", n, env[n]) // unset == ""
	}
	names := append([]string{}, c.CfgPassEnv...)
	sort.Strings(names)
	for _, n := range names {
		v, set := env[n]
		fmt.Fprintf(&b, "c:%s=%q,%v;", n, v, set)
	}
	return b.String()
}

// listedKey additionally includes the unhashed (unsafe) variables: everything the dump may depend on.
func (c Case) listedKey(t Target, env map[string]string) string {
	s := c.hashedKey(t, env)
	names := append([]string{}, c.CfgPassUnsafe...)
	sort.Strings(names)
	for _, n := range names {
		v, set := env[n]
		s += fmt.Sprintf("u:%s=%q,%v;", n, v, set)
	}
	return s
}

func (c Case) target(label string) *Target {
	for i := range c.Targets {
		if c.Targets[i].Label() == label {
			return &c.Targets[i]
		}
	}
	return nil
}

// below returns t and everything it (transitively) uses as a source.
func (c Case) below(t Target) []Target {
	out := []Target{t}
	for cur := t; cur.Src != ""; {
		d := c.target(cur.Src)
		if d == nil {
			break
		}
		out = append(out, *d)
		cur = *d
	}
	return out
}

func parseDump(s string) map[string]string {
	m := map[string]string{}
	for _, l := range strings.Split(s, "\n") {
		if i := strings.Index(l, "="); i > 0 {
			m[l[:i]] = l[i+1:]
		}
	}
	return m
}

// maskHash blanks RULE_HASH, which covers the bytes of the sources: for a chained target those are the
// dependency's dump, which legitimately contains the (different) absolute paths of W and F.
func maskHash(d string) string {
	ls := strings.Split(d, "\n")
	for i, l := range ls {
		if strings.HasPrefix(l, "RULE_HASH=") {
			ls[i] = "RULE_HASH=@H@"
		}
	}
	return strings.Join(ls, "\n")
}

func sharesPrefix(a, b string) bool {
	return a != b && (strings.HasPrefix(a, b) || strings.HasPrefix(b, a))
}

// ---- run ---------------------------------------------------------------------------------------

func run(c Case, o *lib.Obs) error {
	e := lib.NewE2E("c10-")
	defer e.Close()
	F := filepath.Join(e.Dir, "f")
	for _, d := range []string{"home", "home2", "tmpa", "tmpb", "fhome"} {
		os.MkdirAll(filepath.Join(e.Dir, d), 0o755)
	}
	files := c.files()
	if err := materialize(e.W, files); err != nil {
		return &lib.Inconclusive{Msg: err.Error()}
	}
	if err := materialize(F, files); err != nil {
		return &lib.Inconclusive{Msg: err.Error()}
	}
	subst := func(v string) string { return strings.ReplaceAll(v, "@D@", e.Dir) }
	readDump := func(root string, t Target) (string, bool) {
		b, err := os.ReadFile(filepath.Join(root, "plz-out", "gen", t.Pkg, t.Name+".env"))
		if err != nil {
			return "", false
		}
		return strings.ReplaceAll(string(b), root+"/", "@ROOT@/"), true
	}
	type fresh struct {
		key  string
		dump string
		step int
	}
	freshSeen := map[string][]fresh{} // label -> dumps seen so far
	prevW := map[string]string{}
	var prevEnv map[string]string
	nontrivial := false
	labelSet := map[string]bool{}
	label := func(l string) { labelSet[l] = true }
	for i, el := range c.Envs {
		env := map[string]string{}
		var extra []string
		for _, kv := range el {
			env[kv.K] = subst(kv.V)
			extra = append(extra, kv.K+"="+subst(kv.V))
		}
		lib.ResetActions(e.W)
		os.RemoveAll(filepath.Join(F, "plz-out"))
		var resW, resF lib.PlzResult
		var wg sync.WaitGroup
		wg.Add(2)
		go func() {
			defer wg.Done()
			p := e.PlzW()
			p.Env = extra
			resW = p.Run(lib.BuildTimeout, "build", "//...")
		}()
		go func() {
			defer wg.Done()
			p := &lib.Plz{Root: F, Home: filepath.Join(e.Dir, "fhome"), Env: extra}
			resF = p.Run(lib.BuildTimeout, "build", "//...")
		}()
		wg.Wait()
		step := fmt.Sprintf("step %d (caller env %v)", i, el)
		if resW.TimedOut || resF.TimedOut {
			return &lib.Inconclusive{Msg: "plz timed out at " + step}
		}
		if resF.Exit != 0 {
			return &lib.Inconclusive{Msg: "from-scratch build failed at " + step + ": " + resF.Brief()}
		}
		if resW.Exit != 0 {
			return lib.Failf("incremental-build-failed", "%s: the from-scratch build passes but the incremental one fails\n%s", step, resW.Brief())
		}
		ran := map[string]int{}
		for _, l := range lib.Started(lib.ReadActions(e.W)) {
			ran[l]++
		}
		for _, t := range c.Targets {
			l := t.Label()
			dF, okF := readDump(F, t)
			dW, okW := readDump(e.W, t)
			if !okF || !okW {
				return lib.Failf("output-missing", "%s: output of %s missing (fresh present=%v, incremental present=%v)", step, l, okF, okW)
			}
			// (iv) visibility on the from-scratch dump
			vars := parseDump(dF)
			envKeys := map[string]bool{}
			for _, kv := range t.Env {
				envKeys[kv.K] = true
			}
			beKeys := map[string]bool{}
			for _, kv := range c.BuildEnv {
				beKeys[strings.ReplaceAll(strings.ToUpper(kv.K), "-", "_")] = true
			}
			listed := func(n string) bool {
				return contains(t.PassEnv, n) || contains(c.CfgPassEnv, n) || contains(c.CfgPassUnsafe, n)
			}
			var names []string
			for n := range vars {
				names = append(names, n)
			}
			sort.Strings(names)
			for _, n := range names {
				if !(plzDefined[n] || envKeys[n] || beKeys[n] || listed(n)) {
					return lib.Failf("unexpected-variable", "%s: %s sees variable %s=%q which is neither set by plz, nor listed in pass_env/passenv/passunsafeenv, nor declared in env/buildenv\ndump:\n%s", step, l, n, vars[n], dF)
				}
			}
			var cn []string
			for n := range env {
				cn = append(cn, n)
			}
			sort.Strings(cn)
			for _, n := range cn {
				v := env[n]
				got, present := vars[n]
				switch {
				case listed(n) && !overridden[n] && !envKeys[n]:
					if n == "PATH" && present && (got == v || strings.HasSuffix(got, ":"+v)) {
						// plz documents that it puts its own directory in front of a passed-through PATH
						continue
					}
					if !present || got != v {
						return lib.Failf("listed-variable-not-passed", "%s: %s lists %s but sees %q (present=%v) instead of the caller's %q", step, l, n, got, present, v)
					}
				case !listed(n):
					if present && got == v && !(envKeys[n] || beKeys[n]) && !(plzDefined[n] && v == "") {
						return lib.Failf("unlisted-variable-leaked", "%s: %s sees the caller's value of %s=%q although it is not listed anywhere\ndump:\n%s", step, l, n, v, dF)
					}
				}
			}
			for _, n := range t.PassEnv { // an unset pass_env variable is passed as empty
				if _, set := env[n]; !set && !overridden[n] && !envKeys[n] && !contains(c.CfgPassEnv, n) && !contains(c.CfgPassUnsafe, n) {
					if got, present := vars[n]; present && got != "" {
						return lib.Failf("listed-variable-not-passed", "%s: %s lists %s, unset by the caller, but sees %q", step, l, n, got)
					}
				}
			}
			// (iii) from-scratch dumps are a function of the listed variables only
			key := ""
			for _, b := range c.below(t) {
				key += c.listedKey(b, env) + "|"
			}
			for _, f := range freshSeen[l] {
				if f.key == key && f.dump != dF {
					return lib.Failf("environment-depends-on-unlisted-variable", "%s: from-scratch builds of %s under the caller environments of step %d and step %d, which agree on every variable listed for it, saw different environments\nstep %d env: %v\nstep %d env: %v\n--- step %d dump\n%s--- step %d dump\n%s",
						step, l, f.step, i, f.step, c.Envs[f.step], i, el, f.step, f.dump, i, dF)
				}
			}
			freshSeen[l] = append(freshSeen[l], fresh{key, dF, i})
			// (i)/(ii) rebuild decisions in the working copy
			if i == 0 {
				if maskHash(dW) != maskHash(dF) {
					return lib.Failf("fresh-dumps-differ", "%s: two from-scratch builds of %s in different directories saw different environments\n--- W\n%s--- F\n%s", step, l, dW, dF)
				}
			} else {
				ownChanged := c.hashedKey(t, prevEnv) != c.hashedKey(t, env)
				anyBelowChanged := false
				for _, b := range c.below(t) {
					if c.hashedKey(b, prevEnv) != c.hashedKey(b, env) {
						anyBelowChanged = true
					}
				}
				switch {
				case ownChanged:
					if ran[l] == 0 {
						return lib.Failf("no-rebuild-after-pass-env-change", "%s: a hashed variable of %s changed (%s -> %s) but its command did not run again", step, l, c.hashedKey(t, prevEnv), c.hashedKey(t, env))
					}
					if maskHash(dW) != maskHash(dF) {
						return lib.Failf("rebuilt-environment-differs", "%s: %s re-ran but its environment differs from a from-scratch build under the same caller environment\n--- incremental\n%s--- from scratch\n%s", step, l, dW, dF)
					}
				case !anyBelowChanged:
					if ran[l] > 0 {
						return lib.Failf("rebuild-without-hashed-change", "%s: command of %s ran again although no pass_env/passenv variable of it (or of anything below it) changed\nprevious env: %v", step, l, c.Envs[i-1])
					}
					if dW != prevW[l] {
						return lib.Failf("output-changed-without-rebuild", "%s: output of %s changed without a hashed variable changing\n--- before\n%s--- after\n%s", step, l, prevW[l], dW)
					}
				default:
					// something below changed: the target may or may not re-run (cut-off); if it did, it must look fresh
					if ran[l] > 0 && maskHash(dW) != maskHash(dF) {
						return lib.Failf("rebuilt-environment-differs", "%s: %s re-ran but its environment differs from a from-scratch build\n--- incremental\n%s--- from scratch\n%s", step, l, dW, dF)
					}
				}
				if ownChanged {
					nontrivial = true
					label("step_hashed_variable_changed")
				}
			}
			prevW[l] = dW
		}
		if i > 0 {
			// classify the step
			var changed []string
			all := map[string]bool{}
			for n := range env {
				all[n] = true
			}
			for n := range prevEnv {
				all[n] = true
			}
			for n := range all {
				a, sa := prevEnv[n]
				b, sb := env[n]
				if a != b || sa != sb {
					changed = append(changed, n)
				}
			}
			sort.Strings(changed)
			for _, n := range changed {
				anyListed, unsafe := false, contains(c.CfgPassUnsafe, n)
				var listedNames []string
				for _, t := range c.Targets {
					listedNames = append(listedNames, t.PassEnv...)
				}
				listedNames = append(listedNames, c.CfgPassEnv...)
				anyListed = contains(listedNames, n)
				switch {
				case anyListed:
					label("change_listed_somewhere")
				case unsafe:
					label("change_unsafe_only")
				default:
					label("change_unlisted")
					for _, ln := range append(listedNames, c.CfgPassUnsafe...) {
						if sharesPrefix(n, ln) {
							nontrivial = true
							label("change_unlisted_sharing_prefix_with_listed")
							break
						}
					}
				}
				if _, sp := special[n]; sp || plzDefined[n] {
					label("change_name_known_to_plz_or_libc")
				}
			}
		}
		prevEnv = env
	}
	var ls []string
	for l := range labelSet {
		ls = append(ls, l)
	}
	sort.Strings(ls)
	for _, l := range ls {
		o.Label(l)
	}
	o.LabelIf(len(c.CfgPassEnv) > 0, "config_passenv")
	o.LabelIf(len(c.CfgPassUnsafe) > 0, "config_passunsafeenv")
	o.NonTrivial(nontrivial)
	var desc []string
	for _, t := range c.Targets {
		desc = append(desc, fmt.Sprintf("%s pass_env=%v(%v) env=%v src=%s", t.Label(), t.PassEnv, t.HasPassEnv, t.Env, t.Src))
	}
	o.Sample(map[string]any{"targets": desc, "passenv": c.CfgPassEnv, "passunsafeenv": c.CfgPassUnsafe, "buildenv": c.BuildEnv, "envs": c.Envs})
	return nil
}

func TestC10(t *testing.T) {
	lib.Check(t, spec, lib.Scale(20, 600), gen, run)
}
