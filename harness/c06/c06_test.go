// C06: cycle detection is sound and complete.
//
// Every case is a labelled digraph. It is installed into a core.BuildGraph as *resolved*
// dependencies through the exported API (NewBuildTarget / AddDependency / AddTarget /
// ResolveDependencies); one pass of the unexported cycle detector is run through the verif hook
// core.VerifCheckCycles and compared with a reference (Tarjan SCC written here).
package c06

import (
	"fmt"
	"sort"
	"strconv"
	"strings"
	"testing"

	"github.com/thought-machine/please/src/core"
	"pgregory.net/rapid"

	"verifharness/lib"
)

func TestMain(m *testing.M) {
	lib.QuietPleaseLogs()
	lib.Main(m)
}

var spec = lib.Spec{
	ID: "C06",
	Rule: "exhaustive: every labelled digraph with self-loops on 1..4 nodes (labelled, so every node/dependency iteration order of every shape is included; thorough adds every digraph without self-loops on 5 nodes); " +
		"random: digraphs of 6-40 nodes in five shapes (sparse, dense, DAG, DAG plus k back edges, several disjoint rings hanging below a DAG) with a random assignment of label ranks (= iteration order) and each edge installed either directly or through a require/provide indirection. " +
		"Oracle: Tarjan SCC reference; cyclic <=> a cycle is reported; a reported cycle has distinct members, each depending on the next and the last on the first. " +
		"Non-trivial = cyclic graph whose first-visited node (smallest label) lies on no cycle, or in which a reference DFS in iteration order completes at least one node before meeting its first back edge; distinct = case JSON (size, edge list, rank assignment)",
	Assumptions: []string{
		"edges are installed as resolved dependencies via the exported core API; self-loops (which AddDependency refuses as a declared dependency) are produced the way a BUILD file can produce them, through a dependency whose `provides` entry names the requiring target",
		"VerifCheckCycles calls the unexported cycleDetector.Check unchanged on a fresh detector",
		"iteration order of the detector is label order (AllTargets and Dependencies sort by label), so permuting label ranks permutes visiting order",
	},
}

// Case is a digraph on nodes 0..N-1. Edges is a space separated list of "a>b" (direct dependency of a
// on b) and "a~b" (a depends on a helper target that provides b for a). Rank[i], if present, is the
// position of node i in label order (default: i).
type Case struct {
	N     int
	Edges string
	Rank  []int `json:",omitempty"`
}

type edge struct {
	from, to int
	via      bool
}

func (c Case) edges() ([]edge, error) {
	var out []edge
	for _, f := range strings.Fields(c.Edges) {
		i := strings.IndexAny(f, ">~")
		if i < 0 {
			return nil, fmt.Errorf("bad edge %q", f)
		}
		a, err1 := strconv.Atoi(f[:i])
		b, err2 := strconv.Atoi(f[i+1:])
		if err1 != nil || err2 != nil || a < 0 || b < 0 || a >= c.N || b >= c.N {
			return nil, fmt.Errorf("bad edge %q", f)
		}
		out = append(out, edge{a, b, f[i] == '~'})
	}
	return out, nil
}

func (c Case) rank(i int) int {
	if i < len(c.Rank) {
		return c.Rank[i]
	}
	return i
}

func nodeLabel(rank int) core.BuildLabel {
	return core.BuildLabel{PackageName: "p", Name: fmt.Sprintf("t%02d", rank)}
}

// ---- reference ---------------------------------------------------------------------------------

// sccs is Tarjan's algorithm; it returns the component index of every node and the number of components.
func sccs(n int, adj [][]int) ([]int, int) {
	index := make([]int, n)
	low := make([]int, n)
	comp := make([]int, n)
	on := make([]bool, n)
	for i := range index {
		index[i] = -1
		comp[i] = -1
	}
	var stack []int
	next, ncomp := 0, 0
	var strong func(v int)
	strong = func(v int) {
		index[v], low[v] = next, next
		next++
		stack = append(stack, v)
		on[v] = true
		for _, w := range adj[v] {
			if index[w] < 0 {
				strong(w)
				if low[w] < low[v] {
					low[v] = low[w]
				}
			} else if on[w] && index[w] < low[v] {
				low[v] = index[w]
			}
		}
		if low[v] == index[v] {
			for {
				w := stack[len(stack)-1]
				stack = stack[:len(stack)-1]
				on[w] = false
				comp[w] = ncomp
				if w == v {
					break
				}
			}
			ncomp++
		}
	}
	for v := 0; v < n; v++ {
		if index[v] < 0 {
			strong(v)
		}
	}
	return comp, ncomp
}

// onCycle[i] = node i lies on some cycle (its SCC has > 1 node, or it has a self-loop).
func onCycle(n int, adj [][]int) (on []bool, cyclicComps int) {
	comp, ncomp := sccs(n, adj)
	size := make([]int, ncomp)
	for _, c := range comp {
		size[c]++
	}
	cyc := make([]bool, ncomp)
	for v := 0; v < n; v++ {
		if size[comp[v]] > 1 {
			cyc[comp[v]] = true
		}
		for _, w := range adj[v] {
			if w == v {
				cyc[comp[v]] = true
			}
		}
	}
	on = make([]bool, n)
	for v := 0; v < n; v++ {
		on[v] = cyc[comp[v]]
	}
	for _, b := range cyc {
		if b {
			cyclicComps++
		}
	}
	return on, cyclicComps
}

// completedBeforeBackEdge runs a plain three-colour DFS visiting nodes and successors in rank
// order and reports whether some node was finished (all successors explored) before the first back
// edge was met. Used only to classify cases, never for the verdict.
func completedBeforeBackEdge(n int, adj [][]int, order []int) bool {
	colour := make([]int, n)
	finished := 0
	found, result := false, false
	var visit func(v int)
	visit = func(v int) {
		colour[v] = 1
		for _, w := range adj[v] {
			if found {
				return
			}
			switch colour[w] {
			case 0:
				visit(w)
			case 1:
				found = true
				result = finished > 0
				return
			}
		}
		if !found {
			colour[v] = 2
			finished++
		}
	}
	for _, v := range order {
		if found {
			break
		}
		if colour[v] == 0 {
			visit(v)
		}
	}
	return result
}

// ---- the check ---------------------------------------------------------------------------------

func run(c Case, o *lib.Obs) error {
	es, err := c.edges()
	if err != nil || c.N < 1 || c.N > 99 {
		return fmt.Errorf("malformed case: %v", err)
	}
	// model adjacency (deduplicated), successors sorted by rank like Dependencies() does
	has := make([]map[int]bool, c.N)
	for i := range has {
		has[i] = map[int]bool{}
	}
	viaProvide, selfLoop := false, false
	for _, e := range es {
		has[e.from][e.to] = true
		if e.from == e.to {
			selfLoop = true
		}
	}
	adj := make([][]int, c.N)
	for i := range adj {
		for j := 0; j < c.N; j++ {
			if has[i][j] {
				adj[i] = append(adj[i], j)
			}
		}
		sort.Slice(adj[i], func(a, b int) bool { return c.rank(adj[i][a]) < c.rank(adj[i][b]) })
	}
	order := make([]int, c.N)
	for i := range order {
		order[i] = i
	}
	sort.Slice(order, func(a, b int) bool { return c.rank(order[a]) < c.rank(order[b]) })
	for i := 1; i < c.N; i++ {
		if c.rank(order[i]) == c.rank(order[i-1]) {
			return fmt.Errorf("malformed case: duplicate rank")
		}
	}

	// install into a real graph
	graph := core.NewGraph()
	labels := make([]core.BuildLabel, c.N)
	targets := make([]*core.BuildTarget, c.N)
	byLabel := map[core.BuildLabel]int{}
	for i := 0; i < c.N; i++ {
		labels[i] = nodeLabel(c.rank(i))
		targets[i] = core.NewBuildTarget(labels[i])
		byLabel[labels[i]] = i
	}
	var helpers []*core.BuildTarget
	done := map[[2]int]bool{}
	needReq := make([]bool, c.N)
	for _, e := range es {
		if done[[2]int{e.from, e.to}] {
			continue
		}
		done[[2]int{e.from, e.to}] = true
		if e.via || e.from == e.to {
			// from requires a language only it uses; a helper leaf provides `to` for that language.
			viaProvide = true
			needReq[e.from] = true
			h := core.NewBuildTarget(core.BuildLabel{PackageName: "zz", Name: fmt.Sprintf("h%02d_%02d", c.rank(e.from), c.rank(e.to))})
			h.AddProvide(fmt.Sprintf("r%d", e.from), []core.BuildLabel{labels[e.to]})
			helpers = append(helpers, h)
			targets[e.from].AddDependency(h.Label)
		} else {
			targets[e.from].AddDependency(labels[e.to])
		}
	}
	for i, need := range needReq {
		if need {
			targets[i].AddRequire(fmt.Sprintf("r%d", i))
		}
	}
	for _, t := range targets {
		graph.AddTarget(t)
	}
	for _, h := range helpers {
		graph.AddTarget(h)
	}
	for _, t := range graph.AllTargets() {
		if err := t.ResolveDependencies(graph); err != nil {
			return fmt.Errorf("harness: cannot resolve dependencies of %s: %v", t.Label, err)
		}
	}
	// the installed graph must be the model (this guards the harness, not the detector)
	for i, t := range targets {
		var got []int
		for _, d := range t.Dependencies() {
			j, ok := byLabel[d.Label]
			if !ok {
				return lib.Failf("harness-model-mismatch", "%s resolved a dependency on %s, which is not a model node", t.Label, d.Label)
			}
			got = append(got, j)
		}
		if fmt.Sprint(got) != fmt.Sprint(adj[i]) {
			return lib.Failf("harness-model-mismatch", "node %d: resolved dependencies %v, model %v", i, got, adj[i])
		}
	}

	on, cyclicComps := onCycle(c.N, adj)
	hasCycle := cyclicComps > 0
	behind := hasCycle && completedBeforeBackEdge(c.N, adj, order)
	notFirst := hasCycle && !on[order[0]]
	o.LabelIf(hasCycle, "cyclic")
	o.LabelIf(!hasCycle, "acyclic")
	o.LabelIf(selfLoop, "self_loop")
	o.LabelIf(viaProvide, "edge_via_provide")
	o.LabelIf(cyclicComps > 1, "several_cyclic_components")
	o.LabelIf(behind, "cycle_behind_complete_subgraph")
	o.LabelIf(notFirst, "cycle_not_through_first_visited")
	o.NonTrivial(behind || notFirst)

	reported := core.VerifCheckCycles(graph)

	names := make([]string, len(reported))
	for i, l := range reported {
		names[i] = l.String()
	}
	o.Sample(map[string]any{"n": c.N, "edges": c.Edges, "rank": c.Rank, "cyclic": hasCycle, "reported": names})

	if !hasCycle {
		if reported != nil {
			return lib.Failf("false-cycle", "acyclic graph (n=%d, edges %q, rank %v) reported as cyclic: %v", c.N, c.Edges, c.Rank, names)
		}
		return nil
	}
	if reported == nil {
		return lib.Failf("missed-cycle", "graph (n=%d, edges %q, rank %v) has a cycle but none was reported", c.N, c.Edges, c.Rank)
	}
	if len(reported) == 0 {
		return lib.Failf("invalid-cycle", "empty cycle reported for graph (n=%d, edges %q, rank %v)", c.N, c.Edges, c.Rank)
	}
	seen := map[int]bool{}
	idx := make([]int, len(reported))
	for i, l := range reported {
		j, ok := byLabel[l]
		if !ok {
			return lib.Failf("invalid-cycle", "reported cycle %v contains %s, which is not a node of the cyclic part of the graph (n=%d, edges %q, rank %v)", names, l, c.N, c.Edges, c.Rank)
		}
		if seen[j] {
			return lib.Failf("invalid-cycle", "reported cycle %v repeats %s (n=%d, edges %q, rank %v)", names, l, c.N, c.Edges, c.Rank)
		}
		seen[j] = true
		idx[i] = j
	}
	for i := range idx {
		a, b := idx[i], idx[(i+1)%len(idx)]
		if !has[a][b] {
			return lib.Failf("invalid-cycle", "reported cycle %v: %s does not depend on %s (n=%d, edges %q, rank %v)", names, labels[a], labels[b], c.N, c.Edges, c.Rank)
		}
	}
	return nil
}

// ---- enumeration -------------------------------------------------------------------------------

// maskCase renders the digraph whose adjacency matrix bits are given by mask. With self-loops the
// matrix has n*n cells; without, the n*(n-1) off-diagonal cells.
func maskCase(n int, mask uint64, selfLoops bool) Case {
	var sb strings.Builder
	bit := 0
	for i := 0; i < n; i++ {
		for j := 0; j < n; j++ {
			if i == j && !selfLoops {
				continue
			}
			if mask&(1<<uint(bit)) != 0 {
				if sb.Len() > 0 {
					sb.WriteByte(' ')
				}
				sb.WriteString(strconv.Itoa(i))
				sb.WriteByte('>')
				sb.WriteString(strconv.Itoa(j))
			}
			bit++
		}
	}
	return Case{N: n, Edges: sb.String()}
}

func enumerate(t *testing.T, n int, selfLoops bool) bool {
	cells := n * n
	if !selfLoops {
		cells = n * (n - 1)
	}
	shard, shards := lib.Shard()
	total := uint64(1) << uint(cells)
	ok := true
	for m := uint64(shard); m < total; m += uint64(shards) {
		if !lib.Each(t, spec, maskCase(n, m, selfLoops), run) {
			ok = false
			break
		}
	}
	what := fmt.Sprintf("labelled digraphs on %d nodes with self-loops", n)
	if !selfLoops {
		what = fmt.Sprintf("labelled digraphs on %d nodes without self-loops", n)
	}
	// every shard enumerates a disjoint residue class; together they cover the space
	lib.Rec(spec).Subspace(what, int64(total), ok)
	return ok
}

func TestC06(t *testing.T) {
	if lib.ReplayMode(t, spec, run) {
		return
	}
	lib.RunKnown(t, spec, run)
	for n := 1; n <= 4; n++ {
		if !enumerate(t, n, true) {
			return
		}
	}
	if lib.Thorough() {
		if !enumerate(t, 5, false) {
			return
		}
	}
	lib.Check(t, spec, lib.Scale(6000, 400000), gen, run)
}

// ---- random graphs -----------------------------------------------------------------------------

func gen(t *rapid.T) Case {
	n := rapid.IntRange(6, 40).Draw(t, "n")
	shape := rapid.IntRange(0, 4).Draw(t, "shape")
	// topo is a hidden order used by the DAG-based shapes: edges go from earlier to later positions
	topo := rapid.Permutation(seq(n)).Draw(t, "topo")
	type pair struct{ a, b int }
	set := map[pair]bool{}
	var list []pair
	add := func(a, b int) {
		if !set[pair{a, b}] {
			set[pair{a, b}] = true
			list = append(list, pair{a, b})
		}
	}
	dag := func(maxEdges int) {
		k := rapid.IntRange(0, maxEdges).Draw(t, "dagEdges")
		for e := 0; e < k; e++ {
			i := rapid.IntRange(0, n-2).Draw(t, "i")
			j := rapid.IntRange(i+1, n-1).Draw(t, "j")
			add(topo[i], topo[j])
		}
	}
	switch shape {
	case 0: // sparse, arbitrary direction
		k := rapid.IntRange(0, 2*n).Draw(t, "edges")
		for e := 0; e < k; e++ {
			add(rapid.IntRange(0, n-1).Draw(t, "a"), rapid.IntRange(0, n-1).Draw(t, "b"))
		}
	case 1: // dense
		k := rapid.IntRange(2*n, 6*n).Draw(t, "edges")
		for e := 0; e < k; e++ {
			add(rapid.IntRange(0, n-1).Draw(t, "a"), rapid.IntRange(0, n-1).Draw(t, "b"))
		}
	case 2: // DAG only (soundness)
		dag(4 * n)
	case 3: // DAG plus a few back edges
		dag(3 * n)
		k := rapid.IntRange(1, 3).Draw(t, "back")
		for e := 0; e < k; e++ {
			i := rapid.IntRange(0, n-1).Draw(t, "i")
			j := rapid.IntRange(0, i).Draw(t, "j")
			add(topo[i], topo[j])
		}
	case 4: // rings among the last nodes of the order, hanging below a DAG
		dag(3 * n)
		rings := rapid.IntRange(1, 3).Draw(t, "rings")
		pos := n
		for r := 0; r < rings && pos > 1; r++ {
			l := rapid.IntRange(1, min(5, pos)).Draw(t, "ringLen")
			for x := 0; x < l; x++ {
				add(topo[pos-l+x], topo[pos-l+(x+1)%l])
			}
			pos -= l
		}
	}
	var sb strings.Builder
	for _, p := range list {
		if sb.Len() > 0 {
			sb.WriteByte(' ')
		}
		sep := byte('>')
		if p.a == p.b || rapid.IntRange(0, 5).Draw(t, "via") == 0 {
			sep = '~'
		}
		sb.WriteString(strconv.Itoa(p.a))
		sb.WriteByte(sep)
		sb.WriteString(strconv.Itoa(p.b))
	}
	return Case{N: n, Edges: sb.String(), Rank: rapid.Permutation(seq(n)).Draw(t, "rank")}
}

func seq(n int) []int {
	s := make([]int, n)
	for i := range s {
		s[i] = i
	}
	return s
}
