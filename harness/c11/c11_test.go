// C11: test results are reused only when the test's runtime inputs are unchanged.
package c11

import (
	"fmt"
	"os"
	"path/filepath"
	"regexp"
	"sort"
	"strings"
	"sync"
	"testing"

	"pgregory.net/rapid"

	"verifharness/lib"
)

func TestMain(m *testing.M) { lib.Main(m) }

var spec = lib.Spec{
	ID: "C11",
	Rule: "generated repositories (1-2 packages; source files, a data directory with nested files, 1-3 genrules cat/strip/count/dirn from lib's pure command library) with 1-3 gentest(no_test_output=True) targets whose runtime inputs are drawn from: data files, " +
		"a data directory, outputs of genrules as data (list or named dict) or runtime_deps, and a built test binary; the test command lists every file of its test directory and fails iff some file NAME starts with 'bad' or some file CONTENT contains 'BAD' (so its outcome is a pure function " +
		"of names+bytes of the runtime inputs), logging S/F/E events. Histories of 3-6 steps: flip a runtime input's content to/from BAD, benign content edits, rename ok*<->bad* / add / remove / swap contents inside the data directory, comment-only edits below `strip` (dependency output unchanged), " +
		"edits of unrelated files, test_cmd salt, same-bytes rewrites, plain repetition; after each step `plz test --detailed <drawn subset of tests>` runs in the working copy (dir cache drawn on/off) and `plz test --rerun` on a from-scratch copy. " +
		"Oracle: per-target pass/fail and exit status of the incremental run equal the from-scratch run and the Go model; a failing test is never reported [cached] and is always executed again; a [cached] report / a skipped execution happens only if the model's runtime-input signature " +
		"(rendered test definition, names+bytes of every file in the test directory) equals that of an earlier passing run in this working copy. " +
		"Non-trivial = a test that passed and was then reported cached (or skipped) later has a runtime input edited so that the expected outcome flips to fail; distinct = JSON of the case",
	Assumptions: []string{
		"the from-scratch `plz test --rerun` in a fresh directory (cache disabled, own HOME) is the reference; disagreement between it and the Go model is reported as inconclusive",
		"the model's signature stands for 'test command, test binary, data files and runtime dependencies' of the statement; only the upper bound (no reuse when it changed) is asserted, never that plz must reuse",
	},
}

// Test is a modelled gentest.
type Test struct {
	Pkg, Name   string
	DataFiles   []string `json:",omitempty"`
	DataDir     string   `json:",omitempty"`
	DataLabels  []string `json:",omitempty"`
	RuntimeDeps []string `json:",omitempty"`
	BinSrc      string   `json:",omitempty"`
	Salt        string   `json:",omitempty"`
	NamedData   bool     `json:",omitempty"`
}

func (t Test) Label() string { return "//" + t.Pkg + ":" + t.Name }

// State is one state of the repository.
type State struct {
	R     *lib.Repo
	Tests []Test
}

func (s State) clone() State {
	n := State{R: s.R.Clone()}
	for _, t := range s.Tests {
		t.DataFiles = append([]string{}, t.DataFiles...)
		t.DataLabels = append([]string{}, t.DataLabels...)
		t.RuntimeDeps = append([]string{}, t.RuntimeDeps...)
		n.Tests = append(n.Tests, t)
	}
	return n
}

// Case is a history.
type Case struct {
	States   []State
	Descs    []string
	Requests [][]string
	Touch    []string `json:",omitempty"` // Touch[i]: file rewritten with the same bytes before step i ("" none)
	DirCache bool     `json:",omitempty"`
	// BuildFirst[i]: run `plz build <request>` before `plz test` at step i, so that the test targets are
	// already built (state Unchanged) when the test step looks for reusable results
	BuildFirst []bool `json:",omitempty"`
}

var okContents = []string{"ok\n", "ok2\n", "", "ok\n#c\n"}
var badContents = []string{"BAD\n", "x BAD y\n", "ok\nBAD"}

func isBad(c string) bool { return strings.Contains(c, "BAD") }

// ---- generator ---------------------------------------------------------------------------------

func gen(t *rapid.T) Case {
	r := &lib.Repo{}
	np := rapid.IntRange(1, 2).Draw(t, "npkgs")
	r.Pkgs = []string{"p", "q"}[:np]
	content := func() string {
		if rapid.IntRange(0, 7).Draw(t, "bad") == 0 {
			return rapid.SampledFrom(badContents).Draw(t, "content")
		}
		return rapid.SampledFrom(okContents).Draw(t, "content")
	}
	for _, p := range r.Pkgs {
		for _, n := range []string{"a.txt", "b.txt", "u.txt"} {
			r.Files = append(r.Files, lib.RFile{Pkg: p, Path: n, Content: content()})
		}
		names := rapid.Permutation([]string{"dd/ok1.txt", "dd/ok2.txt", "dd/sub/ok3.txt", "dd/sub/ok4.txt"}).Draw(t, "ddnames")[:rapid.IntRange(1, 3).Draw(t, "ndd")]
		sort.Strings(names)
		for _, n := range names {
			r.Files = append(r.Files, lib.RFile{Pkg: p, Path: n, Content: content()})
		}
	}
	ng := rapid.IntRange(1, 3).Draw(t, "ngen")
	for i := 0; i < ng; i++ {
		g := &lib.RTarget{Pkg: rapid.SampledFrom(r.Pkgs).Draw(t, "gpkg"), Name: fmt.Sprintf("g%d", i), Kind: "genrule",
			Cmd: rapid.SampledFrom([]string{"cat", "cat", "strip", "strip", "count", "dirn"}).Draw(t, "gcmd")}
		g.Srcs = []lib.RSrc{{File: rapid.SampledFrom([]string{"a.txt", "b.txt"}).Draw(t, "gsrc")}}
		if i > 0 && rapid.IntRange(0, 2).Draw(t, "gchain") == 0 {
			g.Srcs = append(g.Srcs, lib.RSrc{Label: r.Targets[rapid.IntRange(0, i-1).Draw(t, "gdep")].Label()})
		}
		switch g.Cmd {
		case "dirn":
			g.Outs = []string{g.Name + "_d"}
		default:
			g.Outs = []string{g.Name + ".out"}
		}
		r.Targets = append(r.Targets, g)
	}
	st := State{R: r}
	nt := rapid.IntRange(1, 3).Draw(t, "ntests")
	for i := 0; i < nt; i++ {
		ts := Test{Pkg: rapid.SampledFrom(r.Pkgs).Draw(t, "tpkg"), Name: fmt.Sprintf("t%d", i)}
		for k := 0; k < 4; k++ { // at least one runtime input
			if rapid.Bool().Draw(t, "datafile") {
				ts.DataFiles = []string{rapid.SampledFrom([]string{"a.txt", "b.txt"}).Draw(t, "dfile")}
			}
			if rapid.IntRange(0, 2).Draw(t, "datadir") > 0 {
				ts.DataDir = "dd"
			}
			if rapid.Bool().Draw(t, "datalabel") {
				ts.DataLabels = []string{r.Targets[rapid.IntRange(0, len(r.Targets)-1).Draw(t, "dlabel")].Label()}
			}
			if rapid.IntRange(0, 3).Draw(t, "runtimedep") == 0 {
				l := r.Targets[rapid.IntRange(0, len(r.Targets)-1).Draw(t, "rdep")].Label()
				if len(ts.DataLabels) == 0 || ts.DataLabels[0] != l {
					ts.RuntimeDeps = []string{l}
				}
			}
			if rapid.IntRange(0, 1).Draw(t, "bin") == 0 {
				ts.BinSrc = rapid.SampledFrom([]string{"a.txt", "b.txt"}).Draw(t, "binsrc")
			}
			if len(ts.DataFiles)+len(ts.DataLabels)+len(ts.RuntimeDeps) > 0 || ts.DataDir != "" || ts.BinSrc != "" {
				break
			}
		}
		if len(ts.DataFiles)+len(ts.DataLabels)+len(ts.RuntimeDeps) == 0 && ts.DataDir == "" && ts.BinSrc == "" {
			ts.DataDir = "dd"
		}
		ts.NamedData = rapid.IntRange(0, 3).Draw(t, "nameddata") == 0
		st.Tests = append(st.Tests, ts)
	}
	c := Case{States: []State{st}, Descs: []string{"initial"}, Touch: []string{""}, DirCache: rapid.IntRange(0, 2).Draw(t, "dircache") == 0}
	c.Requests = append(c.Requests, genRequest(t, st, nil))
	n := rapid.IntRange(2, 5).Draw(t, "nedits")
	for i := 0; i < n; i++ {
		ns, desc, touch := genEdit(t, c.States[len(c.States)-1], c.Descs[len(c.Descs)-1])
		c.States = append(c.States, ns)
		c.Descs = append(c.Descs, desc)
		c.Touch = append(c.Touch, touch)
		for len(c.BuildFirst) < len(c.Touch) {
			c.BuildFirst = append(c.BuildFirst, rapid.IntRange(0, 2).Draw(t, "build_first") == 0)
		}
		c.Requests = append(c.Requests, genRequest(t, ns, c.Requests[len(c.Requests)-1]))
	}
	return c
}

func genRequest(t *rapid.T, s State, prev []string) []string {
	var all []string
	for _, ts := range s.Tests {
		all = append(all, ts.Label())
	}
	if rapid.IntRange(0, 3).Draw(t, "allreq") > 0 {
		return all
	}
	if prev != nil && rapid.Bool().Draw(t, "samereq") {
		return prev
	}
	n := rapid.IntRange(1, len(all)).Draw(t, "nreq")
	req := append([]string{}, rapid.Permutation(all).Draw(t, "req")[:n]...)
	sort.Strings(req)
	return req
}

// inputFiles lists indices into s.R.Files of the source files that feed test ts at run time.
func inputFiles(s State, ts Test) []int {
	set := map[int]bool{}
	add := func(pkg, path string) {
		for i, f := range s.R.Files {
			if f.Pkg == pkg && f.Path == path {
				set[i] = true
			}
		}
	}
	for _, f := range ts.DataFiles {
		add(ts.Pkg, f)
	}
	if ts.BinSrc != "" {
		add(ts.Pkg, ts.BinSrc)
	}
	if ts.DataDir != "" {
		for i, f := range s.R.Files {
			if f.Pkg == ts.Pkg && strings.HasPrefix(f.Path, ts.DataDir+"/") {
				set[i] = true
			}
		}
	}
	for l := range s.R.TransitiveDeps(append(append([]string{}, ts.DataLabels...), ts.RuntimeDeps...)) {
		if g := s.R.Target(l); g != nil {
			for _, f := range s.R.EffectiveFileSrcs(g) {
				add(g.Pkg, f)
			}
		}
	}
	var out []int
	for i := range set {
		out = append(out, i)
	}
	sort.Ints(out)
	return out
}

func dirFiles(s State, pkg, dir string) []int {
	var out []int
	for i, f := range s.R.Files {
		if f.Pkg == pkg && strings.HasPrefix(f.Path, dir+"/") {
			out = append(out, i)
		}
	}
	return out
}

func hasFile(s State, pkg, path string) bool {
	for _, f := range s.R.Files {
		if f.Pkg == pkg && f.Path == path {
			return true
		}
	}
	return false
}

// passing lists the indices of the tests the model expects to pass.
func passing(s State) []int {
	outs, _ := s.R.Eval()
	var out []int
	for i, ts := range s.Tests {
		if _, ok := expected(s, ts, outs); ok {
			out = append(out, i)
		}
	}
	return out
}

func genEdit(t *rapid.T, old State, prevDesc string) (State, string, string) {
	for attempt := 0; attempt < 8; attempt++ {
		s := old.clone()
		ti := rapid.IntRange(0, len(s.Tests)-1).Draw(t, "etest")
		op := rapid.SampledFrom([]string{"flip", "flip", "flip", "benign", "rename", "rename", "add-in-dir", "remove-in-dir", "swap-in-dir", "comment", "unrelated", "salt", "none", "none", "touch"}).Draw(t, "op")
		// steer towards: pass -> repeated invocation (reuse) -> an edit that makes the test fail
		if ps := passing(s); len(ps) > 0 && attempt == 0 {
			u := rapid.IntRange(0, 5).Draw(t, "steer")
			switch {
			case prevDesc == "none" && u < 4:
				ti = ps[rapid.IntRange(0, len(ps)-1).Draw(t, "steertest")]
				op = rapid.SampledFrom([]string{"flip", "flip", "rename", "add-in-dir"}).Draw(t, "steerop")
			case prevDesc != "none" && u < 3:
				op = "none"
			}
		}
		ts := &s.Tests[ti]
		isPassing := false
		for _, pi := range passing(s) {
			isPassing = isPassing || pi == ti
		}
		ins := inputFiles(s, *ts)
		switch op {
		case "flip", "benign", "comment", "touch":
			if len(ins) == 0 {
				continue
			}
			fi := ins[rapid.IntRange(0, len(ins)-1).Draw(t, "efile")]
			if op == "flip" && isPassing && ts.BinSrc != "" && rapid.Bool().Draw(t, "flip_binary") {
				// break the test through its *binary* (the test's own output), not through data
				for _, k := range ins {
					if s.R.Files[k].Pkg == ts.Pkg && s.R.Files[k].Path == ts.BinSrc {
						fi = k
					}
				}
			}
			if op == "flip" && !isPassing {
				// repair an input that is actually bad (content or name), if there is one
				for _, k := range ins {
					if isBad(s.R.Files[k].Content) {
						fi = k
						break
					}
				}
				for _, k := range ins {
					f := &s.R.Files[k]
					dir, base := filepath.Split(f.Path)
					if !isBad(s.R.Files[fi].Content) && strings.HasPrefix(base, "bad") && !hasFile(s, f.Pkg, dir+"ok"+strings.TrimPrefix(base, "bad")) {
						oldp := f.Path
						f.Path = dir + "ok" + strings.TrimPrefix(base, "bad")
						return s, fmt.Sprintf("rename %s/%s -> %s", f.Pkg, oldp, f.Path), ""
					}
				}
			}
			f := &s.R.Files[fi]
			switch op {
			case "flip":
				if isBad(f.Content) {
					f.Content = rapid.SampledFrom(okContents).Draw(t, "content")
				} else {
					f.Content = rapid.SampledFrom(badContents).Draw(t, "content")
				}
			case "benign":
				pool := okContents
				if isBad(f.Content) {
					pool = badContents
				}
				nc := rapid.SampledFrom(pool).Draw(t, "content")
				if nc == f.Content {
					nc = pool[0]
					if nc == f.Content {
						nc = pool[1]
					}
				}
				f.Content = nc
			case "comment": // differs only in a comment line (not the first line, which lib's digest prefixes): invisible below `strip`
				if f.Content == "ok\n#BAD\n" {
					f.Content = "ok\n#c\n"
				} else {
					f.Content = "ok\n#BAD\n"
				}
			case "touch":
				return s, fmt.Sprintf("touch %s/%s (same bytes)", f.Pkg, f.Path), filepath.Join(f.Pkg, f.Path)
			}
			return s, fmt.Sprintf("%s %s/%s -> %q", op, f.Pkg, f.Path, f.Content), ""
		case "rename", "add-in-dir", "remove-in-dir", "swap-in-dir":
			if ts.DataDir == "" {
				continue
			}
			df := dirFiles(s, ts.Pkg, ts.DataDir)
			switch op {
			case "rename":
				fi := df[rapid.IntRange(0, len(df)-1).Draw(t, "efile")]
				f := &s.R.Files[fi]
				dir, base := filepath.Split(f.Path)
				var nb string
				switch {
				case strings.HasPrefix(base, "bad"):
					nb = "ok" + strings.TrimPrefix(base, "bad")
				case rapid.IntRange(0, 2).Draw(t, "benignrename") == 0:
					nb = "ok" + rapid.SampledFrom([]string{"7", "8", "9"}).Draw(t, "n") + ".txt"
				default:
					nb = "bad" + strings.TrimPrefix(base, "ok")
				}
				if hasFile(s, f.Pkg, dir+nb) {
					continue
				}
				oldp := f.Path
				f.Path = dir + nb
				return s, fmt.Sprintf("rename %s/%s -> %s", f.Pkg, oldp, f.Path), ""
			case "add-in-dir":
				n := ts.DataDir + "/" + rapid.SampledFrom([]string{"ok5.txt", "sub/ok6.txt", "bad5.txt", "sub2/bad7.txt", "sub2/ok7.txt"}).Draw(t, "newname")
				if hasFile(s, ts.Pkg, n) {
					continue
				}
				s.R.Files = append(s.R.Files, lib.RFile{Pkg: ts.Pkg, Path: n, Content: rapid.SampledFrom(okContents).Draw(t, "content")})
				return s, fmt.Sprintf("add %s/%s", ts.Pkg, n), ""
			case "remove-in-dir":
				if len(df) < 2 {
					continue
				}
				fi := df[rapid.IntRange(0, len(df)-1).Draw(t, "efile")]
				d := fmt.Sprintf("remove %s/%s", s.R.Files[fi].Pkg, s.R.Files[fi].Path)
				s.R.Files = append(s.R.Files[:fi:fi], s.R.Files[fi+1:]...)
				return s, d, ""
			case "swap-in-dir":
				if len(df) < 2 {
					continue
				}
				a, b := df[0], df[len(df)-1]
				if s.R.Files[a].Content == s.R.Files[b].Content {
					continue
				}
				s.R.Files[a].Content, s.R.Files[b].Content = s.R.Files[b].Content, s.R.Files[a].Content
				return s, fmt.Sprintf("swap contents of %s/%s and %s", ts.Pkg, s.R.Files[a].Path, s.R.Files[b].Path), ""
			}
		case "unrelated":
			for i := range s.R.Files {
				f := &s.R.Files[i]
				if f.Path == "u.txt" && f.Pkg == ts.Pkg {
					if isBad(f.Content) {
						f.Content = "ok\n"
					} else {
						f.Content = "BAD\n"
					}
					return s, fmt.Sprintf("unrelated %s/u.txt -> %q", f.Pkg, f.Content), ""
				}
			}
		case "salt":
			ts.Salt = rapid.SampledFrom([]string{"", "s1", "s2"}).Draw(t, "salt")
			if ts.Salt == old.Tests[ti].Salt {
				ts.Salt += "x"
			}
			return s, fmt.Sprintf("salt %s %q", ts.Label(), ts.Salt), ""
		case "none":
			return s, "none", ""
		}
	}
	return old.clone(), "none", ""
}

// ---- rendering ---------------------------------------------------------------------------------

func pyList(ss []string) string {
	q := make([]string, len(ss))
	for i, s := range ss {
		q[i] = lib.PyQuote(s)
	}
	return "[" + strings.Join(q, ", ") + "]"
}

func (ts Test) render() string {
	l := fmt.Sprintf(`L(){ printf '%%s %%s\n' "$1" '%s' >> "${TMP_DIR%%%%/plz-out/tmp/*}/actions.log"; }; `, ts.Label())
	cmd := l + `L S; fs=$(find -L . -type f | LC_ALL=C sort); n=$(cat $fs /dev/null | grep -c BAD || true); m=$(printf '%s\n' $fs | grep -c '/bad[^/]*$' || true); ` +
		`if [ "$n" != 0 ] || [ "$m" != 0 ]; then L F; exit 1; fi; L E`
	if ts.Salt != "" {
		cmd += " # " + ts.Salt
	}
	s := fmt.Sprintf("gentest(name=%s, no_test_output=True, test_cmd=%s", lib.PyQuote(ts.Name), lib.PyQuote(cmd))
	var data []string
	data = append(data, ts.DataFiles...)
	if ts.DataDir != "" {
		data = append(data, ts.DataDir)
	}
	data = append(data, ts.DataLabels...)
	if len(data) > 0 {
		if ts.NamedData {
			h := (len(data) + 1) / 2
			s += ", data={\"one\": " + pyList(data[:h]) + ", \"two\": " + pyList(data[h:]) + "}"
		} else {
			s += ", data=" + pyList(data)
		}
	}
	if len(ts.RuntimeDeps) > 0 {
		s += ", runtime_deps=" + pyList(ts.RuntimeDeps)
	}
	if ts.BinSrc != "" {
		s += fmt.Sprintf(", srcs=[%s], outs=[%s], cmd=%s", lib.PyQuote(ts.BinSrc), lib.PyQuote(ts.Name+".bin"), lib.PyQuote(l+`L B; cat $SRCS > "$OUT"`))
	}
	return s + ")\n"
}

func (s State) treeFiles(extraConfig string) map[string]string {
	r := s.R.Clone()
	r.Config = extraConfig
	m := r.TreeFiles()
	for _, ts := range s.Tests {
		m[filepath.Join(ts.Pkg, "BUILD")] += ts.render()
	}
	return m
}

// syncTree makes the source tree under root equal to want (plz-out and the action log are left alone).
func syncTree(root string, want map[string]string, touch string) error {
	if err := os.MkdirAll(root, 0o755); err != nil {
		return err
	}
	var have, dirs []string
	filepath.Walk(root, func(p string, fi os.FileInfo, err error) error {
		if err != nil || p == root {
			return nil
		}
		rel, _ := filepath.Rel(root, p)
		if top := strings.Split(rel, "/")[0]; top == "plz-out" {
			return filepath.SkipDir
		}
		if fi.IsDir() {
			dirs = append(dirs, p)
		} else if rel != lib.ActionLogName {
			have = append(have, rel)
		}
		return nil
	})
	for _, h := range have {
		if _, ok := want[h]; !ok {
			os.Remove(filepath.Join(root, h))
		}
	}
	sort.Sort(sort.Reverse(sort.StringSlice(dirs))) // children before parents
	for _, d := range dirs {
		if es, _ := os.ReadDir(d); len(es) == 0 {
			os.Remove(d)
		}
	}
	for rel, content := range want {
		p := filepath.Join(root, rel)
		if b, err := os.ReadFile(p); err == nil && string(b) == content && rel != touch {
			continue
		}
		if err := os.MkdirAll(filepath.Dir(p), 0o755); err != nil {
			return err
		}
		if err := os.WriteFile(p, []byte(content), 0o644); err != nil {
			return err
		}
	}
	return nil
}

// ---- model -------------------------------------------------------------------------------------

// expected lists every file the test finds in its test directory and decides the outcome.
func expected(s State, ts Test, outs map[string][]lib.OutEnt) (sig string, pass bool) {
	var es []lib.Entry
	addFile := func(path, content string) { es = append(es, lib.Entry{Path: path, Kind: 'f', Content: content}) }
	for _, f := range s.R.Files {
		if f.Pkg != ts.Pkg {
			continue
		}
		isData := false
		for _, d := range ts.DataFiles {
			if d == f.Path {
				isData = true
			}
		}
		if ts.DataDir != "" && strings.HasPrefix(f.Path, ts.DataDir+"/") {
			isData = true
		}
		if isData {
			addFile(f.Pkg+"/"+f.Path, f.Content)
		}
		if ts.BinSrc == f.Path {
			addFile(ts.Name+".bin", f.Content)
		}
	}
	for _, l := range append(append([]string{}, ts.DataLabels...), ts.RuntimeDeps...) {
		g := s.R.Target(l)
		for _, o := range outs[l] {
			es = append(es, lib.Flatten(o.Node, g.Pkg+"/"+o.Rel)...)
		}
	}
	sort.Slice(es, func(i, j int) bool { return es[i].Path < es[j].Path })
	pass = true
	var b strings.Builder
	b.WriteString(ts.render())
	b.WriteString("\x00")
	last := ""
	for _, e := range es {
		if e.Path == last {
			continue
		}
		last = e.Path
		b.WriteString(e.String() + "\n")
		if e.Kind == 'd' {
			continue
		}
		if strings.HasPrefix(filepath.Base(e.Path), "bad") || isBad(e.Content) {
			pass = false
		}
	}
	return b.String(), pass
}

var lineRe = regexp.MustCompile(`^(//[^ ]+) \d+ tests? run.*; (\d+) passed(.*)$`)

type report struct {
	pass, cached bool
	line         string
}

func parseReport(stdout string) map[string]report {
	m := map[string]report{}
	for _, l := range strings.Split(stdout, "\n") {
		g := lineRe.FindStringSubmatch(strings.TrimSpace(l))
		if g == nil {
			continue
		}
		rest := g[3]
		m[g[1]] = report{
			pass:   g[2] != "0" && !strings.Contains(rest, "errored") && !strings.Contains(rest, "failed") && !strings.Contains(rest, "TIMED OUT"),
			cached: strings.Contains(rest, "[cached]"),
			line:   l,
		}
	}
	return m
}

// ---- run ---------------------------------------------------------------------------------------

func run(c Case, o *lib.Obs) error {
	e := lib.NewE2E("c11-")
	defer e.Close()
	F := filepath.Join(e.Dir, "f")
	cfgW := lib.NoCacheConfig
	if c.DirCache {
		cfgW = "[cache]\ndir = " + filepath.Join(e.Dir, "cache") + "\n"
	}
	passedSigs := map[string]map[string]bool{} // label -> signatures of passing executions in W
	reusedPass := map[string]bool{}            // label -> a passing result has been reused (cached / not executed) since its last execution
	lastPassSigReused := map[string]string{}   // label -> signature that was reused
	labels := map[string]bool{}
	nontrivial := false
	for i, st := range c.States {
		touch := ""
		if i < len(c.Touch) {
			touch = c.Touch[i]
		}
		if err := syncTree(e.W, st.treeFiles(cfgW), touch); err != nil {
			return &lib.Inconclusive{Msg: "sync: " + err.Error()}
		}
		if err := syncTree(F, st.treeFiles(lib.NoCacheConfig), ""); err != nil {
			return &lib.Inconclusive{Msg: "sync: " + err.Error()}
		}
		os.RemoveAll(filepath.Join(F, "plz-out"))
		lib.ResetActions(e.W)
		req := c.Requests[i]
		var resW, resF lib.PlzResult
		var wg sync.WaitGroup
		wg.Add(2)
		buildFirst := i < len(c.BuildFirst) && c.BuildFirst[i]
		go func() {
			defer wg.Done()
			if buildFirst {
				e.PlzW().Run(lib.BuildTimeout, append([]string{"build"}, req...)...)
			}
			resW = e.PlzW().Run(lib.BuildTimeout, append([]string{"test", "--detailed"}, req...)...)
		}()
		go func() {
			defer wg.Done()
			p := &lib.Plz{Root: F, Home: filepath.Join(e.Dir, "fhome")}
			resF = p.Run(lib.BuildTimeout, append([]string{"test", "--detailed", "--rerun"}, req...)...)
		}()
		wg.Wait()
		step := fmt.Sprintf("step %d (%s), request %v", i, c.Descs[i], req)
		if resW.TimedOut || resF.TimedOut {
			return &lib.Inconclusive{Msg: "plz timed out at " + step}
		}
		repW, repF := parseReport(resW.Stdout+"\n"+resW.Stderr), parseReport(resF.Stdout+"\n"+resF.Stderr)
		outs, _ := st.R.Eval()
		ran := map[string]int{}
		for _, ev := range lib.ReadActions(e.W) {
			if ev.Kind == "S" {
				ran[ev.Label]++
			}
		}
		anyFail := false
		for _, l := range req {
			var ts Test
			for _, x := range st.Tests {
				if x.Label() == l {
					ts = x
				}
			}
			sig, pass := expected(st, ts, outs)
			if !pass {
				anyFail = true
			}
			rf, okF := repF[l]
			if !okF {
				return &lib.Inconclusive{Msg: fmt.Sprintf("%s: no result line for %s in the from-scratch run\n%s", step, l, resF.Brief())}
			}
			if rf.pass != pass {
				return &lib.Inconclusive{Msg: fmt.Sprintf("%s: model expects pass=%v for %s but the FROM-SCRATCH run says %q\n%s", step, pass, l, rf.line, resF.Brief())}
			}
			if rf.cached {
				return lib.Failf("fresh-run-reported-cached", "%s: `plz test --rerun` in a fresh directory reported %q", step, rf.line)
			}
			rw, okW := repW[l]
			if !okW {
				return lib.Failf("no-result-reported", "%s: the incremental run printed no result for %s (from-scratch: %q)\n%s", step, l, rf.line, resW.Brief())
			}
			if rw.pass != rf.pass {
				return lib.Failf("outcome-differs", "%s: incremental run says %q, from-scratch run says %q (model: pass=%v)\nhistory: %v\n%s", step, rw.line, rf.line, pass, c.Descs[:i+1], resW.Brief())
			}
			executed := ran[l] > 0
			if !pass && rw.cached {
				return lib.Failf("failure-reported-cached", "%s: failing result reported as cached: %q", step, rw.line)
			}
			if !pass && !executed {
				return lib.Failf("failing-test-not-rerun", "%s: %s is expected to fail but its command was not executed (a failing result was reused): %q\nhistory: %v", step, l, rw.line, c.Descs[:i+1])
			}
			if (rw.cached || !executed) && !passedSigs[l][sig] {
				return lib.Failf("stale-result-reused", "%s: %s reported %q (executed=%v) although no earlier passing run in this working copy had the same test command, binary, data files and runtime dependencies\nhistory: %v", step, l, rw.line, executed, c.Descs[:i+1])
			}
			if rw.cached && executed {
				return lib.Failf("cached-but-executed", "%s: %s reported %q but its command ran", step, l, rw.line)
			}
			// bookkeeping
			if pass && executed {
				if passedSigs[l] == nil {
					passedSigs[l] = map[string]bool{}
				}
				passedSigs[l][sig] = true
				reusedPass[l] = false
			}
			if pass && !executed {
				reusedPass[l] = true
				lastPassSigReused[l] = sig
				labels["cached_pass"] = true
			}
			if !pass && reusedPass[l] && lastPassSigReused[l] != sig {
				// a cached pass followed by an input edit that flips the outcome
				nontrivial = true
				labels["flip_to_fail_after_cached_pass"] = true
				reusedPass[l] = false
			}
			if !pass {
				labels["expected_fail"] = true
			}
		}
		if resW.Exit != resF.Exit {
			return lib.Failf("exit-differs", "%s: incremental exit %d, from-scratch exit %d\n%s", step, resW.Exit, resF.Exit, resW.Brief())
		}
		if anyFail == (resW.Exit == 0) {
			return lib.Failf("exit-status-wrong", "%s: some requested test fails = %v, but exit status %d\n%s", step, anyFail, resW.Exit, resW.Brief())
		}
		if i > 0 {
			labels["op:"+strings.Fields(c.Descs[i])[0]] = true
		}
	}
	for _, ts := range c.States[0].Tests {
		labels["has_data_dir"] = labels["has_data_dir"] || ts.DataDir != ""
		labels["has_data_label"] = labels["has_data_label"] || len(ts.DataLabels) > 0
		labels["has_runtime_dep"] = labels["has_runtime_dep"] || len(ts.RuntimeDeps) > 0
		labels["has_test_binary"] = labels["has_test_binary"] || ts.BinSrc != ""
		labels["has_named_data"] = labels["has_named_data"] || ts.NamedData
	}
	labels["dir_cache"] = c.DirCache
	var ls []string
	for l, v := range labels {
		if v {
			ls = append(ls, l)
		}
	}
	sort.Strings(ls)
	for _, l := range ls {
		o.Label(l)
	}
	o.NonTrivial(nontrivial)
	var desc []string
	for _, ts := range c.States[0].Tests {
		desc = append(desc, fmt.Sprintf("%s data=%v dir=%s labels=%v runtime_deps=%v bin=%s named=%v", ts.Label(), ts.DataFiles, ts.DataDir, ts.DataLabels, ts.RuntimeDeps, ts.BinSrc, ts.NamedData))
	}
	var gens []string
	for _, g := range c.States[0].R.Targets {
		gens = append(gens, fmt.Sprintf("%s %s <- %v", g.Label(), g.Cmd, g.Srcs))
	}
	o.Sample(map[string]any{"tests": desc, "genrules": gens, "edits": c.Descs[1:], "requests": c.Requests, "dir_cache": c.DirCache})
	return nil
}

func TestC11(t *testing.T) {
	lib.Check(t, spec, lib.Scale(24, 300), gen, run)
}
