// C04: each action runs once, and only after its dependencies succeeded.
package c04

import (
	"fmt"
	"os"
	"path/filepath"
	"sort"
	"strings"
	"testing"

	"pgregory.net/rapid"

	"verifharness/lib"
)

func TestMain(m *testing.M) { lib.Main(m) }

var spec = lib.Spec{
	ID: "C04",
	Rule: "generated dependency graphs (4-12 targets in 1-3 packages; chains, diamonds, fan-in, filegroups between genrules, a require/provide pair that redirects a dependency, optionally every genrule defined through a subincluded wrapper so targets are discovered while parsing, the subincluded file optionally itself built from a slow dependency and also used as a plain source; optionally run as `plz query deps`, where only what subinclude() needs is built) " +
		"whose commands sleep a drawn 0-30 ms; each graph is built from an empty plz-out with 2 drawn worker counts from {1,2,4,16} and a drawn set of requested roots that share dependencies. " +
		"Invariant over the action log + plz's trace: every label has <= 1 start and <= 1 end event; for every (transitive) dependency edge t->d between commands, end(d) precedes start(t); plz exits 0; " +
		"every activated target has exactly one terminal Build event with a success description; no Go panic in stderr. " +
		"Non-trivial = graph has a diamond or fan-in >= 3 and ran with >= 4 workers; distinct = JSON of the case. Schedules are sampled, not enumerated (observed distinct start orders are counted in coverage.distinct_orderings)",
	Assumptions: []string{
		"O_APPEND writes of one short line to the action log are atomic and totally ordered",
		"the Go scheduler/kernel interleavings are sampled via drawn sleeps and worker counts, not controlled",
	},
}

type Case struct {
	R       *lib.Repo
	Req     []string
	Workers []int
	// Query: run `plz query deps` instead of `plz build`: nothing is requested to be built, only what
	// subinclude() needs gets built (targets are first queued as not-to-be-built and promoted later).
	Query bool `json:",omitempty"`
}

func gen(t *rapid.T) Case {
	r := lib.GenRepo(t, lib.RepoGenOpts{MinTargets: 4, MaxTargets: 12, MaxSleepMs: 30, Kinds: []string{"cat", "cat", "count", "multi", "dirn"}})
	r.Subinclude = rapid.IntRange(0, 2).Draw(t, "subinclude") == 0
	// require/provide: X requires "r", its dependency Y provides {"r": Z} => X really depends on Z
	if rapid.Bool().Draw(t, "provide") {
		var xs []*lib.RTarget
		for _, x := range r.Targets {
			if x.Kind == "genrule" {
				for _, d := range x.Deps() {
					if y := r.Target(d); y != nil && y.Kind == "genrule" {
						xs = append(xs, x)
						break
					}
				}
			}
		}
		if len(xs) > 0 {
			x := xs[rapid.IntRange(0, len(xs)-1).Draw(t, "x")]
			var y *lib.RTarget
			for _, d := range x.Deps() {
				if cand := r.Target(d); cand != nil && cand.Kind == "genrule" {
					y = cand
				}
			}
			var zs []string
			for _, z := range r.Targets {
				if z == x {
					break
				}
				if z != y {
					zs = append(zs, z.Label())
				}
			}
			if len(zs) > 0 {
				y.Provides = map[string]string{"r": rapid.SampledFrom(zs).Draw(t, "z")}
				x.Requires = []string{"r"}
			}
		}
	}
	// explicit shapes the random edges rarely produce: a wide fan-in target, and a diamond top over two
	// targets that share a dependency
	var gens []string
	for _, x := range r.Targets {
		if x.Kind == "genrule" {
			gens = append(gens, x.Label())
		}
	}
	var forced []string
	if len(gens) >= 3 && rapid.IntRange(0, 3).Draw(t, "fanin") > 0 {
		k := rapid.IntRange(3, min(6, len(gens))).Draw(t, "fanin_width")
		fi := &lib.RTarget{Pkg: r.Pkgs[0], Name: "fanin", Kind: "genrule", Cmd: "cat", Outs: []string{"fanin.out"}, SleepMs: rapid.IntRange(0, 30).Draw(t, "fsleep")}
		for _, l := range rapid.Permutation(gens).Draw(t, "fanin_deps")[:k] {
			fi.Srcs = append(fi.Srcs, lib.RSrc{Label: l})
		}
		r.Targets = append(r.Targets, fi)
		forced = append(forced, fi.Label())
	}
	if len(gens) >= 1 && rapid.IntRange(0, 3).Draw(t, "diamond") > 0 {
		base := rapid.SampledFrom(gens).Draw(t, "dbase")
		p := rapid.SampledFrom(r.Pkgs).Draw(t, "dpkg")
		l := &lib.RTarget{Pkg: p, Name: "dl", Kind: "genrule", Cmd: "cat", Outs: []string{"dl.out"}, Srcs: []lib.RSrc{{Label: base}}, SleepMs: rapid.IntRange(0, 30).Draw(t, "lsleep")}
		rr := &lib.RTarget{Pkg: p, Name: "dr", Kind: "genrule", Cmd: "count", Outs: []string{"dr.out"}, Srcs: []lib.RSrc{{Label: base}}, SleepMs: rapid.IntRange(0, 30).Draw(t, "rsleep")}
		top := &lib.RTarget{Pkg: r.Pkgs[0], Name: "dtop", Kind: "genrule", Cmd: "cat", Outs: []string{"dtop.out"}, Srcs: []lib.RSrc{{Label: l.Label()}, {Label: rr.Label()}}}
		r.Targets = append(r.Targets, l, rr, top)
		forced = append(forced, top.Label())
	}
	if r.Subinclude && rapid.Bool().Draw(t, "defs_chain") {
		// the subincluded file is itself built, from a slow dependency in another package; some ordinary
		// targets also use it as a plain source (so it is reached both as a dependency and via subinclude)
		r.DefsChain = true
		r.Pkgs = append(r.Pkgs, "slow", "defs")
		r.Files = append(r.Files, lib.RFile{Pkg: "slow", Path: "s.txt", Content: "x\n"})
		slow := &lib.RTarget{Pkg: "slow", Name: "gen", Kind: "genrule", Cmd: "cat", Srcs: []lib.RSrc{{File: "s.txt"}}, Outs: []string{"gen.out"}, SleepMs: rapid.IntRange(30, 150).Draw(t, "slow_ms")}
		defs := &lib.RTarget{Pkg: "defs", Name: "defs", Kind: "genrule", Cmd: "defs", Srcs: []lib.RSrc{{Label: slow.Label()}}, Outs: []string{"defs.build_defs"}, SleepMs: rapid.IntRange(0, 30).Draw(t, "defs_ms")}
		for _, x := range r.Targets {
			if x.Kind == "genrule" && rapid.IntRange(0, 2).Draw(t, "plain_dep_on_defs") == 0 {
				x.Srcs = append(x.Srcs, lib.RSrc{Label: defs.Label()})
			}
		}
		r.Targets = append([]*lib.RTarget{slow, defs}, r.Targets...)
	}
	c := Case{R: r}
	c.Query = r.DefsChain && rapid.Bool().Draw(t, "query_mode")
	// several roots
	ls := r.Labels()
	n := rapid.IntRange(1, min(4, len(ls))).Draw(t, "nroots")
	c.Req = rapid.Permutation(ls).Draw(t, "roots")[:n]
	if rapid.IntRange(0, 3).Draw(t, "all") == 0 {
		c.Req = ls
	} else {
		for _, f := range forced {
			dup := false
			for _, q := range c.Req {
				if q == f {
					dup = true
				}
			}
			if !dup && rapid.IntRange(0, 3).Draw(t, "want_shape") > 0 {
				c.Req = append(c.Req, f)
			}
		}
	}
	ws := rapid.Permutation([]int{1, 2, 4, 16}).Draw(t, "workers")
	c.Workers = ws[:2]
	return c
}

func run(c Case, o *lib.Obs) error {
	e := lib.NewE2E("c04-")
	defer e.Close()
	st := c.R.Clone()
	st.Config = lib.NoCacheConfig
	if err := st.Sync(e.W, nil); err != nil {
		return &lib.Inconclusive{Msg: err.Error()}
	}
	closure := st.TransitiveDeps(c.Req)
	// transitive command-dependencies of each genrule (through filegroups)
	cmdDeps := map[string]map[string]bool{}
	maxFanIn := 0
	diamond := false
	for _, t := range st.Targets {
		if len(st.ResolvedDeps(t)) > maxFanIn && closure[t.Label()] {
			maxFanIn = len(st.ResolvedDeps(t))
		}
		all := st.TransitiveDeps([]string{t.Label()})
		delete(all, t.Label())
		cmdDeps[t.Label()] = all
		// diamond: two direct deps sharing a transitive dep
		ds := st.ResolvedDeps(t)
		for i := range ds {
			for j := i + 1; j < len(ds); j++ {
				a, b := st.TransitiveDeps([]string{ds[i]}), st.TransitiveDeps([]string{ds[j]})
				for k := range a {
					if b[k] && closure[t.Label()] {
						diamond = true
					}
				}
			}
		}
	}
	// what subinclude() needs: if the subincluded file is itself built (DefsChain), every package other
	// than "defs"/"slow" needs //defs:defs and its dependencies built before it can even be parsed
	needsDefs := false
	if st.DefsChain {
		for l := range closure {
			if t := st.Target(l); t != nil && t.Pkg != "defs" && t.Pkg != "slow" {
				needsDefs = true
			}
		}
	}
	if c.Query {
		// nothing is requested to be built: only what subinclude() needs may (and must) be built
		closure = map[string]bool{}
	}
	if needsDefs {
		for l := range st.TransitiveDeps([]string{"//defs:defs"}) {
			closure[l] = true
		}
	}
	for _, w := range c.Workers {
		os.RemoveAll(filepath.Join(e.W, "plz-out"))
		lib.ResetActions(e.W)
		verb := []string{"build"}
		if c.Query {
			verb = []string{"query", "deps"}
		}
		res := e.PlzW().Run(lib.BuildTimeout, append(append(verb, "-n", fmt.Sprint(w)), c.Req...)...)
		if res.TimedOut {
			return &lib.Inconclusive{Msg: "plz timed out"}
		}
		where := fmt.Sprintf("-n %d, request %v", w, c.Req)
		if strings.Contains(res.Stderr, "panic:") || strings.Contains(res.Stderr, "fatal error:") {
			return lib.Failf("go-panic", "%s: %s", where, res.Brief())
		}
		if res.Exit != 0 {
			return lib.Failf("build-failed", "%s: a buildable graph failed: %s", where, res.Brief())
		}
		ev := lib.ReadActions(e.W)
		startIdx, endIdx := map[string]int{}, map[string]int{}
		var order []string
		for i, a := range ev {
			switch a.Kind {
			case "S":
				if _, dup := startIdx[a.Label]; dup {
					return lib.Failf("ran-twice", "%s: command of %s started twice\nlog: %v", where, a.Label, ev)
				}
				startIdx[a.Label] = i
				order = append(order, a.Label)
			case "E":
				if _, dup := endIdx[a.Label]; dup {
					return lib.Failf("ran-twice", "%s: command of %s finished twice\nlog: %v", where, a.Label, ev)
				}
				endIdx[a.Label] = i
			}
		}
		for l := range closure {
			t := st.Target(l)
			if t == nil || t.Kind != "genrule" {
				continue
			}
			si, ok := startIdx[l]
			if !ok {
				return lib.Failf("never-ran", "%s: %s is needed, plz-out was empty, plz exited 0, but its command never ran", where, l)
			}
			for d := range cmdDeps[l] {
				if dt := st.Target(d); dt != nil && dt.Kind == "genrule" {
					ei, ok := endIdx[d]
					if !ok || ei > si {
						return lib.Failf("started-before-dependency-finished", "%s: %s started (log line %d) before its dependency %s finished (%v)\nlog: %v", where, l, si, d, endIdx[d], ev)
					}
				}
			}
		}
		for l := range startIdx {
			if !closure[l] {
				return lib.Failf("ran-unneeded", "%s: %s ran but is not needed by the request", where, l)
			}
		}
		if c.Query {
			o.Label("query_mode")
			lib.Rec(spec).AddExtra("plz_invocations", 1)
			orderings.add(strings.Join(order, ","))
			continue
		}
		term := res.Terminal("Build")
		var ls []string
		for l := range term {
			ls = append(ls, l)
		}
		sort.Strings(ls)
		for _, l := range ls {
			ds := term[l]
			if len(ds) != 1 {
				return lib.Failf("reported-not-once", "%s: %s has %d terminal build events: %v", where, l, len(ds), ds)
			}
			if closure[l] && !(strings.HasPrefix(ds[0], "Built") || strings.HasPrefix(ds[0], "Unchanged") || strings.HasPrefix(ds[0], "Cached") || strings.HasPrefix(ds[0], "Reused")) {
				return lib.Failf("reported-not-success", "%s: %s completed but was reported as %q", where, l, ds[0])
			}
		}
		for l := range closure {
			if _, ok := term[l]; !ok && st.Target(l) != nil {
				return lib.Failf("never-reported", "%s: %s was built but has no terminal build event in the trace", where, l)
			}
		}
		lib.Rec(spec).AddExtra("plz_invocations", 1)
		orderings.add(strings.Join(order, ","))
		o.Label(fmt.Sprintf("workers_%d", w))
	}
	o.LabelIf(diamond, "diamond")
	o.LabelIf(maxFanIn >= 3, "fan_in_3plus")
	o.LabelIf(st.Subinclude, "subincluded_rules")
	o.LabelIf(st.DefsChain, "subinclude_target_is_built")
	for _, t := range st.Targets {
		if len(t.Requires) > 0 && closure[t.Label()] {
			o.Label("require_provide_in_closure")
			break
		}
	}
	maxW := 0
	for _, w := range c.Workers {
		if w > maxW {
			maxW = w
		}
	}
	o.NonTrivial((diamond || maxFanIn >= 3) && maxW >= 4)
	var desc []string
	for _, t := range st.Targets {
		desc = append(desc, fmt.Sprintf("%s(%s,%dms)<-%v", t.Label(), t.Kind, t.SleepMs, st.ResolvedDeps(t)))
	}
	o.Sample(map[string]any{"targets": desc, "request": c.Req, "workers": c.Workers, "subinclude": st.Subinclude, "defs_chain": st.DefsChain, "query_mode": c.Query})
	return nil
}

type orderSet struct{ m map[string]bool }

func (s *orderSet) add(k string) {
	if s.m == nil {
		s.m = map[string]bool{}
	}
	if !s.m[k] {
		s.m[k] = true
		lib.Rec(spec).AddExtra("distinct_orderings", 1)
	}
}

var orderings orderSet

func TestC04(t *testing.T) {
	lib.Check(t, spec, lib.Scale(16, 480), gen, run)
}
