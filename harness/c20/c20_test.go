// C20: build labels round-trip through String(); target patterns select exactly their targets in
// every consumer (Includes, Matches, sandbox whitelist, experimental dirs, command-line expansion,
// --exclude patterns, visibility).
package c20

import (
	"fmt"
	"sort"
	"strings"
	"testing"

	"github.com/thought-machine/please/src/core"
	"github.com/thought-machine/please/src/parse/asp"
	"pgregory.net/rapid"

	"verifharness/lib"
)

func TestMain(m *testing.M) {
	lib.QuietPleaseLogs()
	lib.Main(m)
}

var spec = lib.Spec{
	ID: "C20",
	Rule: "round-trip: every string over the alphabet {/ : . @ a b _ # |} up to length 6 (quick) / 7 (thorough), exhaustively, parsed with an empty current package, " +
		"plus all strings up to length 5 (6) parsed relative to package c/p in subrepo sr, plus random token strings (//, :, /..., @, ///, names, '.', '#', '|', '-', non-ASCII); " +
		"oracle: TryParseBuildLabel ok => TryParseBuildLabel(label.String()) ok and equal, and the parsed parts are ones a target could carry (non-trivial = the string is accepted). " +
		"selection: (pattern, package, name) triples where the pattern is //P/..., //P:all or //P:name and the package is P, below P, a sibling sharing P as a string prefix (Pfoo, P-x, P_, P.q, Pq), " +
		"a child of such a sibling, P's parent, a truncation of P or unrelated; names include hidden sub-targets (_t#x, __t#x_y). " +
		"Every consumer is compared with a reference matcher that compares whole path segments: BuildLabel.Includes, BuildLabel.Matches, validateSandbox (whitelist and experimental-dir branches), " +
		"isExperimental, ExpandLabels over a package graph, ExcludeTargets via SetIncludeAndExclude/ShouldInclude, visibility via CanSee. " +
		"Non-trivial = the package has the pattern's package as a string prefix but not as a path prefix; distinct = the triple",
	Assumptions: []string{
		"patterns and targets are in the main repo (no subrepo part): Includes/Matches ignore the subrepo and the property does not speak about it",
		"the reserved sentinel //:_ORIGINAL is not a user label",
		"experimental directories are configured as plain relative paths without trailing slash, as in the docs example",
	},
}

type rtCase struct {
	S   string // the string to parse
	Cur string // current package for relative forms
	Sub string // subrepo the parse happens in
}

type selCase struct {
	Pat  string   // pattern, printed (//p/..., //p:all, //p:t)
	Pkg  string   // package of the candidate target
	Name string   // its name
	Tree []string // other packages in the graph (for expansion)
}

type anyCase struct {
	RT  *rtCase  `json:",omitempty"`
	Sel *selCase `json:",omitempty"`
}

func runAny(c anyCase, o *lib.Obs) error {
	switch {
	case c.RT != nil:
		o.Label("roundtrip")
		return runRT(*c.RT, o)
	case c.Sel != nil:
		o.Label("selection")
		return runSel(*c.Sel, o)
	}
	return nil
}

// ---- round trip ----------------------------------------------------------------------------------

// refValidPkg / refValidName: what the docs and validateNames allow a real target to be called.
const badChars = `|$*?[]{}:()&\`

func refValidName(n string) bool {
	if n == "" || strings.ContainsAny(n, badChars) || strings.Contains(n, "/") {
		return false
	}
	if n[0] == '.' && n != "..." {
		return false
	}
	return !strings.HasSuffix(n, "._build") && !strings.HasSuffix(n, "._test")
}

func refValidPkg(p string) bool {
	if p == "" {
		return true
	}
	if strings.ContainsAny(p, badChars) || strings.HasPrefix(p, "/") || strings.HasSuffix(p, "/") || strings.Contains(p, "//") {
		return false
	}
	return true
}

func runRT(c rtCase, o *lib.Obs) error {
	l, err := core.TryParseBuildLabel(c.S, c.Cur, c.Sub)
	if err != nil {
		return nil
	}
	if l == core.OriginalTarget {
		return nil // internal marker, prints as "command-line targets"
	}
	o.NonTrivial(true)
	o.Key(c.S + "\x00" + c.Cur + "\x00" + c.Sub)
	o.LabelIf(l.Subrepo != "", "rt_subrepo")
	o.LabelIf(l.IsAllSubpackages(), "rt_subpackages")
	o.LabelIf(strings.HasPrefix(c.S, ":"), "rt_relative")
	o.LabelIf(!strings.Contains(c.S, ":") && !l.IsAllSubpackages(), "rt_abbreviated")
	printed := l.String()
	o.Sample(map[string]string{"in": c.S, "pkg": l.PackageName, "name": l.Name, "subrepo": l.Subrepo, "printed": printed})
	if l.Name == "" {
		return lib.Failf("rt-empty-name", "%q parsed without error to a label with an empty name", c.S)
	}
	l2, err := core.TryParseBuildLabel(printed, "", "")
	if err != nil {
		return lib.Failf("rt-printed-unparseable", "%q parses to {pkg %q name %q subrepo %q}, printed %q, which does not parse: %v", c.S, l.PackageName, l.Name, l.Subrepo, printed, err)
	}
	if l2 != l {
		return lib.Failf("rt-different-label", "%q parses to {pkg %q name %q subrepo %q}, printed %q, which parses to {pkg %q name %q subrepo %q}",
			c.S, l.PackageName, l.Name, l.Subrepo, printed, l2.PackageName, l2.Name, l2.Subrepo)
	}
	if printed2 := l2.String(); printed2 != printed {
		return lib.Failf("rt-print-unstable", "%q prints as %q, reparsed prints as %q", c.S, printed, printed2)
	}
	return nil
}

var alphabet = []byte("/:.@ab_#|")

// eachString calls f for every string over the alphabet of length exactly n whose index is in the shard.
func eachString(n int, shard, shards int, f func(string) bool) bool {
	buf := make([]byte, n)
	idx := make([]int, n)
	for i := range buf {
		buf[i] = alphabet[0]
	}
	k := 0
	for {
		if k%shards == shard {
			if !f(string(buf)) {
				return false
			}
		}
		k++
		i := n - 1
		for ; i >= 0; i-- {
			idx[i]++
			if idx[i] < len(alphabet) {
				buf[i] = alphabet[idx[i]]
				break
			}
			idx[i] = 0
			buf[i] = alphabet[0]
		}
		if i < 0 {
			return true
		}
	}
}

func pow(b, e int) int64 {
	r := int64(1)
	for i := 0; i < e; i++ {
		r *= int64(b)
	}
	return r
}

var tokens = []string{"//", ":", "/...", "...", "@", "///", "/", "a", "b_c", "pkg", "all", ".", "#", "_", "|", "-", "é", "x y", "_a#b", "._build", "._test", "+", "~", "=", ","}

func genRT(t *rapid.T) anyCase {
	n := rapid.IntRange(1, 9).Draw(t, "ntok")
	var sb strings.Builder
	for i := 0; i < n; i++ {
		sb.WriteString(rapid.SampledFrom(tokens).Draw(t, "tok"))
	}
	c := rtCase{S: sb.String()}
	if rapid.IntRange(0, 2).Draw(t, "ctx") == 0 {
		c.Cur = rapid.SampledFrom([]string{"", "c/p", "x"}).Draw(t, "cur")
		c.Sub = rapid.SampledFrom([]string{"", "sr", "third_party/go/x"}).Draw(t, "sub")
	}
	return anyCase{RT: &c}
}

// ---- selection -----------------------------------------------------------------------------------

var names = []string{"t", "u", "_t#x", "__t#x_y", "_u#a", "t#x", "_t", "all_t"}

func genSel(t *rapid.T) anyCase {
	p := lib.GenPkg(t, "pat", 3)
	if p == "" && rapid.IntRange(0, 3).Draw(t, "keeproot") != 0 {
		p = rapid.SampledFrom(lib.PkgSegs).Draw(t, "pat_seg1")
	}
	var pat lib.RefLabel
	switch k := rapid.IntRange(0, 9).Draw(t, "patkind"); {
	case k < 5:
		pat = lib.RefLabel{Pkg: p, Name: "..."}
	case k < 7:
		pat = lib.RefLabel{Pkg: p, Name: "all"}
	default:
		pat = lib.RefLabel{Pkg: p, Name: rapid.SampledFrom([]string{"t", "u"}).Draw(t, "patname")}
	}
	q := lib.GenRelatedPkg(t, "tgt", p)
	c := selCase{Pat: pat.String(), Pkg: q, Name: rapid.SampledFrom(names).Draw(t, "name")}
	nTree := rapid.IntRange(0, 5).Draw(t, "ntree")
	for i := 0; i < nTree; i++ {
		var x string
		switch rapid.IntRange(0, 3).Draw(t, "treekind") {
		case 0:
			x = lib.GenPkg(t, "tree", 3)
		case 1:
			x = lib.JoinPkg(p, rapid.SampledFrom(lib.PkgSegs).Draw(t, "tchild"))
		case 2:
			x = p + rapid.SampledFrom(lib.SiblingSuffixes).Draw(t, "tsuffix")
		default:
			x = lib.JoinPkg(q, rapid.SampledFrom(lib.PkgSegs).Draw(t, "tchild"))
		}
		c.Tree = append(c.Tree, x)
	}
	return anyCase{Sel: &c}
}

func genAny(t *rapid.T) anyCase {
	if rapid.IntRange(0, 4).Draw(t, "which") == 0 {
		return genRT(t)
	}
	return genSel(t)
}

var states = map[string]*core.BuildState{}

// stateFor returns a (cached) state whose configuration lists the given experimental dir ("" = none).
func stateFor(expDir string) *core.BuildState {
	if s, ok := states[expDir]; ok {
		return s
	}
	cfg := core.DefaultConfiguration()
	if expDir != "" {
		cfg.Parse.ExperimentalDir = []string{expDir}
	}
	s := core.NewBuildState(cfg)
	states[expDir] = s
	return s
}

func toCore(l lib.RefLabel) core.BuildLabel {
	return core.BuildLabel{PackageName: l.Pkg, Name: l.Name}
}

func parsePattern(s string) (lib.RefLabel, error) {
	// the harness's own reading of the printed pattern
	if !strings.HasPrefix(s, "//") {
		return lib.RefLabel{}, fmt.Errorf("pattern %q is not absolute", s)
	}
	body := s[2:]
	if body == "..." {
		return lib.RefLabel{Name: "..."}, nil
	}
	if strings.HasSuffix(body, "/...") {
		return lib.RefLabel{Pkg: strings.TrimSuffix(body, "/..."), Name: "..."}, nil
	}
	i := strings.IndexByte(body, ':')
	if i < 0 {
		return lib.RefLabel{}, fmt.Errorf("pattern %q has no name", s)
	}
	return lib.RefLabel{Pkg: body[:i], Name: body[i+1:]}, nil
}

func runSel(c selCase, o *lib.Obs) error {
	ref, err := parsePattern(c.Pat)
	if err != nil || !refValidPkg(ref.Pkg) || !refValidName(ref.Name) || !refValidPkg(c.Pkg) || !refValidName(c.Name) || c.Name == "..." || c.Name == "all" {
		return nil // not a case a real caller can produce
	}
	for _, x := range c.Tree {
		if !refValidPkg(x) {
			return nil
		}
	}
	if c.Pkg == "_please" {
		return nil
	}
	// the pattern as every consumer receives it: parsed from text by please
	pat, perr := core.TryParseBuildLabel(c.Pat, "", "")
	if perr != nil {
		return lib.Failf("pattern-rejected", "valid pattern %q rejected: %v", c.Pat, perr)
	}
	if pat != toCore(ref) {
		return lib.Failf("pattern-misparsed", "pattern %q parsed to {pkg %q name %q subrepo %q}", c.Pat, pat.PackageName, pat.Name, pat.Subrepo)
	}
	tl := lib.RefLabel{Pkg: c.Pkg, Name: c.Name}
	target := toCore(tl)
	want := lib.RefSelects(ref, tl)
	wantParent := lib.RefSelects(ref, lib.RefParent(tl))
	wantMatches := want
	if !pat.IsPseudoTarget() {
		wantMatches = wantParent // documented: //foo:_bar#bazz matches //foo:bar
	}
	confusable := lib.StringPrefixOnly(ref.Pkg, c.Pkg)
	o.NonTrivial(confusable)
	o.LabelIf(confusable, "string_prefix_not_path_prefix")
	o.LabelIf(want, "selected")
	o.LabelIf(ref.Name == "...", "pat_subpackages")
	o.LabelIf(ref.Name == "all", "pat_all")
	o.LabelIf(ref.Pkg == "", "pat_root")
	o.LabelIf(tl != lib.RefParent(tl), "hidden_subtarget")
	o.Key(c.Pat + " " + tl.String())
	o.Sample(map[string]any{"pattern": c.Pat, "target": tl.String(), "selected": want})

	if got := pat.Includes(target); got != want {
		return lib.Failf("includes", "%s.Includes(%s) = %v, reference %v", c.Pat, tl, got, want)
	}
	if got := pat.Matches(target); got != wantMatches {
		return lib.Failf("matches", "%s.Matches(%s) = %v, reference %v", c.Pat, tl, got, wantMatches)
	}

	// sandbox opt-out whitelist
	plain := stateFor("")
	bt := core.NewBuildTarget(target)
	bt.Sandbox = false
	plain.Config.Sandbox.ExcludeableTargets = []core.BuildLabel{pat}
	serr := asp.VerifValidateSandbox(plain, bt)
	plain.Config.Sandbox.ExcludeableTargets = nil
	if (serr == nil) != wantMatches {
		return lib.Failf("sandbox-whitelist", "excludeabletargets=%s, target %s with sandbox=False: accepted=%v, reference %v", c.Pat, tl, serr == nil, wantMatches)
	}

	// experimental directory = the pattern's package
	if ref.Name == "..." && ref.Pkg != "" {
		es := stateFor(ref.Pkg)
		if got := core.VerifIsExperimental(es, target); got != want {
			return lib.Failf("experimental", "experimentaldir=%s: isExperimental(%s) = %v, reference %v", ref.Pkg, tl, got, want)
		}
		es.Config.Sandbox.ExcludeableTargets = []core.BuildLabel{{PackageName: "zz-none", Name: "none"}}
		serr := asp.VerifValidateSandbox(es, bt)
		es.Config.Sandbox.ExcludeableTargets = nil
		if (serr == nil) != want {
			return lib.Failf("sandbox-experimental", "experimentaldir=%s, target %s with sandbox=False and a non-matching whitelist: accepted=%v, reference %v", ref.Pkg, tl, serr == nil, want)
		}
	}

	// --exclude <pattern>
	plain.ExcludeTargets = nil
	plain.SetIncludeAndExclude(nil, []string{c.Pat})
	got := plain.ShouldInclude(bt)
	plain.ExcludeTargets = nil
	if got != !want {
		return lib.Failf("exclude-pattern", "--exclude %s: ShouldInclude(%s) = %v, reference %v", c.Pat, tl, got, !want)
	}

	// visibility = [pattern] on a dependency in an unrelated package
	dep := core.NewBuildTarget(core.BuildLabel{PackageName: "zz-dep/d", Name: "d"})
	dep.Visibility = []core.BuildLabel{pat}
	if c.Pkg != "zz-dep/d" {
		if got := target.CanSee(plain, dep); got != wantParent {
			return lib.Failf("visibility", "visibility=[%s]: %s.CanSee = %v, reference %v (parent %s)", c.Pat, tl, got, wantParent, lib.RefParent(tl))
		}
	}

	// command line: expansion of the pattern over a package graph
	if pat.IsPseudoTarget() {
		pkgs := map[string]bool{c.Pkg: true}
		for _, x := range c.Tree {
			pkgs[x] = true
		}
		if ref.Name == "all" || len(pkgs) < 4 {
			pkgs[ref.Pkg] = true
		}
		graph := core.NewGraph()
		var wantSet []string
		for name := range pkgs {
			pkg := core.NewPackage(name)
			ns := []string{"z"}
			if name == c.Pkg {
				ns = append(ns, c.Name)
			}
			for _, n := range ns {
				t := core.NewBuildTarget(core.BuildLabel{PackageName: name, Name: n})
				pkg.AddTarget(t)
				graph.AddTarget(t)
				if lib.RefSelects(ref, lib.RefLabel{Pkg: name, Name: n}) {
					wantSet = append(wantSet, lib.RefLabel{Pkg: name, Name: n}.String())
				}
			}
			graph.AddPackage(pkg)
		}
		sort.Strings(wantSet)
		old := plain.Graph
		plain.Graph = graph
		exp := plain.ExpandLabels([]core.BuildLabel{pat})
		plain.Graph = old
		gotSet := make([]string, 0, len(exp))
		for _, l := range exp {
			gotSet = append(gotSet, lib.RefLabel{Pkg: l.PackageName, Name: l.Name}.String())
		}
		sort.Strings(gotSet)
		if strings.Join(gotSet, " ") != strings.Join(wantSet, " ") {
			return lib.Failf("expand", "expanding %s over packages %v gives %v, reference %v", c.Pat, sortedKeys(pkgs), gotSet, wantSet)
		}
	}
	return nil
}

func sortedKeys(m map[string]bool) []string {
	ks := make([]string, 0, len(m))
	for k := range m {
		ks = append(ks, k)
	}
	sort.Strings(ks)
	return ks
}

func TestC20(t *testing.T) {
	if lib.ReplayMode(t, spec, runAny) {
		return
	}
	rec := lib.Rec(spec)
	lib.RunKnown(t, spec, runAny)
	shard, shards := lib.Shard()
	maxLen := 6
	if lib.Thorough() {
		maxLen = 7
	}
	ok := true
	var total int64
	for n := 1; n <= maxLen && ok; n++ {
		total += pow(len(alphabet), n)
		ok = eachString(n, shard, shards, func(s string) bool {
			return lib.Each(t, spec, anyCase{RT: &rtCase{S: s}}, runAny)
		})
	}
	rec.Subspace(fmt.Sprintf("label strings over {/ : . @ a b _ # |}, length 1..%d, current package empty", maxLen), total, ok && shards == 1)
	total = 0
	for n := 1; n <= maxLen-1 && ok; n++ {
		total += pow(len(alphabet), n)
		ok = eachString(n, shard, shards, func(s string) bool {
			return lib.Each(t, spec, anyCase{RT: &rtCase{S: s, Cur: "c/p", Sub: "sr"}}, runAny)
		})
	}
	rec.Subspace(fmt.Sprintf("label strings over the same alphabet, length 1..%d, parsed in package c/p of subrepo sr", maxLen-1), total, ok && shards == 1)
	if !ok {
		return
	}
	lib.Check(t, spec, lib.Scale(24000, 2000000), genAny, runAny)
}
