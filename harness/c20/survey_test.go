package c20

import (
	"fmt"
	"testing"

	"verifharness/lib"
)

func TestSurvey(t *testing.T) {
	cnt := map[string]int{}
	for n := 1; n <= 5; n++ {
		eachString(n, 0, 1, func(s string) bool {
			for _, ctx := range [][2]string{{"", ""}, {"c/p", "sr"}} {
				o := &lib.Obs{}
				if err := runRT(rtCase{S: s, Cur: ctx[0], Sub: ctx[1]}, o); err != nil {
					f := err.(*lib.Failure)
					cnt[f.Class]++
					if cnt[f.Class] < 40 || n <= 4 {
						fmt.Println(f.Msg)
					}
				}
			}
			return true
		})
	}
	fmt.Println(cnt)
}
