// C03: no-op and cut-off: actions re-run only when their inputs changed.
package c03

import (
	"fmt"
	"sort"
	"strings"
	"testing"

	"pgregory.net/rapid"

	"verifharness/lib"
)

func TestMain(m *testing.M) { lib.Main(m) }

var spec = lib.Spec{
	ID: "C03",
	Rule: "repository models and edit histories as in C01 (commands append S/E events to an action log at the repository root). Oracle, upper bound only: " +
		"(a) repeating `plz build` on an unchanged tree logs no S event; (b) after an edit, a genrule's command may run only if the (rendered definition, names+bytes of its input files = own srcs and direct dependencies' expected outputs per the Go model) " +
		"differ from those it was last built with in this working copy. Cut-off is exercised by comment-only edits below `strip` commands, `count` commands (many inputs, same output) and same-bytes rewrites. " +
		"Non-trivial = a step in which a dependency re-ran to byte-identical outputs and has a dependent in the requested closure (cut-off situation), or a no-op rebuild of >= 3 commands; distinct = JSON of the history",
	Assumptions: []string{
		"only the upper bound is asserted (what MUST re-run is C01's job)",
		"the model's expected outputs stand in for the dependency outputs actually produced (C01 checks that they agree)",
	},
}

type Case struct {
	H    lib.History
	Noop []bool // repeat the build after step i and demand no command runs
}

func gen(t *rapid.T) Case {
	h := lib.GenHistory(t, lib.RepoGenOpts{Cutoff: true, Tools: true, Kinds: []string{"cat", "strip", "strip", "count", "count", "multi", "dirn", "cat"}}, 2, 6)
	c := Case{H: h}
	for i := range h.States {
		c.Noop = append(c.Noop, i == len(h.States)-1 || rapid.IntRange(0, 2).Draw(t, "noop") == 0)
	}
	return c
}

// inputSig renders the names and bytes of everything a genrule's command can read.
func inputSig(st *lib.Repo, t *lib.RTarget, outs map[string][]lib.OutEnt) string {
	var b strings.Builder
	for _, f := range st.EffectiveFileSrcs(t) {
		for _, rf := range st.FilesOf(t.Pkg) {
			if rf.Path == f {
				fmt.Fprintf(&b, "file %s %q\n", f, rf.Content)
			}
		}
	}
	for _, d := range t.Deps() {
		dt := st.Target(d)
		for _, o := range outs[d] {
			for _, e := range lib.Flatten(o.Node, dt.Pkg+"/"+o.Rel) {
				b.WriteString(e.String() + "\n")
			}
		}
	}
	return b.String()
}

func outSig(es []lib.OutEnt) string {
	var b strings.Builder
	for _, o := range es {
		for _, e := range lib.Flatten(o.Node, o.Rel) {
			b.WriteString(e.String() + "\n")
		}
	}
	return b.String()
}

func run(c Case, o *lib.Obs) error {
	e := lib.NewE2E("c03-")
	defer e.Close()
	h := c.H
	o.Sample(h.Summary())
	lastBuilt := map[string]string{} // label -> signature at its last successful build in W
	lastOut := map[string]string{}
	nontrivial := false
	for i, st := range h.States {
		st = st.Clone()
		st.Config = lib.NoCacheConfig
		if err := st.Sync(e.W, nil); err != nil {
			return &lib.Inconclusive{Msg: "sync: " + err.Error()}
		}
		req := h.Requests[i]
		outs, _ := st.Eval()
		closure := st.TransitiveDeps(req)
		lib.ResetActions(e.W)
		res := e.PlzW().Run(lib.BuildTimeout, append([]string{"build"}, req...)...)
		step := fmt.Sprintf("step %d (%s), request %v", i, h.Descs[i], req)
		if res.TimedOut {
			return &lib.Inconclusive{Msg: "plz timed out at " + step}
		}
		if res.Exit != 0 {
			return &lib.Inconclusive{Msg: "build failed at " + step + ": " + res.Brief()}
		}
		started := lib.Started(lib.ReadActions(e.W))
		ran := map[string]int{}
		for _, l := range started {
			ran[l]++
		}
		var labels []string
		for l := range closure {
			labels = append(labels, l)
		}
		sort.Strings(labels)
		for _, l := range labels {
			t := st.Target(l)
			if t == nil || t.Kind != "genrule" {
				continue
			}
			sig := st.RenderTarget(t) + "\x00" + inputSig(st, t, outs)
			if prev, ok := lastBuilt[l]; ok && prev == sig && ran[l] > 0 {
				return lib.Failf("reran-unchanged", "%s: command of %s ran again although neither its definition nor any input file changed since its last build\nhistory: %v\nactions: %v", step, l, h.Descs[:i+1], started)
			}
			if ran[l] > 0 {
				// cut-off situation: re-ran to identical outputs while something depends on it
				if lo, ok := lastOut[l]; ok && lo == outSig(outs[l]) {
					for _, d := range st.Dependents(l) {
						if closure[d] {
							nontrivial = true
							o.Label("cutoff_situation")
						}
					}
				}
			}
			lastBuilt[l] = sig
			lastOut[l] = outSig(outs[l])
		}
		for l := range ran {
			if !closure[l] {
				return lib.Failf("ran-unrequested", "%s: command of %s ran although it is not in the dependency closure of the request", step, l)
			}
		}
		if i > 0 {
			o.Label("op:" + strings.Fields(h.Descs[i])[0])
		}
		if i < len(c.Noop) && c.Noop[i] {
			lib.ResetActions(e.W)
			res2 := e.PlzW().Run(lib.BuildTimeout, append([]string{"build"}, req...)...)
			if res2.TimedOut {
				return &lib.Inconclusive{Msg: "plz timed out"}
			}
			if s2 := lib.Started(lib.ReadActions(e.W)); len(s2) > 0 {
				return lib.Failf("noop-ran-commands", "%s: repeating the build on the unchanged tree ran %v", step, s2)
			}
			if res2.Exit != 0 {
				return lib.Failf("noop-failed", "%s: repeated build failed: %s", step, res2.Brief())
			}
			o.Label("noop_rebuild")
			n := 0
			for _, l := range labels {
				if t := st.Target(l); t != nil && t.Kind == "genrule" {
					n++
				}
			}
			if n >= 3 {
				nontrivial = true
			}
		}
	}
	o.NonTrivial(nontrivial)
	return nil
}

func TestC03(t *testing.T) {
	lib.Check(t, spec, lib.Scale(16, 640), gen, run)
}
