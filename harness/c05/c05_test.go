// C05: builds always terminate and report failure faithfully.
package c05

import (
	"fmt"
	"os"
	"path/filepath"
	"strings"
	"testing"
	"time"

	"pgregory.net/rapid"

	"verifharness/lib"
)

func TestMain(m *testing.M) { lib.Main(m) }

var spec = lib.Spec{
	ID: "C05",
	Rule: "generated dependency graphs (4-10 targets, 1-3 packages, optionally with rules defined through a subincluded wrapper) with 1-2 injected faults drawn from: failing command (exit 3), BUILD syntax error in a package (needed or not needed), " +
		"dependency on an undefined target of an existing package, dependency on a missing package, dependency cycle through 1..n targets, a subincluded build_defs file shared by every package that does not parse, whose producing target fails, or whose producing target's own dependency fails; built from an empty plz-out (or, one case in three, from a plz-out warmed by a complete build of the same repository without the command failures, so that outputs below a failure exist) with/without --keep_going and -n in {1,4,16}, request = drawn roots. " +
		"Reference computed on the model: mustFail <=> the dependency closure of the request contains an unbuildable element. Checks: plz exits non-zero <=> mustFail; no command whose (transitive) dependency is unbuildable ever starts; " +
		"the process ends within the budget (60 s, where < 1 s or ~5-10 s for cycles is expected; exceeding it counts as a hang only if the process group then stays idle and childless for 5 s, else inconclusive); no Go panic. " +
		"Non-trivial = a fault reachable from a requested root through >= 2 edges, or a broken package needed by >= 2 requested roots; distinct = JSON of the case",
	Assumptions: []string{
		"liveness is decided as bounded-time safety with an explicit idle-process hang criterion",
		"a syntax error makes every target of that package unbuildable; targets of other packages are unaffected",
	},
}

type Case struct {
	R         *lib.Repo
	Req       []string
	KeepGoing bool
	Workers   int
	Faults    []string
	// Warm: the repository is first built completely WITHOUT the injected command failures (so every output,
	// also those of targets below a later failure, exists in plz-out), then the failures are switched on
	// (with a changed command, so the failing target has to re-run) and the build under test runs.
	Warm bool `json:",omitempty"`
}

func gen(t *rapid.T) Case {
	r := lib.GenRepo(t, lib.RepoGenOpts{MinTargets: 4, MaxTargets: 10, Kinds: []string{"cat", "cat", "count", "multi", "dirn"}, NoGlob: true})
	r.Subinclude = rapid.IntRange(0, 1).Draw(t, "subinclude") == 0
	c := Case{R: r, KeepGoing: rapid.Bool().Draw(t, "keep_going"), Workers: rapid.SampledFrom([]int{1, 4, 16}).Draw(t, "workers")}
	nf := rapid.SampledFrom([]int{0, 1, 1, 1, 1, 2, 2}).Draw(t, "nfaults")
	for i, attempts := 0, 0; i < nf && attempts < 8; attempts++ {
		i++
		kind := rapid.SampledFrom([]string{"fail", "fail", "syntax", "undefined", "missing-package", "cycle", "cycle"}).Draw(t, "fault")
		ti := rapid.IntRange(0, (len(r.Targets)-1)/2).Draw(t, "victim") // early targets have more dependents
		tg := r.Targets[ti]
		switch kind {
		case "fail":
			if tg.Kind != "genrule" {
				i--
				continue
			}
			tg.Fail = true
			c.Faults = append(c.Faults, "fail "+tg.Label())
		case "syntax":
			r.BrokenPkgs = append(r.BrokenPkgs, tg.Pkg)
			c.Faults = append(c.Faults, "syntax-error in "+tg.Pkg)
		case "undefined":
			if tg.Kind == "text_file" {
				i--
				continue
			}
			tg.Srcs = append(tg.Srcs, lib.RSrc{Label: "//" + tg.Pkg + ":nonexistent"})
			c.Faults = append(c.Faults, "undefined dep of "+tg.Label())
		case "missing-package":
			if tg.Kind == "text_file" {
				i--
				continue
			}
			tg.Srcs = append(tg.Srcs, lib.RSrc{Label: "//nopkg:x"})
			c.Faults = append(c.Faults, "missing package dep of "+tg.Label())
		case "cycle":
			// add an edge from tg to a target that (transitively) depends on tg, or to itself
			if tg.Kind == "text_file" {
				i--
				continue
			}
			var cands []string
			for _, u := range r.Targets {
				if u.Kind != "text_file" && r.TransitiveDeps([]string{u.Label()})[tg.Label()] {
					cands = append(cands, u.Label())
				}
			}
			if len(cands) == 0 {
				i--
				continue
			}
			back := rapid.SampledFrom(cands).Draw(t, "back")
			tg.Srcs = append(tg.Srcs, lib.RSrc{Label: back})
			c.Faults = append(c.Faults, fmt.Sprintf("cycle %s -> %s", tg.Label(), back))
		}
	}
	c.Warm = rapid.IntRange(0, 1).Draw(t, "warm") == 0
	if r.Subinclude && rapid.IntRange(0, 1).Draw(t, "defs_chain") == 0 {
		// the subincluded file is itself built from another target, and THAT target's command fails
		r.DefsChain = true
		r.Pkgs = append(r.Pkgs, "slow", "defs")
		r.Files = append(r.Files, lib.RFile{Pkg: "slow", Path: "s.txt", Content: "x\n"})
		slow := &lib.RTarget{Pkg: "slow", Name: "gen", Kind: "genrule", Cmd: "cat", Srcs: []lib.RSrc{{File: "s.txt"}}, Outs: []string{"gen.out"}, Fail: true}
		defs := &lib.RTarget{Pkg: "defs", Name: "defs", Kind: "genrule", Cmd: "defs", Srcs: []lib.RSrc{{Label: slow.Label()}}, Outs: []string{"defs.build_defs"}}
		r.Targets = append([]*lib.RTarget{slow, defs}, r.Targets...)
		c.Faults = append(c.Faults, "subinclude-dependency-fails (//slow:gen below //defs:defs)")
		c.Warm = false
	} else if r.Subinclude && rapid.IntRange(0, 2).Draw(t, "break_defs") == 0 {
		r.BrokenDefs = rapid.SampledFrom([]string{"syntax", "build"}).Draw(t, "defs_fault")
		c.Faults = append(c.Faults, "subinclude-"+r.BrokenDefs+" (shared by every package)")
	}
	ls := r.Labels()
	n := rapid.IntRange(1, min(3, len(ls))).Draw(t, "nroots")
	extraRoot := ""
	if c.Warm && rapid.Bool().Draw(t, "warm_chain") && !r.DefsChain && r.BrokenDefs == "" {
		// a failing command two edges below a requested root whose intermediate dependency has been built
		// before: the root must not run on the strength of that left-over output
		p := r.Pkgs[0]
		f := r.FilesOf(p)
		if len(f) > 0 {
			wc := &lib.RTarget{Pkg: p, Name: "wc", Kind: "genrule", Cmd: "cat", Srcs: []lib.RSrc{{File: f[0].Path}}, Outs: []string{"wc.out"}, Fail: true}
			wb := &lib.RTarget{Pkg: p, Name: "wb", Kind: "genrule", Cmd: "cat", Srcs: []lib.RSrc{{Label: wc.Label()}}, Outs: []string{"wb.out"}}
			wa := &lib.RTarget{Pkg: rapid.SampledFrom(r.Pkgs).Draw(t, "wapkg"), Name: "wa", Kind: "genrule", Cmd: "cat", Srcs: []lib.RSrc{{Label: wb.Label()}}, Outs: []string{"wa.out"}}
			r.Targets = append(r.Targets, wc, wb, wa)
			c.Faults = append(c.Faults, "fail "+wc.Label()+" (two edges below root "+wa.Label()+", built before)")
			c.KeepGoing = c.KeepGoing || rapid.Bool().Draw(t, "warm_keep_going")
			extraRoot = wa.Label()
		}
	}
	// favour late targets as roots (long dependency chains below them)
	late := ls[len(ls)/2:]
	// roots that reach an unbuildable origin only through >= 2 edges (the non-trivial shape)
	var deepRoots []string
	okm := r.Buildable()
	for _, l := range ls {
		if !okm[l] && faultDepth(r, l) >= 2 {
			deepRoots = append(deepRoots, l)
		}
	}
	if len(deepRoots) > 0 && rapid.IntRange(0, 2).Draw(t, "deep") > 0 {
		n = min(n, len(deepRoots))
		c.Req = rapid.Permutation(deepRoots).Draw(t, "roots")[:n]
	} else if rapid.IntRange(0, 3).Draw(t, "late") > 0 {
		n = min(n, len(late))
		c.Req = rapid.Permutation(late).Draw(t, "roots")[:n]
	} else {
		c.Req = rapid.Permutation(ls).Draw(t, "roots")[:n]
	}
	if extraRoot != "" {
		c.Req = append(c.Req, extraRoot)
	}
	return c
}

// faultDepth is the BFS distance from root to the nearest target that is itself faulty (failing
// command, broken package, or a label that does not exist); -1 if none is reachable.
func faultDepth(st *lib.Repo, root string) int {
	type qi struct {
		l string
		d int
	}
	seen := map[string]bool{root: true}
	q := []qi{{root, 0}}
	for len(q) > 0 {
		cur := q[0]
		q = q[1:]
		t := st.Target(cur.l)
		if t == nil {
			return cur.d
		}
		own := t.Fail
		for _, p := range st.BrokenPkgs {
			if p == t.Pkg {
				own = true
			}
		}
		if own {
			return cur.d
		}
		for _, d := range t.Deps() {
			if !seen[d] {
				seen[d] = true
				q = append(q, qi{d, cur.d + 1})
			}
		}
	}
	return -1
}

func run(c Case, o *lib.Obs) error {
	e := lib.NewE2E("c05-")
	defer e.Close()
	st := c.R.Clone()
	st.Config = lib.NoCacheConfig
	if err := st.Sync(e.W, nil); err != nil {
		return &lib.Inconclusive{Msg: err.Error()}
	}
	if c.Warm {
		w := st.Clone()
		anyFail := false
		for _, t := range w.Targets {
			if t.Fail {
				t.Fail = false
				anyFail = true
			}
		}
		wok := w.Buildable()
		// everything except the requested roots themselves: their dependencies' outputs then exist,
		// while the roots still have to run their commands in the build under test
		isReq := map[string]bool{}
		for _, l := range c.Req {
			isReq[l] = true
		}
		var buildable []string
		for _, l := range w.Labels() {
			if wok[l] && !isReq[l] {
				buildable = append(buildable, l)
			}
		}
		if anyFail && len(buildable) > 0 {
			if err := w.Sync(e.W, nil); err != nil {
				return &lib.Inconclusive{Msg: err.Error()}
			}
			if res := e.PlzW().Run(lib.BuildTimeout, append([]string{"build", "--keep_going"}, buildable...)...); res.TimedOut {
				return &lib.Inconclusive{Msg: "warm-up build timed out"}
			}
			if err := st.Sync(e.W, nil); err != nil {
				return &lib.Inconclusive{Msg: err.Error()}
			}
			o.Label("warm_plz_out")
		}
	}
	ok := st.Buildable()
	mustFail := false
	for _, l := range c.Req {
		if !ok[l] {
			mustFail = true
		}
	}
	if !c.Warm {
		os.RemoveAll(filepath.Join(e.W, "plz-out"))
	}
	lib.ResetActions(e.W)
	args := []string{"build", "-n", fmt.Sprint(c.Workers)}
	if c.KeepGoing {
		args = append(args, "--keep_going")
	}
	args = append(args, c.Req...)
	res, verdict := e.PlzW().RunBounded(60*time.Second, args...)
	where := fmt.Sprintf("faults %v, request %v, keep_going=%v, -n %d", c.Faults, c.Req, c.KeepGoing, c.Workers)
	switch verdict {
	case lib.Hung:
		return lib.Failf("hang", "%s: plz did not terminate within 60 s and then sat idle with no children for 5 s\n%s", where, res.Brief())
	case lib.Slow:
		return &lib.Inconclusive{Msg: "budget exceeded while busy: " + where}
	}
	if strings.Contains(res.Stderr, "panic:") || strings.Contains(res.Stderr, "fatal error:") {
		return lib.Failf("go-panic", "%s: %s", where, res.Brief())
	}
	if mustFail && res.Exit == 0 {
		return lib.Failf("failure-not-reported", "%s: a requested target cannot be built but plz exited 0\n%s", where, res.Brief())
	}
	if !mustFail && res.Exit != 0 {
		return lib.Failf("spurious-failure", "%s: everything requested is buildable but plz exited %d\n%s", where, res.Exit, res.Brief())
	}
	ev := lib.ReadActions(e.W)
	for _, l := range lib.Started(ev) {
		t := st.Target(l)
		if t == nil {
			continue
		}
		for _, d := range t.Deps() {
			if !ok[d] {
				return lib.Failf("ran-after-failed-dependency", "%s: command of %s started although its dependency %s cannot be built\nlog: %v", where, l, d, ev)
			}
		}
	}
	deep := false
	for _, root := range c.Req {
		if !ok[root] && faultDepth(st, root) >= 2 {
			deep = true
		}
	}
	for _, f := range c.Faults {
		o.Label("fault:" + strings.Fields(f)[0])
	}
	o.LabelIf(len(c.Faults) == 0, "no_fault")
	o.LabelIf(mustFail, "must_fail")
	o.LabelIf(c.KeepGoing, "keep_going")
	o.LabelIf(res.Wall > 4*time.Second, "took_over_4s")
	o.NonTrivial(deep)
	var desc []string
	for _, t := range st.Targets {
		desc = append(desc, fmt.Sprintf("%s(%s)<-%v", t.Label(), t.Kind, t.Deps()))
	}
	o.Sample(map[string]any{"targets": desc, "faults": c.Faults, "request": c.Req, "keep_going": c.KeepGoing, "workers": c.Workers, "must_fail": mustFail, "exit": res.Exit, "wall_s": res.Wall.Seconds()})
	return nil
}

func TestC05(t *testing.T) {
	lib.Check(t, spec, lib.Scale(32, 1200), gen, run)
}
