// C02: cache restores are indistinguishable from building.
package c02

import (
	"fmt"
	"os"
	"path/filepath"
	"strings"
	"testing"

	"pgregory.net/rapid"

	"verifharness/lib"
)

func TestMain(m *testing.M) { lib.Main(m) }

var spec = lib.Spec{
	ID: "C02",
	Rule: "2-4 model states of one generated repository (as in C01; states differ by 1-2 edits each) and a history of 3-8 steps {switch to state k, optionally delete plz-out, plz build <request>} sharing one case-local directory cache " +
		"(dircompress drawn per case). Oracle after every build: exit status and every requested target's declared outputs equal a clean no-cache build of the same state (done once per state) and the Go model's evaluation of the *current* state. " +
		"Non-trivial = some build reports a target as restored from the cache (trace description contains 'Cached') in a history that visits >= 2 distinct states; distinct = JSON of the case",
	Assumptions: []string{
		"reference = clean build in a fresh directory with the cache disabled",
		"the cache directory is private to the case; only declared outputs of requested targets are compared",
	},
}

type Step struct {
	State int
	Wipe  bool // remove plz-out before building
}

type Case struct {
	States   []*lib.Repo
	Descs    []string
	Steps    []Step
	Req      []string
	Compress bool
}

func gen(t *rapid.T) Case {
	o := lib.RepoGenOpts{SubOuts: true}
	r := lib.GenRepo(t, o)
	c := Case{States: []*lib.Repo{r}, Descs: []string{"initial"}, Compress: rapid.Bool().Draw(t, "compress")}
	n := rapid.IntRange(1, 3).Draw(t, "nstates")
	for i := 0; i < n; i++ {
		nr, d := lib.GenEdit(t, c.States[len(c.States)-1], o)
		if rapid.Bool().Draw(t, "second") {
			var d2 string
			nr, d2 = lib.GenEdit(t, nr, o)
			d += "; " + d2
		}
		c.States = append(c.States, nr)
		c.Descs = append(c.Descs, d)
	}
	// request labels that exist in every state, else everything per state ("" marker = all)
	var common []string
	for _, l := range r.Labels() {
		ok := true
		for _, s := range c.States {
			if s.Target(l) == nil {
				ok = false
			}
		}
		if ok {
			common = append(common, l)
		}
	}
	if len(common) > 0 && rapid.IntRange(0, 2).Draw(t, "subset") > 0 {
		k := rapid.IntRange(1, len(common)).Draw(t, "nreq")
		c.Req = rapid.Permutation(common).Draw(t, "req")[:k]
	}
	ns := rapid.IntRange(3, 8).Draw(t, "nsteps")
	for i := 0; i < ns; i++ {
		c.Steps = append(c.Steps, Step{State: rapid.IntRange(0, len(c.States)-1).Draw(t, "state"), Wipe: rapid.IntRange(0, 1).Draw(t, "wipe") == 0})
	}
	return c
}

type ref struct {
	exit int
	snap []lib.Entry
}

func run(c Case, o *lib.Obs) error {
	e := lib.NewE2E("c02-")
	defer e.Close()
	cacheDir := filepath.Join(e.Dir, "cache")
	cfg := "[cache]\ndir = " + cacheDir + "\n"
	if c.Compress {
		cfg += "dircompress = true\n"
	}
	refs := map[int]ref{}
	visited := map[int]bool{}
	cached := false
	var sample []string
	for i, s := range c.Steps {
		if s.State < 0 || s.State >= len(c.States) {
			continue
		}
		st := c.States[s.State].Clone()
		st.Config = cfg
		req := c.Req
		if len(req) == 0 {
			req = st.Labels()
		}
		outs, _ := st.Eval()
		if _, ok := refs[s.State]; !ok {
			f, resF, err := e.CleanBuild(st, req)
			if err != nil || resF.TimedOut {
				return &lib.Inconclusive{Msg: "clean build problem"}
			}
			snapF := st.SnapshotOutputs(f, req, outs)
			e.RemoveClean(f)
			if resF.Exit != 0 {
				return &lib.Inconclusive{Msg: "clean build failed: " + resF.Brief()}
			}
			if d := lib.DiffEntries(st.ExpectedOutputs(req, outs), snapF, lib.DiffOpts{IgnoreExec: true}); d != "" {
				return &lib.Inconclusive{Msg: "model disagrees with the CLEAN build:\n" + d}
			}
			refs[s.State] = ref{resF.Exit, snapF}
		}
		if s.Wipe {
			os.RemoveAll(filepath.Join(e.W, "plz-out"))
		}
		if err := st.Sync(e.W, nil); err != nil {
			return &lib.Inconclusive{Msg: "sync: " + err.Error()}
		}
		res := e.PlzW().Run(lib.BuildTimeout, append([]string{"build"}, req...)...)
		if res.TimedOut {
			return &lib.Inconclusive{Msg: "plz timed out"}
		}
		step := fmt.Sprintf("step %d (state %d, wipe=%v, compress=%v)", i, s.State, s.Wipe, c.Compress)
		sample = append(sample, fmt.Sprintf("state%d wipe=%v", s.State, s.Wipe))
		var cachedNow []string
		for l, ds := range res.Terminal("Build") {
			for _, d := range ds {
				if strings.Contains(d, "Cached") {
					cachedNow = append(cachedNow, l)
				}
			}
		}
		if res.Exit != refs[s.State].exit {
			return lib.Failf("exit-differs", "%s: exit %d, clean exit %d\n%s", step, res.Exit, refs[s.State].exit, res.Brief())
		}
		snapW := st.SnapshotOutputs(e.W, req, outs)
		if d := lib.DiffEntries(refs[s.State].snap, snapW, lib.DiffOpts{}); d != "" {
			return lib.Failf("outputs-differ", "%s: build with cache differs from clean build (first=clean, second=with cache); restored from cache in this step: %v\n%s\nstates: %v steps so far: %v", step, cachedNow, d, c.Descs, sample)
		}
		visited[s.State] = true
		if len(cachedNow) > 0 {
			o.Label("step_with_cache_hit")
			if len(visited) >= 2 {
				cached = true
			}
		}
	}
	o.LabelIf(c.Compress, "compressed")
	o.Sample(map[string]any{"initial": lib.History{States: c.States[:1], Descs: []string{"initial"}, Requests: [][]string{c.Req}}.Summary()["initial_targets"], "state_edits": c.Descs[1:], "steps": sample, "request": c.Req, "compress": c.Compress})
	o.NonTrivial(cached)
	return nil
}

func TestC02(t *testing.T) {
	lib.Check(t, spec, lib.Scale(16, 400), gen, run)
}
