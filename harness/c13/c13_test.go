// C13: the HTTP cache and the command-driven cache store complete artifacts or nothing; a retrieve that
// fails part way is a miss.
package c13

import (
	"archive/tar"
	"fmt"
	"io"
	"net"
	"net/http"
	"net/http/httptest"
	"os"
	"path/filepath"
	"strings"
	"sync"
	"testing"

	"pgregory.net/rapid"

	"verifharness/c12/cx"
	"verifharness/lib"
)

func TestMain(m *testing.M) { lib.Main(m) }

var spec = lib.Spec{
	ID: "C13",
	Rule: "cache = the real HTTP cache client against a local server that persists a PUT only when its body was read to a clean EOF, or the real command cache with shell commands " +
		"(store: `cat > K.tmp && sleep 0.2 && mv K.tmp K` = an uploader that commits after EOF, or the same inside a child shell followed by a log command; retrieve: `cat K`). " +
		"Output sets: 1-3 outputs (files incl. multi-KiB and empty ones, G-tree directories, symlinks) + the build-metadata file. One fault per case: " +
		"store faults: a top-level output missing (in-process); open of the i-th regular file fails with EACCES, or its k-th read fails with EIO (helper process under `strace -f -P <file> -e inject=...`, every file position); " +
		"the server drops the connection after b bytes of the PUT / the store command fails after b bytes; retrieve faults: the server cuts the response after b bytes (with and without Content-Length) / the retrieve command exits 1 after b bytes. " +
		"Oracle: after a faulty store a Retrieve into an empty out dir is a miss or restores the complete set (TreeDiff); a faulty retrieve returns false (or true with the complete set: a cut inside the gzip trailer loses no file data) and a following healthy retrieve is complete; without fault a hit is complete. " +
		"Non-trivial = a fault that fired, on an output set with >= 2 regular files, not at the first file / byte 0. distinct = case JSON",
	Assumptions: []string{
		"the HTTP server is well behaved: it stores a PUT only if the request body ended cleanly",
		"the store command is atomic with respect to its own death (temp file + mv) and needs >= 0.2 s after EOF to commit, like a network uploader; plz's kill must land within that time",
		"a miss is always acceptable (this property does not demand that healthy stores hit)",
	},
}

// ---- local HTTP cache server -------------------------------------------------------------------

type server struct {
	mu           sync.Mutex
	data         map[string][]byte
	putAbort     int  // >= 0: read this many body bytes of a PUT, then drop the connection
	getCut       int  // >= 0: send only this many body bytes of a GET, then drop the connection
	getNoLength  bool // cut responses are sent without Content-Length (close-delimited)
	puts, stored int
	srv          *httptest.Server
}

var (
	srvOnce sync.Once
	theSrv  *server
)

func getServer() *server {
	srvOnce.Do(func() {
		theSrv = &server{data: map[string][]byte{}, putAbort: -1, getCut: -1}
		theSrv.srv = httptest.NewServer(theSrv)
	})
	return theSrv
}

func (s *server) reset() {
	s.mu.Lock()
	s.data, s.putAbort, s.getCut, s.getNoLength, s.puts, s.stored = map[string][]byte{}, -1, -1, false, 0, 0
	s.mu.Unlock()
}

func hijack(w http.ResponseWriter) net.Conn {
	hj, ok := w.(http.Hijacker)
	if !ok {
		return nil
	}
	c, _, err := hj.Hijack()
	if err != nil {
		return nil
	}
	return c
}

func (s *server) ServeHTTP(w http.ResponseWriter, r *http.Request) {
	s.mu.Lock()
	putAbort, getCut, noLen := s.putAbort, s.getCut, s.getNoLength
	s.mu.Unlock()
	switch r.Method {
	case http.MethodPut:
		s.mu.Lock()
		s.puts++
		s.mu.Unlock()
		if putAbort >= 0 {
			io.CopyN(io.Discard, r.Body, int64(putAbort))
			if c := hijack(w); c != nil {
				c.Close()
			}
			return
		}
		b, err := io.ReadAll(r.Body)
		if err != nil {
			w.WriteHeader(http.StatusBadRequest)
			return
		}
		s.mu.Lock()
		s.data[r.URL.Path] = b
		s.stored++
		s.mu.Unlock()
		w.WriteHeader(http.StatusNoContent)
	case http.MethodGet:
		s.mu.Lock()
		b, ok := s.data[r.URL.Path]
		s.mu.Unlock()
		if !ok {
			w.WriteHeader(http.StatusNotFound)
			return
		}
		if getCut >= 0 {
			if getCut > len(b) {
				getCut = len(b)
			}
			c := hijack(w)
			if c == nil {
				return
			}
			if noLen {
				fmt.Fprintf(c, "HTTP/1.1 200 OK\r\nConnection: close\r\n\r\n")
			} else {
				fmt.Fprintf(c, "HTTP/1.1 200 OK\r\nContent-Length: %d\r\nConnection: close\r\n\r\n", len(b))
			}
			c.Write(b[:getCut])
			c.Close()
			return
		}
		w.Write(b)
	default:
		w.WriteHeader(http.StatusMethodNotAllowed)
	}
}

// ---- cases -------------------------------------------------------------------------------------

type fault struct {
	Phase string // "none" | "store-missing" | "store-open" | "store-read" | "store-transport" | "retrieve-transport"
	File  int    `json:",omitempty"` // store-missing: index of the top-level output; store-open/read: index of the regular file in stream order
	K     int    `json:",omitempty"` // store-read: which read of the file fails; transport: per-mille of the stored body after which the fault happens
	NoLen bool   `json:",omitempty"` // retrieve-transport over HTTP: response without Content-Length
	// retrieve-transport over the command cache: cut exactly after the K-th tar entry (mod number of entries; 0 = before
	// the first), where a truncated plain tar stream still parses as a shorter archive
	Boundary bool `json:",omitempty"`
}

type c13Case struct {
	Kind     string // "http" | "cmd"
	CmdShape string `json:",omitempty"` // cmd: "direct" | "childshell"
	// LeadKiB > 0: the output set starts with a file "0lead" of that many KiB (synthesised, not stored in the
	// case). More than the pipe capacity, so that plz can only get past it once the store command is running
	// and reading: a fault at a later output then happens while the command is consuming the stream.
	LeadKiB int `json:",omitempty"`
	Outs    []*lib.Node
	Fault   fault
}

func (c c13Case) outs() []*lib.Node {
	if c.LeadKiB <= 0 {
		return c.Outs
	}
	return append([]*lib.Node{{Name: "0lead", Content: cx.BigContent(c.LeadKiB, 1)}}, c.Outs...)
}

const classChildShell = "cmd-store-fault-child-shell-survives"

func regularFiles(outs []*lib.Node) (paths []string, sizes []int) {
	for _, o := range outs {
		for _, e := range lib.Flatten(o, o.Name) {
			if e.Kind == 'f' {
				paths = append(paths, e.Path)
				sizes = append(sizes, len(e.Content))
			}
		}
	}
	return
}

func gen(t *rapid.T) c13Case {
	c := c13Case{Kind: rapid.SampledFrom([]string{"http", "http", "cmd"}).Draw(t, "kind")}
	c.Outs = cx.GenOuts(t, cx.GenOpts{MaxOuts: 3, Meta: true, BigFiles: true, Fanout: 3, MaxDepth: 2})
	if rapid.IntRange(0, 3).Draw(t, "bigger") == 0 {
		// a file that needs several reads (io.Copy uses 32 KiB buffers)
		c.Outs = append([]*lib.Node{{Name: "0big", Content: cx.BigContent(rapid.IntRange(33, 80).Draw(t, "kib"), 7)}}, c.Outs...)
	}
	if c.Kind == "cmd" {
		c.CmdShape = "direct"
		c.LeadKiB = 200
		if rapid.IntRange(0, 2).Draw(t, "shape") == 0 {
			if lib.Known("C13", classChildShell) {
				lib.Rec(spec).Excluded(classChildShell)
			} else {
				c.CmdShape = "childshell"
			}
		}
	}
	// in-process faults only (the strace-driven ones are enumerated separately: they cost 0.1-1 s each)
	phase := rapid.SampledFrom([]string{"none", "store-missing", "store-missing", "store-missing", "store-transport", "retrieve-transport", "retrieve-transport"}).Draw(t, "phase")
	c.Fault = fault{Phase: phase}
	switch phase {
	case "store-missing":
		c.Fault.File = rapid.IntRange(0, len(c.Outs)-1).Draw(t, "file")
		if c.LeadKiB > 0 {
			c.Fault.File++ // never the lead file itself
		}
	case "store-transport", "retrieve-transport":
		c.Fault.K = rapid.SampledFrom([]int{0, 1, 10, 100, 300, 500, 700, 900, 990, 999}).Draw(t, "permille")
		c.Fault.NoLen = rapid.Bool().Draw(t, "nolen")
		if c.Kind == "cmd" && phase == "retrieve-transport" && rapid.IntRange(0, 2).Draw(t, "boundary") > 0 {
			c.Fault.Boundary = true
			c.Fault.K = rapid.IntRange(0, 12).Draw(t, "entry")
		}
	}
	if c.Kind == "cmd" && c.CmdShape == "childshell" && phase != "store-missing" {
		c.CmdShape = "direct" // the child-shell shape only matters when plz has to kill the command
	}
	return c
}

// ---- running a case ----------------------------------------------------------------------------

func sq(s string) string { return "'" + strings.ReplaceAll(s, "'", `'\''`) + "'" }

func run(c c13Case, o *lib.Obs) error {
	if len(c.Outs) == 0 {
		return nil
	}
	outs := c.outs()
	dir, cleanup := lib.Scratch("c13-")
	defer cleanup()
	s := cx.Spec{Repo: filepath.Join(dir, "repo"), Pkg: "pkg", Name: "t", Key: "a1b2c3d4e5f60718293a4b5c6d7e8f9001122334", Outs: cx.OutNames(outs)}
	store := filepath.Join(dir, "store")
	if err := os.MkdirAll(store, 0o755); err != nil {
		return &lib.Inconclusive{Msg: err.Error()}
	}
	var srv *server
	entry := filepath.Join(store, s.Key)
	storeCmd := func(limit int) string {
		body := "cat > " + sq(entry+".tmp")
		if limit >= 0 { // the command fails after reading `limit` bytes
			return fmt.Sprintf("head -c %d > %s; exit 1", limit, sq(entry+".tmp"))
		}
		commit := body + " && sleep 0.2 && mv " + sq(entry+".tmp") + " " + sq(entry)
		if c.CmdShape == "childshell" {
			return "sh -c " + sq(body+" && mv "+sq(entry+".tmp")+" "+sq(entry)) + "; echo stored >&2"
		}
		return commit
	}
	retrieveCmd := func(limit int) string {
		if limit >= 0 {
			return fmt.Sprintf("head -c %d %s; exit 1", limit, sq(entry))
		}
		return "cat " + sq(entry)
	}
	switch c.Kind {
	case "http":
		srv = getServer()
		srv.reset()
		s.HTTPURL = srv.srv.URL
	case "cmd":
		s.StoreCmd, s.RetrieveCmd = storeCmd(-1), retrieveCmd(-1)
	default:
		return nil
	}
	if err := cx.WriteOuts(s, outs); err != nil {
		return &lib.Inconclusive{Msg: err.Error()}
	}
	want := cx.Expected(outs)
	files, sizes := regularFiles(outs)
	f := c.Fault
	fired := true
	position := 0 // 0 = fault at the very beginning
	desc := f.Phase

	// size of a healthy stored body (for transport offsets): measured by a healthy store first
	bodyLen := func() int {
		if c.Kind == "http" {
			srv.mu.Lock()
			defer srv.mu.Unlock()
			for _, b := range srv.data {
				return len(b)
			}
			return 0
		}
		fi, err := os.Stat(entry)
		if err != nil {
			return 0
		}
		return int(fi.Size())
	}
	clearEntry := func() {
		if c.Kind == "http" {
			srv.mu.Lock()
			srv.data = map[string][]byte{}
			srv.mu.Unlock()
		} else {
			os.Remove(entry)
			os.Remove(entry + ".tmp")
		}
	}

	switch f.Phase {
	case "none":
		if err := s.Store(); err != nil {
			return &lib.Inconclusive{Msg: err.Error()}
		}
	case "store-missing":
		i := f.File % len(outs)
		if err := os.RemoveAll(filepath.Join(s.OutDir(), outs[i].Name)); err != nil {
			return &lib.Inconclusive{Msg: err.Error()}
		}
		position = i
		desc = fmt.Sprintf("output #%d (%s) missing at store time", i, outs[i].Name)
		if err := s.Store(); err != nil {
			return &lib.Inconclusive{Msg: err.Error()}
		}
	case "store-open", "store-read":
		if len(files) == 0 {
			return nil
		}
		i := f.File % len(files)
		position = i
		path := filepath.Join(s.OutDir(), files[i])
		inj := &lib.Inject{Syscall: "openat", When: 1, Error: "EACCES"}
		desc = fmt.Sprintf("open of regular file #%d (%s, %d bytes) fails with EACCES", i, files[i], sizes[i])
		if f.Phase == "store-read" {
			k := f.K
			if k < 1 {
				k = 1
			}
			inj = &lib.Inject{Syscall: "read", When: k, Error: "EIO"}
			desc = fmt.Sprintf("read #%d of regular file #%d (%s, %d bytes) fails with EIO", k, i, files[i], sizes[i])
			if k > 1 {
				position++
			}
		}
		if err := lib.StraceAvailable(); err != nil {
			return &lib.Inconclusive{Msg: err.Error()}
		}
		helper, err := cx.Helper()
		if err != nil {
			return &lib.Inconclusive{Msg: err.Error()}
		}
		hs := s
		hs.Op = "store"
		specFile := filepath.Join(dir, "spec.json")
		if err := hs.WriteSpec(specFile); err != nil {
			return &lib.Inconclusive{Msg: err.Error()}
		}
		r, err := lib.Strace(lib.StraceOpts{Trace: []string{"openat", "read"}, Inject: inj, Path: path, Dir: dir, Env: cx.HelperEnv()}, helper, specFile)
		if err != nil {
			return &lib.Inconclusive{Msg: err.Error()}
		}
		if r.ExitCode != 0 {
			return lib.Failf("store-crashed", "%s: the storing process ended with exit %d / signal %q: %s", desc, r.ExitCode, r.Killed, r.Stderr)
		}
		fired = r.Fired
	case "store-transport":
		// learn the body length with a healthy store, then store again with the fault
		if err := s.Store(); err != nil {
			return &lib.Inconclusive{Msg: err.Error()}
		}
		n := bodyLen()
		clearEntry()
		cut := n * f.K / 1000
		position = cut
		desc = fmt.Sprintf("store transport fails after %d of %d bytes", cut, n)
		if c.Kind == "http" {
			srv.mu.Lock()
			srv.putAbort = cut
			srv.mu.Unlock()
		} else {
			s.StoreCmd = storeCmd(cut)
		}
		if err := s.Store(); err != nil {
			return &lib.Inconclusive{Msg: err.Error()}
		}
		if c.Kind == "http" {
			srv.mu.Lock()
			srv.putAbort = -1
			srv.mu.Unlock()
		} else {
			s.StoreCmd = storeCmd(-1)
		}
	case "retrieve-transport":
		if err := s.Store(); err != nil {
			return &lib.Inconclusive{Msg: err.Error()}
		}
		n := bodyLen()
		if n == 0 {
			o.Label("healthy_store_left_nothing")
			return nil
		}
		cut := n * f.K / 1000
		if f.Boundary && c.Kind == "cmd" {
			if bs := tarBoundaries(entry); len(bs) > 0 {
				cut = bs[f.K%len(bs)]
				o.Label("cut_at_tar_entry_boundary")
			}
		}
		position = cut
		desc = fmt.Sprintf("retrieve transport fails after %d of %d bytes", cut, n)
		if c.Kind == "http" {
			srv.mu.Lock()
			srv.getCut, srv.getNoLength = cut, f.NoLen
			srv.mu.Unlock()
		} else {
			s.RetrieveCmd = retrieveCmd(cut)
		}
		if err := s.WipeOuts(); err != nil {
			return &lib.Inconclusive{Msg: err.Error()}
		}
		hit, err := s.Retrieve()
		if err != nil {
			return &lib.Inconclusive{Msg: err.Error()}
		}
		if hit {
			// Only acceptable if nothing is missing: e.g. the cut fell into the gzip trailer, after the tar
			// reader had seen the end-of-archive marker, so every file arrived completely.
			got, err := cx.SnapshotOuts(s)
			if err != nil {
				return lib.Failf("unreadable-restore", "%s cache, %s: hit, but %v", c.Kind, desc, err)
			}
			if d := diff(want, got); d != "" {
				return lib.Failf("hit-on-failed-retrieve", "%s cache, %s: Retrieve returned true with an incomplete tree (first = expected):\n%s", c.Kind, desc, d)
			}
			o.Label("cut_retrieve_hit_but_complete")
		}
		if c.Kind == "http" {
			srv.mu.Lock()
			srv.getCut = -1
			srv.mu.Unlock()
		} else {
			s.RetrieveCmd = retrieveCmd(-1)
		}
	default:
		return nil
	}

	// the later retrieve, into an empty out dir, by a fresh cache object
	if err := s.WipeOuts(); err != nil {
		return &lib.Inconclusive{Msg: err.Error()}
	}
	hit, err := s.Retrieve()
	if err != nil {
		return &lib.Inconclusive{Msg: err.Error()}
	}
	if hit {
		got, err := cx.SnapshotOuts(s)
		if err != nil {
			return lib.Failf("unreadable-restore", "%s cache, %s: hit, but %v", c.Kind, desc, err)
		}
		if d := diff(want, got); d != "" {
			class := "hit-with-missing-files"
			switch {
			case f.Phase == "none" || f.Phase == "retrieve-transport":
				class = "healthy-hit-incomplete"
			case c.Kind == "cmd" && c.CmdShape == "childshell":
				class = classChildShell
			case c.Kind == "cmd":
				class = "cmd-hit-with-missing-files"
			}
			return lib.Failf(class, "%s cache%s, %s; a later Retrieve reported a HIT but restored an incomplete tree (first = expected):\n%s",
				c.Kind, map[bool]string{true: " (store command: " + s.StoreCmd + ")"}[c.Kind == "cmd"], desc, d)
		}
	}
	o.Label(c.Kind)
	o.Label("fault_" + f.Phase)
	o.LabelIf(hit, "later_hit")
	o.LabelIf(!hit && (f.Phase == "none" || f.Phase == "retrieve-transport"), "healthy_miss")
	o.LabelIf(!fired, "fault_not_fired")
	o.LabelIf(c.CmdShape == "childshell", "cmd_childshell")
	o.NonTrivial(fired && f.Phase != "none" && len(files) >= 2 && position > 0)
	o.Sample(map[string]any{"cache": c.Kind, "outs": s.Outs, "fault": desc, "later_retrieve_hit": hit})
	return nil
}

// tarBoundaries returns the offsets at which a plain tar file can be cut so that what remains is a
// sequence of complete entries (0 and the end of every entry's padded data).
func tarBoundaries(path string) []int {
	f, err := os.Open(path)
	if err != nil {
		return nil
	}
	defer f.Close()
	cr := &countReader{r: f}
	tr := tar.NewReader(cr)
	bs := []int{0}
	for {
		hdr, err := tr.Next()
		if err != nil {
			break
		}
		if _, err := io.Copy(io.Discard, tr); err != nil {
			break
		}
		// the reader has consumed header + data; padding to the next 512-byte block follows
		end := (cr.n + 511) / 512 * 512
		_ = hdr
		bs = append(bs, end)
	}
	return bs
}

type countReader struct {
	r io.Reader
	n int
}

func (c *countReader) Read(p []byte) (int, error) {
	n, err := c.r.Read(p)
	c.n += n
	return n, err
}

func diff(a, b []lib.Entry) string {
	d := lib.DiffEntries(a, b, lib.DiffOpts{})
	if d == "" {
		return ""
	}
	lines := strings.Split(d, "\n")
	for i, l := range lines {
		if len(l) > 160 {
			lines[i] = l[:160] + fmt.Sprintf("… (%d bytes)", len(l))
		}
	}
	return strings.Join(lines, "\n")
}

// ---- entry point -------------------------------------------------------------------------------

func file(name, content string) *lib.Node { return &lib.Node{Name: name, Content: content} }

// straceSets are the output sets on which read faults are enumerated at every file position.
func straceSets() [][]*lib.Node {
	meta := file(cx.MetaName, "m1")
	return [][]*lib.Node{
		{file("a", "1"), file("b", ""), file("c", "333"), meta},
		{{Name: "d", Dir: true, Children: []*lib.Node{file("x", "1"), {Name: "s", Dir: true, Children: []*lib.Node{file("y", "")}}, file("z", "3")}}, meta},
		{file("big", cx.BigContent(70, 3)), file("small", "s"), meta},
	}
}

func TestC13(t *testing.T) {
	if lib.ReplayMode(t, spec, run) {
		return
	}
	shard, shards := lib.Shard()
	lib.Check(t, spec, lib.Scale(160, 6000), gen, run)
	if t.Failed() {
		return
	}
	// read faults at every file position (strace): fixed sets x {http, cmd}; thorough adds random sets
	rec := lib.Rec(spec)
	n, ok := 0, true
	each := func(c c13Case) {
		n++
		if n%shards == shard && ok {
			ok = lib.Each(t, spec, c, run)
		}
	}
	for si, set := range straceSets() {
		files, sizes := regularFiles(set)
		for _, kind := range []string{"http", "cmd"} {
			if !lib.Thorough() && kind == "cmd" && si != 0 {
				continue
			}
			lead, shift := 0, 0
			if kind == "cmd" {
				lead, shift = 200, 1 // file #0 is the synthesised lead file
			}
			for i := range files {
				each(c13Case{Kind: kind, CmdShape: "direct", LeadKiB: lead, Outs: set, Fault: fault{Phase: "store-open", File: i + shift}})
				reads := 2 + sizes[i]/32768
				if !lib.Thorough() && reads > 3 {
					reads = 3
				}
				for k := 1; k <= reads; k++ {
					if !lib.Thorough() && kind == "cmd" && k > 1 {
						continue
					}
					each(c13Case{Kind: kind, CmdShape: "direct", LeadKiB: lead, Outs: set, Fault: fault{Phase: "store-read", File: i + shift, K: k}})
				}
			}
		}
	}
	rec.Subspace("fixed output sets x {http, cmd}: EACCES on open and EIO on every read of every regular file", int64(n), ok)
	if lib.Thorough() {
		for i := 0; i < lib.Scale(0, 400) && ok; i++ {
			c := rapid.Custom(gen).Example(int(lib.Seed()%1000003)*1000 + i)
			files, sizes := regularFiles(c.outs())
			if len(files) <= 1 {
				continue
			}
			fi := 1 + i%(len(files)-1)
			c.CmdShape = "direct"
			c.Fault = fault{Phase: []string{"store-open", "store-read"}[i%2], File: fi, K: 1 + (i/2)%(2+sizes[fi]/32768)}
			ok = lib.Each(t, spec, c, run)
		}
	}
}
