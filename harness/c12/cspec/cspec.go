// Package cspec is the part of the cache checks' shared code that the helper binary needs: the
// description of one cache operation and the construction of the real cache from it. It deliberately
// imports nothing but plz itself so that the helper starts quickly.
package cspec

import (
	"encoding/hex"
	"encoding/json"
	"os"
	"path/filepath"

	gologging "gopkg.in/op/go-logging.v1"

	"github.com/thought-machine/please/src/cache"
	"github.com/thought-machine/please/src/cli"
	"github.com/thought-machine/please/src/core"
)

// Spec describes a cache configuration plus one operation on one target. It is what the helper binary
// receives (as a JSON file) and what the in-process code uses, so both run exactly the same calls.
type Spec struct {
	Repo        string   // repository root: the process chdir()s here and core.RepoRoot is set to it
	CacheDir    string   `json:",omitempty"` // directory cache ("" = disabled)
	Compress    bool     `json:",omitempty"`
	HTTPURL     string   `json:",omitempty"`
	StoreCmd    string   `json:",omitempty"`
	RetrieveCmd string   `json:",omitempty"`
	Pkg         string   // package of the target
	Name        string   // name of the target
	Key         string   // hex of the cache key
	Outs        []string // output paths relative to the target's out dir
	Op          string   `json:",omitempty"` // helper only: "setup" | "store" | "retrieve"
	Repeat      int      `json:",omitempty"` // helper only: repeat the operation this many times (default 1)
	PauseUS     int      `json:",omitempty"` // helper only: sleep this many microseconds between repetitions
}

// Quiet silences plz's logging (it would otherwise write every debug line to stderr).
func Quiet() {
	if os.Getenv("VERIF_PLZ_LOG") == "" {
		gologging.SetLevel(gologging.CRITICAL, "plz")
	}
}

// KeyBytes decodes the key.
func (s Spec) KeyBytes() []byte {
	b, err := hex.DecodeString(s.Key)
	if err != nil {
		panic(err)
	}
	return b
}

// Target builds the target the operation is about.
func (s Spec) Target() *core.BuildTarget {
	t := core.NewBuildTarget(core.NewBuildLabel(s.Pkg, s.Name))
	for _, o := range s.Outs {
		t.AddOutput(o)
	}
	return t
}

// Config is the plz configuration the spec stands for (everything else is the default).
func (s Spec) Config() *core.Configuration {
	config := core.DefaultConfiguration()
	config.Cache.Dir = s.CacheDir
	config.Cache.DirClean = false // cleaning is called explicitly (C14)
	config.Cache.DirCompress = s.Compress
	config.Cache.Workers = 0 // synchronous: Store returns when the store has been attempted
	config.Cache.HTTPRetry = 0
	config.Cache.HTTPWriteable = true
	config.Cache.HTTPURL = cli.URL(s.HTTPURL)
	config.Cache.StoreCommand = s.StoreCmd
	config.Cache.RetrieveCommand = s.RetrieveCmd
	return config
}

// Enter makes the process look like plz running in s.Repo.
func (s Spec) Enter() error {
	Quiet()
	if err := os.MkdirAll(s.Repo, 0o755); err != nil {
		return err
	}
	if err := os.Chdir(s.Repo); err != nil {
		return err
	}
	core.RepoRoot = s.Repo
	return nil
}

// NewCache enters the repo and constructs the cache through the real factory.
func (s Spec) NewCache() (core.Cache, error) {
	if err := s.Enter(); err != nil {
		return nil, err
	}
	return cache.NewCache(&core.BuildState{Config: s.Config()}), nil
}

// Store performs the store in this process with a fresh cache object.
func (s Spec) Store() error {
	c, err := s.NewCache()
	if err != nil {
		return err
	}
	c.Store(s.Target(), s.KeyBytes(), s.Outs)
	return nil
}

// Retrieve performs the retrieve in this process with a fresh cache object (nothing of an earlier
// store's in-memory state is reused, like a later plz run).
func (s Spec) Retrieve() (bool, error) {
	c, err := s.NewCache()
	if err != nil {
		return false, err
	}
	return c.Retrieve(s.Target(), s.KeyBytes(), s.Outs), nil
}

// WriteSpec writes the spec where the helper can read it.
func (s Spec) WriteSpec(path string) error {
	b, err := json.Marshal(s)
	if err != nil {
		return err
	}
	return os.WriteFile(path, b, 0o644)
}

// Marker is the path of the no-op syscall (a failing mkdirat) the helper issues immediately before the
// operation, so that a trace can be split into set-up and operation without any assumption about set-up.
const Marker = "/dev/null/VERIF-OPERATION-BEGINS"

// OutDir is the absolute out dir of the target.
func (s Spec) OutDir() string { return filepath.Join(s.Repo, "plz-out", "gen", s.Pkg) }

// WipeOuts removes the package's out dir (what plz does before building; it also breaks the hard links
// between plz-out and the cache so that writing new outputs cannot change stored ones).
func (s Spec) WipeOuts() error {
	if err := os.RemoveAll(s.OutDir()); err != nil {
		return err
	}
	return os.MkdirAll(s.OutDir(), 0o755)
}
