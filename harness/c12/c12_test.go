// C12: directory cache — faithful round trip, miss for unknown keys, and atomic stores (crash enumeration).
package c12

import (
	"fmt"
	"os"
	"os/exec"
	"path/filepath"
	"strings"
	"testing"

	"pgregory.net/rapid"

	"verifharness/c12/cx"
	"verifharness/lib"
)

func TestMain(m *testing.M) { lib.Main(m) }

var spec = lib.Spec{
	ID: "C12",
	Rule: "three sub-checks. (rt) in-process histories of 2-10 store/retrieve operations over 3 keys (20 and 32 bytes) of one target, compressed and uncompressed " +
		"caches, output sets = 1-4 outputs (files, G-tree directories with empty dirs / exec bits / relative symlinks, top-level symlinks, outputs in sub-directories) plus plz's build-metadata file; " +
		"re-stores of a key with different contents; retrieves into a clean or a dirty out dir; oracle = model map key->last stored set, TreeDiff on (name, kind, bytes, link target, exec bit). " +
		"(crash) a helper process performs Store under strace; every successful mutating syscall of the Store (after a marker syscall) is a crash point: the run is repeated with " +
		"inject=<name>:signal=KILL:when=k for each, then a fresh cache object retrieves: must be a miss or exactly the previously stored or the new set; then a complete re-store + retrieve must give the new set. " +
		"Crash cases = a fixed list of small shapes (x no/other existing entry x compressed/uncompressed), enumerated every run, + random sets. " +
		"(conc) one process re-storing a key (same contents) in a loop while another process (own repository, shared cache dir) retrieves it in a loop, kernel-chosen schedule: every retrieve is a miss or the complete set. " +
		"Non-trivial = (rt) a hit after a re-store with different content or a retrieve into a dirty out dir; (crash) >= 1 crash point strictly inside a store of >= 2 files or over an existing entry; (conc) >= 1 hit and the storer overlapped. distinct = case JSON",
	Assumptions: []string{
		"same key => same declared output names (the key is a hash of the rule); contents may differ between stores",
		"crash = SIGKILL of the whole process before a syscall executes (no torn single syscalls, no power loss / fsync semantics)",
		"the helper issues all file syscalls of Store from one locked thread (GOMAXPROCS=1), so strace's per-thread per-name counters identify crash points",
	},
}

// ---- cases -------------------------------------------------------------------------------------

type rtOp struct {
	Op      string // "store" | "retrieve"
	Key     int    // index into keys
	Version int    // store: which version of the output set
	Dirty   bool   // retrieve: out dir holds another version's outputs
}

type rtCase struct {
	Compress bool
	Versions [][]*lib.Node // same out names, independently drawn contents
	Ops      []rtOp
}

type point struct {
	Syscall string
	K       int // k-th call of that name after the marker
}

type crashCase struct {
	Compress bool
	KeyLen   int
	Prev     []*lib.Node `json:",omitempty"` // set already stored under the key (nil = none)
	New      []*lib.Node
	Only     *point `json:",omitempty"` // restrict to one crash point (replays)
}

type concCase struct {
	Compress bool
	Outs     []*lib.Node
	Rounds   int // the storing process performs 20*Rounds stores
}

// rfaultCase: one path-based read of the cache entry fails with ENOENT during Retrieve (what the process
// sees when the entry is evicted or replaced by another process at that moment).
type rfaultCase struct {
	Compress bool
	Outs     []*lib.Node
}

type anyCase struct {
	RT     *rtCase     `json:",omitempty"`
	Crash  *crashCase  `json:",omitempty"`
	Conc   *concCase   `json:",omitempty"`
	RFault *rfaultCase `json:",omitempty"`
}

func runAny(c anyCase, o *lib.Obs) error {
	if only := os.Getenv("VERIF_ONLY"); only != "" && os.Getenv("VERIF_REPLAY") == "" { // development aid: run one sub-check
		if (c.RT != nil && only != "rt") || (c.Crash != nil && only != "crash") || (c.Conc != nil && only != "conc") || (c.RFault != nil && only != "rfault") {
			return nil
		}
	}
	switch {
	case c.RT != nil:
		o.Label("rt")
		return runRT(*c.RT, o)
	case c.Crash != nil:
		o.Label("crash")
		return runCrash(*c.Crash, o)
	case c.Conc != nil:
		o.Label("conc")
		return runConc(*c.Conc, o)
	case c.RFault != nil:
		o.Label("rfault")
		return runRFault(*c.RFault, o)
	}
	return nil
}

var keys = []string{
	"000102030405060708090a0b0c0d0e0f10111213",                         // 20 bytes
	"ff0102030405060708090a0b0c0d0e0f101112fb",                         // 20 bytes, base64 with - and _
	"202122232425262728292a2b2c2d2e2f303132333435363738393a3b3c3d3e3f", // 32 bytes
}

func keyOfLen(n int) string {
	if n == 32 {
		return keys[2]
	}
	return keys[0]
}

// reversion re-draws every output of a set keeping its name (contents, kinds and inner structure change).
func reversion(t *rapid.T, outs []*lib.Node) []*lib.Node {
	var v []*lib.Node
	for _, o := range outs {
		if o.Name == cx.MetaName {
			v = append(v, &lib.Node{Name: o.Name, Content: rapid.SampledFrom([]string{"m1", "m2", "m3"}).Draw(t, "meta2")})
			continue
		}
		alt := cx.GenOuts(t, cx.GenOpts{MaxOuts: 1})[0]
		if rapid.IntRange(0, 2).Draw(t, "samekind") > 0 && alt.Kind() != o.Kind() {
			// mostly keep the kind (a directory output stays a directory) but change what is inside
			alt = o.Clone()
			mutate(t, alt)
		}
		alt.Name = o.Name
		v = append(v, alt)
	}
	return v
}

// mutate changes contents / adds / removes children of a tree in place.
func mutate(t *rapid.T, n *lib.Node) {
	switch {
	case n.Dir:
		if len(n.Children) > 0 && rapid.IntRange(0, 2).Draw(t, "drop") == 0 {
			i := rapid.IntRange(0, len(n.Children)-1).Draw(t, "dropidx")
			n.Children = append(n.Children[:i:i], n.Children[i+1:]...)
		}
		for _, c := range n.Children {
			mutate(t, c)
		}
		if rapid.IntRange(0, 2).Draw(t, "add") == 0 {
			nm := rapid.SampledFrom([]string{"new", "zz", "n.1"}).Draw(t, "addname")
			n.Children = append(n.Children, &lib.Node{Name: nm, Content: "added"})
		}
	case n.Link:
		n.Target = rapid.SampledFrom([]string{"a", "b", "elsewhere"}).Draw(t, "target2")
	default:
		n.Content = rapid.SampledFrom(lib.CollidingContents).Draw(t, "content2")
	}
}

func genAny(t *rapid.T) anyCase {
	compress := rapid.Bool().Draw(t, "compress")
	base := cx.GenOuts(t, cx.GenOpts{MaxOuts: 3, BigFiles: true})
	versions := [][]*lib.Node{base}
	nv := rapid.IntRange(1, 3).Draw(t, "versions")
	for i := 1; i < nv; i++ {
		versions = append(versions, reversion(t, base))
	}
	nops := rapid.IntRange(2, 10).Draw(t, "nops")
	var ops []rtOp
	for i := 0; i < nops; i++ {
		op := rtOp{Key: rapid.IntRange(0, len(keys)-1).Draw(t, "key")}
		if rapid.IntRange(0, 1).Draw(t, "isstore") == 0 {
			op.Op = "store"
			op.Version = rapid.IntRange(0, nv-1).Draw(t, "version")
		} else {
			op.Op = "retrieve"
			op.Dirty = rapid.Bool().Draw(t, "dirty")
		}
		ops = append(ops, op)
	}
	return anyCase{RT: &rtCase{Compress: compress, Versions: versions, Ops: ops}}
}

// ---- round trip --------------------------------------------------------------------------------

func runRT(c rtCase, o *lib.Obs) error {
	dir, cleanup := lib.Scratch("c12rt-")
	defer cleanup()
	s := cx.Spec{Repo: filepath.Join(dir, "repo"), CacheDir: filepath.Join(dir, "cache"), Compress: c.Compress, Pkg: "pkg/sub", Name: "t"}
	if len(c.Versions) == 0 {
		return nil
	}
	s.Outs = cx.OutNames(c.Versions[0])
	model := map[int]int{}
	restores := map[int]int{} // key -> number of stores so far
	nontrivial, neverStored := false, false
	for i, op := range c.Ops {
		if op.Key < 0 || op.Key >= len(keys) || op.Version < 0 || op.Version >= len(c.Versions) {
			continue
		}
		s.Key = keys[op.Key]
		switch op.Op {
		case "store":
			if err := cx.WriteOuts(s, c.Versions[op.Version]); err != nil {
				return &lib.Inconclusive{Msg: err.Error()}
			}
			if err := s.Store(); err != nil {
				return &lib.Inconclusive{Msg: err.Error()}
			}
			if prev, ok := model[op.Key]; ok && prev != op.Version {
				restores[op.Key]++
			}
			model[op.Key] = op.Version
		case "retrieve":
			want, stored := model[op.Key]
			if op.Dirty && len(c.Versions) > 1 {
				other := (want + 1) % len(c.Versions)
				if err := cx.WriteOuts(s, c.Versions[other]); err != nil {
					return &lib.Inconclusive{Msg: err.Error()}
				}
			} else if err := s.WipeOuts(); err != nil {
				return &lib.Inconclusive{Msg: err.Error()}
			}
			hit, err := s.Retrieve()
			if err != nil {
				return &lib.Inconclusive{Msg: err.Error()}
			}
			if !stored {
				neverStored = true
				if hit {
					return lib.Failf("hit-never-stored", "op %d: Retrieve of key %d, which was never stored, reported a hit", i, op.Key)
				}
				continue
			}
			if !hit {
				return lib.Failf("miss-after-store", "op %d: Retrieve of key %d missed although version %d was stored", i, op.Key, want)
			}
			got, err := cx.SnapshotOuts(s)
			if err != nil {
				return lib.Failf("unreadable-restore", "op %d: %v", i, err)
			}
			if d := diffEntries(cx.Expected(c.Versions[want]), got, lib.DiffOpts{}); d != "" {
				return lib.Failf("round-trip-differs", "op %d: key %d restored tree differs from version %d stored last (first = expected):\n%s", i, op.Key, want, d)
			}
			if restores[op.Key] > 0 {
				o.Label("rt_hit_after_restore")
				nontrivial = true
			}
			if op.Dirty && len(c.Versions) > 1 {
				o.Label("rt_dirty_outdir")
				nontrivial = true
			}
		}
	}
	f, d, l, e := 0, 0, 0, 0
	for _, v := range c.Versions {
		a, b, c2, d2 := cx.Stats(v)
		f, d, l, e = f+a, d+b, l+c2, e+d2
	}
	o.LabelIf(c.Compress, "compressed")
	o.LabelIf(neverStored, "rt_never_stored")
	o.LabelIf(l > 0, "rt_symlinks")
	o.LabelIf(e > 0, "rt_empty_dirs")
	o.LabelIf(d > 0, "rt_dirs")
	o.NonTrivial(nontrivial)
	return nil
}

// ---- crash enumeration -------------------------------------------------------------------------

// opCalls returns the calls of the initial thread after the marker.
func opCalls(r *lib.StraceResult) ([]lib.Syscall, map[string]int, bool) {
	setup := map[string]int{}
	var after []lib.Syscall
	seen := false
	for _, c := range r.Calls {
		if c.TID != r.MainTID {
			continue
		}
		if !seen {
			setup[c.Name]++
			if strings.Contains(c.Line, cx.Marker) {
				seen = true
			}
			continue
		}
		after = append(after, c)
	}
	return after, setup, seen
}

// mutating reports whether a (successful) call changes the file system.
func mutating(c lib.Syscall) bool {
	if !c.OK() {
		return false
	}
	switch c.Name {
	case "open", "openat":
		return strings.Contains(c.Line, "O_CREAT") || strings.Contains(c.Line, "O_TRUNC")
	case "write", "writev", "pwrite64":
		return !strings.HasPrefix(c.Line, c.Name+"(1,") && !strings.HasPrefix(c.Line, c.Name+"(2,")
	}
	return true
}

func runCrash(c crashCase, o *lib.Obs) error {
	if err := lib.StraceAvailable(); err != nil {
		return &lib.Inconclusive{Msg: err.Error()}
	}
	helper, err := cx.Helper()
	if err != nil {
		return &lib.Inconclusive{Msg: err.Error()}
	}
	dir, cleanup := lib.Scratch("c12cr-")
	defer cleanup()
	s := cx.Spec{Repo: filepath.Join(dir, "repo"), CacheDir: filepath.Join(dir, "cache"), Compress: c.Compress,
		Pkg: "pkg", Name: "t", Key: keyOfLen(c.KeyLen), Outs: cx.OutNames(c.New)}
	specFile := filepath.Join(dir, "spec.json")
	hs := s
	hs.Op = "store"
	if err := hs.WriteSpec(specFile); err != nil {
		return &lib.Inconclusive{Msg: err.Error()}
	}
	wantNew := cx.Expected(c.New)
	var wantPrev []lib.Entry
	if c.Prev != nil {
		wantPrev = cx.Expected(c.Prev)
	}
	// prepare puts the world into the state just before the store under test.
	prepare := func() error {
		if err := os.RemoveAll(s.CacheDir); err != nil {
			return err
		}
		if c.Prev != nil {
			if err := cx.WriteOuts(s, c.Prev); err != nil {
				return err
			}
			if err := s.Store(); err != nil {
				return err
			}
		}
		return cx.WriteOuts(s, c.New)
	}
	// retrieveFresh retrieves into an empty out dir with a fresh cache object; "" = miss.
	retrieveFresh := func() (hit bool, got []lib.Entry, err error) {
		if err := s.WipeOuts(); err != nil {
			return false, nil, err
		}
		hit, err = s.Retrieve()
		if err != nil || !hit {
			return false, nil, err
		}
		got, err = cx.SnapshotOuts(s)
		return true, got, err
	}
	run := func(inj *lib.Inject) (*lib.StraceResult, error) {
		return lib.Strace(lib.StraceOpts{Inject: inj, NoFollow: true, Dir: dir, Env: cx.HelperEnv()}, helper, specFile)
	}

	if err := prepare(); err != nil {
		return &lib.Inconclusive{Msg: "prepare: " + err.Error()}
	}
	base, err := run(nil)
	if err != nil {
		return &lib.Inconclusive{Msg: err.Error()}
	}
	calls, setup, seen := opCalls(base)
	if !seen || base.ExitCode != 0 {
		return &lib.Inconclusive{Msg: fmt.Sprintf("baseline helper run unusable (exit %d, killed %q, marker seen %v): %s", base.ExitCode, base.Killed, seen, base.Stderr)}
	}
	// the uninterrupted store must round-trip (through a different process than the retrieve)
	hit, got, err := retrieveFresh()
	if err != nil {
		return lib.Failf("unreadable-restore", "after an uninterrupted store: %v", err)
	}
	if !hit {
		return lib.Failf("miss-after-store", "uninterrupted Store by the helper process, then Retrieve missed")
	}
	if d := diffEntries(wantNew, got, lib.DiffOpts{}); d != "" {
		return lib.Failf("round-trip-differs", "uninterrupted Store by the helper, restored tree differs (first = expected):\n%s", d)
	}
	// crash points
	var pts []point
	rel := map[string]int{}
	for _, cl := range calls {
		rel[cl.Name]++
		if mutating(cl) {
			pts = append(pts, point{cl.Name, rel[cl.Name]})
		}
	}
	if c.Only != nil {
		pts = []point{*c.Only}
	}
	rec := lib.Rec(spec)
	nfiles, _, _, _ := cx.Stats(c.New)
	outcomes := map[string]int{}
	notFired := 0
	for _, p := range pts {
		if err := prepare(); err != nil {
			return &lib.Inconclusive{Msg: "prepare: " + err.Error()}
		}
		r, err := run(&lib.Inject{Syscall: p.Syscall, When: setup[p.Syscall] + p.K, Signal: "KILL"})
		if err != nil {
			return &lib.Inconclusive{Msg: err.Error()}
		}
		if r.Killed != "SIGKILL" {
			notFired++
			continue
		}
		where := fmt.Sprintf("killed before %s #%d of the store: %s", p.Syscall, p.K, r.LastCall)
		hit, got, err := retrieveFresh()
		if err != nil {
			return lib.Failf("unreadable-restore", "%s: hit but restored tree unreadable: %v", where, err)
		}
		switch {
		case !hit:
			outcomes["miss"]++
		case diffEntries(wantNew, got, lib.DiffOpts{}) == "":
			outcomes["new"]++
		case wantPrev != nil && diffEntries(wantPrev, got, lib.DiffOpts{}) == "":
			outcomes["old"]++
		default:
			class := "partial-hit"
			if c.Prev != nil && strings.HasPrefix(r.LastCall, "unlink") {
				class = "partial-hit-crash-in-remove-existing"
			}
			msg := fmt.Sprintf("%s; a later Retrieve reported a HIT but restored neither the new set", where)
			if wantPrev != nil {
				msg += " nor the previously stored one.\n-- against previous (first = expected):\n" + diffEntries(wantPrev, got, lib.DiffOpts{})
			}
			msg += "\n-- against new (first = expected):\n" + diffEntries(wantNew, got, lib.DiffOpts{})
			return lib.Failf(class, "%s", msg)
		}
		// a later complete store must repair whatever the crash left behind
		if err := cx.WriteOuts(s, c.New); err != nil {
			return &lib.Inconclusive{Msg: err.Error()}
		}
		if err := s.Store(); err != nil {
			return &lib.Inconclusive{Msg: err.Error()}
		}
		hit, got, err = retrieveFresh()
		if err != nil || !hit {
			return lib.Failf("store-after-crash-misses", "%s; then a complete Store of the same key; Retrieve: hit=%v err=%v", where, hit, err)
		}
		if d := diffEntries(wantNew, got, lib.DiffOpts{}); d != "" {
			return lib.Failf("store-after-crash-differs", "%s; then a complete Store of the same key; restored tree differs (first = expected):\n%s", where, d)
		}
	}
	if os.Getenv("VERIF_DEBUG") != "" {
		fmt.Fprintf(os.Stderr, "crash case compress=%v prev=%v outs=%v: %d points, %d not fired, outcomes %v\n", c.Compress, c.Prev != nil, s.Outs, len(pts), notFired, outcomes)
	}
	rec.AddExtra("crash_points_evaluated", int64(len(pts)-notFired))
	rec.AddExtra("crash_points_not_fired", int64(notFired))
	for k, v := range outcomes {
		rec.AddExtra("crash_outcome_"+k, int64(v))
	}
	if notFired*5 > len(pts) {
		return &lib.Inconclusive{Msg: fmt.Sprintf("%d of %d injections did not fire", notFired, len(pts))}
	}
	o.LabelIf(c.Prev != nil, "crash_over_existing")
	o.LabelIf(c.Compress, "compressed")
	o.LabelIf(outcomes["old"] > 0, "crash_old_survives")
	o.LabelIf(outcomes["miss"] > 0, "crash_miss")
	o.NonTrivial(len(pts)-notFired >= 1 && (nfiles >= 2 || c.Prev != nil))
	o.Sample(map[string]any{"compress": c.Compress, "existing_entry": c.Prev != nil, "outs": cx.OutNames(c.New),
		"crash_points": len(pts), "outcomes": outcomes})
	return nil
}

// diffEntries is lib.DiffEntries with long lines (file contents of several KiB) cut.
func diffEntries(a, b []lib.Entry, o lib.DiffOpts) string {
	d := lib.DiffEntries(a, b, o)
	if d == "" {
		return ""
	}
	lines := strings.Split(d, "\n")
	for i, l := range lines {
		if len(l) > 160 {
			lines[i] = l[:160] + fmt.Sprintf("… (%d bytes)", len(l))
		}
	}
	return strings.Join(lines, "\n")
}

func file(name, content string) *lib.Node { return &lib.Node{Name: name, Content: content} }
func dirn(name string, ch ...*lib.Node) *lib.Node {
	return &lib.Node{Name: name, Dir: true, Children: ch}
}

// crashShapes is the fixed list of small output sets whose crash points are enumerated in every run.
// Each is paired with an "other version" (same names, other contents) used as the existing entry.
func crashShapes() [][2][]*lib.Node {
	meta := func(v string) *lib.Node { return file(cx.MetaName, v) }
	return [][2][]*lib.Node{
		{{file("out.txt", "new"), meta("m1")}, {file("out.txt", "old"), meta("m0")}},
		{{dirn("d", file("a", "1"), file("b", "2"), file("c", "3")), meta("m1")}, {dirn("d", file("a", "x"), file("b", "y"), file("e", "z")), meta("m0")}},
		{{dirn("d", dirn("s", file("a", "1"), file("b", "2")), dirn("empty"), file("f", "3"))}, {dirn("d", dirn("s", file("a", "o"), file("q", "o")), file("g", "o"))}},
		{{file("a", "1"), file("sub/f", "2"), file("sub/g", "3"), meta("m1")}, {file("a", "o1"), file("sub/f", "o2"), file("sub/g", "o3"), meta("m0")}},
		{{&lib.Node{Name: "l", Link: true, Target: "d/a"}, dirn("d", file("a", "1"), &lib.Node{Name: "k", Link: true, Target: "a"}), meta("m1")},
			{&lib.Node{Name: "l", Link: true, Target: "d/b"}, dirn("d", file("b", "1")), meta("m0")}},
		{{file("big", cx.BigContent(9, 1)), file("small", "s"), meta("m1")}, {file("big", cx.BigContent(5, 2)), file("small", "t"), meta("m0")}},
	}
}

// ---- read faults during retrieve ---------------------------------------------------------------

var readSide = []string{"openat", "open", "linkat", "link", "newfstatat", "fstatat64", "statx", "stat", "lstat", "readlinkat", "readlink", "faccessat", "faccessat2", "access"}

func runRFault(c rfaultCase, o *lib.Obs) error {
	if err := lib.StraceAvailable(); err != nil {
		return &lib.Inconclusive{Msg: err.Error()}
	}
	helper, err := cx.Helper()
	if err != nil {
		return &lib.Inconclusive{Msg: err.Error()}
	}
	dir, cleanup := lib.Scratch("c12rf-")
	defer cleanup()
	s := cx.Spec{Repo: filepath.Join(dir, "repo"), CacheDir: filepath.Join(dir, "cache"), Compress: c.Compress,
		Pkg: "pkg", Name: "t", Key: keys[1], Outs: cx.OutNames(c.Outs)}
	if err := cx.WriteOuts(s, c.Outs); err != nil {
		return &lib.Inconclusive{Msg: err.Error()}
	}
	if err := s.Store(); err != nil {
		return &lib.Inconclusive{Msg: err.Error()}
	}
	hs := s
	hs.Op = "retrieve"
	specFile := filepath.Join(dir, "spec.json")
	if err := hs.WriteSpec(specFile); err != nil {
		return &lib.Inconclusive{Msg: err.Error()}
	}
	want := cx.Expected(c.Outs)
	trace := append(append([]string{}, lib.MutatingSyscalls...), readSide...)
	run := func(inj *lib.Inject) (*lib.StraceResult, error) {
		if err := s.WipeOuts(); err != nil {
			return nil, err
		}
		return lib.Strace(lib.StraceOpts{Trace: trace, Inject: inj, NoFollow: true, Dir: dir, Env: cx.HelperEnv()}, helper, specFile)
	}
	verdict := func(r *lib.StraceResult, where string) error {
		if r.ExitCode != 0 {
			return lib.Failf("retrieve-crashed", "%s: the retrieving process ended with exit %d / signal %q: %s", where, r.ExitCode, r.Killed, r.Stderr)
		}
		if !strings.Contains(string(r.Stdout), "retrieved=true") {
			return nil
		}
		got, err := cx.SnapshotOuts(s)
		if err != nil {
			return lib.Failf("unreadable-restore", "%s: hit, but %v", where, err)
		}
		if d := diffEntries(want, got, lib.DiffOpts{}); d != "" {
			return lib.Failf("hit-after-failed-read", "%s: Retrieve reported a HIT but the restored tree is incomplete (first = expected):\n%s", where, d)
		}
		return nil
	}
	base, err := run(nil)
	if err != nil {
		return &lib.Inconclusive{Msg: err.Error()}
	}
	calls, setup, seen := opCalls(base)
	if !seen || base.ExitCode != 0 || !strings.Contains(string(base.Stdout), "retrieved=true") {
		return &lib.Inconclusive{Msg: fmt.Sprintf("baseline retrieve unusable (exit %d, marker %v): %s %s", base.ExitCode, seen, base.Stdout, base.Stderr)}
	}
	if err := verdict(base, "no fault"); err != nil {
		return err
	}
	isRead := map[string]bool{}
	for _, n := range readSide {
		isRead[n] = true
	}
	rel := map[string]int{}
	n, hits := 0, 0
	for _, cl := range calls {
		rel[cl.Name]++
		if !isRead[cl.Name] || !cl.OK() || !strings.Contains(cl.Line, s.CacheDir) {
			continue
		}
		k := rel[cl.Name]
		r, err := run(&lib.Inject{Syscall: cl.Name, When: setup[cl.Name] + k, Error: "ENOENT"})
		if err != nil {
			return &lib.Inconclusive{Msg: err.Error()}
		}
		if !r.Fired {
			continue
		}
		n++
		if strings.Contains(string(r.Stdout), "retrieved=true") {
			hits++
		}
		if err := verdict(r, fmt.Sprintf("ENOENT injected into %s #%d of the retrieve (%s)", cl.Name, k, cl.Line)); err != nil {
			return err
		}
	}
	lib.Rec(spec).AddExtra("retrieve_faults_evaluated", int64(n))
	o.LabelIf(c.Compress, "compressed")
	o.LabelIf(hits > 0, "rfault_hit_despite_fault")
	o.NonTrivial(n >= 2)
	o.Sample(map[string]any{"compress": c.Compress, "outs": s.Outs, "faults": n, "hits_despite_fault": hits})
	return nil
}

// ---- concurrency -------------------------------------------------------------------------------

// runConc: a helper process stores the same output set under one key over and over (every store after the
// first replaces an existing entry) while this process, as a plz working in another repository that shares
// the cache directory, retrieves that key in a loop. The schedule is whatever the kernel does (exploration).
func runConc(c concCase, o *lib.Obs) error {
	helper, err := cx.Helper()
	if err != nil {
		return &lib.Inconclusive{Msg: err.Error()}
	}
	dir, cleanup := lib.Scratch("c12cc-")
	defer cleanup()
	st := cx.Spec{Repo: filepath.Join(dir, "storer"), CacheDir: filepath.Join(dir, "cache"), Compress: c.Compress,
		Pkg: "pkg", Name: "t", Key: keys[1], Outs: cx.OutNames(c.Outs), Op: "store", Repeat: c.Rounds * 20, PauseUS: 300}
	rt := st
	rt.Repo, rt.Op, rt.Repeat = filepath.Join(dir, "retriever"), "", 0
	if err := cx.WriteOuts(st, c.Outs); err != nil {
		return &lib.Inconclusive{Msg: err.Error()}
	}
	specFile := filepath.Join(dir, "spec.json")
	if err := st.WriteSpec(specFile); err != nil {
		return &lib.Inconclusive{Msg: err.Error()}
	}
	want := cx.Expected(c.Outs)
	var procs []*exec.Cmd
	n := 1 // concurrent stores of one key by several processes are a separate matter, see the check's level_note
	for i := 0; i < n; i++ {
		cmd := exec.Command(helper, specFile)
		cmd.Env = cx.HelperEnv()
		if err := cmd.Start(); err != nil {
			return &lib.Inconclusive{Msg: err.Error()}
		}
		procs = append(procs, cmd)
	}
	done := make(chan error, len(procs))
	for _, p := range procs {
		go func(p *exec.Cmd) { done <- p.Wait() }(p)
	}
	hits, misses, overlapped, running := 0, 0, 0, len(procs)
	var fail error
	for iter := 0; iter < 200000 && fail == nil; iter++ {
		select {
		case <-done:
			running--
		default:
		}
		if running == 0 && iter > 0 {
			break
		}
		if err := rt.WipeOuts(); err != nil {
			fail = &lib.Inconclusive{Msg: err.Error()}
			break
		}
		hit, err := rt.Retrieve()
		if err != nil {
			fail = &lib.Inconclusive{Msg: err.Error()}
			break
		}
		if !hit {
			misses++
			continue
		}
		hits++
		if hits > 1 {
			overlapped++
		}
		got, err := cx.SnapshotOuts(rt)
		if err != nil {
			fail = lib.Failf("unreadable-restore", "concurrent retrieve %d reported a hit but the restored tree is unreadable: %v", iter, err)
			break
		}
		if d := diffEntries(want, got, lib.DiffOpts{}); d != "" {
			fail = lib.Failf("partial-hit-concurrent-restore", "retrieve #%d, running while another process re-stores the same key with the same contents, reported a HIT with an incomplete tree (first = expected):\n%s", iter, d)
		}
	}
	for _, p := range procs {
		p.Process.Kill()
	}
	for ; running > 0; running-- {
		<-done
	}
	if fail != nil {
		return fail
	}
	rec := lib.Rec(spec)
	rec.AddExtra("conc_retrieves", int64(hits+misses))
	rec.AddExtra("conc_hits", int64(hits))
	// after everything has settled the entry must be there and complete
	if err := rt.WipeOuts(); err != nil {
		return &lib.Inconclusive{Msg: err.Error()}
	}
	if hit, _ := rt.Retrieve(); !hit {
		return lib.Failf("miss-after-store", "after the storing process finished %d stores, Retrieve misses", st.Repeat)
	}
	got, err := cx.SnapshotOuts(rt)
	if err != nil {
		return lib.Failf("unreadable-restore", "%v", err)
	}
	if d := diffEntries(want, got, lib.DiffOpts{}); d != "" {
		return lib.Failf("round-trip-differs", "after concurrent stores/retrieves the restored tree differs (first = expected):\n%s", d)
	}
	o.LabelIf(c.Compress, "compressed")
	o.LabelIf(misses > 0 && hits > 0, "conc_hits_and_misses")
	o.NonTrivial(hits >= 2 && overlapped > 0)
	o.Sample(map[string]any{"compress": c.Compress, "outs": st.Outs, "stores": st.Repeat, "retrieves": hits + misses, "hits": hits})
	return nil
}

// ---- entry point -------------------------------------------------------------------------------

func TestC12(t *testing.T) {
	if lib.ReplayMode(t, spec, runAny) {
		return
	}
	rec := lib.Rec(spec)
	shard, shards := lib.Shard()
	// round-trip histories (rapid; also replays the listed findings first)
	lib.Check(t, spec, lib.Scale(800, 60000), genAny, runAny)
	if t.Failed() {
		return
	}
	// enumerated crash shapes
	n, ok := 0, true
	shapes := crashShapes()
	for i, sh := range shapes {
		for _, withPrev := range []bool{false, true} {
			for _, compress := range []bool{false, true} {
				if !lib.Thorough() && !quickShape(i, withPrev, compress) {
					continue
				}
				n++
				if n%shards != shard || !ok {
					continue
				}
				cc := crashCase{Compress: compress, KeyLen: 20 + 12*(i%2), New: sh[0]}
				if withPrev {
					cc.Prev = sh[1]
				}
				if !lib.Each(t, spec, anyCase{Crash: &cc}, runAny) {
					ok = false
				}
			}
		}
	}
	rec.Subspace("fixed small output shapes x {no, other} existing entry x {plain, compressed}: all crash points of Store", int64(n), ok)
	// random crash cases and concurrency cases: drawn from the rapid generators at seeds derived from the
	// process seed (no shrinking: every evaluation costs seconds and the sets are small already)
	for i := 0; i < lib.Scale(4, 240) && ok; i++ {
		c := rapid.Custom(genCrash).Example(int(lib.Seed()%1000003)*1000 + i)
		ok = lib.Each(t, spec, c, runAny)
	}
	for i := 0; i < lib.Scale(4, 160) && ok; i++ {
		c := rapid.Custom(genConc).Example(int(lib.Seed()%1000003)*1000 + i)
		ok = lib.Each(t, spec, c, runAny)
	}
	// read faults during Retrieve: the fixed shapes (split over the shards), both cache kinds; thorough adds random sets
	n = 0
	for _, sh := range shapes {
		for _, compress := range []bool{false, true} {
			n++
			if n%shards == shard && ok && (lib.Thorough() || n%3 == 0) {
				ok = lib.Each(t, spec, anyCase{RFault: &rfaultCase{Compress: compress, Outs: sh[0]}}, runAny)
			}
		}
	}
	for i := 0; i < lib.Scale(0, 160) && ok && lib.Thorough(); i++ {
		c := rapid.Custom(genConc).Example(int(lib.Seed()%1000003)*1000 + 500 + i)
		ok = lib.Each(t, spec, anyCase{RFault: &rfaultCase{Compress: c.Conc.Compress, Outs: c.Conc.Outs}}, runAny)
	}
}

// quickShape selects the enumerated crash cases of the quick tier (every strace run costs 0.1-1 s on a busy
// machine): all shapes re-stored over an existing entry in a plain cache, two shapes stored afresh, and three
// compressed cases (a compressed store is a single tarball whatever the shape).
func quickShape(i int, withPrev, compress bool) bool {
	switch {
	case !compress && withPrev:
		return true
	case !compress:
		return i == 2 || i == 5
	case withPrev:
		return i == 1 || i == 5
	}
	return i == 5
}

func genConc(t *rapid.T) anyCase {
	return anyCase{Conc: &concCase{Compress: rapid.Bool().Draw(t, "compress"), Rounds: rapid.IntRange(5, 20).Draw(t, "rounds"),
		Outs: cx.GenOuts(t, cx.GenOpts{MaxOuts: 2, Meta: true, Fanout: 4, MaxDepth: 2})}}
}

func genCrash(t *rapid.T) anyCase {
	cc := crashCase{Compress: rapid.Bool().Draw(t, "compress"), KeyLen: rapid.SampledFrom([]int{20, 32}).Draw(t, "keylen")}
	cc.New = cx.GenOuts(t, cx.GenOpts{MaxOuts: 2, Meta: true, BigFiles: true, Fanout: 3, MaxDepth: 2})
	if rapid.IntRange(0, 2).Draw(t, "hasprev") > 0 {
		cc.Prev = reversion(t, cc.New)
	}
	return anyCase{Crash: &cc}
}
