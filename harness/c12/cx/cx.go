// Package cx holds what the cache properties (C12 directory cache, C13 HTTP/command caches, C14 cleaning)
// share: the description of one cache operation (Spec, from cspec, which the helper binary uses too),
// output-set generation and the comparison of restored outputs with the model.
package cx

import (
	"fmt"
	"os"
	"os/exec"
	"path/filepath"
	"sort"
	"strings"

	"pgregory.net/rapid"

	"verifharness/c12/cspec"
	"verifharness/lib"
)

// Spec describes a cache configuration plus one operation on one target (see cspec).
type Spec = cspec.Spec

// Marker is the path named by the helper's marker syscall.
const Marker = cspec.Marker

// Quiet silences plz's logging.
func Quiet() { cspec.Quiet() }

// WriteOuts wipes the out dir and materialises the given output set.
func WriteOuts(s Spec, outs []*lib.Node) error {
	if err := s.WipeOuts(); err != nil {
		return err
	}
	for _, o := range outs {
		p := filepath.Join(s.OutDir(), o.Name)
		if err := os.MkdirAll(filepath.Dir(p), 0o755); err != nil {
			return err
		}
		if err := lib.Materialize(o, p); err != nil {
			return err
		}
	}
	return nil
}

// Expected is what a snapshot of the out dir must be when exactly the given outputs are there.
func Expected(outs []*lib.Node) []lib.Entry {
	es := []lib.Entry{{Path: "", Kind: 'd'}}
	seen := map[string]bool{"": true}
	for _, o := range outs {
		parts := strings.Split(o.Name, "/")
		for i := 1; i < len(parts); i++ {
			d := strings.Join(parts[:i], "/")
			if !seen[d] {
				seen[d] = true
				es = append(es, lib.Entry{Path: d, Kind: 'd'})
			}
		}
		es = append(es, lib.Flatten(o, o.Name)...)
	}
	sort.Slice(es, func(i, j int) bool { return es[i].Path < es[j].Path })
	return es
}

// OutNames lists the output paths of a set.
func OutNames(outs []*lib.Node) []string {
	var n []string
	for _, o := range outs {
		n = append(n, o.Name)
	}
	return n
}

// SnapshotOuts reads the out dir.
func SnapshotOuts(s Spec) ([]lib.Entry, error) { return lib.Snapshot(s.OutDir()) }

// Helper returns the path of the helper binary built by the driver (listed under "helpers" in the check's
// json). When run outside the driver (go test by hand) it is built on demand.
func Helper() (string, error) {
	if p := os.Getenv("VERIF_HELPER_C12_HELPER"); p != "" {
		return p, nil
	}
	out := filepath.Join(os.TempDir(), "verif-c12-helper")
	cmd := exec.Command("go", "build", "-tags", "verif", "-o", out, "verifharness/c12/helper")
	if b, err := cmd.CombinedOutput(); err != nil {
		return "", fmt.Errorf("cannot build helper: %v: %s", err, b)
	}
	os.Setenv("VERIF_HELPER_C12_HELPER", out)
	return out, nil
}

// HelperEnv is the environment helpers run in: one P, so that (with the locked main thread) every file
// syscall of the operation is issued by the initial thread in program order.
func HelperEnv() []string {
	return []string{"GOMAXPROCS=1", "PATH=" + os.Getenv("PATH"), "HOME=" + os.Getenv("HOME"), "VERIF_PLZ_LOG=" + os.Getenv("VERIF_PLZ_LOG")}
}

// ---- output-set generator ------------------------------------------------------------------------

// MetaName is the build-metadata file that plz's build step always appends to the stored outputs.
const MetaName = ".target_build_metadata_t"

// GenOpts parameterises GenOuts.
type GenOpts struct {
	MaxOuts  int  // number of declared outputs besides the metadata file (default 3)
	Meta     bool // always include the metadata file (what build_step.go's storeInCache does)
	NoLinks  bool
	MaxDepth int
	Fanout   int
	BigFiles bool // sometimes draw contents of a few KiB (several write/read syscalls)
}

var outNames = []string{"a", "b", "ab", "a.b", "d", "x y", "#x#", "é", "out.txt", "sub/f", "sub/g", "deep/er/f"}

// GenOuts draws an output set: top-level files, directories (G-tree), relative symlinks, in any mix.
func GenOuts(t *rapid.T, o GenOpts) []*lib.Node {
	if o.MaxOuts == 0 {
		o.MaxOuts = 3
	}
	if o.MaxDepth == 0 {
		o.MaxDepth = 2
	}
	if o.Fanout == 0 {
		o.Fanout = 3
	}
	topts := lib.TreeGenOpts{MaxDepth: o.MaxDepth, MaxFanout: o.Fanout, Symlinks: !o.NoLinks, EmptyDirs: true, ExecBits: true}
	n := rapid.IntRange(1, o.MaxOuts).Draw(t, "nouts")
	names := rapid.Permutation(outNames).Draw(t, "outnames")[:n]
	sort.Strings(names)
	var outs []*lib.Node
	for _, nm := range names {
		kind := rapid.IntRange(0, 9).Draw(t, "outkind")
		var node *lib.Node
		switch {
		case kind <= 3:
			node = lib.GenDir(t, nm, topts)
		case kind == 4 && !o.NoLinks:
			node = &lib.Node{Name: nm, Link: true, Target: rapid.SampledFrom([]string{"a", "b", "d", "nonexistent", "../x", "d/a", "."}).Draw(t, "linktarget")}
		default:
			node = lib.GenFile(t, nm, lib.TreeGenOpts{ExecBits: true})
			if o.BigFiles && rapid.IntRange(0, 3).Draw(t, "big") == 0 {
				node.Content = BigContent(rapid.IntRange(1, 5).Draw(t, "kib"), rapid.IntRange(0, 250).Draw(t, "salt"))
			}
		}
		node.Name = nm
		outs = append(outs, node)
	}
	if o.Meta || rapid.IntRange(0, 3).Draw(t, "meta") > 0 {
		outs = append(outs, &lib.Node{Name: MetaName, Content: rapid.SampledFrom([]string{"m1", "m2", "metadata\x00\x01"}).Draw(t, "metacontent")})
	}
	return outs
}

// BigContent is a deterministic, poorly compressible content of about kib KiB.
func BigContent(kib, salt int) string {
	b := make([]byte, kib*1024+salt)
	x := uint32(salt)*2654435761 + 12345
	for i := range b {
		x ^= x << 13
		x ^= x >> 17
		x ^= x << 5
		b[i] = byte(x >> 7)
	}
	return string(b)
}

// Stats summarises an output set for labels.
func Stats(outs []*lib.Node) (files, dirs, links, empty int) {
	for _, o := range outs {
		f, d, l, e, _ := lib.CountNodes(o)
		files, dirs, links, empty = files+f, dirs+d, links+l, empty+e
	}
	return
}
