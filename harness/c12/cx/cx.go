// Package cx holds what the cache properties (C12 directory cache, C13 HTTP/command caches, C14 cleaning)
// and their helper binary share: the description of one cache operation (Spec), construction of the real
// cache from it, output-set generation and the comparison of restored outputs with the model.
package cx

import (
	"encoding/hex"
	"encoding/json"
	"fmt"
	"os"
	"os/exec"
	"path/filepath"
	"sort"
	"strings"

	gologging "gopkg.in/op/go-logging.v1"
	"pgregory.net/rapid"

	"github.com/thought-machine/please/src/cache"
	"github.com/thought-machine/please/src/cli"
	"github.com/thought-machine/please/src/core"

	"verifharness/lib"
)

// Spec describes a cache configuration plus one operation on one target. It is what the helper binary
// receives (as a JSON file) and what the in-process code uses, so both run exactly the same calls.
type Spec struct {
	Repo        string   // repository root: the process chdir()s here and core.RepoRoot is set to it
	CacheDir    string   `json:",omitempty"` // directory cache ("" = disabled)
	Compress    bool     `json:",omitempty"`
	HTTPURL     string   `json:",omitempty"`
	StoreCmd    string   `json:",omitempty"`
	RetrieveCmd string   `json:",omitempty"`
	Pkg         string   // package of the target
	Name        string   // name of the target
	Key         string   // hex of the cache key
	Outs        []string // output paths relative to the target's out dir
	Op          string   `json:",omitempty"` // helper only: "setup" | "store" | "retrieve"
	Repeat      int      `json:",omitempty"` // helper only: repeat the operation this many times (default 1)
}

// Quiet silences plz's logging (it would otherwise write every debug line to stderr).
func Quiet() {
	if os.Getenv("VERIF_PLZ_LOG") == "" {
		gologging.SetLevel(gologging.CRITICAL, "plz")
	}
}

// KeyBytes decodes the key.
func (s Spec) KeyBytes() []byte {
	b, err := hex.DecodeString(s.Key)
	if err != nil {
		panic(err)
	}
	return b
}

// Target builds the target the operation is about.
func (s Spec) Target() *core.BuildTarget {
	t := core.NewBuildTarget(core.NewBuildLabel(s.Pkg, s.Name))
	for _, o := range s.Outs {
		t.AddOutput(o)
	}
	return t
}

// Config is the plz configuration the spec stands for (everything else is the default).
func (s Spec) Config() *core.Configuration {
	config := core.DefaultConfiguration()
	config.Cache.Dir = s.CacheDir
	config.Cache.DirClean = false // cleaning is called explicitly (C14)
	config.Cache.DirCompress = s.Compress
	config.Cache.Workers = 0 // synchronous: Store returns when the store has been attempted
	config.Cache.HTTPRetry = 0
	config.Cache.HTTPWriteable = true
	config.Cache.HTTPURL = cli.URL(s.HTTPURL)
	config.Cache.StoreCommand = s.StoreCmd
	config.Cache.RetrieveCommand = s.RetrieveCmd
	return config
}

// Enter makes the process look like plz running in s.Repo.
func (s Spec) Enter() error {
	Quiet()
	if err := os.MkdirAll(s.Repo, 0o755); err != nil {
		return err
	}
	if err := os.Chdir(s.Repo); err != nil {
		return err
	}
	core.RepoRoot = s.Repo
	return nil
}

// NewCache enters the repo and constructs the cache through the real factory.
func (s Spec) NewCache() (core.Cache, error) {
	if err := s.Enter(); err != nil {
		return nil, err
	}
	return cache.NewCache(&core.BuildState{Config: s.Config()}), nil
}

// Store performs the store in this process with a fresh cache object.
func (s Spec) Store() error {
	c, err := s.NewCache()
	if err != nil {
		return err
	}
	c.Store(s.Target(), s.KeyBytes(), s.Outs)
	return nil
}

// Retrieve performs the retrieve in this process with a fresh cache object (nothing of an earlier
// store's in-memory state is reused, like a later plz run).
func (s Spec) Retrieve() (bool, error) {
	c, err := s.NewCache()
	if err != nil {
		return false, err
	}
	return c.Retrieve(s.Target(), s.KeyBytes(), s.Outs), nil
}

// OutDir is the absolute out dir of the target.
func (s Spec) OutDir() string { return filepath.Join(s.Repo, "plz-out", "gen", s.Pkg) }

// WipeOuts removes the package's out dir (what plz does before building; it also breaks the hard links
// between plz-out and the cache so that writing new outputs cannot change stored ones).
func (s Spec) WipeOuts() error {
	if err := os.RemoveAll(s.OutDir()); err != nil {
		return err
	}
	return os.MkdirAll(s.OutDir(), 0o755)
}

// WriteOuts wipes the out dir and materialises the given output set.
func (s Spec) WriteOuts(outs []*lib.Node) error {
	if err := s.WipeOuts(); err != nil {
		return err
	}
	for _, o := range outs {
		p := filepath.Join(s.OutDir(), o.Name)
		if err := os.MkdirAll(filepath.Dir(p), 0o755); err != nil {
			return err
		}
		if err := lib.Materialize(o, p); err != nil {
			return err
		}
	}
	return nil
}

// Expected is what a snapshot of the out dir must be when exactly the given outputs are there.
func Expected(outs []*lib.Node) []lib.Entry {
	es := []lib.Entry{{Path: "", Kind: 'd'}}
	seen := map[string]bool{"": true}
	for _, o := range outs {
		parts := strings.Split(o.Name, "/")
		for i := 1; i < len(parts); i++ {
			d := strings.Join(parts[:i], "/")
			if !seen[d] {
				seen[d] = true
				es = append(es, lib.Entry{Path: d, Kind: 'd'})
			}
		}
		es = append(es, lib.Flatten(o, o.Name)...)
	}
	sort.Slice(es, func(i, j int) bool { return es[i].Path < es[j].Path })
	return es
}

// OutNames lists the output paths of a set.
func OutNames(outs []*lib.Node) []string {
	var n []string
	for _, o := range outs {
		n = append(n, o.Name)
	}
	return n
}

// SnapshotOuts reads the out dir.
func (s Spec) SnapshotOuts() ([]lib.Entry, error) { return lib.Snapshot(s.OutDir()) }

// WriteSpec writes the spec where the helper can read it.
func (s Spec) WriteSpec(path string) error {
	b, err := json.Marshal(s)
	if err != nil {
		return err
	}
	return os.WriteFile(path, b, 0o644)
}

// Helper returns the path of the helper binary built by the driver (listed under "helpers" in the check's
// json). When run outside the driver (go test by hand) it is built on demand.
func Helper() (string, error) {
	if p := os.Getenv("VERIF_HELPER_C12_HELPER"); p != "" {
		return p, nil
	}
	out := filepath.Join(os.TempDir(), "verif-c12-helper")
	cmd := exec.Command("go", "build", "-tags", "verif", "-o", out, "verifharness/c12/helper")
	if b, err := cmd.CombinedOutput(); err != nil {
		return "", fmt.Errorf("cannot build helper: %v: %s", err, b)
	}
	os.Setenv("VERIF_HELPER_C12_HELPER", out)
	return out, nil
}

// HelperEnv is the environment helpers run in: one P, so that (with the locked main thread) every file
// syscall of the operation is issued by the initial thread in program order.
func HelperEnv() []string {
	return []string{"GOMAXPROCS=1", "PATH=" + os.Getenv("PATH"), "HOME=" + os.Getenv("HOME"), "VERIF_PLZ_LOG=" + os.Getenv("VERIF_PLZ_LOG")}
}

// Marker is the path of the no-op syscall (a failing mkdirat) the helper issues immediately before the
// operation, so that a trace can be split into set-up and operation without any assumption about set-up.
const Marker = "/dev/null/VERIF-OPERATION-BEGINS"

// ---- output-set generator ------------------------------------------------------------------------

// MetaName is the build-metadata file that plz's build step always appends to the stored outputs.
const MetaName = ".target_build_metadata_t"

// GenOpts parameterises GenOuts.
type GenOpts struct {
	MaxOuts  int  // number of declared outputs besides the metadata file (default 3)
	Meta     bool // always include the metadata file (what build_step.go's storeInCache does)
	NoLinks  bool
	MaxDepth int
	Fanout   int
	BigFiles bool // sometimes draw contents of a few KiB (several write/read syscalls)
}

var outNames = []string{"a", "b", "ab", "a.b", "d", "x y", "#x#", "é", "out.txt", "sub/f", "sub/g", "deep/er/f"}

// GenOuts draws an output set: top-level files, directories (G-tree), relative symlinks, in any mix.
func GenOuts(t *rapid.T, o GenOpts) []*lib.Node {
	if o.MaxOuts == 0 {
		o.MaxOuts = 3
	}
	if o.MaxDepth == 0 {
		o.MaxDepth = 2
	}
	if o.Fanout == 0 {
		o.Fanout = 3
	}
	topts := lib.TreeGenOpts{MaxDepth: o.MaxDepth, MaxFanout: o.Fanout, Symlinks: !o.NoLinks, EmptyDirs: true, ExecBits: true}
	n := rapid.IntRange(1, o.MaxOuts).Draw(t, "nouts")
	names := rapid.Permutation(outNames).Draw(t, "outnames")[:n]
	sort.Strings(names)
	var outs []*lib.Node
	for _, nm := range names {
		kind := rapid.IntRange(0, 9).Draw(t, "outkind")
		var node *lib.Node
		switch {
		case kind <= 3:
			node = lib.GenDir(t, nm, topts)
		case kind == 4 && !o.NoLinks:
			node = &lib.Node{Name: nm, Link: true, Target: rapid.SampledFrom([]string{"a", "b", "d", "nonexistent", "../x", "d/a", "."}).Draw(t, "linktarget")}
		default:
			node = lib.GenFile(t, nm, lib.TreeGenOpts{ExecBits: true})
			if o.BigFiles && rapid.IntRange(0, 3).Draw(t, "big") == 0 {
				node.Content = BigContent(rapid.IntRange(1, 5).Draw(t, "kib"), rapid.IntRange(0, 250).Draw(t, "salt"))
			}
		}
		node.Name = nm
		outs = append(outs, node)
	}
	if o.Meta || rapid.IntRange(0, 3).Draw(t, "meta") > 0 {
		outs = append(outs, &lib.Node{Name: MetaName, Content: rapid.SampledFrom([]string{"m1", "m2", "metadata\x00\x01"}).Draw(t, "metacontent")})
	}
	return outs
}

// BigContent is a deterministic, poorly compressible content of about kib KiB.
func BigContent(kib, salt int) string {
	b := make([]byte, kib*1024+salt)
	x := uint32(salt)*2654435761 + 12345
	for i := range b {
		x ^= x << 13
		x ^= x >> 17
		x ^= x << 5
		b[i] = byte(x >> 7)
	}
	return string(b)
}

// Stats summarises an output set for labels.
func Stats(outs []*lib.Node) (files, dirs, links, empty int) {
	for _, o := range outs {
		f, d, l, e, _ := lib.CountNodes(o)
		files, dirs, links, empty = files+f, dirs+d, links+l, empty+e
	}
	return
}
