// Helper binary of the cache checks (C12, C13): performs ONE cache operation described by a JSON spec
// file, exactly as the in-process code would, but in a process of its own so that it can be killed or have
// I/O faults injected at a chosen syscall by strace.
//
// The main goroutine is locked to the initial OS thread and the driver runs it with GOMAXPROCS=1, so every
// file syscall the operation issues from the calling goroutine comes from the initial thread in program
// order (strace keeps its `when=` counters per thread and syscall name).
//
// usage: helper <spec.json>      prints "retrieved=true|false" for retrieves; exit 0 unless the spec is unusable.
package main

import (
	"encoding/json"
	"fmt"
	"os"
	"runtime"
	"syscall"
	"time"

	"verifharness/c12/cspec"
)

func init() { runtime.LockOSThread() }

func main() {
	if len(os.Args) != 2 {
		fmt.Fprintln(os.Stderr, "usage: helper spec.json")
		os.Exit(3)
	}
	b, err := os.ReadFile(os.Args[1])
	if err != nil {
		fmt.Fprintln(os.Stderr, err)
		os.Exit(3)
	}
	var s cspec.Spec
	if err := json.Unmarshal(b, &s); err != nil {
		fmt.Fprintln(os.Stderr, err)
		os.Exit(3)
	}
	c, err := s.NewCache()
	if err != nil {
		fmt.Fprintln(os.Stderr, err)
		os.Exit(3)
	}
	target, key := s.Target(), s.KeyBytes()
	n := s.Repeat
	if n <= 0 {
		n = 1
	}
	// marker: a syscall that cannot succeed and touches nothing, visible in the trace
	syscall.Mkdir(cspec.Marker, 0)
	for i := 0; i < n; i++ {
		if i > 0 && s.PauseUS > 0 {
			time.Sleep(time.Duration(s.PauseUS) * time.Microsecond)
		}
		switch s.Op {
		case "store":
			c.Store(target, key, s.Outs)
		case "retrieve":
			fmt.Printf("retrieved=%v\n", c.Retrieve(target, key, s.Outs))
		case "setup", "":
		default:
			fmt.Fprintln(os.Stderr, "unknown op", s.Op)
			os.Exit(3)
		}
	}
}
