// C19: the BUILD parser is total and fails only with positioned errors.
package c19

import (
	"bytes"
	"fmt"
	"os"
	"os/exec"
	"path/filepath"
	"strconv"
	"strings"
	"sync"
	"testing"
	"time"
	"unicode/utf8"

	"github.com/thought-machine/please/src/cli"
	"github.com/thought-machine/please/src/core"
	"github.com/thought-machine/please/src/parse/asp"
	"pgregory.net/rapid"

	"verifharness/lib"
)

func TestMain(m *testing.M) { lib.Main(m) }

const maxInput = 64 << 10

var spec = lib.Spec{
	ID: "C19",
	Rule: "inputs (<= 64 KiB) from five rapid generators: (soup) random sequences over a fragment alphabet of identifiers/keywords, ints, string literals with f/r/other prefixes, " +
		"single and triple quotes, brace/dollar/backslash bodies and missing terminators, punctuation, whitespace incl. tabs, CR, NUL, invalid UTF-8, comments, backslash continuations, optionally ending in a fragment that makes the lexer look ahead at end of input; (literals) chains of 1-4 adjacent " +
		"string/f-string/raw-string literals in 18 expression contexts; (mutated) grammar-generated near-valid programs (def/for/if/elif/else, comprehensions, lambdas, slices, inline if, type annotations, aliases, docstrings) " +
		"with 0-4 token mutations (delete, duplicate, swap, insert, replace, break indentation, glue, truncate); (stress) 25 nesting shapes repeated up to depth 2000 (thorough: 1% of them up to 20000, 0.1% up to the 64 KiB limit); (long) very long tokens and lines (up to 16000 bytes; thorough: a tenth up to 60000); " +
		"thorough tier adds Go native coverage-guided fuzzing seeded with every BUILD/build_defs file of the repository. " +
		"Oracle: asp.NewParser(state).ParseData on the bytes (also stored in a real file so that positions resolve) returns (hang bound: 2 min wall in quick where inputs are <= 16 KB, 15 min in thorough), does not panic, and returns nil or asp's positioned error (>= 1 frame, line >= 1 and within the file) that is not a runtime.Error; rendering the error does not panic. " +
		"Non-trivial = lexes to >= 5 tokens and is rejected, or contains an f-string or adjacent string literals; distinct = input bytes",
	Assumptions: []string{"inputs are at most 64 KiB", "a parse still running after the hang bound (2 min quick / 15 min thorough, wall) is counted as a hang"},
}

// Case is one parser input.
type Case struct {
	Data []byte
	Mode string `json:",omitempty"`
}

var (
	parserOnce sync.Once
	theParser  *asp.Parser
	scratchDir string
)

func parser() *asp.Parser {
	parserOnce.Do(func() {
		cli.InitLogging(1) // errors only: parseFileInput logs a stack trace at debug level for every rejected input
		theParser = asp.NewParser(core.NewDefaultBuildState())
		scratchDir = os.Getenv("VERIF_SCRATCH")
		if scratchDir == "" {
			d, err := os.MkdirTemp("/dev/shm", "c19-")
			if err != nil {
				d, _ = os.MkdirTemp("", "c19-")
			}
			scratchDir = d
		}
		scratchDir = filepath.Join(scratchDir, "p"+strconv.Itoa(os.Getpid())) // native fuzz workers share the env
		os.MkdirAll(scratchDir, 0o755)
	})
	return theParser
}

type outcome struct {
	toks     []rune
	lexErr   error
	err      error
	rendered string
	panicked any
	stage    string
}

func parseOnce(data []byte, filename string) *outcome {
	out := &outcome{}
	done := make(chan struct{})
	go func() {
		defer close(done)
		defer func() {
			if r := recover(); r != nil {
				out.panicked = r
			}
		}()
		out.stage = "parse"
		_, out.err = parser().ParseData(data, filename)
		if out.err != nil {
			out.stage = "render"
			out.rendered = out.err.Error()
		}
		out.stage = "lex"
		out.toks, out.lexErr = asp.VerifLex(data, 1<<20)
		out.stage = ""
	}()
	// The bound is deliberately far above anything a loaded machine could need for 64 KiB (the slowest
	// inputs found - 60 000 nested brackets - take tens of seconds because the parser is quadratic in
	// nesting depth): only a parse that never returns is a hang.
	tm := time.NewTimer(hangBound())
	defer tm.Stop()
	select {
	case <-done:
		return out
	case <-tm.C:
		return nil
	}
}

// hangBound stays below the test binary's timeout so that a hang is reported as a violation with its input.
func hangBound() time.Duration {
	if lib.Thorough() {
		return 15 * time.Minute
	}
	return 2 * time.Minute // quick inputs are small (depth <= 2000, <= 16 KB): milliseconds normally
}

func quote(data []byte) string {
	if len(data) > 300 {
		return strconv.Quote(string(data[:150])) + fmt.Sprintf("...(%d bytes)...", len(data)-300) + strconv.Quote(string(data[len(data)-150:]))
	}
	return strconv.Quote(string(data))
}

func run(c Case, o *lib.Obs) error {
	data := c.Data
	if len(data) > maxInput {
		data = data[:maxInput]
	}
	parser()
	filename := filepath.Join(scratchDir, "BUILD")
	if err := os.WriteFile(filename, data, 0o644); err != nil {
		return &lib.Inconclusive{Msg: "cannot write scratch file: " + err.Error()}
	}
	o.Key(string(data))
	o.Sample(map[string]any{"input": quote(data), "mode": c.Mode})
	o.Label("mode_" + c.Mode)
	out := parseOnce(data, filename)
	if out == nil {
		return lib.Failf("hang", "parsing %d bytes did not return within %v: %s", len(data), hangBound(), quote(data))
	}
	if out.panicked != nil {
		return lib.Failf("panic-escaped-"+out.stage, "panic escaped (%s stage) on %s: %v", out.stage, quote(data), out.panicked)
	}
	hasF := false
	adjacent := false
	for i, tk := range out.toks {
		if tk == asp.String && i > 0 && out.toks[i-1] == asp.String {
			adjacent = true
		}
	}
	// an f-string is a String token whose source starts with f" or f'
	if bytes.Contains(data, []byte(`f"`)) || bytes.Contains(data, []byte(`f'`)) {
		hasF = true
	}
	o.LabelIf(hasF, "fstring")
	o.LabelIf(adjacent, "adjacent_literals")
	o.LabelIf(bytes.IndexByte(data, 0) >= 0, "has_nul")
	o.LabelIf(!utf8.Valid(data), "invalid_utf8")
	o.LabelIf(out.lexErr != nil, "lex_error")
	o.LabelIf(len(data) > 4096, "large")
	if out.err == nil {
		o.Label("accepted")
		o.NonTrivial(hasF || adjacent)
		return nil
	}
	o.Label("rejected")
	o.NonTrivial(len(out.toks) >= 5 || hasF || adjacent)
	info := asp.VerifErrorInfo(out.err)
	if info.Runtime {
		return lib.Failf("runtime-error", "input %s: parser returned an internal runtime error: %s", quote(data), info.Short)
	}
	if !info.Positioned || info.Frames < 1 {
		return lib.Failf("unpositioned-error", "input %s: error of type %T carries no source position: %s", quote(data), out.err, info.Short)
	}
	lines := bytes.Count(data, []byte{'\n'}) + 1
	if info.Line < 1 || info.Line > lines+1 || info.Offset < 1 || info.Offset > len(data)+3 || info.Column < 0 {
		return lib.Failf("position-outside-input", "input %s (%d bytes, %d lines): error %q positioned at line %d column %d offset %d", quote(data), len(data), lines, info.Short, info.Line, info.Column, info.Offset)
	}
	return nil
}

func gen(t *rapid.T) Case {
	// shares in 1/1000: the stress and long generators are expensive (deep recursion in the parser, and
	// parseFileInput renders a full stack trace for every rejected input), so they get a small share.
	maxDepth, maxLen, stressShare, longShare := 2000, 16000, 30, 10
	if lib.Thorough() {
		stressShare, longShare = 10, 3
	}
	var c Case
	switch k := uni(t, 1000, "mode"); {
	case k < longShare:
		if lib.Thorough() && uni(t, 10, "longest") == 0 {
			maxLen = 60000
		}
		c = Case{Data: genLongLine(t, maxLen), Mode: "long"}
	case k < longShare+stressShare:
		if lib.Thorough() {
			// deeper nesting is rare: the parser hoists operators quadratically and renders a full stack
			// trace for every rejected input, so one such case costs seconds
			switch f := uni(t, 1000, "deep"); {
			case f == 0:
				maxDepth = maxInput // up to the 64 KiB input bound
			case f < 11:
				maxDepth = 20000
			}
		}
		c = Case{Data: genStress(t, maxDepth), Mode: "stress"}
	case k < 290:
		c = Case{Data: genSoup(t), Mode: "soup"}
	case k < 540:
		c = Case{Data: genLiterals(t), Mode: "literals"}
	default:
		d, _ := genMutated(t, genProgramTokens(t))
		c = Case{Data: d, Mode: "mutated"}
	}
	if len(c.Data) > maxInput {
		c.Data = c.Data[:maxInput]
	}
	return c
}

func TestC19(t *testing.T) {
	if lib.ReplayMode(t, spec, run) {
		return
	}
	lib.Check(t, spec, lib.Scale(30000, 5000000), gen, run)
	if lib.Thorough() && os.Getenv("VERIF_CASES") == "" {
		if sh, _ := lib.Shard(); sh == 0 && !t.Failed() {
			nativeFuzz(t)
		}
	}
}

// ---- native fuzzing (thorough tier only) -----------------------------------------------------------

// seedInputs returns every BUILD / build_defs / .build file of the repository under test plus grammar fragments.
func seedInputs() [][]byte {
	repo := os.Getenv("VERIF_REPO")
	if repo == "" {
		repo = "/repo"
	}
	var out [][]byte
	filepath.WalkDir(repo, func(p string, d os.DirEntry, err error) error {
		if err != nil {
			return nil
		}
		if d.IsDir() {
			if n := d.Name(); n == "plz-out" || n == ".git" || n == "node_modules" {
				return filepath.SkipDir
			}
			return nil
		}
		n := d.Name()
		if n == "BUILD" || n == "BUILD.plz" || strings.HasSuffix(n, ".build_defs") || strings.HasSuffix(n, ".build") || n == "grammar.txt" {
			if b, err := os.ReadFile(p); err == nil && len(b) <= maxInput {
				out = append(out, b)
			}
		}
		return nil
	})
	for _, s := range []string{
		"x = \"a\" f\"{b}\"\n", "x = f\"{{a}} ${b} {c.d}\"\n", "def f(a:str|list&b='x', c:int=1) -> str:\n    \"\"\"doc\"\"\"\n    return a\n",
		"x = [y for y in z if y]\n", "x = {k: v for k, v in d.items()}\n", "x = a if b else c\n", "x = y[1:2]\n", "for i, j in x:\n    continue\n",
		"x = r'\\d' 'a' \"\"\"b\"\"\"\n", "x = lambda a, b=1: a\n", "if x:\n    pass\nelif y:\n    pass\nelse:\n    pass\n", "assert x not in y, 'm'\n",
		"x = 0o17\n", "x = -1\n", "x = -0o17\n", "x = \"a\" \\\n\"b\"\n", "x = a is not b\n", "x |= 1\n", "subinclude('//a:b')\nsubinclude('//c:d')\n",
	} {
		out = append(out, []byte(s))
	}
	return out
}

// FuzzParse is the native fuzz target; its oracle is the same run function.
func FuzzParse(f *testing.F) {
	for _, s := range seedInputs() {
		f.Add(s)
	}
	f.Fuzz(func(t *testing.T, data []byte) {
		if len(data) > maxInput {
			t.Skip()
		}
		if err := run(Case{Data: data, Mode: "native"}, &lib.Obs{}); err != nil {
			if _, ok := err.(*lib.Inconclusive); ok {
				t.Skip()
			}
			t.Fatalf("%v", err)
		}
	})
}

// nativeFuzz runs `go test -fuzz FuzzParse` as a subprocess and converts new crashers into replay files.
func nativeFuzz(t *testing.T) {
	rec := lib.Rec(spec)
	fuzztime := os.Getenv("VERIF_FUZZTIME")
	if fuzztime == "" {
		fuzztime = "6m"
	}
	pkgDir, _ := os.Getwd()
	corpus := filepath.Join(pkgDir, "testdata", "fuzz", "FuzzParse")
	before := map[string]bool{}
	if es, err := os.ReadDir(corpus); err == nil {
		for _, e := range es {
			before[e.Name()] = true
		}
	}
	args := []string{"test", "-tags", "verif", "-run", "^$", "-fuzz", "^FuzzParse$", "-fuzztime", fuzztime, "-parallel", "16"}
	if repo := os.Getenv("VERIF_REPO"); repo != "" {
		if rp, err := filepath.EvalSymlinks(repo); err == nil && rp != "/repo" {
			// the driver prepared an alternative go.mod for this worktree
			matches, _ := filepath.Glob(filepath.Join(os.Getenv("VERIF_BUILD"), "alt-*", "go.mod"))
			for _, m := range matches {
				if b, err := os.ReadFile(m); err == nil && strings.Contains(string(b), "=> "+rp+"\n") {
					args = append(args, "-modfile", m)
					break
				}
			}
		}
	}
	args = append(args, ".")
	cmd := exec.Command("go", args...)
	cmd.Dir = pkgDir
	env := []string{}
	for _, e := range os.Environ() {
		if strings.HasPrefix(e, "VERIF_STATS_DIR=") || strings.HasPrefix(e, "VERIF_REPLAY=") || strings.HasPrefix(e, "GOSUMDB=") || strings.HasPrefix(e, "GOFLAGS=") || strings.HasPrefix(e, "GOPROXY=") {
			continue
		}
		env = append(env, e)
	}
	cmd.Env = append(env, "GOFLAGS=-mod=mod", "GOPROXY=off", "VERIF_SCRATCH="+filepath.Join(scratchDir, "fuzz"))
	start := time.Now()
	outb, err := cmd.CombinedOutput()
	text := string(outb)
	rec.Extra("native_fuzz_wall_s", int64(time.Since(start).Seconds()))
	// "fuzz: elapsed: 3s, execs: 12345 (4000/sec), new interesting: 12 (total: 140)"
	var execs int64
	for _, ln := range strings.Split(text, "\n") {
		if i := strings.Index(ln, "execs: "); i >= 0 {
			f := strings.Fields(ln[i+7:])
			if len(f) > 0 {
				if v, e := strconv.ParseInt(f[0], 10, 64); e == nil && v > execs {
					execs = v
				}
			}
		}
	}
	rec.Extra("native_fuzz_execs", execs)
	var crashers []string
	if es, e := os.ReadDir(corpus); e == nil {
		for _, en := range es {
			if !before[en.Name()] {
				crashers = append(crashers, filepath.Join(corpus, en.Name()))
			}
		}
	}
	if err == nil && len(crashers) == 0 {
		t.Logf("native fuzzing: %d execs, no crashers", execs)
		return
	}
	if len(crashers) == 0 {
		// the fuzz run failed without leaving a crasher: build problem or a worker died (fatal error in the parser)
		if strings.Contains(text, "fuzzing process hung or terminated unexpectedly") || strings.Contains(text, "fatal error:") {
			lib.Each(t, spec, Case{Mode: "native-fatal"}, func(Case, *lib.Obs) error {
				return lib.Failf("native-fuzz-worker-died", "a native fuzz worker died (process-level crash or hang); output tail:\n%s", tail(text, 3000))
			})
			return
		}
		t.Logf("native fuzzing could not run (not a verdict): %v\n%s", err, tail(text, 3000))
		rec.Extra("native_fuzz_error", tail(text, 500))
		return
	}
	for _, cf := range crashers {
		data, derr := decodeGoFuzzFile(cf)
		if derr != nil {
			t.Logf("cannot decode crasher %s: %v", cf, derr)
			continue
		}
		lib.Each(t, spec, Case{Data: data, Mode: "native"}, run)
		os.Remove(cf) // the replay file written by lib.Each is the reproducible unit
	}
}

func tail(s string, n int) string {
	if len(s) > n {
		return s[len(s)-n:]
	}
	return s
}

// decodeGoFuzzFile reads a "go test fuzz v1" corpus file holding one []byte value.
func decodeGoFuzzFile(path string) ([]byte, error) {
	b, err := os.ReadFile(path)
	if err != nil {
		return nil, err
	}
	lines := strings.Split(strings.TrimSpace(string(b)), "\n")
	if len(lines) < 2 || !strings.HasPrefix(lines[0], "go test fuzz v1") {
		return nil, fmt.Errorf("not a go fuzz corpus file")
	}
	l := strings.TrimSpace(lines[1])
	if !strings.HasPrefix(l, "[]byte(") || !strings.HasSuffix(l, ")") {
		return nil, fmt.Errorf("unexpected value line %q", l)
	}
	s, err := strconv.Unquote(l[len("[]byte(") : len(l)-1])
	if err != nil {
		return nil, err
	}
	return []byte(s), nil
}
