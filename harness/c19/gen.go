package c19

import (
	"strings"

	"pgregory.net/rapid"
)

// ---- fragment alphabet -----------------------------------------------------------------------------

var identFrags = []string{
	"x", "y", "foo", "_p", "f", "r", "fr", "rf", "b", "name", "srcs", "deps", "CONFIG", "é", "x1", "ünï", "f1", "rr",
	"def", "if", "elif", "else", "for", "in", "not", "is", "and", "or", "lambda", "return", "pass", "continue",
	"break", "assert", "raise", "None", "True", "False", "subinclude", "glob", "str", "int", "list", "dict",
	"bool", "function", "config", "join", "format",
}

var intFrags = []string{
	"0", "1", "42", "-1", "0o17", "0o", "007", "9223372036854775807", "92233720368547758070", "123456789012345678",
	"1234567890123456789", "-0", "1e5", "1.5", "0x1f", "-", "--1", "0o-1", "0oo",
}

var strBodies = []string{
	"", "a", "{", "}", "{x}", "{x.y}", "{{", "}}", "{{x}}", "${x}", "$", "{x", "x}", "{}", "{.}", "{x}{y}", `\`, `\n`, `\"`,
	"'", `"`, "é", "\xff", "a\nb", "{{{", "}}}", "{ x }", "$${x}", "{x}}", "{{}", `\{x\}`, "a b", "//p:t", ":t", `\\`, `\t`,
	"{\n}", "{x}$", "${", "$}", "{$x}", `{"}`, "{'}", "\x00", "{x\x00}", `\` + "\n", "#", "{#}",
}

var strPrefixes = []string{"", "", "", "f", "f", "f", "r", "fr", "rf", "b", "F", "R", "u"}
var strQuotes = []string{`"`, `"`, `'`, `"""`, `'''`}

var punctFrags = []string{
	"(", ")", "[", "]", "{", "}", ",", ".", ":", "=", "==", "!=", "+=", "<", ">", "<=", ">=", "+", "-", "*", "/", "//", "%",
	"|", "&", "->", ";", "@", "!", "~", "`", "?", `\`, "**", "-=", "*=", ":=", "...", "<<", "^", "$",
}

var spaceFrags = []string{
	" ", "  ", "\n", "\n", "\n    ", "\n  ", "\n        ", "\n ", "\t", "\r", "\r\n", "\x00", "\xff", "\xc3", "\xe2\x82",
	"# c\n", "#", "\\\n", "\\\r\n", "\\\r", "\\ \n", "\n\n", "\n    \n", "\n  # c\n", " \n", " ", " ", "\v", "\f", "\ufeff",
}

// uni draws an approximately uniform integer in [0, n). rapid's integer generators are heavily biased
// towards small values for ranges wider than a few bits (a geometric bit length), which would starve the
// tail of every alphabet; ranges of <= 3 bits are nearly uniform, so wider draws are composed from octal digits.
func uni(t *rapid.T, n int, label string) int {
	if n <= 1 {
		return 0
	}
	if n <= 8 {
		return rapid.IntRange(0, n-1).Draw(t, label)
	}
	v, span := 0, 1
	for span < n*4 { // *4 keeps the modulo bias small
		v = v*8 + rapid.IntRange(0, 7).Draw(t, label)
		span *= 8
	}
	return v % n
}

func pick(t *rapid.T, xs []string, label string) string {
	return xs[uni(t, len(xs), label)]
}

func genString(t *rapid.T) string {
	p := pick(t, strPrefixes, "sp")
	q := pick(t, strQuotes, "sq")
	b := pick(t, strBodies, "sb")
	if uni(t, 5, "sb2") == 0 {
		b += pick(t, strBodies, "sb3")
	}
	end := q
	switch uni(t, 30, "send") {
	case 0:
		end = "" // unterminated
	case 1:
		end = q[:1] // short terminator for a triple-quoted string
	}
	return p + q + b + end
}

func genFrag(t *rapid.T) string {
	switch uni(t, 10, "kind") {
	case 0, 1:
		return pick(t, identFrags, "id")
	case 2:
		return pick(t, intFrags, "int")
	case 3, 4, 5:
		return genString(t)
	case 6, 7:
		return pick(t, punctFrags, "p")
	default:
		return pick(t, spaceFrags, "ws")
	}
}

// genSoup: a raw sequence of fragments.
func genSoup(t *rapid.T) []byte {
	n := rapid.IntRange(1, 24).Draw(t, "n")
	var sb strings.Builder
	for i := 0; i < n; i++ {
		sb.WriteString(genFrag(t))
		if uni(t, 3, "sep") == 0 {
			sb.WriteByte(' ')
		}
	}
	// lookahead bugs live at the very end of the input: finish with a fragment that makes the lexer peek
	if uni(t, 3, "tail") == 0 {
		sb.WriteString(pick(t, tailFrags, "tailfrag"))
	}
	return []byte(sb.String())
}

var tailFrags = []string{
	"\\", "\\\r", "\\\r\n", "\\\n", `"`, `'`, `f"`, `r'`, `"""`, `'''`, `""`, `"a""`, "0o", "-", "-0", "-0o", "\r", "#", "(", "x =", "x", "r", "f", "=", "!", "/", "<",
	"\"\\", "\"\"\"\\", "\n ", "\n  x", "\x00", "x\x00", "\"\x00", ".", "x.", "x(", "x[", "{", "-\n", "0\n", "\\\x00",
}

// genLiterals: a chain of adjacent string literals in some expression context.
func genLiterals(t *rapid.T) []byte {
	ctx := []string{"x = %s\n", "%s\n", "f(%s)\n", "f(a = %s)\n", "x = [%s]\n", "x = {%s: 1}\n", "x = {1: %s}\n", "x = (%s)[0]\n",
		"x = %s if %s else %s\n", "x = %s + %s\n", "x = %s.format(y)\n", "x = [y for y in %s if %s]\n", "def f(a=%s):\n    return %s\n",
		"assert %s, %s\n", "x = %s %% %s\n", "x = y[%s:%s]\n", "x = lambda: %s\n", "x = (\n  %s\n)\n"}
	c := ctx[uni(t, len(ctx), "ctx")]
	parts := strings.Split(c, "%s")
	var sb strings.Builder
	for i, p := range parts {
		sb.WriteString(strings.ReplaceAll(p, "%%", "%"))
		if i == len(parts)-1 {
			break
		}
		k := rapid.IntRange(1, 4).Draw(t, "chain")
		for j := 0; j < k; j++ {
			sb.WriteString(genString(t))
			switch uni(t, 6, "glue") {
			case 0:
				sb.WriteByte(' ')
			case 1:
				sb.WriteString("\n    ")
			}
		}
	}
	return []byte(sb.String())
}

// ---- near-valid programs ---------------------------------------------------------------------------

type progGen struct {
	t      *rapid.T
	toks   []string
	budget int
}

func (g *progGen) emit(s ...string) { g.toks = append(g.toks, s...) }
func (g *progGen) nl(depth int)     { g.toks = append(g.toks, "\n"+strings.Repeat("    ", depth)) }
func (g *progGen) n(max int, l string) int {
	return uni(g.t, max+1, l)
}

var plainIdents = []string{"x", "y", "foo", "_p", "name", "srcs", "deps", "f", "r", "CONFIG"}

func (g *progGen) ident() string { return pick(g.t, plainIdents, "pid") }

func (g *progGen) str() string {
	p := []string{"", "", "f", "r"}[g.n(3, "vp")]
	q := []string{`"`, `'`, `"""`}[g.n(2, "vq")]
	b := []string{"a", "", "{x}", "{x.y} b", "//p:t", "{{}}", "${x}", `\n`, "a b c", "é"}[g.n(9, "vb")]
	return p + q + b + q
}

func (g *progGen) expr(d int) {
	g.budget--
	k := g.n(17, "ek")
	if d <= 0 || g.budget <= 0 {
		k = k % 4
	}
	switch k {
	case 0:
		g.emit(g.ident())
	case 1:
		g.emit(g.str())
	case 2:
		g.emit([]string{"1", "0", "42", "-3", "True", "False", "None"}[g.n(6, "lit")])
	case 3:
		g.emit(g.str(), g.str()) // adjacent literals
	case 4:
		g.emit("[")
		for i, n := 0, g.n(3, "ln"); i < n; i++ {
			g.expr(d - 1)
			g.emit(",")
		}
		g.emit("]")
	case 5:
		g.emit("(")
		g.expr(d - 1)
		g.emit(",")
		g.expr(d - 1)
		g.emit(")")
	case 6:
		g.emit("{")
		for i, n := 0, g.n(2, "dn"); i < n; i++ {
			g.expr(d - 1)
			g.emit(":")
			g.expr(d - 1)
			g.emit(",")
		}
		g.emit("}")
	case 7:
		g.emit("[")
		g.expr(d - 1)
		g.emit("for", g.ident(), "in")
		g.expr(d - 1)
		if g.n(1, "cif") == 1 {
			g.emit("if")
			g.expr(d - 1)
		}
		g.emit("]")
	case 8:
		g.emit("{")
		g.expr(d - 1)
		g.emit(":")
		g.expr(d - 1)
		g.emit("for", g.ident(), ",", g.ident(), "in")
		g.expr(d - 1)
		g.emit("}")
	case 9:
		g.call(d)
	case 10, 11:
		g.expr(d - 1)
		g.emit([]string{"+", "-", "*", "/", "//", "%", "<", ">", "and", "or", "is", "is not", "in", "not in", "==", "!=", ">=", "<=", "|"}[g.n(18, "op")])
		g.expr(d - 1)
	case 12:
		g.expr(d - 1)
		g.emit("if")
		g.expr(d - 1)
		g.emit("else")
		g.expr(d - 1)
	case 13:
		g.emit("lambda", g.ident(), ":")
		g.expr(d - 1)
	case 14:
		g.emit(g.ident(), "[")
		switch g.n(3, "sl") {
		case 0:
			g.expr(d - 1)
		case 1:
			g.emit(":")
			g.expr(d - 1)
		case 2:
			g.expr(d - 1)
			g.emit(":")
		default:
			g.expr(d - 1)
			g.emit(":")
			g.expr(d - 1)
		}
		g.emit("]")
	case 15:
		g.emit(g.ident(), ".", g.ident())
		if g.n(1, "pc") == 1 {
			g.emit("(")
			g.expr(d - 1)
			g.emit(")")
		}
	case 16:
		g.emit([]string{"not", "-"}[g.n(1, "un")])
		g.expr(d - 1)
	default:
		g.emit(g.str(), ".", "format", "(", g.ident(), "=")
		g.expr(d - 1)
		g.emit(")")
	}
}

func (g *progGen) call(d int) {
	g.emit(g.ident(), "(")
	for i, n := 0, g.n(3, "an"); i < n; i++ {
		if g.n(1, "kw") == 1 {
			g.emit(g.ident(), "=")
		}
		g.expr(d - 1)
		g.emit(",")
	}
	g.emit(")")
}

func (g *progGen) block(depth, d int, inFor, inDef bool) {
	n := 1 + g.n(2, "bn")
	for i := 0; i < n; i++ {
		g.nl(depth)
		g.stmt(depth, d, inFor, inDef)
	}
}

func (g *progGen) stmt(depth, d int, inFor, inDef bool) {
	g.budget--
	k := g.n(13, "sk")
	if depth >= 3 || g.budget <= 0 {
		k = k % 6
	}
	switch k {
	case 0, 1:
		g.emit(g.ident(), "=")
		g.expr(d)
	case 2:
		g.call(d)
	case 3:
		g.emit(g.ident(), "+=")
		g.expr(d)
	case 4:
		if inFor {
			g.emit([]string{"continue", "break"}[g.n(1, "cb")])
		} else if inDef {
			g.emit("return")
			g.expr(d)
		} else {
			g.emit("pass")
		}
	case 5:
		g.emit("assert")
		g.expr(d)
		if g.n(1, "am") == 1 {
			g.emit(",", g.str())
		}
	case 6:
		g.emit(g.ident(), "[")
		g.expr(d)
		g.emit("]", []string{"=", "+="}[g.n(1, "ia")])
		g.expr(d)
	case 7:
		g.emit(g.ident(), ",", g.ident(), "=")
		g.expr(d)
	case 8, 9:
		g.emit("def", g.ident(), "(")
		for i, n := 0, g.n(3, "dn"); i < n; i++ {
			g.emit(g.ident())
			if g.n(1, "ty") == 1 {
				g.emit(":", []string{"str", "int", "list", "dict", "bool", "function", "config"}[g.n(6, "t1")])
				if g.n(2, "ty2") == 0 {
					g.emit("|", []string{"str", "list", "dict"}[g.n(2, "t2")])
				}
			}
			if g.n(3, "al") == 0 {
				g.emit("&", g.ident())
			}
			if g.n(1, "dv") == 1 {
				g.emit("=")
				g.expr(1)
			}
			g.emit(",")
		}
		g.emit(")")
		if g.n(3, "ret") == 0 {
			g.emit("->", []string{"str", "int", "list", "dict", "bool"}[g.n(4, "rt")])
		}
		g.emit(":")
		if g.n(2, "doc") == 0 {
			g.nl(depth + 1)
			g.emit(`"""Doc` + "\n" + strings.Repeat("    ", depth+1) + `string."""`)
		}
		g.block(depth+1, d, false, true)
	case 10, 11:
		g.emit("for", g.ident())
		if g.n(2, "f2") == 0 {
			g.emit(",", g.ident())
		}
		g.emit("in")
		g.expr(d)
		g.emit(":")
		g.block(depth+1, d, true, inDef)
	case 12:
		g.emit("raise")
		g.expr(d)
	default:
		g.emit("if")
		g.expr(d)
		g.emit(":")
		g.block(depth+1, d, inFor, inDef)
		for i, n := 0, g.n(2, "eln"); i < n; i++ {
			g.nl(depth)
			g.emit("elif")
			g.expr(d)
			g.emit(":")
			g.block(depth+1, d, inFor, inDef)
		}
		if g.n(1, "els") == 1 {
			g.nl(depth)
			g.emit("else", ":")
			g.block(depth+1, d, inFor, inDef)
		}
	}
}

// genProgramTokens returns the token list of a syntactically plausible program. The first token of each
// line is a "\n<indent>" token.
func genProgramTokens(t *rapid.T) []string {
	g := &progGen{t: t, budget: 60}
	n := 1 + g.n(4, "stmts")
	for i := 0; i < n; i++ {
		if i > 0 {
			g.nl(0)
		}
		if g.n(9, "cmt") == 0 {
			g.emit("# comment")
			g.nl(0)
		}
		g.stmt(0, 3, false, false)
	}
	g.nl(0)
	return g.toks
}

func joinTokens(toks []string, tight []bool) []byte {
	var sb strings.Builder
	for i, tk := range toks {
		if i > 0 && !strings.HasPrefix(tk, "\n") && !strings.HasPrefix(toks[i-1], "\n") && !(i < len(tight) && tight[i]) {
			sb.WriteByte(' ')
		}
		sb.WriteString(tk)
	}
	return []byte(sb.String())
}

// genMutated: a near-valid program with 0-4 token-level mutations.
func genMutated(t *rapid.T, base []string) ([]byte, int) {
	toks := append([]string{}, base...)
	tight := make([]bool, len(toks)+8)
	nm := uni(t, 5, "muts")
	for m := 0; m < nm && len(toks) > 0; m++ {
		i := uni(t, len(toks), "mi")
		switch uni(t, 10, "mk") {
		case 0: // delete
			toks = append(toks[:i], toks[i+1:]...)
		case 1: // duplicate
			toks = append(toks[:i+1], toks[i:]...)
		case 2: // swap with neighbour
			if i+1 < len(toks) {
				toks[i], toks[i+1] = toks[i+1], toks[i]
			}
		case 3: // insert a random fragment
			toks = append(toks[:i+1], append([]string{genFrag(t)}, toks[i+1:]...)...)
		case 4: // replace by a random fragment
			toks[i] = genFrag(t)
		case 5: // break indentation of the next line start
			for j := i; j < len(toks); j++ {
				if strings.HasPrefix(toks[j], "\n") {
					toks[j] = "\n" + strings.Repeat(" ", uni(t, 10, "ind"))
					break
				}
			}
		case 6: // glue to the previous token
			if i < len(tight) {
				tight[i] = true
			}
		case 7: // replace by a string literal (possibly odd)
			toks[i] = genString(t)
		case 8: // insert a string literal right after a string literal, glued
			toks = append(toks[:i+1], append([]string{genString(t)}, toks[i+1:]...)...)
			if i+1 < len(tight) {
				tight[i+1] = true
			}
		default: // truncate
			toks = toks[:i]
		}
	}
	return joinTokens(toks, tight), nm
}

// ---- depth / length stress -------------------------------------------------------------------------

type stressShape struct {
	open, mid, close string
}

var stressShapes = []stressShape{
	{"(", "1", ")"}, {"[", "1", "]"}, {"{1:", "1", "}"}, {"f(", "x", ")"}, {"x[", "0", "]"}, {"not ", "x", ""}, {"-", "x", ""},
	{"x if y else ", "z", ""}, {"lambda: ", "x", ""}, {"x.", "y", ""}, {"x + ", "y", ""}, {`"a" `, `"b"`, ""}, {`f"{x}" `, `"b"`, ""},
	{"[x for x in ", "y", "]"}, {"(", "", ""}, {"", "x", ")"}, {"[", "", ""}, {"{", "", ""}, {"x(", "", ""}, {`"a" `, `f"}"`, ""},
	{"x = ", "1", ""}, {"f(a=", "1", ")"}, {"x[", "", ""}, {"1 if ", "x", " else 2"}, {"{x:", "y", " for x in z}"},
}

func genStress(t *rapid.T, maxDepth int) []byte {
	sh := stressShapes[uni(t, len(stressShapes), "shape")]
	unit := len(sh.open) + len(sh.close)
	if unit == 0 {
		unit = 1
	}
	lim := (60 << 10) / unit
	if lim > maxDepth {
		lim = maxDepth
	}
	// bias towards the extremes
	var n int
	switch uni(t, 3, "depthkind") {
	case 0:
		n = rapid.IntRange(1, 64).Draw(t, "depth")
	case 1:
		n = rapid.IntRange(64, lim).Draw(t, "depth")
	default:
		n = lim
	}
	pre := []string{"x = ", "", "f(", "def f(a=", "assert "}[uni(t, 5, "pre")]
	post := map[string]string{"x = ": "\n", "": "\n", "f(": ")\n", "def f(a=": "):\n    pass\n", "assert ": "\n"}[pre]
	s := pre + strings.Repeat(sh.open, n) + sh.mid + strings.Repeat(sh.close, n) + post
	if uni(t, 4, "nest") == 0 {
		// inside an indented block, to combine with indentation handling
		s = "def g():\n    " + strings.ReplaceAll(strings.TrimSuffix(s, "\n"), "\n", "\n    ") + "\n"
	}
	return []byte(s)
}

// genLongLine: very long single tokens / lines.
func genLongLine(t *rapid.T, maxLen int) []byte {
	n := rapid.IntRange(1000, maxLen).Draw(t, "len")
	switch uni(t, 8, "llk") {
	case 0:
		return []byte("x = \"" + strings.Repeat("a", n) + "\"\n")
	case 1:
		return []byte(strings.Repeat("x", n) + " = 1\n")
	case 2:
		return []byte("x = " + strings.Repeat("1", n) + "\n")
	case 3:
		return []byte("x = f\"" + strings.Repeat("{a}", n/3) + "\"\n")
	case 4:
		return []byte("x = [" + strings.Repeat("1,", n/2) + "]\n")
	case 5:
		return []byte(strings.Repeat(" ", n) + "x = 1\n")
	case 6:
		return []byte("x = 1\n" + strings.Repeat("\n", n) + strings.Repeat(" ", 4) + "y = 2\n")
	default:
		return []byte("#" + strings.Repeat("c", n))
	}
}
