// C35: declared output hashes are enforced exactly.
//
// One target //p:t (genrule with one file / several files / one directory, or a filegroup) declares
// `hashes`; //p:dep consumes it. A case is a configuration of hash algorithms plus a history of steps;
// every step rewrites the declared list and/or the content, optionally wipes plz-out and/or corrupts
// the cached copies of t's outputs, and then runs `plz build //p:dep` (or `plz hash //p:t`). The
// expected verdict of every step is computed from the state alone by an independent implementation of
// the hashing (crypto/sha1, crypto/sha256, hash/crc32, blake3): it never depends on the history, which
// is exactly what "no output is left that a later build or a cache restore treats as verified" means.
package c35

import (
	"crypto/sha1"
	"crypto/sha256"
	"encoding/hex"
	"fmt"
	"hash"
	"hash/crc32"
	"os"
	"path/filepath"
	"regexp"
	"sort"
	"strings"
	"testing"

	"github.com/zeebo/blake3"
	"pgregory.net/rapid"

	"verifharness/lib"
)

func TestMain(m *testing.M) { lib.Main(m) }

var spec = lib.Spec{
	ID: "C35",
	Rule: "a repository with //p:t (genrule producing one file, 2-3 files or one directory from source files, or a filegroup of 1-2 files) that declares `hashes`, and //p:dep that copies t's outputs; [build] hashfunction and hashcheckers drawn from sha1/sha256/blake3/crc32 (or defaults); a case-local directory cache. " +
		"History of 2-5 steps; each step draws the declared list (0-4 entries out of: the correct value of the current content in any of the four algorithms - configured or not -, with or without its `algo:` prefix, the correct value of another content version, one hex digit flipped, truncated, extended, hash of the first file only, hash of the concatenated files, junk), " +
		"may switch the content version (source edit), wipe plz-out, corrupt every cached copy of t's outputs (one byte flipped, or replaced by another version's bytes), and runs `plz build //p:dep` (sometimes `plz hash //p:t`, which must print the reference value). " +
		"Oracle per step, from the state alone: build succeeds <=> some declared value (text after the last ':' trimmed) equals the reference hash of the current outputs under hashfunction or one of hashcheckers (single file: hash of the bytes; several: hash of the concatenated raw per-file hashes; directory: the value `plz hash` reports in a separate clean repository); " +
		"on failure //p:dep's command never runs; on success the outputs of t and dep in plz-out are exactly the current version's bytes (never a corrupted cache copy). " +
		"Non-trivial = some step's list mixes an accepted and a rejected value, or t arrived from the cache (trace says Cached) or a corrupted cache copy was met; distinct = JSON of the case",
	Assumptions: []string{
		"an `algo:` prefix is only ever generated in front of a value of that algorithm (the documentation does not say whether a mismatching prefix is checked)",
		"hex digits are lower case; empty strings are not declared",
		"the reference hash of a directory output is what `plz hash //p:t` prints in a fresh copy of the repository (the directory hashing scheme itself is property C09's business); only the hashfunction algorithm is used for correct directory values",
		"--nohash_verification is never used",
	},
}

var algos = []string{"sha1", "sha256", "blake3", "crc32"}

func newHash(algo string) hash.Hash {
	switch algo {
	case "sha1":
		return sha1.New()
	case "sha256":
		return sha256.New()
	case "blake3":
		return blake3.New()
	case "crc32":
		return crc32.NewIEEE()
	}
	panic("unknown algo " + algo)
}

func sum(algo string, b []byte) []byte {
	h := newHash(algo)
	h.Write(b)
	return h.Sum(nil)
}

// HashSpec describes one entry of a declared hashes list.
type HashSpec struct {
	Kind   string // correct | other | flip | truncated | extended | firstfile | concat | junk
	Algo   string `json:",omitempty"`
	Prefix string `json:",omitempty"` // "" | "algo: " | "algo:"
	Ver    int    `json:",omitempty"` // other: content version
	Pos    int    `json:",omitempty"` // flip: digit position (mod length)
	Junk   string `json:",omitempty"`
}

type Step struct {
	Hashes []HashSpec
	Ver    int    // content version in force
	Wipe   bool   `json:",omitempty"` // rm -rf plz-out first
	Poison string `json:",omitempty"` // "" | "flip" | "swap": corrupt cached copies of t's outputs first
	Cmd    string // build | hash
	Keep   bool   `json:",omitempty"` // --keep_going
}

type Case struct {
	HashFunction string   `json:",omitempty"`
	HashCheckers []string `json:",omitempty"`
	Kind         string   // file | files | dir | filegroup
	Versions     [][]string
	DirCompress  bool `json:",omitempty"`
	Steps        []Step
}

func (c Case) hashFunction() string {
	if c.HashFunction == "" {
		return "sha256"
	}
	return c.HashFunction
}

func (c Case) checkers() []string {
	if len(c.HashCheckers) == 0 {
		return []string{"sha1", "sha256", "blake3"}
	}
	return c.HashCheckers
}

// acceptedAlgos: the algorithm of the internal output hash is compared first, then each checker.
func (c Case) acceptedAlgos() []string {
	out := []string{c.hashFunction()}
	for _, a := range c.checkers() {
		if a != out[0] {
			out = append(out, a)
		}
	}
	return out
}

// refHash is the independent reference: hash of the file for a single output, hash of the concatenated
// raw per-file hashes for several (no file names: the target declares hashes).
func refHash(algo string, files []string) string {
	if len(files) == 1 {
		return hex.EncodeToString(sum(algo, []byte(files[0])))
	}
	h := newHash(algo)
	for _, f := range files {
		h.Write(sum(algo, []byte(f)))
	}
	return hex.EncodeToString(h.Sum(nil))
}

// ---- rendering -----------------------------------------------------------------------------------

const logFn = `L(){ printf '%s %s\n' "$1" "$2" >> "${TMP_DIR%%/plz-out/tmp/*}/actions.log"; }; `

func (c Case) nFiles() int { return len(c.Versions[0]) }

func (c Case) outs() []string {
	switch c.Kind {
	case "dir":
		return []string{"d"}
	case "filegroup":
		o := []string{}
		for i := 0; i < c.nFiles(); i++ {
			o = append(o, fmt.Sprintf("in%d", i))
		}
		return o
	}
	o := []string{}
	for i := 0; i < c.nFiles(); i++ {
		o = append(o, fmt.Sprintf("o%d", i))
	}
	return o
}

func pyList(ss []string) string {
	q := make([]string, len(ss))
	for i, s := range ss {
		q[i] = lib.PyQuote(s)
	}
	return "[" + strings.Join(q, ", ") + "]"
}

func (c Case) renderBuild(hashes []string) string {
	var srcs []string
	for i := 0; i < c.nFiles(); i++ {
		srcs = append(srcs, fmt.Sprintf("in%d", i))
	}
	hs := ""
	if hashes != nil {
		hs = ", hashes=" + pyList(hashes)
	}
	var b strings.Builder
	switch c.Kind {
	case "filegroup":
		fmt.Fprintf(&b, "filegroup(name=\"t\", srcs=%s%s)\n", pyList(srcs), hs)
	case "dir":
		cmd := logFn + `L S t; mkdir d; `
		for i := range srcs {
			cmd += fmt.Sprintf(`cat p/in%d > d/f%d; `, i, i)
		}
		cmd += `L E t`
		fmt.Fprintf(&b, "genrule(name=\"t\", srcs=%s, outs=[\"d\"], cmd=%s%s)\n", pyList(srcs), lib.PyQuote(cmd), hs)
	default:
		cmd := logFn + `L S t; `
		for i := range srcs {
			cmd += fmt.Sprintf(`cat p/in%d > o%d; `, i, i)
		}
		cmd += `L E t`
		fmt.Fprintf(&b, "genrule(name=\"t\", srcs=%s, outs=%s, cmd=%s%s)\n", pyList(srcs), pyList(c.outs()), lib.PyQuote(cmd), hs)
	}
	dep := logFn + `L S dep; find $SRCS -type f | LC_ALL=C sort | while IFS= read -r f; do cat "$f"; done > "$OUT"; L E dep`
	fmt.Fprintf(&b, "genrule(name=\"dep\", srcs=[\":t\"], outs=[\"dep.out\"], cmd=%s)\n", lib.PyQuote(dep))
	return b.String()
}

func (c Case) config(cacheDir string) string {
	cfg := lib.BaseConfig + "[build]\npath = /usr/local/bin:/usr/bin:/bin\n"
	if c.HashFunction != "" {
		cfg += "hashfunction = " + c.HashFunction + "\n"
	}
	for _, a := range c.HashCheckers {
		cfg += "hashcheckers = " + a + "\n"
	}
	if cacheDir == "" {
		cfg += lib.NoCacheConfig
	} else {
		cfg += "[cache]\ndir = " + cacheDir + "\n"
		if c.DirCompress {
			cfg += "dircompress = true\n"
		}
	}
	return cfg
}

func writeFile(p, s string) error {
	os.MkdirAll(filepath.Dir(p), 0o755)
	// replace, never write through: plz-out may hold hard links to source files (filegroups)
	os.Remove(p)
	return os.WriteFile(p, []byte(s), 0o644)
}

func (c Case) materialize(root, cacheDir string, ver int, hashes []string) error {
	if err := writeFile(filepath.Join(root, ".plzconfig"), c.config(cacheDir)); err != nil {
		return err
	}
	for i, content := range c.Versions[ver] {
		p := filepath.Join(root, "p", fmt.Sprintf("in%d", i))
		if old, err := os.ReadFile(p); err == nil && string(old) == content {
			continue
		}
		if err := writeFile(p, content); err != nil {
			return err
		}
	}
	return writeFile(filepath.Join(root, "p", "BUILD"), c.renderBuild(hashes))
}

var hashLine = regexp.MustCompile(`(?m)^\s*//p:t: ([0-9a-f]+)\s*$`)

// ---- running a case ---------------------------------------------------------------------------------

type runner struct {
	c      Case
	e      *lib.E2E
	cache  string
	dirRef map[int]string // version -> `plz hash` value of the directory output (hashfunction)
	incErr error
	nClean int
}

// dirHash obtains the reference hash of the directory output of a content version from `plz hash` in a
// fresh repository without cache.
func (r *runner) dirHash(ver int) string {
	if h, ok := r.dirRef[ver]; ok {
		return h
	}
	r.nClean++
	root := filepath.Join(r.e.Dir, fmt.Sprintf("ref%d", r.nClean), "w")
	defer os.RemoveAll(filepath.Dir(root))
	if err := r.c.materialize(root, "", ver, []string{"00"}); err != nil {
		r.incErr = err
		return ""
	}
	p := &lib.Plz{Root: root, Home: filepath.Join(filepath.Dir(root), "home")}
	res := p.Run(lib.BuildTimeout, "hash", "//p:t")
	m := hashLine.FindStringSubmatch(res.Stdout)
	if res.Exit != 0 || m == nil {
		r.incErr = fmt.Errorf("reference `plz hash` failed: %s", res.Brief())
		return ""
	}
	r.dirRef[ver] = m[1]
	return m[1]
}

// reference returns the correct hash of a content version under an algorithm ("" if there is none the
// harness can vouch for: directory outputs under an algorithm other than hashfunction).
func (r *runner) reference(algo string, ver int) string {
	if r.c.Kind == "dir" {
		if algo != r.c.hashFunction() {
			return ""
		}
		return r.dirHash(ver)
	}
	return refHash(algo, r.c.Versions[ver])
}

// render turns a spec into the declared string ("" = not expressible for this case: dropped).
func (r *runner) render(s HashSpec, cur int) string {
	algo := s.Algo
	if algo == "" {
		algo = r.c.hashFunction()
	}
	base := r.reference(algo, cur)
	switch s.Kind {
	case "correct":
		if base == "" {
			return ""
		}
		return s.Prefix + base
	case "other":
		v := s.Ver % len(r.c.Versions)
		o := r.reference(algo, v)
		if o == "" {
			return ""
		}
		return s.Prefix + o
	case "flip":
		if base == "" {
			return ""
		}
		b := []byte(base)
		i := s.Pos % len(b)
		if b[i] == 'f' {
			b[i] = '0'
		} else if b[i] == '9' {
			b[i] = 'a'
		} else {
			b[i]++
		}
		return s.Prefix + string(b)
	case "truncated":
		if len(base) < 4 {
			return ""
		}
		return base[:len(base)-2]
	case "extended":
		if base == "" {
			return ""
		}
		return base + "0a"
	case "firstfile":
		return hex.EncodeToString(sum(algo, []byte(r.c.Versions[cur][0])))
	case "concat":
		return hex.EncodeToString(sum(algo, []byte(strings.Join(r.c.Versions[cur], ""))))
	case "junk":
		return s.Junk
	}
	return ""
}

func stripPrefix(h string) string {
	if i := strings.LastIndexByte(h, ':'); i >= 0 {
		return strings.TrimSpace(h[i+1:])
	}
	return h
}

// expectedContent is what dep.out must hold after a successful build.
func (c Case) expectedContent(ver int) string { return strings.Join(c.Versions[ver], "") }

// cachedCopies lists the cached copies of t's outputs (regular files below <cache>/p/t/).
func cachedCopies(cache string) []string {
	var out []string
	filepath.Walk(filepath.Join(cache, "p", "t"), func(p string, fi os.FileInfo, err error) error {
		if err == nil && fi.Mode().IsRegular() && !strings.HasPrefix(filepath.Base(p), ".target_build_metadata") {
			out = append(out, p)
		}
		return nil
	})
	sort.Strings(out)
	return out
}

func run(c Case, o *lib.Obs) error {
	if len(c.Versions) == 0 || len(c.Versions[0]) == 0 || len(c.Steps) == 0 {
		return nil
	}
	for _, v := range c.Versions {
		if len(v) != len(c.Versions[0]) {
			return nil
		}
	}
	e := lib.NewE2E("c35-")
	defer e.Close()
	r := &runner{c: c, e: e, cache: filepath.Join(e.Dir, "cache"), dirRef: map[int]string{}}
	plz := e.PlzW()
	mixed, cachedSeen, poisonMet, cacheDirty := false, false, false, false
	var trail []string
	for si, st := range c.Steps {
		ver := st.Ver % len(c.Versions)
		// declared list
		var declared []string
		for _, hs := range st.Hashes {
			if s := r.render(hs, ver); s != "" {
				declared = append(declared, s)
			}
		}
		if r.incErr != nil {
			return &lib.Inconclusive{Msg: r.incErr.Error()}
		}
		// expectation
		accepted := map[string]bool{}
		for _, a := range c.acceptedAlgos() {
			if ref := r.reference(a, ver); ref != "" {
				accepted[ref] = true
			}
		}
		if r.incErr != nil {
			return &lib.Inconclusive{Msg: r.incErr.Error()}
		}
		nAcc, nRej := 0, 0
		for _, d := range declared {
			if accepted[stripPrefix(d)] {
				nAcc++
			} else {
				nRej++
			}
		}
		wantOK := len(declared) == 0 || nAcc > 0
		if nAcc > 0 && nRej > 0 {
			mixed = true
		}
		var hashesArg []string
		if len(declared) > 0 {
			hashesArg = declared
		}
		if err := c.materialize(e.W, r.cache, ver, hashesArg); err != nil {
			return &lib.Inconclusive{Msg: err.Error()}
		}
		if st.Wipe {
			os.RemoveAll(filepath.Join(e.W, "plz-out"))
		}
		poisoned := 0
		if st.Poison != "" && !c.DirCompress {
			for _, f := range cachedCopies(r.cache) {
				b, err := os.ReadFile(f)
				if err != nil {
					continue
				}
				nb := append([]byte{}, b...)
				if st.Poison == "swap" || len(nb) == 0 {
					nb = []byte("poison:" + string(b))
				} else {
					nb[len(nb)/2] ^= 0x01
				}
				os.Chmod(f, 0o644)
				os.Remove(f)
				if os.WriteFile(f, nb, 0o444) == nil {
					poisoned++
				}
			}
		}
		// A target that declares nothing is not this property's business: a corrupted cache copy is then
		// accepted as it is (cache integrity is C12/C13). The case ends here, since what is now in plz-out
		// and in the cache is no longer what the model thinks.
		if poisoned > 0 {
			cacheDirty = true // corrupted entries stay in the cache until a rebuild overwrites them
		}
		if len(declared) == 0 && cacheDirty {
			o.Label("ended:nothing-declared-and-cache-corrupted")
			break
		}
		lib.ResetActions(e.W)
		where := fmt.Sprintf("step %d/%d (%s, kind %s, hashfunction=%s checkers=%v, content v%d, declared %q, accepted by reference: %d, wipe=%v, cached copies corrupted=%d; earlier: %v)",
			si+1, len(c.Steps), st.Cmd, c.Kind, c.hashFunction(), c.checkers(), ver, declared, nAcc, st.Wipe, poisoned, trail)
		if st.Cmd == "hash" {
			res := plz.Run(lib.BuildTimeout, "hash", "//p:t")
			if res.TimedOut {
				return &lib.Inconclusive{Msg: "plz hash timed out: " + where}
			}
			if strings.Contains(res.Stderr, "panic:") {
				return lib.Failf("go-panic", "%s\n%s", where, res.Brief())
			}
			m := hashLine.FindStringSubmatch(res.Stdout)
			if res.Exit != 0 || m == nil {
				return lib.Failf("hash-command-failed", "%s: `plz hash //p:t` must report the hash whatever is declared\n%s", where, res.Brief())
			}
			// With nothing declared the combined hash of several outputs (or of a directory) also covers the
			// output names, so the printed value is only comparable when something is declared or the output
			// is one regular file.
			// `plz hash` tolerates a mismatch on the target it is asked about, so it also reports the hash of
			// a corrupted cache copy: only comparable while the cache is known to be intact.
			comparable := (len(declared) > 0 || (c.nFiles() == 1 && c.Kind != "dir")) && !cacheDirty
			if want := r.reference(c.hashFunction(), ver); comparable && want != "" && m[1] != want {
				return lib.Failf("hash-command-disagrees", "%s: `plz hash` printed %s, reference is %s", where, m[1], want)
			}
			trail = append(trail, fmt.Sprintf("hash(v%d)", ver))
			o.Label("step:hash")
			continue
		}
		args := []string{"build"}
		if st.Keep {
			args = append(args, "--keep_going")
		}
		args = append(args, "//p:dep")
		res := plz.Run(lib.BuildTimeout, args...)
		if res.TimedOut {
			return &lib.Inconclusive{Msg: "plz build timed out: " + where}
		}
		if strings.Contains(res.Stderr, "panic:") || strings.Contains(res.Stderr, "fatal error:") {
			return lib.Failf("go-panic", "%s\n%s", where, res.Brief())
		}
		ev := lib.ReadActions(e.W)
		ranDep := false
		for _, a := range ev {
			if a.Kind == "S" && a.Label == "dep" {
				ranDep = true
			}
		}
		tCached := false
		for _, d := range res.Terminal("Build")["//p:t"] {
			if strings.Contains(d, "Cached") {
				tCached = true
			}
		}
		if poisoned > 0 && st.Wipe {
			poisonMet = true
			o.Label("corrupted-cache-copy-met")
		}
		if tCached {
			cachedSeen = true
			o.Label("t-restored-from-cache")
		}
		if !wantOK {
			o.Label("step:must-fail")
			if res.Exit == 0 {
				return lib.Failf("mismatch-accepted", "%s: no declared value matches the outputs, but the build succeeded\n%s", where, res.Brief())
			}
			if ranDep {
				return lib.Failf("dependent-ran-after-mismatch", "%s: //p:dep's command ran although //p:t failed hash verification\nlog: %v", where, ev)
			}
			trail = append(trail, fmt.Sprintf("build(v%d)=fail", ver))
			continue
		}
		o.Label("step:must-succeed")
		if res.Exit != 0 {
			cls := "match-rejected"
			if poisoned > 0 {
				cls = "match-rejected-after-corrupted-cache"
			}
			return lib.Failf(cls, "%s: a declared value matches the outputs (or nothing is declared) but the build failed\n%s", where, res.Brief())
		}
		// outputs in plz-out must be the current version's bytes
		got, err := os.ReadFile(filepath.Join(e.W, "plz-out", "gen", "p", "dep.out"))
		if err != nil {
			return lib.Failf("output-missing", "%s: build succeeded but dep.out is missing: %v", where, err)
		}
		if string(got) != c.expectedContent(ver) {
			return lib.Failf("wrong-output-after-success", "%s: dep.out = %q, want %q (t restored from cache: %v)", where, got, c.expectedContent(ver), tCached)
		}
		for i, want := range c.Versions[ver] {
			var p string
			switch c.Kind {
			case "dir":
				p = filepath.Join("d", fmt.Sprintf("f%d", i))
			case "filegroup":
				p = fmt.Sprintf("in%d", i)
			default:
				p = fmt.Sprintf("o%d", i)
			}
			b, err := os.ReadFile(filepath.Join(e.W, "plz-out", "gen", "p", p))
			if err != nil || string(b) != want {
				return lib.Failf("wrong-output-after-success", "%s: plz-out/gen/p/%s = %q (%v), want %q (t restored from cache: %v)", where, p, b, err, want, tCached)
			}
		}
		trail = append(trail, fmt.Sprintf("build(v%d)=ok", ver))
	}
	o.Label("kind:" + c.Kind)
	o.LabelIf(mixed, "mixed-list")
	o.LabelIf(c.HashFunction != "" || len(c.HashCheckers) > 0, "non-default-algorithms")
	o.NonTrivial(mixed || cachedSeen || poisonMet)
	o.Sample(map[string]any{"kind": c.Kind, "hashfunction": c.hashFunction(), "checkers": c.checkers(), "steps": trail, "mixed": mixed, "cached": cachedSeen, "corrupted_cache_met": poisonMet})
	return nil
}

// ---- generator -------------------------------------------------------------------------------------

func genSpec(t *rapid.T, c *Case) HashSpec {
	kind := rapid.SampledFrom([]string{"correct", "correct", "correct", "other", "flip", "flip", "truncated", "extended", "firstfile", "concat", "junk"}).Draw(t, "hkind")
	s := HashSpec{Kind: kind}
	// any of the four algorithms, configured or not
	s.Algo = rapid.SampledFrom(algos).Draw(t, "halgo")
	if rapid.IntRange(0, 2).Draw(t, "usehf") == 0 {
		s.Algo = "" // = hashfunction
	}
	switch kind {
	case "correct", "other", "flip":
		a := s.Algo
		if a == "" {
			a = c.hashFunction()
		}
		s.Prefix = rapid.SampledFrom([]string{"", "", a + ": ", a + ":"}).Draw(t, "prefix")
	}
	switch kind {
	case "other":
		s.Ver = rapid.IntRange(0, len(c.Versions)-1).Draw(t, "over")
	case "flip":
		s.Pos = rapid.IntRange(0, 63).Draw(t, "pos")
	case "junk":
		s.Junk = rapid.SampledFrom([]string{"deadbeef", "0", "zz", "sha256: 00", "da39a3ee5e6b4b0d3255bfef95601890afd80709", "e3b0c44298fc1c149afbf4c8996fb92427ae41e4649b934ca495991b7852b855"}).Draw(t, "junk")
	}
	return s
}

func gen(t *rapid.T) Case {
	c := Case{Kind: rapid.SampledFrom([]string{"file", "file", "files", "files", "dir", "filegroup"}).Draw(t, "kind")}
	if rapid.IntRange(0, 2).Draw(t, "cfg") > 0 {
		c.HashFunction = rapid.SampledFrom(algos).Draw(t, "hashfunction")
	}
	if rapid.IntRange(0, 2).Draw(t, "cfg2") > 0 {
		n := rapid.IntRange(1, 3).Draw(t, "ncheckers")
		c.HashCheckers = rapid.Permutation(algos).Draw(t, "checkers")[:n]
	}
	c.DirCompress = rapid.IntRange(0, 5).Draw(t, "dircompress") == 0
	nf := 1
	switch c.Kind {
	case "files":
		nf = rapid.IntRange(2, 3).Draw(t, "nfiles")
	case "dir", "filegroup":
		nf = rapid.IntRange(1, 2).Draw(t, "nfiles")
	}
	nv := rapid.IntRange(2, 3).Draw(t, "nversions")
	content := rapid.SampledFrom([]string{"a", "b", "ab", "hello\n", "", "x y\n", "ba"})
	seen := map[string]bool{}
	for len(c.Versions) < nv {
		v := make([]string, nf)
		for i := range v {
			v[i] = content.Draw(t, "content")
		}
		k := strings.Join(v, "\x00")
		if seen[k] {
			v[0] += fmt.Sprintf("#%d", len(c.Versions))
			k = strings.Join(v, "\x00")
		}
		seen[k] = true
		c.Versions = append(c.Versions, v)
	}
	if rapid.IntRange(0, 4).Draw(t, "scenario") == 0 {
		// steered history: a state with a correct declared hash is built (and cached), then plz-out is wiped
		// and the cached copy corrupted: the copy must be rejected, the target rebuilt, and the *rebuilt*
		// output (not the rejected copy, nor whatever was hashed before) is what gets verified - so the
		// build succeeds; a third build of the same state must then be a no-op success as well.
		decl := []HashSpec{{Kind: "correct", Algo: rapid.SampledFrom([]string{"", "sha1", "sha256"}).Draw(t, "scenario_algo")}}
		if c.HashCheckers != nil && decl[0].Algo != "" {
			c.HashCheckers = append(c.HashCheckers, decl[0].Algo)
		}
		v := rapid.IntRange(0, nv-1).Draw(t, "scenario_ver")
		c.Steps = []Step{
			{Cmd: "build", Ver: v, Hashes: decl},
			{Cmd: "build", Ver: v, Hashes: decl, Wipe: true, Poison: rapid.SampledFrom([]string{"flip", "swap"}).Draw(t, "scenario_poison")},
			{Cmd: "build", Ver: v, Hashes: decl},
		}
		c.DirCompress = false
		return c
	}
	ns := rapid.IntRange(2, 5).Draw(t, "nsteps")
	ver := 0
	var prev []HashSpec
	for i := 0; i < ns; i++ {
		st := Step{Cmd: "build", Ver: ver}
		if rapid.IntRange(0, 7).Draw(t, "hashcmd") == 0 {
			st.Cmd = "hash"
		}
		switch rapid.IntRange(0, 3).Draw(t, "listop") {
		case 0:
			st.Hashes = prev // unchanged list: the same definition built again
		default:
			n := rapid.IntRange(0, 4).Draw(t, "nhashes")
			if n == 0 && rapid.Bool().Draw(t, "atleastone") {
				n = 1
			}
			for j := 0; j < n; j++ {
				st.Hashes = append(st.Hashes, genSpec(t, &c))
			}
		}
		prev = st.Hashes
		if i > 0 && rapid.IntRange(0, 3).Draw(t, "edit") == 0 {
			ver = rapid.IntRange(0, nv-1).Draw(t, "ver")
			st.Ver = ver
		}
		if i > 0 {
			st.Wipe = rapid.IntRange(0, 2).Draw(t, "wipe") == 0
			if rapid.IntRange(0, 2).Draw(t, "poison") == 0 {
				st.Poison = rapid.SampledFrom([]string{"flip", "swap"}).Draw(t, "poisonkind")
				st.Wipe = st.Wipe || rapid.IntRange(0, 3).Draw(t, "poisonwipe") > 0
			}
		}
		st.Keep = rapid.IntRange(0, 4).Draw(t, "keep") == 0
		c.Steps = append(c.Steps, st)
	}
	return c
}

func TestC35(t *testing.T) {
	lib.Check(t, spec, lib.Scale(20, 800), gen, run)
}
