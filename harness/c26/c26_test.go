// C26: test outcomes are parsed and summarised faithfully.
package c26

import (
	"errors"
	"fmt"
	"os"
	"path/filepath"
	"regexp"
	"sort"
	"strconv"
	"strings"
	"sync"
	"testing"
	"time"

	"github.com/thought-machine/please/src/cli"
	"github.com/thought-machine/please/src/core"
	plztest "github.com/thought-machine/please/src/test"
	"pgregory.net/rapid"

	"verifharness/lib"
)

func TestMain(m *testing.M) { lib.Main(m) }

var spec = lib.Spec{
	ID: "C26",
	Rule: "outcome sets: 1-3 result files, each in one of the supported formats (JUnit <testsuites>, single <testsuite>, bare <testcase>, UnitTest++ <test>, `go test -v` text), 0-3 suites of 0-6 cases with outcomes pass/fail/error/skip, " +
		"Surefire flakyFailure/flakyError (flaky pass) and rerunFailure/rerunError children, repeated case names, names/classnames/messages with XML metacharacters, quotes, whitespace, non-ASCII, `]]>`; go subtests, parallel tests, repeated runs; " +
		"rendered by the harness's own writers with layout variations (declaration, indentation, CDATA, single-quoted attributes, numeric character references, comments). " +
		"Oracles: (parse) test.VerifParseResults gives Tests/Passes/Failures/Errors/Skips/FlakyPasses and the multiset of (outcome, classname, name) equal to the generated ones, and AllSucceeded <=> no failed/errored case; " +
		"(mangle) the same files with 1-4 byte-level damages (overwrite, truncate, delete, duplicate tail) must not crash the parser; (output) parseTestOutput with an exit status: consistent status keeps the counts, an inconsistent one never yields a passing suite; " +
		"(e2e) `plz test` on gentest targets whose k-th run writes the k-th generated results file to $RESULTS_FILE with `flaky = n`: number of runs = first all-ok run (at most n), target passes <=> such a run exists, exit status 0 <=> all targets pass, per-target summary counts agree. " +
		"Non-trivial = >= 3 distinct outcome kinds, or a name that needs escaping, or a flaky pass; distinct = canonical JSON of the case",
	Assumptions: []string{
		"a test case carries exactly one primary outcome element (failure | error | skipped | none)",
		"go test output has no error outcome (pass/fail/skip only); a parent fails iff it or one of its subtests fails",
		"e2e: a case that never passes has the same failing kind in every run, and skipped cases are skipped in every run (other mixes have no single documented classification)",
	},
}

// ---- cases -----------------------------------------------------------------------------------------

type parseCase struct {
	Files []TFile
}

type outputCase struct {
	Files  []TFile
	Exit   int
	Target string // name of the test target (synthetic results are named after it)
}

type e2eRun struct {
	Files []TFile
	Exit  int
}

type e2eTarget struct {
	Name  string
	Flaky int // value of the flaky attribute (0 = not set)
	Runs  []e2eRun
}

type e2eCase struct {
	Targets []e2eTarget
}

// mangleCase: rendered files with byte-level damage; the parser may reject them but must not crash.
type mangleCase struct {
	Files []TFile
	Muts  []mut
}

type mut struct {
	File, Pos, Kind, Byte int
}

type anyCase struct {
	Mangle *mangleCase `json:",omitempty"`
	Parse  *parseCase  `json:",omitempty"`
	Output *outputCase `json:",omitempty"`
	E2E    *e2eCase    `json:",omitempty"`
}

// ---- generators ------------------------------------------------------------------------------------

func uni(t *rapid.T, n int, label string) int {
	if n <= 1 {
		return 0
	}
	if n <= 8 {
		return rapid.IntRange(0, n-1).Draw(t, label)
	}
	v, span := 0, 1
	for span < n*4 {
		v = v*8 + rapid.IntRange(0, 7).Draw(t, label)
		span *= 8
	}
	return v % n
}

func pick(t *rapid.T, xs []string, label string) string { return xs[uni(t, len(xs), label)] }

var xmlNames = []string{
	"testFoo", "test_bar", "testBaz", "test one", "a<b", "x&y", `q"uote`, "it's", "café", "✓ done", "tab\there", "nl\nhere",
	" lead", "trail ", "a]]>b", "日本語", "test[param-1]", "Test/Sub", "&amp;", "&lt;literal", "<!--c-->", "t", "TestFoo", "x > y && z",
}
var xmlClasses = []string{"", "", "pkg.Class", "pkg.Other", "a<b>", "C&D", `"Q"`, "naïve.Tést"}
var messages = []string{"", "expected 1 got 2", "a < b && c > d", `said "no"`, "it's broken", "line1\nline2", "ünï", "]]>", "\ttabbed", "100%"}
var types = []string{"", "AssertionError", "java.lang.Exception", "E<T>", "a&b"}
var bodies = []string{"", "Traceback:\n  File \"x.py\", line 1\nAssertionError", "<trace> & more", "at a.b(C.java:1)\n\tat d.e(F.java:2)", "]]>", "plain"}
var goNames = []string{"TestFoo", "TestBar", "TestBaz", "TestÉ", `Test<x>&"y'`, "Test_under", "TestA", "TestB", "TestLong_name_with_many_parts", "Test世界"}
var goSubNames = []string{"sub", "case_1", "case_2", "a=b", "x<y", "ünï", "#00", "with_space", "q\"uote"}

func genKind(t *rapid.T, kinds []string) string { return pick(t, kinds, "kind") }

func genXMLCase(t *rapid.T, kinds []string) TCase {
	k := TCase{Name: pick(t, xmlNames, "name"), Class: pick(t, xmlClasses, "class"), Kind: genKind(t, kinds), Millis: uni(t, 3000, "ms")}
	switch k.Kind {
	case Pass:
		if uni(t, 4, "flaky") == 0 {
			k.FlakyF = uni(t, 3, "ff")
			k.FlakyE = uni(t, 2, "fe")
		}
		if uni(t, 4, "out") == 0 {
			k.Out = pick(t, messages, "outmsg")
		}
	case Fail, Error:
		if uni(t, 3, "rerun") == 0 {
			if k.Kind == Fail {
				k.RerunF = 1 + uni(t, 2, "rf")
			} else {
				k.RerunE = 1 + uni(t, 2, "re")
				// mixed: an errored case whose re-runs also *failed*; still one errored case
				// (core.TestSuite.Errors: "don't care about the presence of failures"; Failures: "no errors")
				if uni(t, 2, "mixed") == 0 {
					k.RerunF = 1 + uni(t, 2, "rf")
				}
			}
		}
	}
	if k.Kind != Pass || k.FlakyF+k.FlakyE > 0 {
		k.Msg, k.Type, k.Body = pick(t, messages, "msg"), pick(t, types, "type"), pick(t, bodies, "body")
	}
	return k
}

var allKinds = []string{Pass, Pass, Fail, Error, Skip}
var okKinds = []string{Pass, Pass, Pass, Skip}

func genXMLSuite(t *rapid.T, kinds []string, maxCases int) TSuite {
	s := TSuite{Package: pick(t, []string{"", "pkg", "a.b", "x<y"}, "spkg"), Name: pick(t, []string{"suite", "S&T", "", "my suite"}, "sname")}
	if uni(t, 4, "props") == 0 {
		s.Props = [][2]string{{"k", "v"}, {"a<b", "c&d"}}
	}
	n := uni(t, maxCases+1, "ncases")
	for i := 0; i < n; i++ {
		s.Cases = append(s.Cases, genXMLCase(t, kinds))
	}
	if len(s.Cases) > 0 && uni(t, 5, "dup") == 0 {
		// a repeated case (same name and classname), possibly with another outcome
		d := genXMLCase(t, kinds)
		d.Name, d.Class = s.Cases[0].Name, s.Cases[0].Class
		s.Cases = append(s.Cases, d)
	}
	return s
}

func genGoCase(t *rapid.T, kinds []string, name string, depth int) TCase {
	k := TCase{Name: name, Kind: genKind(t, kinds), Millis: uni(t, 3000, "ms")}
	if k.Kind == Error {
		k.Kind = Fail // go has no error outcome
	}
	if uni(t, 3, "goout") == 0 {
		k.Out = pick(t, []string{"hello", "a < b & c", "é", "two\nlines", `q"`}, "gooutmsg")
	}
	if k.Kind != Pass {
		k.Msg = pick(t, []string{"expected 1 got 2", "boom", "a < b", "skipping: no network", ""}, "gomsg")
	}
	if depth < 2 && k.Kind != Skip && uni(t, 3, "subs") == 0 {
		n := 1 + uni(t, 3, "nsubs")
		used := map[string]int{}
		for i := 0; i < n; i++ {
			sn := pick(t, goSubNames, "subname")
			used[sn]++
			if used[sn] > 1 {
				sn = fmt.Sprintf("%s#%02d", sn, used[sn]-1) // what the testing package does with repeated subtest names
			}
			sub := genGoCase(t, kinds, name+"/"+sn, depth+1)
			if sub.Kind == Fail {
				k.Kind = Fail // a failing subtest fails its parent
			}
			k.Subs = append(k.Subs, sub)
		}
	}
	return k
}

func genFile(t *rapid.T, kinds []string) TFile {
	f := TFile{Format: pick(t, []string{"junit-suites", "junit-suites", "junit-suite", "junit-bare", "unittest", "gotest", "gotest"}, "format")}
	f.Header, f.Indent, f.CDATA, f.SQuote, f.NumRef, f.Comments = uni(t, 2, "hdr") == 0, uni(t, 2, "ind") == 0, uni(t, 2, "cdata") == 0, uni(t, 3, "sq") == 0, uni(t, 3, "nr") == 0, uni(t, 4, "cm") == 0
	switch f.Format {
	case "junit-suites":
		n := uni(t, 4, "nsuites")
		for i := 0; i < n; i++ {
			f.Suites = append(f.Suites, genXMLSuite(t, kinds, 6))
		}
	case "junit-suite":
		f.Suites = []TSuite{genXMLSuite(t, kinds, 6)}
	case "junit-bare":
		f.Suites = []TSuite{{Cases: []TCase{genXMLCase(t, kinds)}}}
	case "unittest":
		s := TSuite{}
		n := uni(t, 5, "ncases")
		for i := 0; i < n; i++ {
			k := TCase{Name: pick(t, xmlNames, "name"), Class: pick(t, []string{"DefaultSuite", "S<1>", "a&b"}, "usuite"), Kind: genKind(t, kinds), Millis: uni(t, 3000, "ms")}
			if k.Kind == Error || k.Kind == Skip {
				k.Kind = Pass // UnitTest++ reports pass/fail only
			}
			if k.Kind == Fail {
				k.Msg = pick(t, messages, "msg")
			}
			s.Cases = append(s.Cases, k)
		}
		f.Suites = []TSuite{s}
	case "gotest":
		f.CDATA, f.SQuote, f.NumRef, f.Comments = false, false, false, false
		s := TSuite{Package: "pkg/path"}
		n := uni(t, 6, "ncases")
		f.Parallel = n >= 2 && uni(t, 4, "par") == 0
		seen := map[string]bool{}
		for i := 0; i < n; i++ {
			name := pick(t, goNames, "goname")
			if f.Parallel {
				if seen[name] {
					continue
				}
				seen[name] = true
			}
			k := genGoCase(t, kinds, name, 0)
			if f.Parallel {
				k.Subs = nil
			}
			s.Cases = append(s.Cases, k)
		}
		// repeated top-level names arise naturally (go test -count=2); the parallel rendering keeps names distinct
		f.Suites = []TSuite{s}
	}
	return f
}

func genFiles(t *rapid.T, kinds []string) []TFile {
	n := 1
	if uni(t, 4, "multi") == 0 {
		n = 2 + uni(t, 2, "nfiles")
	}
	var fs []TFile
	for i := 0; i < n; i++ {
		fs = append(fs, genFile(t, kinds))
	}
	return fs
}

func gen(t *rapid.T) anyCase {
	if uni(t, 8, "mangle") == 0 {
		mc := &mangleCase{Files: genFiles(t, allKinds)}
		n := 1 + uni(t, 4, "nmuts")
		for i := 0; i < n; i++ {
			mc.Muts = append(mc.Muts, mut{File: uni(t, len(mc.Files), "mf"), Pos: uni(t, 4096, "mp"), Kind: uni(t, 4, "mk"), Byte: uni(t, 256, "mb")})
		}
		return anyCase{Mangle: mc}
	}
	if uni(t, 4, "which") == 0 {
		oc := &outputCase{Files: genFiles(t, allKinds)}
		exp, _ := expectCounts(oc.Files)
		consistent := uni(t, 3, "consistent") != 0
		if exp.AllOK() != consistent {
			oc.Exit = 1
		}
		oc.Target = pick(t, []string{"t", "testFoo", "zz_target"}, "target")
		if collides(oc.Files, oc.Target) && known("synthetic-failure-merged-by-name") {
			oc.Target = "zz_target"
		}
		return anyCase{Output: oc}
	}
	return anyCase{Parse: &parseCase{Files: genFiles(t, allKinds)}}
}

// ---- in-process oracles ----------------------------------------------------------------------------

var quietOnce sync.Once

func quiet() { quietOnce.Do(func() { cli.InitLogging(1) }) }

func needsEscaping(s string) bool {
	return strings.ContainsAny(s, "<>&\"'\n\t") || strings.Contains(s, "]]>") || !isASCII(s)
}

func isASCII(s string) bool {
	for i := 0; i < len(s); i++ {
		if s[i] >= 0x80 {
			return false
		}
	}
	return true
}

func describe(files []TFile, o *lib.Obs) (Counts, []string) {
	exp, names := expectCounts(files)
	kinds := map[string]bool{}
	esc, flaky := false, false
	for _, f := range files {
		o.Label("format_" + f.Format)
		for _, k := range fileCases(f) {
			kinds[k.Kind] = true
			if needsEscaping(k.Name) || needsEscaping(k.Class) {
				esc = true
			}
			if k.Kind == Pass && k.FlakyF+k.FlakyE > 0 {
				flaky = true
			}
		}
	}
	o.LabelIf(len(files) > 1, "multi_file")
	o.LabelIf(esc, "name_needs_escaping")
	o.LabelIf(flaky, "flaky_pass")
	o.LabelIf(len(kinds) >= 3, "three_kinds")
	o.NonTrivial(len(kinds) >= 3 || esc || flaky)
	return exp, names
}

func kindOf(tc *core.TestCase) string {
	switch {
	case tc.Success() != nil:
		return Pass
	case tc.Skip() != nil:
		return Skip
	case len(tc.Errors()) > 0:
		return Error
	case len(tc.Failures()) > 0:
		return Fail
	}
	return "none"
}

func gotCounts(s *core.TestSuite) Counts {
	return Counts{Tests: s.Tests(), Passes: s.Passes(), Failures: s.Failures(), Errors: s.Errors(), Skips: s.Skips(), Flakes: s.FlakyPasses()}
}

func renderAll(files []TFile) [][]byte {
	var data [][]byte
	for _, f := range files {
		data = append(data, Render(f))
	}
	return data
}

func show(data [][]byte) string {
	var sb strings.Builder
	for i, d := range data {
		fmt.Fprintf(&sb, "--- file %d ---\n%s\n", i, d)
	}
	s := sb.String()
	if len(s) > 3000 {
		s = s[:3000] + "..."
	}
	return s
}

func expectedNames(files []TFile) []string {
	var names []string
	for _, f := range files {
		for _, k := range fileCases(f) {
			class := k.Class
			if f.Format == "unittest" {
				class = "" // the suite attribute names the suite, not the class
			}
			names = append(names, k.Kind+"|"+class+"|"+k.Name)
		}
	}
	sort.Strings(names)
	return names
}

func runParse(c parseCase, o *lib.Obs) error {
	quiet()
	exp, _ := describe(c.Files, o)
	data := renderAll(c.Files)
	suite, err := plztest.VerifParseResults(data)
	if err != nil {
		return lib.Failf("parse-error", "well-formed results rejected: %v\n%s", err, show(data))
	}
	got := gotCounts(&suite)
	if got != exp {
		return lib.Failf("counts-differ", "generated %v, please reports %v\n%s", exp, got, show(data))
	}
	var names []string
	for i := range suite.TestCases {
		tc := &suite.TestCases[i]
		names = append(names, kindOf(tc)+"|"+tc.ClassName+"|"+tc.Name)
	}
	sort.Strings(names)
	want := expectedNames(c.Files)
	if strings.Join(names, "\x00") != strings.Join(want, "\x00") {
		return lib.Failf("cases-differ", "generated cases (outcome|classname|name)\n  %q\nplease reports\n  %q\n%s", want, names, show(data))
	}
	if suite.TestCases.AllSucceeded() != exp.AllOK() {
		return lib.Failf("pass-verdict", "every case passed or skipped = %v but AllSucceeded() = %v\n%s", exp.AllOK(), suite.TestCases.AllSucceeded(), show(data))
	}
	return nil
}

// collides: some case without a classname is named like the target.
func collides(files []TFile, target string) bool {
	for _, f := range files {
		for _, k := range fileCases(f) {
			if k.Name == target && (k.Class == "" || f.Format == "unittest") {
				return true
			}
		}
	}
	return false
}

func runOutput(c outputCase, o *lib.Obs) error {
	quiet()
	exp, _ := describe(c.Files, o)
	o.Label("output")
	data := renderAll(c.Files)
	if c.Target == "" {
		c.Target = "zz_target"
	}
	target := core.NewBuildTarget(core.BuildLabel{PackageName: "pkg", Name: c.Target})
	target.Test = new(core.TestFields)
	target.StartTestSuite()
	var runErr error
	if c.Exit != 0 {
		runErr = errors.New("exit status " + strconv.Itoa(c.Exit))
	}
	suite := plztest.VerifParseTestOutput("", "", runErr, 10*time.Millisecond, target, data)
	got := gotCounts(&suite)
	consistent := exp.AllOK() == (c.Exit == 0)
	o.LabelIf(!consistent, "inconsistent_exit")
	if consistent {
		if got != exp {
			return lib.Failf("output-counts-differ", "exit status %d is consistent with the results, generated %v but the run is recorded as %v\n%s", c.Exit, exp, got, show(data))
		}
		if suite.TestCases.AllSucceeded() != exp.AllOK() {
			return lib.Failf("output-pass-verdict", "exit status %d, every case ok = %v, AllSucceeded() = %v", c.Exit, exp.AllOK(), suite.TestCases.AllSucceeded())
		}
		return nil
	}
	if suite.TestCases.AllSucceeded() {
		if c.Exit != 0 && collides(c.Files, c.Target) {
			return lib.Failf("synthetic-failure-merged-by-name", "exit status %d with all-ok results (%v): the synthetic failure is named after the target %q and was merged into the passing case of the same name, so the run counts as passed\n%s", c.Exit, exp, c.Target, show(data))
		}
		return lib.Failf("inconsistent-run-passes", "exit status %d contradicts the results (%v) yet the run counts as passed\n%s", c.Exit, exp, show(data))
	}
	return nil
}

// runMangle: damaged result files. Any verdict is acceptable except a crash (lib turns a panic into a violation).
func runMangle(c mangleCase, o *lib.Obs) error {
	quiet()
	data := renderAll(c.Files)
	for _, m := range c.Muts {
		if m.File >= len(data) || len(data[m.File]) == 0 {
			continue
		}
		d := data[m.File]
		p := m.Pos % len(d)
		switch m.Kind {
		case 0: // overwrite
			d[p] = byte(m.Byte)
		case 1: // truncate
			d = d[:p]
		case 2: // delete a byte
			d = append(d[:p:p], d[p+1:]...)
		default: // duplicate the tail
			d = append(d, d[p:]...)
		}
		data[m.File] = d
	}
	suite, err := plztest.VerifParseResults(data)
	o.LabelIf(err != nil, "mangled_rejected")
	if err == nil {
		// the count methods must work on whatever was parsed
		_ = gotCounts(&suite)
		_ = suite.TestCases.AllSucceeded()
	}
	return nil
}

func runAny(c anyCase, o *lib.Obs) error {
	switch {
	case c.Mangle != nil:
		o.Label("mangle")
		return runMangle(*c.Mangle, o)
	case c.Parse != nil:
		o.Label("parse")
		return runParse(*c.Parse, o)
	case c.Output != nil:
		return runOutput(*c.Output, o)
	case c.E2E != nil:
		o.Label("e2e")
		return runE2E(*c.E2E, o)
	}
	return nil
}

func TestC26(t *testing.T) {
	if lib.ReplayMode(t, spec, runAny) {
		return
	}
	lib.Check(t, spec, lib.Scale(5000, 500000), gen, runAny)
	if t.Failed() || os.Getenv("VERIF_PLZ") == "" {
		return
	}
	// the e2e count is not subject to the --cases override (that one sizes the in-process part)
	n := 12
	if lib.Thorough() {
		n = 300
	}
	if v, err := strconv.Atoi(os.Getenv("VERIF_E2E_CASES")); err == nil {
		n = v
	}
	_, shards := lib.Shard()
	checkE2E(t, (n+shards-1)/shards)
}

// ---- end to end ------------------------------------------------------------------------------------

func genE2E(t *rapid.T) anyCase {
	ec := &e2eCase{}
	nt := 1 + uni(t, 3, "targets")
	for i := 0; i < nt; i++ {
		tg := e2eTarget{Name: fmt.Sprintf("t%d", i), Flaky: []int{0, 0, 2, 3}[uni(t, 4, "flaky")]}
		runs := tg.Flaky
		if runs == 0 {
			runs = 1
		}
		// the case list is fixed per target; what varies per run is whether a flaky case passes yet
		base := genFiles(t, allKinds)
		if known("duplicate-case-names-merged") {
			base = dedupe(base)
		}
		passAt := map[string]int{} // run (1-based) from which a failing case passes; 0 = never
		for r := 1; r <= runs; r++ {
			files := cloneFiles(base)
			for fi := range files {
				for si := range files[fi].Suites {
					mutateRun(t, files[fi].Suites[si].Cases, r, runs, passAt, fmt.Sprintf("%d/%d", fi, si))
				}
			}
			exp, _ := expectCounts(files)
			run := e2eRun{Files: files}
			if !exp.AllOK() {
				run.Exit = 1
			}
			tg.Runs = append(tg.Runs, run)
		}
		ec.Targets = append(ec.Targets, tg)
	}
	return anyCase{E2E: ec}
}

// mutateRun turns, for runs after the first, failing cases into passes from a drawn run on (a flaky test).
// Surefire-style flaky/rerun children are dropped: in the e2e part retries are please's own.
func mutateRun(t *rapid.T, cases []TCase, r, runs int, passAt map[string]int, path string) {
	for i := range cases {
		k := &cases[i]
		k.FlakyF, k.FlakyE, k.RerunF, k.RerunE = 0, 0, 0, 0
		key := fmt.Sprintf("%s/%d", path, i)
		if len(k.Subs) > 0 {
			mutateRun(t, k.Subs, r, runs, passAt, key)
			if k.Kind != Skip {
				k.Kind = Pass
				for _, s := range k.Subs {
					if s.Kind == Fail {
						k.Kind = Fail
					}
				}
			}
			continue
		}
		if k.Kind != Fail && k.Kind != Error {
			continue
		}
		if r == 1 {
			if runs > 1 && uni(t, 3, "heals") != 0 {
				passAt[key] = 2 + uni(t, runs, "healat") // may be > runs: never within the allowance
			}
			continue
		}
		if at := passAt[key]; at != 0 && r >= at {
			k.Kind, k.Msg, k.Type, k.Body = Pass, "", "", ""
		}
	}
}

func cloneFiles(fs []TFile) []TFile {
	out := make([]TFile, len(fs))
	for i, f := range fs {
		out[i] = f
		out[i].Suites = make([]TSuite, len(f.Suites))
		for j, s := range f.Suites {
			out[i].Suites[j] = s
			out[i].Suites[j].Cases = cloneCases(s.Cases)
		}
	}
	return out
}

func cloneCases(cs []TCase) []TCase {
	out := make([]TCase, len(cs))
	for i, c := range cs {
		out[i] = c
		out[i].Subs = cloneCases(c.Subs)
	}
	return out
}

func known(class string) bool {
	if lib.Known("C26", class) {
		lib.Rec(spec).Excluded(class)
		return true
	}
	return false
}

// dedupe renames repeated (classname, name) pairs across all files of a target.
func dedupe(fs []TFile) []TFile {
	seen := map[string]int{}
	var fix func(cs []TCase, unittest bool)
	fix = func(cs []TCase, unittest bool) {
		for i := range cs {
			class := cs[i].Class
			if unittest {
				class = ""
			}
			key := class + "\x00" + cs[i].Name
			seen[key]++
			if seen[key] > 1 {
				old := cs[i].Name
				cs[i].Name = fmt.Sprintf("%s_%d", cs[i].Name, seen[key])
				renameSubs(cs[i].Subs, old, cs[i].Name)
			}
			fix(cs[i].Subs, unittest)
		}
	}
	for fi := range fs {
		for si := range fs[fi].Suites {
			fix(fs[fi].Suites[si].Cases, fs[fi].Format == "unittest")
		}
	}
	return fs
}

func renameSubs(cs []TCase, oldPrefix, newPrefix string) {
	for i := range cs {
		cs[i].Name = newPrefix + strings.TrimPrefix(cs[i].Name, oldPrefix)
		renameSubs(cs[i].Subs, oldPrefix, newPrefix)
	}
}

func checkE2E(t *testing.T, n int) {
	rapidE2E := func(rt *rapid.T) anyCase { return genE2E(rt) }
	os.Setenv("VERIF_SHRINKTIME", "120s")
	lib.Check(t, spec, n, rapidE2E, runAny)
}

var summaryRe = regexp.MustCompile(`(?m)^//pkg:(\S+) (\d+) tests? run in [^;]*; (\d+) passed(?:, (\d+) errored)?(?:, (\d+) failed)?(?:, (\d+) skipped)?(?:, (\d+) flakes?)?`)

func atoi(s string) int { n, _ := strconv.Atoi(s); return n }

// final classification of a case over the executed runs of a target
func finalCounts(tg e2eTarget, executed int) Counts {
	type hist struct {
		kinds []string
	}
	order := []string{}
	hs := map[string]*hist{}
	for r := 0; r < executed; r++ {
		for _, f := range tg.Runs[r].Files {
			for _, k := range fileCases(f) {
				class := k.Class
				if f.Format == "unittest" {
					class = ""
				}
				key := class + "\x00" + k.Name
				if hs[key] == nil {
					hs[key] = &hist{}
					order = append(order, key)
				}
				hs[key].kinds = append(hs[key].kinds, k.Kind)
			}
		}
	}
	var c Counts
	for _, key := range order {
		h := hs[key]
		has := func(kind string) bool {
			for _, k := range h.kinds {
				if k == kind {
					return true
				}
			}
			return false
		}
		c.Tests++
		switch {
		case has(Pass) && (has(Fail) || has(Error)):
			c.Flakes++
		case has(Pass):
			c.Passes++
		case has(Skip):
			c.Skips++
		case has(Error):
			c.Errors++
		default:
			c.Failures++
		}
	}
	return c
}

func hasDuplicates(tg e2eTarget) bool {
	for _, r := range tg.Runs {
		seen := map[string]bool{}
		for _, f := range r.Files {
			for _, k := range fileCases(f) {
				class := k.Class
				if f.Format == "unittest" {
					class = ""
				}
				key := class + "\x00" + k.Name
				if seen[key] {
					return true
				}
				seen[key] = true
			}
		}
	}
	return false
}

func runE2E(c e2eCase, o *lib.Obs) error {
	dir, err := os.MkdirTemp(scratchBase(), "c26-")
	if err != nil {
		return &lib.Inconclusive{Msg: err.Error()}
	}
	defer os.RemoveAll(dir)
	root := filepath.Join(dir, "repo")
	aux := filepath.Join(dir, "aux")
	os.MkdirAll(filepath.Join(root, "pkg"), 0o755)
	os.MkdirAll(aux, 0o755)
	os.WriteFile(filepath.Join(root, ".plzconfig"), []byte(lib.BaseConfig+lib.NoCacheConfig), 0o644)
	var build strings.Builder
	kinds := map[string]bool{}
	anyFlakyPass, esc := false, false
	for _, tg := range c.Targets {
		for r, run := range tg.Runs {
			rd := filepath.Join(aux, tg.Name, fmt.Sprintf("run%d", r+1))
			os.MkdirAll(rd, 0o755)
			for i, f := range run.Files {
				os.WriteFile(filepath.Join(rd, fmt.Sprintf("r%d.%s", i, map[bool]string{true: "txt", false: "xml"}[f.Format == "gotest"])), Render(f), 0o644)
				for _, k := range fileCases(f) {
					kinds[k.Kind] = true
					if needsEscaping(k.Name) || needsEscaping(k.Class) {
						esc = true
					}
				}
			}
			os.WriteFile(filepath.Join(rd, "exit"), []byte(strconv.Itoa(run.Exit)), 0o644)
		}
		td := filepath.Join(aux, tg.Name)
		// the k-th execution publishes the k-th results (the last one again if please runs it more often than allowed)
		script := fmt.Sprintf(`n=$(cat %[1]s/count 2>/dev/null || echo 0); n=$((n+1)); echo $n > %[1]s/count; d=%[1]s/run$n; [ -d $d ] || d=%[1]s/run%[2]d; `+
			`if [ $(ls $d | grep -c '^r') -gt 1 ]; then mkdir -p $RESULTS_FILE && cp $d/r* $RESULTS_FILE/; else cp $d/r0.* $RESULTS_FILE; fi; exit $(cat $d/exit)`, td, len(tg.Runs))
		fmt.Fprintf(&build, "gentest(\n    name = %q,\n    test_cmd = %q,\n", tg.Name, script)
		if tg.Flaky != 0 {
			fmt.Fprintf(&build, "    flaky = %d,\n", tg.Flaky)
		}
		build.WriteString(")\n\n")
	}
	os.WriteFile(filepath.Join(root, "pkg", "BUILD"), []byte(build.String()), 0o644)
	plz := &lib.Plz{Root: root}
	res := plz.Run(5*time.Minute, "test", "--detailed", "//pkg:all")
	if res.TimedOut {
		return &lib.Inconclusive{Msg: "plz test timed out"}
	}
	out := res.Stdout + "\n" + res.Stderr
	if strings.Contains(out, "Failed to parse") || strings.Contains(out, "couldn't be found") {
		return &lib.Inconclusive{Msg: "plz could not run the generated repo: " + res.Brief()}
	}
	summaries := map[string]Counts{}
	for _, m := range summaryRe.FindAllStringSubmatch(out, -1) {
		summaries[m[1]] = Counts{Tests: atoi(m[2]), Passes: atoi(m[3]), Errors: atoi(m[4]), Failures: atoi(m[5]), Skips: atoi(m[6]), Flakes: atoi(m[7])}
	}
	allPass := true
	for _, tg := range c.Targets {
		allowance := len(tg.Runs)
		wantRuns := allowance
		passes := false
		for r, run := range tg.Runs {
			if exp, _ := expectCounts(run.Files); exp.AllOK() {
				wantRuns, passes = r+1, true
				break
			}
		}
		if !passes {
			allPass = false
		}
		o.LabelIf(tg.Flaky > 0, "e2e_flaky_target")
		o.LabelIf(passes && wantRuns > 1, "e2e_flaky_pass")
		if passes && wantRuns > 1 {
			anyFlakyPass = true
		}
		b, _ := os.ReadFile(filepath.Join(aux, tg.Name, "count"))
		gotRuns := atoi(strings.TrimSpace(string(b)))
		if gotRuns != wantRuns {
			return lib.Failf("e2e-run-count", "target %s (flaky=%d): expected %d runs (first all-ok run within the allowance of %d), please ran the test %d times\n%s", tg.Name, tg.Flaky, wantRuns, allowance, gotRuns, res.Brief())
		}
		got, ok := summaries[tg.Name]
		if !ok {
			exp1, _ := expectCounts(tg.Runs[0].Files)
			if exp1.Tests == 0 {
				continue // nothing to summarise
			}
			return lib.Failf("e2e-no-summary", "no summary line for //pkg:%s\n%s", tg.Name, res.Brief())
		}
		want := finalCounts(tg, wantRuns)
		if hasDuplicates(tg) {
			o.Label("e2e_duplicate_names")
			// repeated names: please may legitimately present them as executions of one case; only the verdict is compared
			if (got.Failures+got.Errors == 0) != passes {
				return lib.Failf("duplicate-case-names-merged", "target %s: a case failed in a run that counts (no retry allowance left) yet please reports no failed/errored case: %v\n%s", tg.Name, got, res.Brief())
			}
			continue
		}
		if got != want {
			return lib.Failf("e2e-counts-differ", "target %s after %d run(s): expected %v, please's summary says %v\n%s", tg.Name, wantRuns, want, got, res.Brief())
		}
	}
	if (res.Exit == 0) != allPass {
		return lib.Failf("e2e-exit-status", "all targets pass = %v but plz test exited %d\n%s", allPass, res.Exit, res.Brief())
	}
	o.NonTrivial(len(kinds) >= 3 || esc || anyFlakyPass)
	o.Sample(map[string]any{"targets": len(c.Targets), "summary": summaries, "exit": res.Exit})
	return nil
}

func scratchBase() string {
	if d := os.Getenv("VERIF_SCRATCH"); d != "" {
		os.MkdirAll(d, 0o755)
		return d
	}
	return os.TempDir()
}
