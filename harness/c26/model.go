package c26

import (
	"fmt"
	"sort"
	"strings"
)

// Outcome kinds of a generated test case.
const (
	Pass  = "pass"
	Fail  = "fail"
	Error = "error"
	Skip  = "skip"
)

// TCase is one generated test case (one <testcase> element / one go test or subtest).
type TCase struct {
	Class string `json:",omitempty"`
	Name  string
	Kind  string // pass | fail | error | skip
	// JUnit only: earlier failed attempts recorded next to a final pass (Surefire's flakyFailure/flakyError)
	FlakyF int `json:",omitempty"`
	FlakyE int `json:",omitempty"`
	// JUnit only: further failed attempts recorded next to a final failure/error (rerunFailure/rerunError)
	RerunF int `json:",omitempty"`
	RerunE int `json:",omitempty"`
	Msg    string  `json:",omitempty"`
	Type   string  `json:",omitempty"`
	Body   string  `json:",omitempty"`
	Out    string  `json:",omitempty"`
	Millis int     `json:",omitempty"`
	Subs   []TCase `json:",omitempty"` // go format only: subtests
}

// TSuite is a group of cases (a <testsuite>).
type TSuite struct {
	Package string `json:",omitempty"`
	Name    string `json:",omitempty"`
	Props   [][2]string `json:",omitempty"`
	Cases   []TCase
}

// TFile is one results file.
type TFile struct {
	Format string // junit-suites | junit-suite | junit-bare | unittest | gotest
	Suites []TSuite
	// rendering variations
	Header   bool `json:",omitempty"` // <?xml ...?> declaration / go: trailing "ok pkg 0.1s" summary line
	Indent   bool `json:",omitempty"`
	CDATA    bool `json:",omitempty"`
	SQuote   bool `json:",omitempty"` // single-quoted attributes
	NumRef   bool `json:",omitempty"` // non-ASCII as numeric character references
	Comments bool `json:",omitempty"`
	Parallel bool `json:",omitempty"` // go: top-level tests are t.Parallel()
}

// Counts is what Please must report.
type Counts struct {
	Tests, Passes, Failures, Errors, Skips, Flakes int
}

func (c Counts) String() string {
	return fmt.Sprintf("tests=%d passed=%d failed=%d errored=%d skipped=%d flaky=%d", c.Tests, c.Passes, c.Failures, c.Errors, c.Skips, c.Flakes)
}

// AllOK: every case passed or was skipped.
func (c Counts) AllOK() bool { return c.Failures == 0 && c.Errors == 0 }

func (c *Counts) add(k TCase) {
	c.Tests++
	switch k.Kind {
	case Pass:
		if k.FlakyF+k.FlakyE > 0 {
			c.Flakes++
		} else {
			c.Passes++
		}
	case Fail:
		c.Failures++
	case Error:
		c.Errors++
	case Skip:
		c.Skips++
	}
}

// flat lists every case of a file, subtests included (each go subtest is reported as a case).
func flat(cs []TCase, out []TCase) []TCase {
	for _, c := range cs {
		out = append(out, c)
		out = flat(c.Subs, out)
	}
	return out
}

func fileCases(f TFile) []TCase {
	var out []TCase
	for _, s := range f.Suites {
		out = flat(s.Cases, out)
	}
	return out
}

func expectCounts(files []TFile) (Counts, []string) {
	var c Counts
	var names []string
	for _, f := range files {
		for _, k := range fileCases(f) {
			c.add(k)
			names = append(names, k.Kind+"|"+k.Class+"|"+k.Name)
		}
	}
	sort.Strings(names)
	return c, names
}

// ---- JUnit XML writer (the harness's own; independent of please's serialiser) ----------------------

type xmlw struct {
	sb     strings.Builder
	f      TFile
	depth  int
	cmtSeq int
}

func (w *xmlw) esc(s string, attr bool) string {
	var sb strings.Builder
	for _, r := range s {
		switch {
		case r == '&':
			sb.WriteString("&amp;")
		case r == '<':
			sb.WriteString("&lt;")
		case r == '>':
			sb.WriteString("&gt;")
		case r == '"' && attr:
			sb.WriteString("&quot;")
		case r == '\'' && attr:
			sb.WriteString("&apos;")
		case (r == '\n' || r == '\t' || r == '\r') && attr:
			fmt.Fprintf(&sb, "&#%d;", r) // literal whitespace in attributes is normalised to a space by XML
		case r == '\r':
			sb.WriteString("&#13;")
		case r > 126 && w.f.NumRef:
			fmt.Fprintf(&sb, "&#x%X;", r)
		default:
			sb.WriteRune(r)
		}
	}
	return sb.String()
}

func (w *xmlw) attr(name, val string) string {
	q := `"`
	if w.f.SQuote {
		q = `'`
	}
	return " " + name + "=" + q + w.esc(val, true) + q
}

func (w *xmlw) line(s string) {
	if w.f.Indent {
		w.sb.WriteString(strings.Repeat("  ", w.depth))
	}
	w.sb.WriteString(s)
	if w.f.Indent {
		w.sb.WriteByte('\n')
	}
	if w.f.Comments && w.depth > 0 {
		w.cmtSeq++
		if w.cmtSeq%3 == 0 {
			w.sb.WriteString("<!-- <testcase name=\"not a case\"/> -->")
		}
	}
}

func (w *xmlw) text(s string) string {
	if w.f.CDATA && !strings.Contains(s, "]]>") && !strings.Contains(s, "\r") {
		return "<![CDATA[" + s + "]]>"
	}
	return w.esc(s, false)
}

func (w *xmlw) failureLike(tag string, k TCase, n int) {
	msg := k.Msg
	if n > 0 {
		msg = fmt.Sprintf("%s (attempt %d)", k.Msg, n)
	}
	a := ""
	if msg != "" {
		a += w.attr("message", msg)
	}
	a += w.attr("type", k.Type)
	if k.Body == "" {
		w.line("<" + tag + a + "/>")
	} else {
		w.line("<" + tag + a + ">" + w.text(k.Body) + "</" + tag + ">")
	}
}

func (w *xmlw) testcase(k TCase) {
	a := w.attr("name", k.Name)
	if k.Class != "" {
		a += w.attr("classname", k.Class)
	}
	a += w.attr("time", fmt.Sprintf("%d.%03d", k.Millis/1000, k.Millis%1000))
	plain := k.Kind == Pass && k.FlakyF+k.FlakyE == 0 && k.Out == ""
	if plain {
		w.line("<testcase" + a + "/>")
		return
	}
	w.line("<testcase" + a + ">")
	w.depth++
	switch k.Kind {
	case Fail:
		w.failureLike("failure", k, 0)
	case Error:
		w.failureLike("error", k, 0)
	case Skip:
		if k.Msg != "" {
			w.line("<skipped" + w.attr("message", k.Msg) + "/>")
		} else {
			w.line("<skipped/>")
		}
	}
	for i := 0; i < k.FlakyF; i++ {
		w.failureLike("flakyFailure", k, i+1)
	}
	for i := 0; i < k.FlakyE; i++ {
		w.failureLike("flakyError", k, i+1)
	}
	for i := 0; i < k.RerunF; i++ {
		w.failureLike("rerunFailure", k, i+1)
	}
	for i := 0; i < k.RerunE; i++ {
		w.failureLike("rerunError", k, i+1)
	}
	if k.Out != "" {
		w.line("<system-out>" + w.text(k.Out) + "</system-out>")
	}
	w.depth--
	w.line("</testcase>")
}

func (w *xmlw) suite(s TSuite) {
	var c Counts
	for _, k := range s.Cases {
		c.add(k)
	}
	a := w.attr("name", s.Name)
	if s.Package != "" {
		a += w.attr("package", s.Package)
	}
	a += w.attr("tests", fmt.Sprint(c.Tests)) + w.attr("failures", fmt.Sprint(c.Failures)) + w.attr("errors", fmt.Sprint(c.Errors)) +
		w.attr("skipped", fmt.Sprint(c.Skips)) + w.attr("time", "0.250") + w.attr("timestamp", "2024-01-02T03:04:05")
	w.line("<testsuite" + a + ">")
	w.depth++
	if len(s.Props) > 0 {
		w.line("<properties>")
		w.depth++
		for _, p := range s.Props {
			w.line("<property" + w.attr("name", p[0]) + w.attr("value", p[1]) + "/>")
		}
		w.depth--
		w.line("</properties>")
	}
	for _, k := range s.Cases {
		w.testcase(k)
	}
	w.depth--
	w.line("</testsuite>")
}

// RenderXML renders the JUnit-family formats.
func RenderXML(f TFile) []byte {
	w := &xmlw{f: f}
	if f.Header || f.Format == "unittest" {
		w.sb.WriteString(`<?xml version="1.0" encoding="UTF-8"?>`)
		w.sb.WriteString("\n")
	}
	switch f.Format {
	case "junit-suites":
		w.line("<testsuites" + w.attr("name", "all") + ">")
		w.depth++
		for _, s := range f.Suites {
			w.suite(s)
		}
		w.depth--
		w.line("</testsuites>")
	case "junit-suite":
		w.suite(f.Suites[0])
	case "junit-bare":
		w.testcase(f.Suites[0].Cases[0])
	case "unittest":
		// UnitTest++ XML: <unittest-results><test suite= name= time=><failure message=/></test></unittest-results>
		var c Counts
		for _, k := range f.Suites[0].Cases {
			c.add(k)
		}
		w.line("<unittest-results" + w.attr("tests", fmt.Sprint(c.Tests)) + w.attr("failedtests", fmt.Sprint(c.Failures)) + w.attr("failures", fmt.Sprint(c.Failures)) + w.attr("time", "0.1") + ">")
		w.depth++
		for _, k := range f.Suites[0].Cases {
			a := w.attr("suite", k.Class) + w.attr("name", k.Name) + w.attr("time", fmt.Sprintf("%d.%03d", k.Millis/1000, k.Millis%1000))
			if k.Kind == Fail {
				w.line("<test" + a + ">")
				w.depth++
				w.line("<failure" + w.attr("message", k.Msg) + "/>")
				w.depth--
				w.line("</test>")
			} else {
				w.line("<test" + a + "/>")
			}
		}
		w.depth--
		w.line("</unittest-results>")
	}
	return []byte(w.sb.String())
}

// ---- go test -v writer -----------------------------------------------------------------------------

func goKind(k string) string {
	switch k {
	case Fail:
		return "FAIL"
	case Skip:
		return "SKIP"
	}
	return "PASS"
}

func goRun(sb *strings.Builder, k TCase, level int) {
	fmt.Fprintf(sb, "=== RUN   %s\n", k.Name)
	if k.Out != "" {
		for _, l := range strings.Split(k.Out, "\n") {
			fmt.Fprintf(sb, "%s    x_test.go:%d: %s\n", strings.Repeat("    ", level), 10+level, l)
		}
	}
	for _, s := range k.Subs {
		goRun(sb, s, level+1)
	}
}

func goEnd(sb *strings.Builder, k TCase, level int) {
	fmt.Fprintf(sb, "%s--- %s: %s (%d.%02ds)\n", strings.Repeat("    ", level), goKind(k.Kind), k.Name, k.Millis/1000, (k.Millis%1000)/10)
	if k.Kind != Pass && k.Msg != "" {
		fmt.Fprintf(sb, "%s    x_test.go:%d: %s\n", strings.Repeat("    ", level), 20+level, k.Msg)
	}
	for _, s := range k.Subs {
		goEnd(sb, s, level+1)
	}
}

// RenderGo renders `go test -v` output of a test binary.
func RenderGo(f TFile) []byte {
	var sb strings.Builder
	cases := f.Suites[0].Cases
	failed := false
	for _, k := range flat(cases, nil) {
		if k.Kind == Fail {
			failed = true
		}
	}
	if f.Parallel {
		for _, k := range cases {
			fmt.Fprintf(&sb, "=== RUN   %s\n=== PAUSE %s\n", k.Name, k.Name)
		}
		for _, k := range cases {
			fmt.Fprintf(&sb, "=== CONT  %s\n", k.Name)
			if k.Out != "" {
				fmt.Fprintf(&sb, "    x_test.go:10: %s\n", strings.ReplaceAll(k.Out, "\n", " "))
			}
		}
		for i := len(cases) - 1; i >= 0; i-- { // completion order differs from start order
			goEnd(&sb, cases[i], 0)
		}
	} else {
		for _, k := range cases {
			goRun(&sb, k, 0)
			goEnd(&sb, k, 0)
		}
	}
	if failed {
		sb.WriteString("FAIL\n")
	} else {
		sb.WriteString("PASS\n")
	}
	if f.Indent {
		sb.WriteString("coverage: 71.4% of statements\n")
	}
	if f.Header {
		if failed {
			sb.WriteString("exit status 1\nFAIL\t" + f.Suites[0].Package + "\t0.012s\n")
		} else {
			sb.WriteString("ok  \t" + f.Suites[0].Package + "\t0.012s\n")
		}
	}
	return []byte(sb.String())
}

// Render renders a file in its format.
func Render(f TFile) []byte {
	if f.Format == "gotest" {
		return RenderGo(f)
	}
	return RenderXML(f)
}
