#!/bin/sh
# Runs every registered check once (tier $1, default quick) and prints a summary table.
TIER=${1:-quick}
cd "$(dirname "$0")/.."
for f in checks/C*.json; do
  id=$(basename $f .json)
  s=$(date +%s)
  out=$(./check $id --tier $TIER 2>&1); rc=$?
  e=$(date +%s)
  echo "$id rc=$rc $((e-s))s $(echo "$out" | grep -c '^KNOWN-FINDING') known :: $(echo "$out" | tail -1 | cut -c1-150)"
  if [ $rc -ne 0 ]; then echo "$out" | tail -8 | cut -c1-600; fi
done
