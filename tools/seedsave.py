#!/usr/bin/env python3
"""usage: tools/seedsave.py <ID> <caught_by> "<checks_result>" "<strengthened>"  -> copies artifacts into /verif/seeded/<ID>, writes meta.json, removes worktrees"""
import glob, json, os, shutil, subprocess, sys
k, cb, res, st = sys.argv[1:5]
d = '/verif/seeded/%s' % k; os.makedirs(d, exist_ok=True)
for f in glob.glob('/tmp/seed-%s-out/*' % k):
    n = os.path.basename(f)
    if n.endswith('.txt'): continue
    if os.path.isdir(f):
        shutil.copytree(f, os.path.join(d, n), dirs_exist_ok=True)
        continue
    shutil.copy(f, os.path.join(d, 'agent_meta.json' if n == 'meta.json' else n))
a = json.load(open(d + '/agent_meta.json'))
base = os.popen('git -C /repo log --format=%h -1').read().strip()
m = {"property": k[:3], "seed_id": k, "summary": a.get("summary"), "needs": a.get("needs"), "files_touched": a.get("files_touched"),
     "produced_by": "fresh sub-agent given only the property text and a scratch worktree",
     "confirmed_by_coordinator": ["tools/seedeval.py %s: patch applied to a fresh worktree of /repo HEAD (builds with and without -tags verif); demonstration passes on the unpatched tree/binary and fails on the patched one; VERIF_REPO=/tmp/seedrun-%s ./check %s --no-evidence" % (k, k, cb)],
     "checks_result": res, "caught_by": cb, "strengthened": st, "repo_base_commit": base}
json.dump(m, open(d + '/meta.json', 'w'), indent=1)
for p in ['/tmp/seedrun-%s' % k, '/tmp/seed-%s' % k]:
    subprocess.run(['git', '-C', '/repo', 'worktree', 'remove', '--force', p], capture_output=True)
os.system('rm -rf /tmp/seed-%s-out /tmp/seed-%s-plz* /tmp/seedrun-%s-plz /tmp/seed-%s-demo* /tmp/seed-%s*.txt /tmp/seed-%s*.patch; git -C /repo worktree prune' % (k, k, k, k, k, k))
print("saved", d)
