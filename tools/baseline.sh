#!/bin/sh
# Runs the repository's pinned baseline with the verif guard OFF and compares with /root/.vp/BASELINE.json:
# every test listed as stable_pass must pass. Usage: tools/baseline.sh [repo-dir]
REPO=${1:-/repo}
OUT=$(mktemp /var/tmp/baseline.XXXXXX.json)
export BASELINE_REPO="$REPO"
(cd "$REPO" && GOFLAGS=-mod=mod GOPROXY=off go test -json -vet=off -count=1 -timeout 25m ./... > "$OUT" 2>/dev/null)
python3 - "$OUT" <<'PY'
import json, sys
res = {}
for line in open(sys.argv[1]):
    try: e = json.loads(line)
    except Exception: continue
    if e.get("Test") and e.get("Action") in ("pass", "fail", "skip"):
        res[e["Package"] + "::" + e["Test"]] = e["Action"]
base = json.load(open("/root/.vp/BASELINE.json"))["stable_pass"]
bad = [t for t in base if res.get(t) != "pass"]
# a test that fails in the full (machine-saturating) run is retried alone before it is reported
import subprocess, os
still = []
for t in bad:
    pkg, name = t.split("::", 1)
    top = name.split("/")[0]
    ok = False
    for _ in range(2):
        r = subprocess.run(["go", "test", "-vet=off", "-count=1", "-run", "^%s$" % top, pkg.replace("github.com/thought-machine/please", ".")],
                           cwd=os.environ.get("BASELINE_REPO", "/repo"), env=dict(os.environ, GOFLAGS="-mod=mod", GOPROXY="off"), capture_output=True, text=True)
        if r.returncode == 0:
            ok = True
            break
    if ok:
        print("  passed on retry (alone):", t)
    else:
        still.append(t)
bad = still
print("baseline: %d stable tests, %d not passing" % (len(base), len(bad)))
for t in bad: print("  NOT PASSING:", t, res.get(t))
sys.exit(1 if bad else 0)
PY
rc=$?
rm -f "$OUT"
# go test -mod=mod may touch go.sum; leave the tree as it was
(cd "$REPO" && git checkout -- go.sum go.mod src/plzinit/BUILD 2>/dev/null)
exit $rc
