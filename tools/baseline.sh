#!/bin/sh
# Runs the repository's pinned baseline with the verif guard OFF and compares with /root/.vp/BASELINE.json:
# every test listed as stable_pass must pass. Usage: tools/baseline.sh [repo-dir]
REPO=${1:-/repo}
OUT=$(mktemp /var/tmp/baseline.XXXXXX.json)
(cd "$REPO" && GOFLAGS=-mod=mod GOPROXY=off go test -json -vet=off -count=1 -timeout 25m ./... > "$OUT" 2>/dev/null)
python3 - "$OUT" <<'PY'
import json, sys
res = {}
for line in open(sys.argv[1]):
    try: e = json.loads(line)
    except Exception: continue
    if e.get("Test") and e.get("Action") in ("pass", "fail", "skip"):
        res[e["Package"] + "::" + e["Test"]] = e["Action"]
base = json.load(open("/root/.vp/BASELINE.json"))["stable_pass"]
bad = [t for t in base if res.get(t) != "pass"]
print("baseline: %d stable tests, %d not passing" % (len(base), len(bad)))
for t in bad: print("  NOT PASSING:", t, res.get(t))
sys.exit(1 if bad else 0)
PY
rc=$?
rm -f "$OUT"
# go test -mod=mod may touch go.sum; leave the tree as it was
(cd "$REPO" && git checkout -- go.sum go.mod 2>/dev/null)
exit $rc
