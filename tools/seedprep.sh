#!/bin/sh
# usage: tools/seedprep.sh <ID> [patchfile]  -> creates /tmp/seedrun-<ID> (worktree of /repo HEAD with the patch applied),
# builds /tmp/seedrun-<ID>-plz (patched) and /tmp/seedrun-base-plz (unpatched HEAD)
set -e
ID=$1; P=${2:-/tmp/seed-$ID-out/patch.diff}
git -C /repo worktree remove --force /tmp/seedrun-$ID 2>/dev/null || true
git -C /repo worktree add -q /tmp/seedrun-$ID HEAD
git -C /tmp/seedrun-$ID apply "$P"
(cd /tmp/seedrun-$ID && GOFLAGS= GOPROXY=off go build -o /tmp/seedrun-$ID-plz ./src && GOFLAGS= GOPROXY=off go build -tags verif ./src/...)
(cd /repo && GOFLAGS= GOPROXY=off go build -o /tmp/seedrun-base-plz ./src)
echo "prepared /tmp/seedrun-$ID"
