#!/usr/bin/env python3
"""Append (or replace, by id) an entry in /verif/known_findings.json under a file lock.
usage: addfinding.py '{"property":"C09","id":"C09-dirhash-names","kind":"known|fixed","class":"...","replay":"replays/C09/known-....json","what":"...","commit":"<sha, for fixed>"}'"""
import fcntl, json, os, sys
V = os.path.dirname(os.path.dirname(os.path.abspath(__file__)))
e = json.loads(sys.argv[1])
for k in ("property", "id", "kind", "class", "what"):
    assert k in e, "missing " + k
assert e["kind"] in ("known", "fixed")
p = os.path.join(V, "known_findings.json")
with open(p + ".lock", "w") as lk:
    fcntl.flock(lk, fcntl.LOCK_EX)
    d = json.load(open(p))
    d["findings"] = [x for x in d["findings"] if x["id"] != e["id"]] + [e]
    d["findings"].sort(key=lambda x: x["id"])
    json.dump(d, open(p + ".tmp", "w"), indent=1, ensure_ascii=False)
    os.replace(p + ".tmp", p)
print("ok", e["id"])
