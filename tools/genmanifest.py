#!/usr/bin/env python3
"""Generates /verif/MANIFEST.json from /verif/checks/*.json and /verif/not_applicable.json."""
import json, os, subprocess
V = os.path.dirname(os.path.dirname(os.path.abspath(__file__)))
ids = sorted(f[:-5] for f in os.listdir(os.path.join(V, "checks")) if f.endswith(".json"))
checks = []
for i in ids:
    s = json.load(open(os.path.join(V, "checks", i + ".json")))
    c = {
        "property_id": i,
        "quick_cmd": "./check %s --tier quick" % i,
        "thorough_cmd": "./check %s --tier thorough" % i,
        "evidence_file": "/verif/evidence/%s.json" % i,
        "replay_cmd_template": "./check %s --replay {path}" % i,
        "engine": "e2e" if s.get("e2e") else "inproc",
        "level_claimed": {"category": s.get("level", "exploration"), "text": s["level_text"], "design_ref": s.get("design_ref", "DESIGN.md §4 " + i)},
        "level_note": s["level_note"],
        "technique": s["technique"],
    }
    checks.append(c)
na = []
p = os.path.join(V, "not_applicable.json")
if os.path.exists(p):
    na = json.load(open(p))
claimed = set(ids)
allp = [json.loads(l)["id"] for l in open(os.path.join(V, "properties.jsonl"))]
listed = {x["property_id"] for x in na}
for pid in allp:
    if pid not in claimed and pid not in listed:
        na.append({"property_id": pid, "reason": "check not built yet (work in progress; see DESIGN.md §4 for the planned generator and oracle)"})
na = [x for x in na if x["property_id"] not in claimed]
try:
    commits = subprocess.run(["git", "-C", "/repo", "log", "--format=%H %s", "--grep=^verif hook"], capture_output=True, text=True).stdout.strip().splitlines()
except Exception:
    commits = []
m = {
    "version": 1,
    "setup_cmd": "./setup.sh",
    "hooks": {
        "guard": "verif (Go build tag)",
        "enable": "go build/test -tags verif (done by ./check; the harness module replaces github.com/thought-machine/please with /repo)",
        "baseline_off_cmd": "/verif/tools/baseline.sh /repo",
        "source_commits": [c.split()[0] for c in commits],
        "add_only": True,
    },
    "engines": [
        {"name": "inproc", "path": "/verif/harness", "kind_free_text": "Go test binaries (one package per property) importing /repo through a replace directive; pgregory.net/rapid generators + explicit oracles; exhaustive small-scope enumeration; porcupine as linearizability oracle", "serves_properties": [i for i in ids if not json.load(open(os.path.join(V, "checks", i + ".json"))).get("e2e")]},
        {"name": "e2e", "path": "/verif/harness", "kind_free_text": "rapid-generated repositories and edit histories run through a plz binary built from /repo (-tags verif); oracles: clean-build differential, Go model of the commands, action log invariants, trace events; strace for fault/crash injection", "serves_properties": [i for i in ids if json.load(open(os.path.join(V, "checks", i + ".json"))).get("e2e")]},
    ],
    "checks": checks,
    "not_applicable": na,
    "notes": "Driver: ./check <ID> --tier quick|thorough [--replay F]. Exit 0 held / 1 VIOLATION / 2 inconclusive (build failure, timeout, generator health). Known findings: known_findings.json.",
}
json.dump(m, open(os.path.join(V, "MANIFEST.json"), "w"), indent=1)
print("MANIFEST.json: %d checks, %d not_applicable" % (len(checks), len(na)))
