#!/usr/bin/env python3-vt
import json, sys, os, jsonschema
V = os.path.dirname(os.path.dirname(os.path.abspath(__file__)))
ms = json.load(open("/root/.vp/MANIFEST.schema.json")); es = json.load(open("/root/.vp/EVIDENCE.schema.json"))
m = json.load(open(os.path.join(V, "MANIFEST.json"))); jsonschema.validate(m, ms); print("MANIFEST ok")
bad = 0
for c in m["checks"]:
    p = c["evidence_file"]
    if not os.path.exists(p): print("missing", p); bad += 1; continue
    try: jsonschema.validate(json.load(open(p)), es)
    except Exception as e: print("INVALID", p, str(e)[:300]); bad += 1
print("evidence: %d checks, %d bad" % (len(m["checks"]), bad)); sys.exit(1 if bad else 0)
