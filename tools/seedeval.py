#!/usr/bin/env python3
"""usage: tools/seedeval.py <ID> [check args...]
Prepares /tmp/seedrun-<ID> (fresh worktree of /repo HEAD + /tmp/seed-<ID>-out/patch.diff), runs the agent's
demonstration against the unpatched and the patched tree, then runs ./check <ID> against the patched worktree."""
import glob, os, re, subprocess, sys
ID = sys.argv[1]; extra = sys.argv[2:]
out = "/tmp/seed-%s-out" % ID
def sh(cmd, **kw):
    return subprocess.run(cmd, shell=True, text=True, stdout=subprocess.PIPE, stderr=subprocess.STDOUT, **kw)
r = sh("/verif/tools/seedprep.sh %s" % ID); print(r.stdout.strip().splitlines()[-1])
if r.returncode: sys.exit(r.stdout)
scripts = sorted(glob.glob(out + "/*.sh"))
demo = None
for s in scripts:
    if "run_each" in s: continue
    demo = s
    if "demo" in os.path.basename(s): break
how = ""
if demo:
    for l in open(demo):
        if re.search(r"how to run|usage", l, re.I): how = l.strip(); break
print("demo:", demo, "|", how)
wt, base_wt = "/tmp/seedrun-%s" % ID, "/repo"
pb, bb = "/tmp/seedrun-%s-plz" % ID, "/tmp/seedrun-base-plz"
def run_demo(tree, binary):
    env = dict(os.environ, PLZ=binary)
    if re.search(r"worktree", how, re.I): arg = tree
    elif re.search(r"PLZ=", how): arg = ""
    else: arg = binary
    sh_cmd = "sh" if demo.endswith("run_demo.sh") else "bash"
    p = subprocess.run("%s %s %s" % (sh_cmd, demo, arg), shell=True, text=True, env=env, stdout=subprocess.PIPE, stderr=subprocess.STDOUT)
    tail = [l for l in p.stdout.strip().splitlines() if l.strip()][-2:]
    return p.returncode, " / ".join(tail)[:300]
if demo:
    print("demo on unpatched: rc=%s %s" % run_demo(base_wt, bb))
    print("demo on patched:   rc=%s %s" % run_demo(wt, pb))
p = subprocess.run(["./check", ID[:3], "--no-evidence"] + extra, cwd="/verif", text=True, env=dict(os.environ, VERIF_REPO=wt), stdout=subprocess.PIPE, stderr=subprocess.STDOUT)
lines = [l for l in p.stdout.splitlines() if l.strip() and not l.startswith("KNOWN-FINDING")]
print("check rc=%d :: %s" % (p.returncode, " | ".join(lines[-3:])[:700]))
st = sh("git -C /repo status --short | grep -v '^??'"); 
if st.stdout.strip(): print("WARNING /repo dirty:", st.stdout)
