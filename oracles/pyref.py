#!/usr/bin/env python3
"""CPython reference worker for the C16 check (/verif/harness/c16).

Protocol (stdin/stdout, binary): request = 4-byte big-endian length + UTF-8 program text;
reply = 4-byte big-endian length + UTF-8 JSON object
    {"ok": true,  "globals": {name: value, ...}}            program ran; every global that is not a
                                                             function/module and does not start with "_"
    {"ok": false, "kind": "syntax"|"raise"|"overflow"|"timeout"|"unserialisable", "error": "..."}

The worker is started as `python3 -I -S pyref.py` and lives for the whole test process. Each program
runs in a fresh globals dict under signal.alarm(2).

The prelude implements only what Please's documentation promises differently from Python 3
(docs/lexicon.html: range/map/filter/zip/enumerate/reversed "return a list", reduce is a builtin).
The program text itself is compiled by CPython's own parser (so CPython decides precedence and
associativity); the only transformation is that every arithmetic node (BinOp, UnaryOp, AugAssign) is
wrapped in a range check, because Please documents integers as 64-bit signed: a program whose
arithmetic leaves that range (or builds an absurdly large string/list) is reported as "overflow" and
discarded by the harness, like any other program on which CPython raises.
"""
import ast
import builtins
import functools
import json
import signal
import struct
import sys

_MAXI = (1 << 63) - 1
_MINI = -(1 << 63)
_MAXLEN = 1 << 16


class _Overflow(Exception):
    pass


class _Timeout(Exception):
    pass


def _chk(v):
    t = type(v)
    if t is int:
        if v > _MAXI or v < _MINI:
            raise _Overflow("integer outside the 64-bit range")
    elif t is str or t is list:
        if len(v) > _MAXLEN:
            raise _Overflow("value too large")
    return v


def _prelude():
    _range, _zip, _enumerate, _reversed = builtins.range, builtins.zip, builtins.enumerate, builtins.reversed

    def range(*a):  # docs: "returns a list of integers"
        r = _range(*a)
        if len(r) > _MAXLEN:
            raise _Overflow("range too large")
        return list(r)

    def map(f, s):  # docs: "returns a copy of the given list with the items transformed"
        return [f(x) for x in s]

    def filter(f, s):  # docs: "returns a copy of the given list with the items filtered"
        return [x for x in s if f(x)]

    def zip(*s):  # docs: "returns a list in which each element has one item from each argument"
        return [list(t) for t in _zip(*s)]

    def enumerate(s):  # docs: "returns a list of pairs of the index and object"
        return [[i, x] for i, x in _enumerate(s)]

    def reversed(s):  # docs: "returns a copy of the given list with the items in reverse order"
        return list(_reversed(s))

    def reduce(f, s, initializer=None):
        if initializer is None:
            return functools.reduce(f, s)
        return functools.reduce(f, s, initializer)

    return {"range": range, "map": map, "filter": filter, "zip": zip, "enumerate": enumerate,
            "reversed": reversed, "reduce": reduce, "_chk": _chk}


_PRELUDE = _prelude()


class _Wrap(ast.NodeTransformer):
    """Wraps arithmetic in _chk(...). Nothing else is touched."""

    def _call(self, node):
        return ast.copy_location(ast.Call(func=ast.Name(id="_chk", ctx=ast.Load()), args=[node], keywords=[]), node)

    def visit_BinOp(self, node):
        self.generic_visit(node)
        return self._call(node)

    def visit_UnaryOp(self, node):
        self.generic_visit(node)
        if isinstance(node.op, ast.USub):
            return self._call(node)
        return node

    def visit_AugAssign(self, node):
        self.generic_visit(node)
        # x += e  ->  x += e ; the result is checked by a following expression statement
        if isinstance(node.target, ast.Name):
            chk = ast.Expr(value=self._call(ast.Name(id=node.target.id, ctx=ast.Load())))
            return [node, ast.copy_location(chk, node)]
        return node

    def visit_JoinedStr(self, node):  # leave f-strings alone
        return node


def _norm(v, depth=0):
    if depth > 50:
        raise ValueError("too deep")
    if v is None or v is True or v is False:
        return v
    t = type(v)
    if t is int:
        if v > _MAXI or v < _MINI:
            raise _Overflow("integer outside the 64-bit range")
        return v
    if t is str:
        return v
    if t is list or t is tuple:
        return [_norm(x, depth + 1) for x in v]
    if t is dict:
        out = {}
        for k, x in v.items():
            if type(k) is not str:
                raise ValueError("non-string dict key")
            out[k] = _norm(x, depth + 1)
        return out
    raise ValueError("unserialisable value of type " + t.__name__)


def _alarm(signum, frame):
    raise _Timeout()


def run(text):
    try:
        tree = ast.parse(text, "<program>", "exec")
    except (SyntaxError, ValueError, RecursionError, MemoryError) as e:
        return {"ok": False, "kind": "syntax", "error": "%s: %s" % (type(e).__name__, e)}
    try:
        tree = ast.fix_missing_locations(_Wrap().visit(tree))
        code = compile(tree, "<program>", "exec")
    except (SyntaxError, ValueError, RecursionError) as e:
        return {"ok": False, "kind": "syntax", "error": "%s: %s" % (type(e).__name__, e)}
    g = dict(_PRELUDE)
    g["__builtins__"] = __builtins__
    signal.alarm(2)
    try:
        exec(code, g)
    except _Timeout:
        return {"ok": False, "kind": "timeout", "error": "timeout"}
    except _Overflow as e:
        return {"ok": False, "kind": "overflow", "error": str(e)}
    except RecursionError as e:
        return {"ok": False, "kind": "raise", "error": "RecursionError"}
    except MemoryError:
        return {"ok": False, "kind": "overflow", "error": "MemoryError"}
    except BaseException as e:  # noqa: any exception of the program means "CPython raises"
        if isinstance(e, (KeyboardInterrupt, SystemExit)) and not isinstance(e, _Timeout):
            return {"ok": False, "kind": "raise", "error": type(e).__name__}
        return {"ok": False, "kind": "raise", "error": "%s: %s" % (type(e).__name__, str(e)[:200])}
    finally:
        signal.alarm(0)
    out = {}
    try:
        for k in sorted(g):
            if k.startswith("_") or k in _PRELUDE:
                continue
            v = g[k]
            if callable(v) or type(v).__name__ == "module":
                continue
            out[k] = _norm(v)
    except _Overflow as e:
        return {"ok": False, "kind": "overflow", "error": str(e)}
    except (ValueError, RecursionError) as e:
        return {"ok": False, "kind": "unserialisable", "error": str(e)}
    return {"ok": True, "globals": out}


def _read(n):
    buf = b""
    while len(buf) < n:
        chunk = sys.stdin.buffer.read(n - len(buf))
        if not chunk:
            return None
        buf += chunk
    return buf


def main():
    signal.signal(signal.SIGALRM, _alarm)
    sys.setrecursionlimit(2000)
    while True:
        hdr = _read(4)
        if hdr is None:
            return
        (n,) = struct.unpack(">I", hdr)
        body = _read(n)
        if body is None:
            return
        try:
            res = run(body.decode("utf-8"))
        except UnicodeDecodeError as e:
            res = {"ok": False, "kind": "syntax", "error": str(e)}
        try:
            data = json.dumps(res, ensure_ascii=False, sort_keys=True).encode("utf-8", "surrogatepass")
        except (ValueError, RecursionError) as e:
            data = json.dumps({"ok": False, "kind": "unserialisable", "error": str(e)}).encode()
        sys.stdout.buffer.write(struct.pack(">I", len(data)) + data)
        sys.stdout.buffer.flush()


if __name__ == "__main__":
    main()
